package main

import (
	"fmt"
	"go/token"
	"strings"

	"golang.org/x/tools/go/ssa"
)

// Rules about the per-attempt request closures of the HTTP senders (forwarder and HTTP backends):
// the function value built once per request and called once per delivery attempt by the retry loop.

// attemptClosures: anonymous functions of the sender packages that build an http.Request.
func attemptClosures(w *World) []*ssa.Function {
	var out []*ssa.Function
	for _, fn := range w.ModuleFuncs() {
		if fn.Parent() == nil {
			continue
		}
		p := fnPkgPath(fn)
		if !strings.Contains(p, "/pkg/backends/") && p != Mod+"/pkg/statsd" {
			continue
		}
		if len(callsTo(fn, "net/http.NewRequest", "net/http.NewRequestWithContext")) > 0 {
			out = append(out, fn)
		}
	}
	return out
}

// doCalls: calls of (*http.Client).Do in fn.
func doCalls(fn *ssa.Function) []*ssa.Call {
	var out []*ssa.Call
	for _, cl := range callsIn(fn) {
		c, ok := cl.(*ssa.Call)
		if !ok {
			continue
		}
		if isCall(cl, "(*net/http.Client).Do") || (cl.Common().IsInvoke() && cl.Common().Method.Name() == "Do" && strings.Contains(cl.Common().Value.Type().String(), "http")) {
			out = append(out, c)
		}
	}
	return out
}

// attemptFreshBody: the body handed to http.NewRequest is a reader created inside the closure (or
// no body); a reader created once outside is drained by the first attempt.
func attemptFreshBody(r *Rule, g *ssa.Function) {
	for _, cl := range callsTo(g, "net/http.NewRequest", "net/http.NewRequestWithContext") {
		a := cl.Common().Args
		body := a[len(a)-1]
		ok, what := false, pathOf(body)
		switch b := body.(type) {
		case *ssa.Const:
			ok = b.IsNil()
		case *ssa.MakeInterface:
			if rc, isC := b.X.(*ssa.Call); isC && isCall(rc, "bytes.NewReader", "bytes.NewBuffer", "bytes.NewBufferString", "strings.NewReader") && rc.Parent() == g {
				ok = true
			}
		case *ssa.UnOp:
			if gl, isG := b.X.(*ssa.Global); isG && gl.Name() == "NoBody" {
				ok = true
			}
		}
		r.Check(FuncName(g)+":fresh-reader-per-attempt", ok, cl.Pos(), "the request body is a reader created inside the per-attempt closure (a shared reader is empty on a retry): "+what)
	}
}

// attemptIdempotent: the closure does not assign variables captured from outside, so calling it
// again sends the same bytes.
func attemptIdempotent(r *Rule, g *ssa.Function) {
	outer := map[string]bool{}
	for _, fv := range g.FreeVars {
		outer[fv.Name()] = true
	}
	var bad []string
	for _, f := range WithAnon(g) {
		eachInstr(f, func(in ssa.Instruction) {
			st, ok := in.(*ssa.Store)
			if !ok {
				return
			}
			fv, ok := st.Addr.(*ssa.FreeVar)
			if !ok {
				return
			}
			if f == g || (outer[fv.Name()] && boundToOuter(g, f, fv)) {
				bad = append(bad, fv.Name()+" at "+g.Prog.Fset.Position(st.Pos()).String())
			}
		})
	}
	r.Check(FuncName(g)+":attempt-idempotent", len(bad) == 0, g.Pos(), "the per-attempt closure assigns no captured variable (a retry starts from the same payload)"+map[bool]string{true: "", false: ": assigns " + strings.Join(bad, ", ")}[len(bad) == 0])
}

// boundToOuter: the free variable fv of nested closure f is bound (in g) to one of g's own free variables.
func boundToOuter(g, f *ssa.Function, fv *ssa.FreeVar) bool {
	idx := -1
	for i, x := range f.FreeVars {
		if x == fv {
			idx = i
		}
	}
	res := false
	for _, h := range WithAnon(g) {
		eachInstr(h, func(in ssa.Instruction) {
			if mc, ok := in.(*ssa.MakeClosure); ok && mc.Fn == ssa.Value(f) && idx >= 0 && idx < len(mc.Bindings) {
				if _, isFV := mc.Bindings[idx].(*ssa.FreeVar); isFV {
					res = true
				}
			}
		})
	}
	return res
}

// respAfterErrCheck: the *http.Response returned by Do is touched only where err == nil is known.
func respAfterErrCheck(r *Rule, fn *ssa.Function) int {
	n := 0
	for _, dc := range doCalls(fn) {
		n++
		var resp, errv ssa.Value
		for _, ref := range referrers(dc) {
			if ex, ok := ref.(*ssa.Extract); ok {
				if ex.Index == 0 {
					resp = ex
				} else {
					errv = ex
				}
			}
		}
		if resp == nil {
			continue
		}
		// the response may be spilled into a local (captured by a deferred closure, or assigned to an outer var)
		vals := []ssa.Value{resp}
		errVals := []ssa.Value{errv}
		var cells []ssa.Value
		for _, ref := range referrers(resp) {
			if st, ok := ref.(*ssa.Store); ok && st.Val == resp {
				cells = append(cells, st.Addr)
			}
		}
		var errCells []ssa.Value
		if errv != nil {
			for _, ref := range referrers(errv) {
				if st, ok := ref.(*ssa.Store); ok && st.Val == errv {
					errCells = append(errCells, st.Addr)
				}
			}
		}
		errNilKnown := func(b *ssa.BasicBlock) bool {
			for _, cd := range condsFor(b) {
				cd = normCond(cd)
				bo := asBinOp(cd.V, token.EQL, token.NEQ)
				if bo == nil || !isNilConst(bo.Y) {
					continue
				}
				isErr := false
				for _, e := range errVals {
					if e != nil && bo.X == e {
						isErr = true
					}
				}
				if ld, ok := bo.X.(*ssa.UnOp); ok && ld.Op == token.MUL {
					for _, c := range errCells {
						if ld.X == c {
							isErr = true
						}
					}
				}
				if !isErr {
					continue
				}
				if (bo.Op == token.EQL) == cd.Sense {
					return true
				}
			}
			return false
		}
		var bad []string
		check := func(v ssa.Value) {
			for _, ref := range referrers(v) {
				switch x := ref.(type) {
				case *ssa.Store:
					if x.Val == v {
						continue // spilling the value is not a use
					}
				case *ssa.DebugRef:
					continue
				case *ssa.BinOp:
					if isNilConst(x.Y) || isNilConst(x.X) {
						continue // resp != nil test
					}
				}
				if !errNilKnown(ref.Block()) {
					bad = append(bad, fn.Prog.Fset.Position(ref.Pos()).String())
				}
			}
		}
		for _, v := range vals {
			check(v)
		}
		for _, c := range cells {
			for _, ref := range referrers(c) {
				if ld, ok := ref.(*ssa.UnOp); ok && ld.Op == token.MUL {
					check(ld)
				}
			}
		}
		r.Check(FuncName(fn)+":response-used-after-error-check", len(bad) == 0, dc.Pos(), "the response of client.Do is only touched where err == nil has been established (a transport error returns a nil response)"+map[bool]string{true: "", false: "; used unchecked at " + strings.Join(bad, ", ")}[len(bad) == 0])
	}
	return n
}

// attemptResultNotRewritten: nested (deferred) closures do not assign the attempt's result
// variables, and the 2xx path returns nil: a delivered request is never reported as failed.
func attemptResultNotRewritten(r *Rule, g *ssa.Function) {
	results := map[string]bool{}
	res := g.Signature.Results()
	for i := 0; i < res.Len(); i++ {
		if n := res.At(i).Name(); n != "" && n != "_" {
			results[n] = true
		}
	}
	var bad []string
	for _, f := range WithAnon(g)[1:] {
		eachInstr(f, func(in ssa.Instruction) {
			if st, ok := in.(*ssa.Store); ok {
				if fv, ok := st.Addr.(*ssa.FreeVar); ok && results[fv.Name()] {
					bad = append(bad, fv.Name()+" at "+g.Prog.Fset.Position(st.Pos()).String())
				}
			}
		})
	}
	r.Check(FuncName(g)+":result-not-rewritten", len(bad) == 0, g.Pos(), "no deferred function changes the attempt's result after the status was evaluated"+map[bool]string{true: "", false: ": " + strings.Join(bad, ", ")}[len(bad) == 0])
	// some return of a nil error exists and every return of nil is outside the bad-status branch
	nilRet := 0
	eachInstr(g, func(in ssa.Instruction) {
		if ret, ok := in.(*ssa.Return); ok && len(ret.Results) == 1 {
			if isNilConst(ret.Results[0]) {
				nilRet++
			}
		}
	})
	r.Check(FuncName(g)+":success-returns-nil", nilRet >= 1 || hasNilResultPath(g), g.Pos(), fmt.Sprintf("the closure has a path returning a nil error (%d direct, or through the defer-spilled result)", nilRet))
}

func hasNilResultPath(g *ssa.Function) bool {
	ok := false
	eachInstr(g, func(in ssa.Instruction) {
		if st, isSt := in.(*ssa.Store); isSt && isNilConst(st.Val) {
			if al, isAl := st.Addr.(*ssa.Alloc); isAl && strings.Contains(al.Type().String(), "error") {
				ok = true
			}
		}
	})
	return ok
}

// retryWindowRule: in a retry loop driven by ExponentialBackOff, the loop is left when
// NextBackOff reports Stop: the value tested against backoff.Stop is the NextBackOff result (or a
// value that replaces it only where the result is known not to be Stop), the test lies on every
// path from NextBackOff to the next attempt, and its give-up edge cannot reach another attempt.
func retryWindowRule(r *Rule, fn *ssa.Function) int {
	n := 0
	for _, cl := range callsIn(fn) {
		t, ok := cl.(*ssa.Call)
		if !ok {
			continue
		}
		if !(isCall(cl, "(*github.com/cenkalti/backoff.ExponentialBackOff).NextBackOff") || (cl.Common().IsInvoke() && cl.Common().Method.Name() == "NextBackOff")) {
			continue
		}
		n++
		key := FuncName(fn) + ":retry-window"
		// the policy that is asked is one that ends: an exponential back-off (which answers Stop once its elapsed-time
		// window is used up) on every path, also through the helper that builds it - a zero / constant policy never stops
		{
			recv := t.Call.Value
			if !t.Call.IsInvoke() && len(t.Call.Args) > 0 {
				recv = t.Call.Args[0]
			}
			bad := ""
			var leaves func(v ssa.Value, d int)
			seenV := map[ssa.Value]bool{}
			leaves = func(v ssa.Value, d int) {
				if d > 6 || seenV[v] {
					return
				}
				seenV[v] = true
				for _, vc := range valueCases(v, nil) {
					x := ptrOrigin(vc.V)
					switch y := x.(type) {
					case *ssa.MakeInterface:
						leaves(y.X, d+1)
					case *ssa.ChangeInterface:
						leaves(y.X, d+1)
					case *ssa.Call:
						if strings.HasSuffix(calleeName(y), "backoff.NewExponentialBackOff") {
							continue
						}
						if cal := staticCallee(y); cal != nil && IsModule(cal) {
							found := false
							eachInstr(cal, func(in ssa.Instruction) {
								if rt, ok := in.(*ssa.Return); ok && len(rt.Results) >= 1 {
									found = true
									leaves(rt.Results[0], d+1)
								}
							})
							if found {
								continue
							}
						}
						bad = exprString(x, 0)
					case *ssa.Alloc:
						if !strings.HasSuffix(derefType(y.Type()).String(), "backoff.ExponentialBackOff") {
							bad = "a " + derefType(y.Type()).String()
						}
					case *ssa.Parameter, *ssa.FreeVar:
						// handed in: checked where it is built
					default:
						if !strings.HasSuffix(strings.TrimPrefix(x.Type().String(), "*"), "backoff.ExponentialBackOff") {
							bad = exprString(x, 0)
						}
					}
				}
			}
			leaves(recv, 0)
			r.Check(key+":policy-ends", bad == "", t.Pos(), "the retry policy is an exponential back-off with an elapsed-time window on every path "+bad)
		}
		isStop := func(v ssa.Value) bool {
			k, isC := constInt(v)
			return isC && k == -1
		}
		notStopKnown := func(b *ssa.BasicBlock) bool {
			for _, cd := range condsFor(b) {
				cd = normCond(cd)
				if bo := asBinOp(cd.V, token.EQL, token.NEQ); bo != nil && (bo.X == ssa.Value(t) && isStop(bo.Y) || bo.Y == ssa.Value(t) && isStop(bo.X)) {
					if (bo.Op == token.NEQ) == cd.Sense {
						return true
					}
				}
			}
			return false
		}
		derives := func(x ssa.Value) (bool, string) {
			if x == ssa.Value(t) {
				return true, ""
			}
			if ph, ok := x.(*ssa.Phi); ok {
				for i, e := range ph.Edges {
					if e == ssa.Value(t) {
						continue
					}
					if !notStopKnown(ph.Block().Preds[i]) {
						return false, "the backoff result is replaced at " + fn.Prog.Fset.Position(e.Pos()).String() + " without first testing it against Stop: an exhausted retry window is overridden"
					}
				}
				return true, ""
			}
			return false, "the value tested against Stop is not the NextBackOff result"
		}
		var tests []*ssa.If
		why := "no comparison of the NextBackOff result with backoff.Stop"
		eachInstr(fn, func(in ssa.Instruction) {
			bo, ok := in.(*ssa.BinOp)
			if !ok || (bo.Op != token.EQL && bo.Op != token.NEQ) || !(isStop(bo.Y) || isStop(bo.X)) {
				return
			}
			subject := bo.X
			if isStop(bo.X) {
				subject = bo.Y
			}
			for _, ref := range referrers(bo) {
				ifi, ok := ref.(*ssa.If)
				if !ok {
					continue
				}
				if okd, w := derives(subject); okd {
					if cutsLoop(t.Block(), ifi.Block()) {
						tests = append(tests, ifi)
					} else if len(tests) == 0 {
						why = "the Stop test at " + fn.Prog.Fset.Position(bo.Pos()).String() + " is not on every path from NextBackOff to the next attempt"
					}
				} else {
					why = w
					tests = nil
					return
				}
			}
		})
		if !r.Check(key+":stop-tested", len(tests) > 0, t.Pos(), "the retry loop tests the NextBackOff result against Stop on every path to the next attempt"+map[bool]string{true: "", false: ": " + why}[len(tests) > 0]) {
			continue
		}
		leaves := false
		for _, test := range tests {
			bo := test.Cond.(*ssa.BinOp)
			giveUp := test.Block().Succs[0]
			if bo.Op == token.NEQ {
				giveUp = test.Block().Succs[1]
			}
			if !reachableFrom(giveUp)[t.Block()] {
				leaves = true
			}
		}
		r.Check(key+":give-up-leaves-loop", leaves, t.Pos(), "once the window is exhausted (result == Stop) no further attempt is made")
	}
	return n
}

// cutsLoop: every cycle through block a passes through block cut (a itself excluded).
func cutsLoop(a, cut *ssa.BasicBlock) bool {
	if a == cut {
		return true
	}
	seen := map[*ssa.BasicBlock]bool{}
	stack := []*ssa.BasicBlock{}
	for _, s := range a.Succs {
		if s != cut && !seen[s] {
			seen[s] = true
			stack = append(stack, s)
		}
	}
	for len(stack) > 0 {
		b := stack[len(stack)-1]
		stack = stack[:len(stack)-1]
		if b == a {
			return false
		}
		for _, s := range b.Succs {
			if s != cut && !seen[s] {
				seen[s] = true
				stack = append(stack, s)
			}
		}
	}
	return true
}
