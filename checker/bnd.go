package main

import (
	"fmt"
	"go/token"
	"go/types"
	"sort"
	"strings"

	"golang.org/x/tools/go/ssa"
)

// ---------------------------------------------------------------------------------------------
// BND: panic-obligation enumeration.
//
// Every instruction that can raise a run-time panic of the kinds listed below is an
// obligation that must be discharged from facts that hold on every path reaching it:
//   index     x[i] on slice / string / array        0 <= i < len(x)
//   slice     x[a:b]                                 0 <= a <= b <= len(x)   (cap for slices is not used)
//   make      make([]T, n[, m])                      n >= 0
//   assert    x.(T) without comma-ok                 dynamic type is T          (lemma only)
//   div       a / b, a % b on integers               b != 0
//   nilmap    m[k][j] = v  (inner map from a lookup) inner map was stored on every path
//   abort     panic(...), logrus Panic*/Fatal*, os.Exit
// Nil-pointer dereferences and sends on closed channels are NOT enumerated (stated limit).
// ---------------------------------------------------------------------------------------------

type bndOb struct {
	Fn   *ssa.Function
	In   ssa.Instruction
	Kind string
	Expr string // normalised operand expression, position independent
	Key  string
}

func isIntType(t types.Type) bool {
	b, ok := t.Underlying().(*types.Basic)
	return ok && b.Info()&types.IsInteger != 0
}

// arrayLen: t is an array or pointer to array; returns its length.
func arrayLen(t types.Type) (int64, bool) {
	if p, ok := t.Underlying().(*types.Pointer); ok {
		t = p.Elem()
	}
	if a, ok := t.Underlying().(*types.Array); ok {
		return a.Len(), true
	}
	return 0, false
}

func enumObligations(fn *ssa.Function) []bndOb {
	var out []bndOb
	add := func(in ssa.Instruction, kind, expr string) {
		out = append(out, bndOb{Fn: fn, In: in, Kind: kind, Expr: expr})
	}
	eachInstr(fn, func(in ssa.Instruction) {
		switch x := in.(type) {
		case *ssa.IndexAddr:
			if n, ok := arrayLen(x.X.Type()); ok {
				if c, isC := constInt(x.Index); isC && c >= 0 && c < n {
					return // constant index into an array: checked by the compiler
				}
			}
			add(in, "index", pathOf(x.X)+"["+pathOf(x.Index)+"]")
		case *ssa.Index:
			if _, isMap := x.X.Type().Underlying().(*types.Map); isMap {
				return
			}
			if n, ok := arrayLen(x.X.Type()); ok {
				if c, isC := constInt(x.Index); isC && c >= 0 && c < n {
					return
				}
			}
			add(in, "index", pathOf(x.X)+"["+pathOf(x.Index)+"]")
		case *ssa.Slice:
			if x.Low == nil && x.High == nil && x.Max == nil {
				return // x[:] cannot fail
			}
			add(in, "slice", pathOf(x))
		case *ssa.MakeSlice:
			_, lenC := x.Len.(*ssa.Const)
			_, capC := x.Cap.(*ssa.Const)
			if x.Cap == nil || x.Cap == x.Len {
				capC = true
			}
			if !lenC || !capC {
				k := "make(len=" + pathOf(x.Len)
				if !capC {
					k += ",cap=" + pathOf(x.Cap)
				}
				add(in, "make", k+")")
			}
		case *ssa.TypeAssert:
			if !x.CommaOk && types.Identical(x.X.Type(), x.AssertedType) {
				// i.(I) with I the static type of i: the nil check the compiler emits for an interface method value
				// (i.M); it fails exactly when calling i.M() would, which is not an obligation of this engine either
				return
			}
			if !x.CommaOk {
				add(in, "assert", pathOf(x.X)+".("+types.TypeString(x.AssertedType, func(p *types.Package) string { return p.Name() })+")")
			}
		case *ssa.BinOp:
			if (x.Op == token.QUO || x.Op == token.REM) && isIntType(x.X.Type()) {
				if c, isC := constInt(x.Y); !(isC && c != 0) {
					add(in, "div", pathOf(x))
				}
			}
		case *ssa.MapUpdate:
			if lk, ok := x.Map.(*ssa.Lookup); ok && !lk.CommaOk {
				add(in, "nilmap", pathOf(lk.X)+"["+pathOf(lk.Index)+"][…]=")
			}
		case *ssa.Panic:
			// the compiler-generated "blocking select matched no case" panics are unreachable
			if mi, ok := x.X.(*ssa.MakeInterface); ok {
				if s, isS := constString(mi.X); isS && strings.HasPrefix(s, "blocking select matched no case") {
					return
				}
			}
			add(in, "abort", "panic("+pathOf(x.X)+")")
		case ssa.CallInstruction:
			cc := x.Common()
			name := calleeName(x)
			if cc.IsInvoke() && (strings.HasPrefix(cc.Method.Name(), "Panic") || strings.HasPrefix(cc.Method.Name(), "Fatal")) && strings.Contains(cc.Value.Type().String(), "logrus") {
				add(in, "abort", cc.Method.Name())
			}
			// standard-library functions that panic on arguments out of their domain
			switch {
			case strings.HasPrefix(name, "slices.Min"), strings.HasPrefix(name, "slices.Max"):
				add(in, "libpanic", "nonempty:"+shortCallee(x)+"("+pathOf(cc.Args[0])+")")
			case name == "strings.Repeat" || name == "bytes.Repeat":
				if _, isC := cc.Args[1].(*ssa.Const); !isC {
					add(in, "libpanic", "count>=0:"+shortCallee(x)+"("+pathOf(cc.Args[1])+")")
				}
			case name == "(*bytes.Buffer).Grow" || name == "(*strings.Builder).Grow" || strings.HasPrefix(name, "slices.Grow["):
				// panics for a negative count and when the buffer cannot be allocated (ErrTooLarge / out of memory):
				// the count must be non-negative and bounded by something that exists in memory
				if _, isC := cc.Args[1].(*ssa.Const); !isC {
					add(in, "libpanic", "grow:"+shortCallee(x)+"("+pathOf(cc.Args[1])+")")
				}
			case strings.HasPrefix(name, "slices.Delete["):
				add(in, "libpanic", "range:"+shortCallee(x)+"("+pathOf(cc.Args[1])+","+pathOf(cc.Args[2])+")")
			}
			if strings.HasPrefix(name, "github.com/sirupsen/logrus.Panic") || strings.HasPrefix(name, "github.com/sirupsen/logrus.Fatal") || strings.Contains(name, "logrus.Entry).Panic") || strings.Contains(name, "logrus.Entry).Fatal") || strings.Contains(name, "logrus.Logger).Panic") || strings.Contains(name, "logrus.Logger).Fatal") || name == "os.Exit" {
				add(in, "abort", shortCallee(x))
			}
		}
	})
	// keys with ordinals
	cnt := map[string]int{}
	for i := range out {
		k := FuncName(fn) + ":" + out[i].Kind + ":" + out[i].Expr
		cnt[k]++
		out[i].Key = fmt.Sprintf("%s#%d", k, cnt[k])
	}
	return out
}

// ---------- scope ----------

// moduleImpls returns the module methods named m that implement invoke calls on interface t
// (only for interfaces declared in the module).
func moduleImplsOf(w *World, iface *types.Named, method string) []*ssa.Function {
	it, ok := iface.Underlying().(*types.Interface)
	if !ok {
		return nil
	}
	var out []*ssa.Function
	for path, sp := range w.SSAPkgs {
		if !isModPath(path) || strings.Contains(path, "/internal/fixtures") || strings.Contains(path, "/cmd/") {
			continue
		}
		for _, mem := range sp.Members {
			t, ok := mem.(*ssa.Type)
			if !ok {
				continue
			}
			for _, typ := range []types.Type{t.Type(), types.NewPointer(t.Type())} {
				if _, isI := typ.Underlying().(*types.Interface); isI {
					continue
				}
				if !types.Implements(typ, it) {
					continue
				}
				if f := w.Prog.LookupMethod(typ, sp.Pkg, method); f != nil && f.Blocks != nil {
					out = append(out, f)
				}
			}
		}
	}
	return out
}

// scopeFrom computes the module functions reachable from entries through static calls,
// closures, go/defer, and invoke calls on the module interfaces named in follow.
func scopeFrom(w *World, entries []*ssa.Function, follow map[string]bool, stop func(*ssa.Function) bool) []*ssa.Function {
	seen := map[*ssa.Function]bool{}
	var order []*ssa.Function
	var visit func(fn *ssa.Function)
	visit = func(fn *ssa.Function) {
		if fn == nil || seen[fn] || fn.Blocks == nil || !IsModule(fn) {
			return
		}
		if stop != nil && stop(fn) {
			return
		}
		seen[fn] = true
		order = append(order, fn)
		eachInstr(fn, func(in ssa.Instruction) {
			for _, op := range in.Operands(nil) {
				switch v := (*op).(type) {
				case *ssa.MakeClosure:
					visit(v.Fn.(*ssa.Function))
				case *ssa.Function:
					visit(v)
				}
			}
			if cl, ok := in.(ssa.CallInstruction); ok {
				cc := cl.Common()
				if cc.IsInvoke() {
					if n := namedOf(cc.Value.Type()); n != nil && n.Obj().Pkg() != nil && isModPath(n.Obj().Pkg().Path()) && follow[n.Obj().Name()] {
						for _, f := range moduleImplsOf(w, n, cc.Method.Name()) {
							visit(f)
						}
					}
				}
			}
		})
	}
	for _, e := range entries {
		visit(e)
	}
	sort.Slice(order, func(i, j int) bool { return FuncName(order[i]) < FuncName(order[j]) })
	return order
}
