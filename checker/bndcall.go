package main

// Call-site specialisation for BND.
//
// A helper that did not exist on the pinned tree (a new function, or the function literal the
// normalisation pass leaves when a helper cannot be reduced to statements) is analysed in the
// context of its call sites: its parameters are bound to the caller's argument expressions, the
// captured variables it reads are identified with the caller's variables at the call, and the
// facts known at the call hold on entry.  Obligations inside such a helper are proved once per
// call site; the lengths of the slices it returns are related to its arguments.

import (
	"fmt"
	"go/types"
	"strings"

	"golang.org/x/tools/go/ssa"
)

// specialisable: fn may be analysed per call site (it is not one of the functions the rules are
// anchored on, and every use of it is a direct call).
func (e *bndEngine) specialisable(fn *ssa.Function) bool {
	if fn == nil || fn.Blocks == nil || isBaselineFunc(fn) {
		return false
	}
	if fn.Parent() != nil {
		// a function literal: only when it is called where it is created (never stored or passed on)
		return len(e.sitesOf(fn)) > 0 && e.onlyCalled(fn)
	}
	return len(e.sitesOf(fn)) > 0 && e.onlyCalled(fn)
}

// sitesOf: the call instructions that invoke fn directly.
func (e *bndEngine) sitesOf(fn *ssa.Function) []*ssa.Call {
	if e.sites == nil {
		e.sites = map[*ssa.Function][]*ssa.Call{}
		e.otherUse = map[*ssa.Function]bool{}
		for _, f := range e.w.ModuleFuncs() {
			eachInstr(f, func(in ssa.Instruction) {
				if c, ok := in.(*ssa.Call); ok {
					if cal, _ := localCallee(c); cal != nil {
						e.sites[cal] = append(e.sites[cal], c)
					}
				}
				// any other appearance of a function value
				var ops []*ssa.Value
				ops = in.Operands(ops)
				for i, op := range ops {
					if op == nil || *op == nil {
						continue
					}
					var g *ssa.Function
					switch v := (*op).(type) {
					case *ssa.Function:
						g = v
					case *ssa.MakeClosure:
						g, _ = v.Fn.(*ssa.Function)
					}
					if g == nil {
						continue
					}
					if c, ok := in.(*ssa.Call); ok && i == 0 && !c.Call.IsInvoke() {
						continue // the callee position of a call
					}
					if _, isMC := in.(*ssa.MakeClosure); isMC {
						continue // the closure value itself is judged where it is used
					}
					if st, ok := in.(*ssa.Store); ok {
						// stored into a local that is only ever called: judged by localCallee
						if cell, ok := st.Addr.(*ssa.Alloc); ok && cellOnlyCalled(cell) {
							continue
						}
					}
					e.otherUse[g] = true
				}
			})
		}
	}
	return e.sites[fn]
}

func cellOnlyCalled(cell *ssa.Alloc) bool {
	for _, ref := range referrers(cell) {
		switch x := ref.(type) {
		case *ssa.Store:
			if x.Addr != ssa.Value(cell) {
				return false
			}
		case *ssa.UnOp:
			for _, r2 := range referrers(x) {
				c, ok := r2.(*ssa.Call)
				if !ok || c.Call.Value != ssa.Value(x) {
					return false
				}
			}
		case *ssa.DebugRef:
		default:
			return false
		}
	}
	return true
}

func (e *bndEngine) onlyCalled(fn *ssa.Function) bool {
	e.sitesOf(fn)
	return !e.otherUse[fn]
}

// linkCallee builds a prover for callee whose entry state is the caller's state at call.
func (q *prover) linkCallee(call *ssa.Call, callee *ssa.Function, at ssa.Instruction) *prover {
	p := &prover{eng: q.eng, fn: callee, mem: q.eng.memOf(callee), facts: q.facts, defined: q.defined, used: q.used,
		env: map[ssa.Value]linExpr{}, prefix: q.prefix + call.Name() + ">" + callee.Name() + "/", depth: q.depth, at: at}
	for i, prm := range callee.Params {
		if i >= len(call.Call.Args) {
			break
		}
		arg := call.Call.Args[i]
		switch prm.Type().Underlying().(type) {
		case *types.Slice, *types.Map:
			p.env[prm] = q.lenOf(arg)
		case *types.Basic:
			if isIntType(prm.Type()) {
				p.env[prm] = q.lin(arg)
			} else if b, ok := prm.Type().Underlying().(*types.Basic); ok && b.Info()&types.IsString != 0 {
				p.env[prm] = q.lenOf(arg)
			}
		}
	}
	p.facts = q.facts
	free := map[string]bool{}
	for _, fv := range callee.FreeVars {
		free[fv.Name()] = true
	}
	p.entryMap = func(path string) (string, bool) {
		root := strings.TrimLeft(path, "*")
		if i := strings.IndexAny(root, ".["); i >= 0 {
			root = root[:i]
		}
		if !free[root] {
			return "", false
		}
		ver := q.mem.versionAt(call, path)
		if ver == "" || ver == "?" {
			// the caller never touches this location: it is unchanged since the caller's entry
			ver = "e"
		}
		if o, ok := q.override[path+"@"+ver]; ok {
			ver = o
		}
		if ver == "e" && q.entryMap != nil {
			if k, ok := q.entryMap(path); ok {
				return k, true
			}
		}
		return q.prefix + "M:" + path + "@" + ver, true
	}
	return p
}

// proveAtCallSites: the obligation inside a specialisable helper holds in the context of each call.
func (e *bndEngine) proveAtCallSites(ob bndOb) (bool, string, []string) {
	if !e.specialisable(ob.Fn) {
		return false, "", nil
	}
	used := map[string]bool{}
	sites := e.sitesOf(ob.Fn)
	for _, site := range sites {
		q := e.newProver(site.Parent(), site)
		q.gather()
		p := q.linkCallee(site, ob.Fn, ob.In)
		if f := e.tryProve(p, ob); f != "" {
			return false, fmt.Sprintf("(in the context of the call at %s) %s", e.w.Pos(site.Pos()), f), nil
		}
		for u := range p.used {
			used[u] = true
		}
	}
	used["call-site specialisation: a helper that is not an anchor of any rule is analysed in the context of each of its direct calls"] = true
	return true, fmt.Sprintf("bounds proved in the context of each of the %d call site(s) of the helper", len(sites)), sortedKeys(used)
}

// resultLen relates len(result i of call) to the caller's values when the callee is a
// specialisable helper with a single return.
func (p *prover) resultLen(call *ssa.Call, idx int) (linExpr, bool) {
	callee, _ := localCallee(call)
	if callee == nil || !p.eng.specialisable(callee) || p.depth > 25 {
		return linExpr{}, false
	}
	var ret *ssa.Return
	n := 0
	eachInstr(callee, func(in ssa.Instruction) {
		if r, ok := in.(*ssa.Return); ok {
			ret = r
			n++
		}
	})
	if n != 1 || idx >= len(ret.Results) {
		return linExpr{}, false
	}
	sub := p.linkCallee(call, callee, ret)
	r := sub.lenOf(ret.Results[idx])
	p.facts = sub.facts
	p.used["call-site specialisation: a helper that is not an anchor of any rule is analysed in the context of each of its direct calls"] = true
	return r, true
}
