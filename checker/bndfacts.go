package main

import (
	"fmt"
	"go/constant"
	"go/token"
	"go/types"
	"math/big"
	"sort"
	"strings"

	"golang.org/x/tools/go/ssa"
)

// ---------------------------------------------------------------------------------------------
// The prover: derives linear facts about the integer values that an obligation mentions and
// asks the Fourier–Motzkin core whether the obligation's negation is infeasible.
// Fact sources: (1) branch conditions that dominate the site, (2) SSA definitions (wrap-aware),
// (3) length facts, (4) memory versions (equal loads), (5) induction on loop phis, (6) models
// of library functions, (7) declared assumptions / lemmas (each named in the evidence).
// ---------------------------------------------------------------------------------------------

type prover struct {
	eng           *bndEngine
	fn            *ssa.Function
	mem           *memInfo
	facts         []constraint
	defined       map[string]bool
	used          map[string]bool // assumptions / lemmas used
	env           map[ssa.Value]linExpr
	prefix        string
	depth         int
	at            ssa.Instruction
	pendingNeq    [][2]linExpr
	override      map[string]string // "path@mergeVersion" -> version to use instead (join case split)
	extraConds    []Cond
	pendingPhiInt [][2]ssa.Value  // (phi, edge value) equalities for the current case
	phiAlias      [][2]ssa.Value  // non-integer phis standing for the edge value
	noInvFor      *ssa.BasicBlock // do not assume loop invariants of this loop (entry-edge proofs)
	invAdded      map[int]bool
	entryMap      func(path string) (string, bool) // call-site specialisation: entry versions of captured variables -> the caller's variables
	minmax        map[string]minmaxDef             // results of the min / max builtins: the result is one of the arguments
}

type minmaxDef struct {
	isMin bool
	args  []linExpr
}

type bndEngine struct {
	w          *World
	mems       map[*ssa.Function]*memInfo
	callers    map[*ssa.Function][]ssa.CallInstruction
	requires   map[string][]reqSpec
	fieldFacts map[string]int64 // "Struct.field" -> lower bound (configuration assumptions)
	lexerFuncs map[*ssa.Function]bool
	sites      map[*ssa.Function][]*ssa.Call
	otherUse   map[*ssa.Function]bool
}

type reqSpec struct {
	Param int
	Kind  string // "int>=" or "len>="
	K     int64
	Why   string
}

func newBndEngine(w *World) *bndEngine {
	e := &bndEngine{w: w, mems: map[*ssa.Function]*memInfo{}, callers: map[*ssa.Function][]ssa.CallInstruction{}, lexerFuncs: map[*ssa.Function]bool{}}
	for _, fn := range w.ModuleFuncs() {
		for _, cl := range callsIn(fn) {
			if cal := staticCallee(cl); cal != nil && IsModule(cal) {
				e.callers[cal] = append(e.callers[cal], cl)
			}
		}
		if fnPkgPath(fn) == pkgPath(lexPkg) {
			e.lexerFuncs[fn] = true
		}
	}
	// preconditions that callers must establish (checked at every static call site)
	e.requires = map[string][]reqSpec{
		"gostatsd.Bucket":             {{2, "int>=", 1, "shard count is positive"}, {2, "int<=", 1<<31 - 1, "shard count fits in 31 bits"}},
		"(*gostatsd.MetricMap).Split": {{1, "int>=", 1, "shard count is positive"}, {1, "int<=", 1<<31 - 1, "shard count fits in 31 bits"}},
		"pkg/backends/otlp/internal/data.WithHistogramDataPointCumulativeBucketValues": {{0, "len>=", 1, "bucket map is not empty"}},
	}
	// configuration assumptions (the quantifier of C03/C04 ranges over accepted configurations)
	e.fieldFacts = map[string]int64{
		"BackendHandler.numWorkers":         1, // max-workers >= 1
		"DatagramReceiver.receiveBatchSize": 1, // receive-batch-size >= 1
		"MetricPool.estimatedTags":          0, // estimated-tags >= 0 (a negative value aborts on the first metric of any content)
	}
	return e
}

func (e *bndEngine) memOf(fn *ssa.Function) *memInfo {
	if m, ok := e.mems[fn]; ok {
		return m
	}
	var extra []string
	if e.lexerFuncs[fn] {
		if root := lexerRoot(fn); root != "" {
			extra = []string{root + ".input", root + ".len", root + ".start", root + ".pos"}
		}
	}
	m := newMemInfo(e.w, fn, extra...)
	e.mems[fn] = m
	return m
}

func (e *bndEngine) newProver(fn *ssa.Function, at ssa.Instruction) *prover {
	return &prover{eng: e, fn: fn, mem: e.memOf(fn), defined: map[string]bool{}, used: map[string]bool{}, env: map[ssa.Value]linExpr{}, prefix: FuncName(fn) + "/", at: at}
}

func (p *prover) add(c constraint) { p.facts = append(p.facts, c) }

func (p *prover) holds(goal linExpr) bool {
	ok, decided := entails(p.facts, goal)
	return ok && decided
}

func typeBits(t types.Type) (bits int, unsigned bool, ok bool) {
	b, isB := t.Underlying().(*types.Basic)
	if !isB || b.Info()&types.IsInteger == 0 {
		return 0, false, false
	}
	switch b.Kind() {
	case types.Int8:
		return 8, false, true
	case types.Int16:
		return 16, false, true
	case types.Int32:
		return 32, false, true
	case types.Int, types.Int64:
		return 64, false, true
	case types.Uint8:
		return 8, true, true
	case types.Uint16:
		return 16, true, true
	case types.Uint32:
		return 32, true, true
	case types.Uint, types.Uint64, types.Uintptr:
		return 64, true, true
	}
	return 0, false, false
}

func pow2(n int) *big.Rat {
	z := new(big.Int).Lsh(big.NewInt(1), uint(n))
	return new(big.Rat).SetInt(z)
}

// rangeFacts adds the representable range of t for variable v.
func (p *prover) rangeFacts(v string, t types.Type) {
	bits, uns, ok := typeBits(t)
	if !ok {
		return
	}
	if uns {
		p.add(constraint{linVar(v), "unsigned"})
		if bits < 64 {
			u := newLin()
			u.C.Sub(pow2(bits), big.NewRat(1, 1))
			p.add(constraint{u.sub(linVar(v)), "max of type"})
		}
	} else if bits < 64 {
		lo := newLin()
		lo.C.Set(pow2(bits - 1))
		p.add(constraint{linVar(v).add(lo), "min of type"})
		hi := newLin()
		hi.C.Sub(pow2(bits-1), big.NewRat(1, 1))
		p.add(constraint{hi.sub(linVar(v)), "max of type"})
	}
}

func (p *prover) valKey(v ssa.Value) string { return p.prefix + v.Name() }

// memKey: variable name for a load of a trackable path at its version.
func (p *prover) memKey(ld *ssa.UnOp) (string, bool) {
	path := addrPath(ld.X)
	if path == "" {
		return "", false
	}
	ver := p.mem.versionAt(ld, path)
	if o, ok := p.override[path+"@"+ver]; ok {
		ver = o
	}
	if ver == "e" && p.entryMap != nil {
		if k, ok := p.entryMap(path); ok {
			return k, true
		}
	}
	return p.prefix + "M:" + path + "@" + ver, true
}

// lin returns a linear expression equal to the integer value v, adding defining facts.
func (p *prover) lin(v ssa.Value) linExpr {
	if e, ok := p.env[v]; ok {
		return e
	}
	for _, pa := range p.pendingPhiInt {
		if pa[0] == v {
			return p.lin(pa[1])
		}
	}
	p.depth++
	defer func() { p.depth-- }()
	if p.depth > 40 {
		return linVar(p.valKey(v) + "?deep")
	}
	switch x := v.(type) {
	case *ssa.Const:
		if x.Value != nil && x.Value.Kind() == constant.Int {
			if n, ok := constant.Int64Val(x.Value); ok {
				return linConst(n)
			}
			if u, ok := constant.Uint64Val(x.Value); ok {
				l := newLin()
				l.C.SetInt(new(big.Int).SetUint64(u))
				return l
			}
		}
		return linVar(p.valKey(v))
	case *ssa.Parameter:
		if n, ok := p.eng.paramConst(x); ok {
			return linConst(n)
		}
		k := p.valKey(v)
		if !p.defined[k] {
			p.defined[k] = true
			p.rangeFacts(k, x.Type())
			p.requireFacts(x, k)
		}
		return linVar(k)
	case *ssa.FreeVar:
		k := p.valKey(v)
		return linVar(k)
	case *ssa.BinOp:
		return p.linBinOp(x)
	case *ssa.Convert:
		return p.linConvert(x)
	case *ssa.ChangeType:
		return p.lin(x.X)
	case *ssa.Call:
		return p.linCall(x)
	case *ssa.UnOp:
		if x.Op == token.MUL {
			return p.linLoad(x)
		}
		if x.Op == token.SUB {
			if _, uns, ok := typeBits(x.Type()); ok && !uns {
				return p.lin(x.X).scale(-1)
			}
		}
	case *ssa.Phi:
		return p.linPhi(x)
	case *ssa.Extract:
		return p.linExtract(x)
	case *ssa.Field:
		// field of a loaded struct value
		k := p.valKey(x.X) + "." + fieldName(x.X.Type(), x.Field)
		if !p.defined[k] {
			p.defined[k] = true
			p.rangeFacts(k, x.Type())
		}
		return linVar(k)
	}
	k := p.valKey(v)
	if !p.defined[k] {
		p.defined[k] = true
		p.rangeFacts(k, v.Type())
	}
	return linVar(k)
}

func (p *prover) linBinOp(x *ssa.BinOp) linExpr {
	k := p.valKey(x)
	bits, uns, ok := typeBits(x.Type())
	fresh := func() linExpr {
		if !p.defined[k] {
			p.defined[k] = true
			p.rangeFacts(k, x.Type())
		}
		return linVar(k)
	}
	if !ok {
		return fresh()
	}
	switch x.Op {
	case token.ADD, token.SUB:
		a, b := p.lin(x.X), p.lin(x.Y)
		var r linExpr
		if x.Op == token.ADD {
			r = a.add(b)
		} else {
			r = a.sub(b)
		}
		if !uns && bits == 64 {
			// A1: signed 64-bit arithmetic on lengths and indices does not overflow
			p.used["A1: int arithmetic on lengths/indices does not overflow (lengths < 2^62)"] = true
			return r
		}
		// wrap-aware: exact only if the mathematical result is representable
		if p.defined[k+"#exact"] {
			return r
		}
		if p.defined[k] {
			return linVar(k)
		}
		lowOK := true
		if uns {
			lowOK = p.holds(r)
		} else {
			lo := newLin()
			lo.C.Set(pow2(bits - 1))
			lowOK = p.holds(r.add(lo))
		}
		hiOK := true
		if bits < 64 || !uns {
			hi := newLin()
			if uns {
				hi.C.Sub(pow2(bits), big.NewRat(1, 1))
			} else {
				hi.C.Sub(pow2(bits-1), big.NewRat(1, 1))
			}
			hiOK = p.holds(hi.sub(r))
		} else {
			// uint64: sums of two values each < 2^63 cannot wrap; require both operands bounded
			h := newLin()
			h.C.Sub(pow2(64), big.NewRat(1, 1))
			hiOK = p.holds(h.sub(r))
		}
		if lowOK && hiOK {
			p.defined[k+"#exact"] = true
			return r
		}
		return fresh()
	case token.MUL:
		if c, isC := constInt(x.Y); isC && !uns && bits == 64 {
			return p.lin(x.X).scale(c)
		}
		if c, isC := constInt(x.X); isC && !uns && bits == 64 {
			return p.lin(x.Y).scale(c)
		}
		return fresh()
	case token.REM:
		r := fresh()
		if !p.defined[k+"#rem"] {
			p.defined[k+"#rem"] = true
			a, b := p.lin(x.X), p.lin(x.Y)
			if p.holds(b.add(linConst(-1))) { // divisor >= 1
				if uns || p.holds(a) {
					p.add(constraint{r, "x % y >= 0"})
				}
				p.add(constraint{b.sub(r).add(linConst(-1)), "x % y < y"})
			}
			// x = c*(x/c) + x%c when the quotient by the same constant is computed as well
			if c, isC := constInt(x.Y); isC && c > 0 && (uns || p.holds(a)) {
				for _, ref := range referrers(x.X) {
					if q, ok := ref.(*ssa.BinOp); ok && q.Op == token.QUO && q.X == x.X && q.Parent() == x.Parent() {
						if c2, isC2 := constInt(q.Y); isC2 && c2 == c {
							p.eqFact(a, p.lin(q).scale(c).add(r), "x = c*(x/c) + x%c")
						}
					}
				}
			}
		}
		return r
	case token.QUO:
		r := fresh()
		if !p.defined[k+"#quo"] {
			p.defined[k+"#quo"] = true
			if c, isC := constInt(x.Y); isC && c > 0 {
				a := p.lin(x.X)
				if uns || p.holds(a) {
					p.add(constraint{a.sub(r.scale(c)), "c*(x/c) <= x"})
					p.add(constraint{r.scale(c).add(linConst(c - 1)).sub(a), "x <= c*(x/c)+c-1"})
				}
			}
		}
		return r
	}
	return fresh()
}

func (p *prover) linConvert(x *ssa.Convert) linExpr {
	k := p.valKey(x)
	sb, su, sok := typeBits(x.X.Type())
	tb, tu, tok := typeBits(x.Type())
	fresh := func() linExpr {
		if !p.defined[k] {
			p.defined[k] = true
			p.rangeFacts(k, x.Type())
		}
		return linVar(k)
	}
	if !tok {
		return fresh()
	}
	if !sok {
		// float -> int etc.: lemma hook
		r := fresh()
		p.eng.floatConvFacts(p, x, r)
		return r
	}
	src := p.lin(x.X)
	// always representable?
	if (su == tu && tb >= sb) || (su && !tu && tb > sb) {
		return src
	}
	if p.defined[k+"#exact"] {
		return src
	}
	if p.defined[k] {
		return linVar(k)
	}
	// representable under the known facts?
	okLow, okHigh := true, true
	if tu {
		okLow = p.holds(src)
	} else if tb < 64 || su {
		lo := newLin()
		lo.C.Set(pow2(tb - 1))
		okLow = p.holds(src.add(lo))
	}
	hi := newLin()
	if tu {
		if tb < 64 {
			hi.C.Sub(pow2(tb), big.NewRat(1, 1))
			okHigh = p.holds(hi.sub(src))
		}
	} else {
		hi.C.Sub(pow2(tb-1), big.NewRat(1, 1))
		okHigh = p.holds(hi.sub(src))
	}
	if okLow && okHigh {
		p.defined[k+"#exact"] = true
		return src
	}
	return fresh()
}

// capturedCell: ld reads a variable captured from the enclosing function that is assigned
// exactly once there and never in a closure.  Returns a prover positioned in the parent and the
// stored value.
func (p *prover) capturedCell(ld *ssa.UnOp) (*prover, ssa.Value, bool) {
	fv, ok := ld.X.(*ssa.FreeVar)
	if !ok {
		return nil, nil, false
	}
	fn := fv.Parent()
	parent := fn.Parent()
	if parent == nil {
		return nil, nil, false
	}
	idx := -1
	for i, f := range fn.FreeVars {
		if f == fv {
			idx = i
		}
	}
	var cell *ssa.Alloc
	eachInstr(parent, func(in ssa.Instruction) {
		if mc, ok := in.(*ssa.MakeClosure); ok && mc.Fn == ssa.Value(fn) && idx >= 0 && idx < len(mc.Bindings) {
			if al, ok := mc.Bindings[idx].(*ssa.Alloc); ok {
				cell = al
			}
		}
	})
	if cell == nil {
		return nil, nil, false
	}
	var st *ssa.Store
	n := 0
	for _, r := range referrers(cell) {
		if s, ok := r.(*ssa.Store); ok && s.Addr == ssa.Value(cell) {
			st = s
			n++
		}
	}
	if n != 1 {
		return nil, nil, false
	}
	for _, c := range WithAnon(parent)[1:] {
		bad := false
		eachInstr(c, func(in ssa.Instruction) {
			if s, ok := in.(*ssa.Store); ok {
				if f2, ok := s.Addr.(*ssa.FreeVar); ok && f2.Name() == fv.Name() {
					bad = true
				}
			}
		})
		if bad {
			return nil, nil, false
		}
	}
	q := &prover{eng: p.eng, fn: parent, mem: p.eng.memOf(parent), facts: p.facts, defined: p.defined, used: p.used, env: map[ssa.Value]linExpr{}, prefix: FuncName(parent) + "/", depth: p.depth, at: st}
	return q, st.Val, true
}

// monotoneCell: ld reads a local int variable (possibly captured by closures) whose every
// assignment, in the declaring function and in all of its closures, is either a non-negative
// constant or <same variable> + <positive constant>.  Such a variable is never negative
// (lemma L12; overflow would need 2^63 increments).
func monotoneCell(ld *ssa.UnOp) bool {
	var cell *ssa.Alloc
	var owner *ssa.Function
	name := ""
	switch a := ld.X.(type) {
	case *ssa.Alloc:
		cell, owner = a, a.Parent()
	case *ssa.FreeVar:
		fn := a.Parent()
		owner = fn.Parent()
		if owner == nil {
			return false
		}
		idx := -1
		for i, f := range fn.FreeVars {
			if f == a {
				idx = i
			}
		}
		eachInstr(owner, func(in ssa.Instruction) {
			if mc, ok := in.(*ssa.MakeClosure); ok && mc.Fn == ssa.Value(fn) && idx >= 0 && idx < len(mc.Bindings) {
				if al, ok := mc.Bindings[idx].(*ssa.Alloc); ok {
					cell = al
				}
			}
		})
	}
	if cell == nil || !isIntType(derefType(cell.Type())) {
		return false
	}
	name = cell.Comment
	// the cell's address must only be loaded, stored to, or bound into closures
	for _, r := range referrers(cell) {
		switch r := r.(type) {
		case *ssa.UnOp, *ssa.MakeClosure, *ssa.DebugRef:
		case *ssa.Store:
			if r.Addr != ssa.Value(cell) {
				return false
			}
		default:
			return false
		}
	}
	okStore := func(st *ssa.Store, self func(v ssa.Value) bool) bool {
		if n, isC := constInt(st.Val); isC {
			return n >= 0
		}
		if b, ok := st.Val.(*ssa.BinOp); ok && b.Op == token.ADD {
			if l, ok := b.X.(*ssa.UnOp); ok && l.Op == token.MUL && self(l.X) {
				if n, isC := constInt(b.Y); isC && n > 0 {
					return true
				}
			}
		}
		return false
	}
	good, nStores := true, 0
	for _, f := range WithAnon(owner) {
		// which values denote the cell inside f
		self := func(v ssa.Value) bool {
			if v == ssa.Value(cell) {
				return true
			}
			if fv, ok := v.(*ssa.FreeVar); ok && fv.Name() == name && fv.Parent() == f {
				// bound to cell? (a same-named variable of another scope would be a different binding)
				idx := -1
				for i, x := range f.FreeVars {
					if x == fv {
						idx = i
					}
				}
				bound := false
				for _, g := range WithAnon(owner) {
					eachInstr(g, func(in ssa.Instruction) {
						if mc, ok := in.(*ssa.MakeClosure); ok && mc.Fn == ssa.Value(f) && idx >= 0 && idx < len(mc.Bindings) {
							b := mc.Bindings[idx]
							if b == ssa.Value(cell) {
								bound = true
							} else if fv2, ok := b.(*ssa.FreeVar); ok && fv2.Name() == name {
								bound = true
							}
						}
					})
				}
				return bound
			}
			return false
		}
		eachInstr(f, func(in ssa.Instruction) {
			if st, ok := in.(*ssa.Store); ok && self(st.Addr) {
				nStores++
				if !okStore(st, self) {
					good = false
				}
			}
		})
	}
	return good && nStores > 0
}

func (p *prover) linLoad(x *ssa.UnOp) linExpr {
	if q, sv, ok := p.capturedCell(x); ok && isIntType(x.Type()) {
		r := q.lin(sv)
		p.facts = q.facts
		return r
	}
	if isIntType(x.Type()) && monotoneCell(x) {
		kk := p.valKey(x)
		if !p.defined[kk+"#mono"] {
			p.defined[kk+"#mono"] = true
			p.used["lemma L12: a local counter whose only assignments are a non-negative constant and itself plus a positive constant is never negative (overflow needs 2^63 increments)"] = true
		}
		r := p.linLoadPlain(x)
		p.add(constraint{r, "L12 monotone counter >= 0"})
		return r
	}
	return p.linLoadPlain(x)
}

func (p *prover) linLoadPlain(x *ssa.UnOp) linExpr {
	k, ok := p.memKey(x)
	if !ok {
		kk := p.valKey(x)
		if !p.defined[kk] {
			p.defined[kk] = true
			p.rangeFacts(kk, x.Type())
		}
		return linVar(kk)
	}
	if !p.defined[k] {
		p.defined[k] = true
		p.rangeFacts(k, x.Type())
		path := addrPath(x.X)
		ver := p.mem.versionAt(x, path)
		if o, ok := p.override[path+"@"+ver]; ok {
			ver = o
		}
		if st := p.mem.storeOf[ver]; st != nil && isIntType(x.Type()) {
			// the version was created by a store: equal to the stored value
			v := p.lin(st.Val)
			p.add(constraint{linVar(k).sub(v), "load = stored value"})
			p.add(constraint{v.sub(linVar(k)), "load = stored value"})
		}
		p.eng.fieldFactsFor(p, x, k)
	}
	return linVar(k)
}

func (p *prover) linPhi(x *ssa.Phi) linExpr {
	k := p.valKey(x)
	if p.defined[k] {
		return linVar(k)
	}
	p.defined[k] = true
	p.rangeFacts(k, x.Type())
	if !isIntType(x.Type()) {
		return linVar(k)
	}
	// a join phi (not a loop head) whose incoming values differ from each other by constants:
	// bounded by the smallest and the largest of them
	if !isLoopHead(x.Block()) && len(x.Edges) >= 2 && p.depth < 25 {
		base := p.lin(x.Edges[0])
		minC, maxC := new(big.Rat), new(big.Rat)
		okJ := true
		for _, e := range x.Edges[1:] {
			d := p.lin(e).sub(base)
			if !d.isConst() {
				okJ = false
				break
			}
			if d.C.Cmp(minC) < 0 {
				minC.Set(d.C)
			}
			if d.C.Cmp(maxC) > 0 {
				maxC.Set(d.C)
			}
		}
		if okJ {
			lo, hi := newLin(), newLin()
			lo.C.Set(minC)
			hi.C.Set(maxC)
			p.add(constraint{linVar(k).sub(base.add(lo)), "join of values that differ by constants"})
			p.add(constraint{base.add(hi).sub(linVar(k)), "join of values that differ by constants"})
		}
	}
	// induction: edges that are phi+c (or phi itself) vs initial edges
	var inits []ssa.Value
	minStep, maxStep := int64(0), int64(0)
	okShape := true
	for _, e := range x.Edges {
		if e == ssa.Value(x) {
			continue
		}
		if b, ok := e.(*ssa.BinOp); ok && (b.Op == token.ADD || b.Op == token.SUB) && b.X == ssa.Value(x) {
			if c, isC := constInt(b.Y); isC {
				if b.Op == token.SUB {
					c = -c
				}
				if c < minStep {
					minStep = c
				}
				if c > maxStep {
					maxStep = c
				}
				continue
			}
		}
		// an edge may be another phi that merges phi+c values of this phi (nested if): look one level
		if ph2, ok := e.(*ssa.Phi); ok && ph2 != x {
			all := true
			for _, e2 := range ph2.Edges {
				if e2 == ssa.Value(x) {
					continue
				}
				if b, ok := e2.(*ssa.BinOp); ok && (b.Op == token.ADD || b.Op == token.SUB) && b.X == ssa.Value(x) {
					if c, isC := constInt(b.Y); isC {
						if b.Op == token.SUB {
							c = -c
						}
						if c < minStep {
							minStep = c
						}
						if c > maxStep {
							maxStep = c
						}
						continue
					}
				}
				all = false
			}
			if all {
				continue
			}
		}
		inits = append(inits, e)
	}
	if okShape && len(inits) >= 1 {
		_, uns, _ := typeBits(x.Type())
		for _, in := range inits {
			_ = in
		}
		if minStep >= 0 && !uns || minStep >= 0 && uns {
			// non-decreasing: phi >= min(inits); with a single init: phi >= init
			if len(inits) == 1 {
				p.add(constraint{linVar(k).sub(p.lin(inits[0])), "loop variable never decreases"})
			} else {
				allConst := true
				mn := int64(1 << 62)
				for _, in := range inits {
					if c, ok := constInt(in); ok {
						if c < mn {
							mn = c
						}
					} else {
						allConst = false
					}
				}
				if allConst {
					p.add(constraint{linVar(k).add(linConst(-mn)), "loop variable never decreases"})
				}
			}
		}
		if maxStep <= 0 && len(inits) == 1 {
			p.add(constraint{p.lin(inits[0]).sub(linVar(k)), "loop variable never increases"})
		}
	}
	p.eng.phiInvariants(p, x, k)
	return linVar(k)
}

func (p *prover) linExtract(x *ssa.Extract) linExpr {
	k := p.valKey(x)
	if p.defined[k] {
		return linVar(k)
	}
	p.defined[k] = true
	p.rangeFacts(k, x.Type())
	p.eng.extractFacts(p, x, k)
	return linVar(k)
}

func (p *prover) linCall(x *ssa.Call) linExpr {
	k := p.valKey(x)
	cc := x.Common()
	if b, ok := cc.Value.(*ssa.Builtin); ok {
		switch b.Name() {
		case "len":
			return p.lenOf(cc.Args[0])
		case "cap":
			if !p.defined[k] {
				p.defined[k] = true
				p.add(constraint{linVar(k).sub(p.lenOf(cc.Args[0])), "cap >= len"})
			}
			return linVar(k)
		case "min", "max":
			if !p.defined[k] {
				p.defined[k] = true
				p.rangeFacts(k, x.Type())
				allNonNeg := true
				if p.minmax == nil {
					p.minmax = map[string]minmaxDef{}
				}
				def := minmaxDef{isMin: b.Name() == "min"}
				for _, a := range cc.Args {
					def.args = append(def.args, p.lin(a))
				}
				p.minmax[k] = def
				for _, a := range cc.Args {
					if b.Name() == "min" {
						p.add(constraint{p.lin(a).sub(linVar(k)), "min <= arg"})
					} else {
						p.add(constraint{linVar(k).sub(p.lin(a)), "max >= arg"})
					}
					if !p.holds(p.lin(a)) {
						allNonNeg = false
					}
				}
				if allNonNeg && b.Name() == "min" {
					// the result is one of the arguments
					p.add(constraint{linVar(k), "min of non-negative arguments >= 0"})
				}
			}
			return linVar(k)
		}
	}
	if p.defined[k] {
		return linVar(k)
	}
	p.defined[k] = true
	p.rangeFacts(k, x.Type())
	if cal := staticCallee(x); cal != nil {
		// single-block module helpers are inlined
		if IsModule(cal) && len(cal.Blocks) == 1 && isIntType(x.Type()) && p.depth < 20 {
			if rt, ok := cal.Blocks[0].Instrs[len(cal.Blocks[0].Instrs)-1].(*ssa.Return); ok && len(rt.Results) == 1 {
				sub := &prover{eng: p.eng, fn: cal, mem: p.eng.memOf(cal), facts: p.facts, defined: p.defined, used: p.used, env: map[ssa.Value]linExpr{}, prefix: p.prefix + x.Name() + ">" + cal.Name() + "/", depth: p.depth, at: rt}
				for i, prm := range cal.Params {
					if isIntType(prm.Type()) {
						sub.env[prm] = p.lin(cc.Args[i])
					}
				}
				sub.facts = p.facts
				r := sub.lin(rt.Results[0])
				p.facts = sub.facts
				p.add(constraint{linVar(k).sub(r), "inlined " + cal.Name()})
				p.add(constraint{r.sub(linVar(k)), "inlined " + cal.Name()})
				return linVar(k)
			}
		}
		// helpers with several blocks but a single return: the returned expression is analysed at the return
		// (facts known there: the branch conditions that dominate it, loop invariants)
		if IsModule(cal) && len(cal.Blocks) > 1 && isIntType(x.Type()) && p.depth < 6 && !cc.IsInvoke() {
			var rets []*ssa.Return
			eachInstr(cal, func(in ssa.Instruction) {
				if rt, ok := in.(*ssa.Return); ok {
					rets = append(rets, rt)
				}
			})
			if len(rets) == 1 && len(rets[0].Results) == 1 {
				rt := rets[0]
				sub := &prover{eng: p.eng, fn: cal, mem: p.eng.memOf(cal), facts: p.facts, defined: p.defined, used: p.used, env: map[ssa.Value]linExpr{}, prefix: p.prefix + x.Name() + ">" + cal.Name() + "/", depth: p.depth + 1, at: rt}
				for i, prm := range cal.Params {
					if isIntType(prm.Type()) && i < len(cc.Args) {
						sub.env[prm] = p.lin(cc.Args[i])
					}
				}
				sub.facts = p.facts
				r := sub.lin(rt.Results[0])
				p.facts = sub.facts
				p.add(constraint{linVar(k).sub(r), "result of " + cal.Name() + " (its single return expression)"})
				p.add(constraint{r.sub(linVar(k)), "result of " + cal.Name() + " (its single return expression)"})
				return linVar(k)
			}
		}
		p.eng.callModel(p, x, cal, k)
	}
	return linVar(k)
}

// lenKey names the length variable of a slice / string / map value.
func (p *prover) lenKey(v ssa.Value) string {
	if ld, ok := v.(*ssa.UnOp); ok && ld.Op == token.MUL {
		if k, ok := p.memKey(ld); ok {
			return "len(" + k + ")"
		}
	}
	if f, ok := v.(*ssa.Field); ok {
		return "len(" + p.prefix + valueRoot(f.X) + "." + fieldName(f.X.Type(), f.Field) + ")"
	}
	return "len(" + p.valKey(v) + ")"
}

// lenOf returns a linear expression for len(v), adding defining facts.
func (p *prover) lenOf(v ssa.Value) linExpr {
	if e, ok := p.env[v]; ok {
		return e // (used for substituted length parameters)
	}
	for _, pa := range p.phiAlias {
		if pa[0] == v {
			return p.lenOf(pa[1])
		}
	}
	p.depth++
	defer func() { p.depth-- }()
	if n, ok := arrayLen(v.Type()); ok {
		return linConst(n)
	}
	k := p.lenKey(v)
	if p.depth > 40 {
		return linVar(k)
	}
	first := !p.defined[k]
	if first {
		p.defined[k] = true
		p.add(constraint{linVar(k), "len >= 0"})
		p.add(constraint{linConst(1<<31 - 1).sub(linVar(k)), "A5: lengths fit in 31 bits"})
	}
	eq := func(e linExpr, why string) {
		p.add(constraint{linVar(k).sub(e), why})
		p.add(constraint{e.sub(linVar(k)), why})
	}
	if !first {
		return linVar(k)
	}
	switch x := v.(type) {
	case *ssa.Const:
		if s, ok := constString(x); ok {
			return linConst(int64(len(s)))
		}
		if x.Value == nil {
			return linConst(0)
		}
	case *ssa.MakeSlice:
		eq(p.lin(x.Len), "len(make(T,n)) = n")
	case *ssa.MakeMap:
		// a fresh map is empty only until written; no fact
	case *ssa.Slice:
		var hi, lo linExpr
		if x.High != nil {
			hi = p.lin(x.High)
		} else {
			hi = p.lenOf(x.X)
		}
		if x.Low != nil {
			lo = p.lin(x.Low)
		} else {
			lo = linConst(0)
		}
		eq(hi.sub(lo), "len(s[a:b]) = b-a")
	case *ssa.Convert:
		eq(p.lenOf(x.X), "conversion keeps the length")
	case *ssa.ChangeType:
		eq(p.lenOf(x.X), "same value")
	case *ssa.Call:
		if isCall(x, "builtin append") && len(x.Call.Args) == 2 {
			base := p.lenOf(x.Call.Args[0])
			if els := varargElems(x.Call.Args[1]); els != nil {
				eq(base.add(linConst(int64(len(els)))), "len(append(s, e...)) = len(s)+k")
			} else {
				eq(base.add(p.lenOf(x.Call.Args[1])), "len(append(s, t...)) = len(s)+len(t)")
			}
		} else if r, ok := p.resultLen(x, 0); ok {
			eq(r, "length of the helper's result")
		} else if cal := staticCallee(x); cal != nil {
			p.eng.lenModel(p, x, cal, k)
		}
	case *ssa.UnOp:
		if x.Op == token.MUL {
			if q, sv, ok := p.capturedCell(x); ok {
				r := q.lenOf(sv)
				p.facts = q.facts
				eq(r, "captured variable assigned once in the enclosing function")
				return linVar(k)
			}
			// a field of a state struct built in place and never written again: its constructor value
			if fa, isFA := x.X.(*ssa.FieldAddr); isFA {
				if st := localStructFieldStore(fa); st != nil && st.Parent() != nil {
					if st.Parent() == p.fn {
						eq(p.lenOf(st.Val), "field of a local struct, set once at construction")
						return linVar(k)
					}
					if st.Parent() == p.fn.Parent() {
						q := &prover{eng: p.eng, fn: st.Parent(), mem: p.eng.memOf(st.Parent()), facts: p.facts, defined: p.defined, used: p.used, env: map[ssa.Value]linExpr{}, prefix: FuncName(st.Parent()) + "/", depth: p.depth, at: st}
						r := q.lenOf(st.Val)
						p.facts = q.facts
						eq(r, "field of a captured local struct, set once at construction")
						return linVar(k)
					}
				}
			}
			path := addrPath(x.X)
			if path != "" {
				ver := p.mem.versionAt(x, path)
				if o, ok := p.override[path+"@"+ver]; ok {
					ver = o
				}
				if st := p.mem.storeOf[ver]; st != nil {
					eq(p.lenOf(st.Val), "load = stored value")
				}
			}
			p.eng.lenFieldFacts(p, x, k)
		}
	case *ssa.Phi:
		p.eng.phiLenInvariants(p, x, k)
	case *ssa.Extract:
		if c, isCall := x.Tuple.(*ssa.Call); isCall {
			if r, ok := p.resultLen(c, x.Index); ok {
				eq(r, "length of the helper's result")
				break
			}
		}
		p.eng.extractLenFacts(p, x, k)
	case *ssa.Parameter:
		p.requireLenFacts(x, k)
	case *ssa.FreeVar:
		p.requireLenFactsFree(x, k)
	case *ssa.Alloc:
	}
	return linVar(k)
}

// addCond turns a dominating branch condition into facts.
func (p *prover) addCond(c Cond) {
	c = normCond(c)
	b, ok := c.V.(*ssa.BinOp)
	if !ok {
		p.eng.condModel(p, c)
		return
	}
	isNum := func(v ssa.Value) bool { return isIntType(v.Type()) }
	if !isNum(b.X) || !isNum(b.Y) {
		p.eng.condModel(p, c)
		// nil comparisons of slices/maps: x == nil  =>  len(x) == 0
		if isNilConst(b.Y) && (b.Op == token.EQL || b.Op == token.NEQ) {
			switch b.X.Type().Underlying().(type) {
			case *types.Slice, *types.Map:
				isNil := (b.Op == token.EQL) == c.Sense
				if isNil {
					l := p.lenOf(b.X)
					p.add(constraint{l.scale(-1), "nil has length 0"})
				}
				p.eng.nonNilFacts(p, b.X, !isNil)
			}
		}
		return
	}
	// len(v) known positive: v is not nil (what a non-nil result of certain calls looks like is known)
	if lc, isLen := b.X.(*ssa.Call); isLen && isCall(lc, "builtin len") {
		if k, isC := constInt(b.Y); isC {
			pos := false
			switch {
			case k == 0 && ((b.Op == token.NEQ || b.Op == token.GTR) == c.Sense) && (b.Op == token.NEQ || b.Op == token.GTR || b.Op == token.EQL || b.Op == token.LEQ):
				pos = (b.Op == token.NEQ || b.Op == token.GTR) && c.Sense || (b.Op == token.EQL || b.Op == token.LEQ) && !c.Sense
			case k == 1 && (b.Op == token.GEQ && c.Sense || b.Op == token.LSS && !c.Sense):
				pos = true
			}
			if pos {
				switch lc.Call.Args[0].Type().Underlying().(type) {
				case *types.Slice, *types.Map:
					p.eng.nonNilFacts(p, lc.Call.Args[0], true)
				}
			}
		}
	}
	x, y := p.lin(b.X), p.lin(b.Y)
	op := b.Op
	if !c.Sense {
		switch op {
		case token.LSS:
			op = token.GEQ
		case token.LEQ:
			op = token.GTR
		case token.GTR:
			op = token.LEQ
		case token.GEQ:
			op = token.LSS
		case token.EQL:
			op = token.NEQ
		case token.NEQ:
			op = token.EQL
		}
	}
	why := "branch " + condExpr(c.V) + fmt.Sprintf("=%v", c.Sense)
	switch op {
	case token.LSS:
		p.add(gt(y, x, why))
	case token.LEQ:
		p.add(geq(y, x, why))
	case token.GTR:
		p.add(gt(x, y, why))
	case token.GEQ:
		p.add(geq(x, y, why))
	case token.EQL:
		p.add(geq(x, y, why))
		p.add(geq(y, x, why))
	case token.NEQ:
		// usable only next to a known bound
		if p.holds(x.sub(y)) { // x >= y  => x >= y+1
			p.add(gt(x, y, why))
		} else if p.holds(y.sub(x)) {
			p.add(gt(y, x, why))
		} else {
			p.pendingNeq = append(p.pendingNeq, [2]linExpr{x, y})
		}
	}
}

// requireFacts adds declared preconditions for integer parameters.
func (p *prover) requireFacts(prm *ssa.Parameter, k string) {
	fn := prm.Parent()
	for _, rq := range p.eng.requires[FuncName(fn)] {
		if rq.Kind == "int>=" && rq.Param < len(fn.Params) && fn.Params[rq.Param] == prm {
			p.add(constraint{linVar(k).add(linConst(-rq.K)), "precondition: " + rq.Why})
			p.used["precondition of "+FuncName(fn)+": "+rq.Why+" (checked at every call site)"] = true
		}
		if rq.Kind == "int<=" && rq.Param < len(fn.Params) && fn.Params[rq.Param] == prm {
			p.add(constraint{linConst(rq.K).sub(linVar(k)), "precondition: " + rq.Why})
			p.used["precondition of "+FuncName(fn)+": "+rq.Why+" (checked at every call site)"] = true
		}
	}
}

func (p *prover) requireLenFacts(prm *ssa.Parameter, k string) {
	fn := prm.Parent()
	name := FuncName(fn)
	if o := fn.Origin(); o != nil {
		name = FuncName(o)
	}
	for _, rq := range p.eng.requires[name] {
		if rq.Kind == "len>=" && rq.Param < len(fn.Params) && fn.Params[rq.Param] == prm {
			p.add(constraint{linVar(k).add(linConst(-rq.K)), "precondition: " + rq.Why})
			p.used["precondition of "+FuncName(fn)+": "+rq.Why+" (checked at every call site)"] = true
		}
	}
}

func (p *prover) requireLenFactsFree(fv *ssa.FreeVar, k string) {
	par := fv.Parent().Parent()
	for par != nil {
		name := FuncName(par)
		if o := par.Origin(); o != nil {
			name = FuncName(o)
		}
		for _, rq := range p.eng.requires[name] {
			if rq.Kind == "len>=" && rq.Param < len(par.Params) && par.Params[rq.Param].Name() == fv.Name() {
				p.add(constraint{linVar(k).add(linConst(-rq.K)), "precondition: " + rq.Why})
				p.used["precondition of "+FuncName(par)+": "+rq.Why+" (checked at every call site)"] = true
			}
		}
		par = par.Parent()
	}
}

// paramConst: a parameter that receives the same integer constant at every static call site
// (and whose function is never used as a value).
func (e *bndEngine) paramConst(prm *ssa.Parameter) (int64, bool) {
	fn := prm.Parent()
	if fn == nil || fn.Parent() != nil {
		return 0, false
	}
	idx := -1
	for i, q := range fn.Params {
		if q == prm {
			idx = i
		}
	}
	cs := e.callers[fn]
	if idx < 0 || len(cs) == 0 || !isIntType(prm.Type()) {
		return 0, false
	}
	// used as a value anywhere?
	for _, f := range e.w.ModuleFuncs() {
		used := false
		eachInstr(f, func(in ssa.Instruction) {
			for _, op := range in.Operands(nil) {
				if *op == ssa.Value(fn) {
					if cl, ok := in.(ssa.CallInstruction); ok && cl.Common().Value == ssa.Value(fn) {
						continue
					}
					used = true
				}
			}
		})
		if used {
			return 0, false
		}
	}
	var val int64
	for i, cl := range cs {
		c, ok := constInt(cl.Common().Args[idx])
		if !ok {
			return 0, false
		}
		if i > 0 && c != val {
			return 0, false
		}
		val = c
	}
	return val, true
}

// gather collects the facts that hold at instruction `at`.
func (p *prover) gather() {
	p.eng.assumptionsAt(p)
	conds := condsFor(p.at.Block())
	// outermost first
	for i := len(conds) - 1; i >= 0; i-- {
		p.addCond(conds[i])
	}
	for _, c := range p.extraConds {
		p.addCond(c)
	}
	// closures: conditions at the point where the closure was created do not carry over (not used)
}

func sortedKeys(m map[string]bool) []string {
	var out []string
	for k := range m {
		out = append(out, k)
	}
	sort.Strings(out)
	return out
}

var _ = strings.Contains
