package main

import (
	"fmt"
	"go/token"
	"go/types"

	"golang.org/x/tools/go/ssa"
)

// ---------------------------------------------------------------------------------------------
// Loop invariants by the Houdini scheme: a finite set of candidate invariants over the phis of
// loop heads is generated from the shape of the code; candidates that are not preserved by some
// edge (assuming all remaining candidates at loop heads) are dropped until a fixpoint; what
// remains is inductive and is used as facts.
// Candidates for an integer phi P of a loop head B:
//   P >= 0;   P <= len(S) / P <= Q for the bound in a loop condition  P < len(S) / P < Q;
//   P == len(S) for a slice phi S of the same block;   P <= Q, P >= Q for integer phis Q of B.
// ---------------------------------------------------------------------------------------------

type invCand struct {
	Kind string // "ge0", "leLen", "eqLen", "le", "ge", "leVal"
	P    *ssa.Phi
	S    ssa.Value // slice value / phi (leLen, eqLen) or int value (leVal)
	Q    *ssa.Phi
}

func (c invCand) String() string {
	switch c.Kind {
	case "ge0":
		return c.P.Comment + " >= 0"
	case "leLen":
		return c.P.Comment + " <= len(" + pathOf(c.S) + ")"
	case "eqLen":
		return c.P.Comment + " == len(" + pathOf(c.S) + ")"
	case "le":
		return c.P.Comment + " <= " + c.Q.Comment
	case "ge":
		return c.P.Comment + " >= " + c.Q.Comment
	case "leVal":
		return c.P.Comment + " <= " + pathOf(c.S)
	case "ltLen":
		return c.P.Comment + " < len(" + pathOf(c.S) + ")"
	case "ltVal":
		return c.P.Comment + " < " + pathOf(c.S)
	}
	return "?"
}

// goals returns the linear goals (each >= 0) of the candidate, with the phis replaced by the
// values flowing in over edge i (i < 0: the phis themselves).
func (c invCand) goals(p *prover, edge int) []linExpr {
	val := func(ph *ssa.Phi) ssa.Value {
		if edge >= 0 {
			return ph.Edges[edge]
		}
		return ph
	}
	sv := func(v ssa.Value) ssa.Value {
		if ph, ok := v.(*ssa.Phi); ok && edge >= 0 && ph.Block() == c.P.Block() {
			return ph.Edges[edge]
		}
		return v
	}
	lp := p.lin(val(c.P))
	switch c.Kind {
	case "ge0":
		return []linExpr{lp}
	case "leLen":
		return []linExpr{p.lenOf(sv(c.S)).sub(lp)}
	case "eqLen":
		l := p.lenOf(sv(c.S))
		return []linExpr{l.sub(lp), lp.sub(l)}
	case "le":
		return []linExpr{p.lin(val(c.Q)).sub(lp)}
	case "ge":
		return []linExpr{lp.sub(p.lin(val(c.Q)))}
	case "leVal":
		return []linExpr{p.lin(sv(c.S)).sub(lp)}
	case "ltLen":
		return []linExpr{p.lenOf(sv(c.S)).sub(lp).add(linConst(-1))}
	case "ltVal":
		return []linExpr{p.lin(sv(c.S)).sub(lp).add(linConst(-1))}
	}
	return nil
}

type invSet struct {
	cands []invCand
	live  []bool
}

var invCache = map[*ssa.Function]*invSet{}
var invBusy = map[*ssa.Function]bool{}

func (e *bndEngine) invariantsOf(fn *ssa.Function) *invSet {
	if s, ok := invCache[fn]; ok {
		return s
	}
	if invBusy[fn] {
		return nil
	}
	invBusy[fn] = true
	defer delete(invBusy, fn)
	s := &invSet{}
	for _, b := range fn.Blocks {
		if !isLoopHead(b) {
			continue
		}
		var ints, slices []*ssa.Phi
		for _, in := range b.Instrs {
			ph, ok := in.(*ssa.Phi)
			if !ok {
				break
			}
			if isIntType(ph.Type()) {
				ints = append(ints, ph)
			} else if _, isSl := ph.Type().Underlying().(*types.Slice); isSl {
				slices = append(slices, ph)
			}
		}
		for _, p := range ints {
			s.cands = append(s.cands, invCand{Kind: "ge0", P: p})
			for _, sl := range slices {
				s.cands = append(s.cands, invCand{Kind: "eqLen", P: p, S: sl}, invCand{Kind: "leLen", P: p, S: sl})
			}
			for _, q := range ints {
				if q != p {
					s.cands = append(s.cands, invCand{Kind: "le", P: p, Q: q})
				}
			}
			// slices (parameters or other loop-independent values) indexed or sliced anywhere in the function
			seenS := map[ssa.Value]bool{}
			eachInstr(fn, func(in ssa.Instruction) {
				var sx ssa.Value
				switch x := in.(type) {
				case *ssa.IndexAddr:
					sx = x.X
				case *ssa.Slice:
					sx = x.X
				}
				if sx == nil || seenS[sx] || len(s.cands) > 60 {
					return
				}
				if _, isArr := arrayLen(sx.Type()); isArr {
					return
				}
				switch sx.(type) {
				case *ssa.Parameter, *ssa.Phi, *ssa.MakeSlice, *ssa.Call:
					seenS[sx] = true
					s.cands = append(s.cands, invCand{Kind: "leLen", P: p, S: sx})
				}
			})
			// bounds from conditions comparing the phi: P < X, P <= X (anywhere in the function)
			eachInstr(fn, func(in ssa.Instruction) {
				bo, ok := in.(*ssa.BinOp)
				if !ok || !(bo.Op == token.LSS || bo.Op == token.LEQ || bo.Op == token.GTR || bo.Op == token.GEQ) {
					return
				}
				// rotated loops (range over an int / a slice compiled with the test at the bottom): the body is entered
				// under "0 < X" and repeated under "P+1 < X", so P < X holds in the body
				if inc := asBinOp(bo.X, token.ADD); inc != nil && inc.X == ssa.Value(p) && bo.Op == token.LSS {
					if one, isC := constInt(inc.Y); isC && one == 1 {
						if cl, ok := bo.Y.(*ssa.Call); ok && isCall(cl, "builtin len") {
							s.cands = append(s.cands, invCand{Kind: "ltLen", P: p, S: cl.Call.Args[0]})
						} else if _, isPhi := bo.Y.(*ssa.Phi); !isPhi {
							s.cands = append(s.cands, invCand{Kind: "ltVal", P: p, S: bo.Y})
						}
					}
				}
				var other ssa.Value
				if bo.X == ssa.Value(p) && (bo.Op == token.LSS || bo.Op == token.LEQ) {
					other = bo.Y
				} else if bo.Y == ssa.Value(p) && (bo.Op == token.GTR || bo.Op == token.GEQ) {
					other = bo.X
				}
				if other == nil {
					return
				}
				if cl, ok := other.(*ssa.Call); ok && isCall(cl, "builtin len") {
					s.cands = append(s.cands, invCand{Kind: "leLen", P: p, S: cl.Call.Args[0]})
				} else if _, isPhi := other.(*ssa.Phi); !isPhi {
					s.cands = append(s.cands, invCand{Kind: "leVal", P: p, S: other})
				}
			})
		}
	}
	s.live = make([]bool, len(s.cands))
	for i := range s.live {
		s.live[i] = true
	}
	invCache[fn] = s // visible (with the current live set) to provers created below
	if len(s.cands) == 0 {
		return s
	}
	for round := 0; round < 12; round++ {
		changed := false
		for ci, c := range s.cands {
			if !s.live[ci] {
				continue
			}
			b := c.P.Block()
			ok := true
			for i, pred := range b.Preds {
				q := e.newProver(fn, pred.Instrs[len(pred.Instrs)-1])
				q.noInvFor = nil
				if !(pred == b || b.Dominates(pred)) {
					// entry edge: hypotheses about this loop's own phis (and nested ones) do not hold yet
					q.noInvFor = b
				}
				q.gather()
				if len(pred.Instrs) > 0 {
					if ifi, isIf := pred.Instrs[len(pred.Instrs)-1].(*ssa.If); isIf && pred.Succs[0] != pred.Succs[1] {
						q.addCond(Cond{ifi.Cond, pred.Succs[0] == b, ifi})
					}
				}
				for _, g := range c.goals(q, i) {
					if !q.holds(g) {
						ok = false
						break
					}
				}
				if !ok {
					break
				}
			}
			if !ok {
				s.live[ci] = false
				changed = true
			}
		}
		if !changed {
			break
		}
	}
	return s
}

// phiInvariants adds the surviving invariants that mention phi x.
func (e *bndEngine) phiInvariants(p *prover, x *ssa.Phi, k string) {
	if x.Parent() != p.fn || p.prefix != FuncName(p.fn)+"/" {
		return
	}
	s := e.invariantsOf(p.fn)
	if s == nil {
		return
	}
	if p.invAdded == nil {
		p.invAdded = map[int]bool{}
	}
	for ci, c := range s.cands {
		if !s.live[ci] || p.invAdded[ci] || c.P != x {
			continue
		}
		if p.noInvFor != nil && (c.P.Block() == p.noInvFor || p.noInvFor.Dominates(c.P.Block())) {
			continue
		}
		p.invAdded[ci] = true
		for _, g := range c.goals(p, -1) {
			p.add(constraint{g, "loop invariant " + c.String() + " (inductive, Houdini)"})
		}
	}
}

func (e *bndEngine) phiLenInvariants(p *prover, s *ssa.Phi, k string) {
	// invariants relating an integer phi to len(s) are added from the integer side; make sure the
	// integer phis of the block are introduced
	if s.Parent() != p.fn {
		return
	}
	for _, in := range s.Block().Instrs {
		ph, ok := in.(*ssa.Phi)
		if !ok {
			break
		}
		if isIntType(ph.Type()) {
			p.lin(ph)
		}
	}
}

var _ = fmt.Sprintf
