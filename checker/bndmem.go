package main

import (
	"fmt"
	"go/token"
	"go/types"
	"sort"
	"strings"

	"golang.org/x/tools/go/ssa"
)

// ---------------------------------------------------------------------------------------------
// Memory versions.  Loads of the same access path (l.pos, timer.Values, a captured variable)
// denote the same value as long as nothing in between may have written it.  memInfo assigns a
// version to every (path, program point) by a forward dataflow: a store to the path (or to a
// possibly aliasing path), or a call that may write it, starts a new version; joins with
// differing versions start a new version.
// ---------------------------------------------------------------------------------------------

type memInfo struct {
	fn      *ssa.Function
	paths   []string
	in      []map[string]string                   // per block: path -> version at block entry
	out     []map[string]string                   // per block: path -> version at block exit
	at      map[ssa.Instruction]map[string]string // version map right BEFORE the instruction (only for loads, stores and calls)
	storeOf map[string]*ssa.Store                 // version id -> defining store
	fieldOf map[string]string                     // path -> "Struct.field" of its last component
	w       *World
}

func lastField(p string) string {
	if i := strings.LastIndex(p, "."); i >= 0 {
		return p[i+1:]
	}
	return p
}

// addrPath returns the access path of an address operand of a load/store, or "" if the
// address is not a trackable location.  Paths are rooted at parameters, free variables,
// locals, globals, or (as "%tN") at an arbitrary SSA value holding a pointer.
func addrPath(a ssa.Value) string {
	switch x := a.(type) {
	case *ssa.Alloc:
		if x.Comment == "" || x.Comment == "complit" || x.Comment == "varargs" {
			return "%" + x.Name()
		}
		return x.Comment
	case *ssa.FreeVar:
		return x.Name()
	case *ssa.Global:
		return x.Pkg.Pkg.Name() + "." + x.Name()
	case *ssa.FieldAddr:
		b := basePath(x.X)
		if b == "" {
			return ""
		}
		return b + "." + fieldName(x.X.Type(), x.Field)
	case *ssa.UnOp:
		// a pointer loaded from a trackable location: the pointee is named "*<path>"
		if x.Op == token.MUL {
			if _, isPtr := x.Type().Underlying().(*types.Pointer); isPtr {
				if p := addrPath(x.X); p != "" {
					return "*" + p
				}
			}
		}
	case *ssa.Field:
		// a pointer stored in a field of an (immutable) struct VALUE, e.g. a by-value receiver:
		// the location it points to is named after the struct value and the field
		if _, isPtr := x.Type().Underlying().(*types.Pointer); isPtr {
			return "*" + valueRoot(x.X) + "." + fieldName(x.X.Type(), x.Field)
		}
	}
	return ""
}

// valueRoot names an SSA struct value.
func valueRoot(v ssa.Value) string {
	switch x := v.(type) {
	case *ssa.Parameter:
		return x.Name()
	case *ssa.UnOp:
		if x.Op == token.MUL {
			if p := addrPath(x.X); p != "" {
				return p
			}
		}
	}
	return "%" + v.Name()
}

// basePath: the location denoted by a pointer-typed (or addressable struct) value.
func basePath(v ssa.Value) string {
	switch x := v.(type) {
	case *ssa.Parameter:
		return x.Name()
	case *ssa.Alloc, *ssa.FreeVar, *ssa.Global, *ssa.FieldAddr:
		return addrPath(v)
	case *ssa.UnOp:
		if x.Op == token.MUL {
			if p := addrPath(x.X); p != "" {
				return p // pointer loaded from a trackable location: implicit dereference
			}
		}
		return "%" + x.Name()
	case nil:
		return ""
	}
	return "%" + v.Name()
}

var writeSetCache = map[*ssa.Function]map[string]bool{}

var immutableFieldsCache map[string]bool

// immutableFields: "Struct.field" pairs that are only ever stored through a value freshly
// allocated in the storing function (composite literals in constructors): once an object is
// published such a field never changes, so neither stores nor calls can invalidate a load.
func immutableFields(w *World) map[string]bool {
	if immutableFieldsCache != nil {
		return immutableFieldsCache
	}
	mutable := map[string]bool{}
	all := map[string]bool{}
	for _, fn := range w.ModuleFuncs() {
		eachInstr(fn, func(in ssa.Instruction) {
			st, ok := in.(*ssa.Store)
			if !ok {
				return
			}
			fa, ok := st.Addr.(*ssa.FieldAddr)
			if !ok {
				return
			}
			key := structName(fa.X.Type()) + "." + fieldName(fa.X.Type(), fa.Field)
			all[key] = true
			if al, isAl := fa.X.(*ssa.Alloc); isAl && (al.Comment == "complit" || al.Comment == "") {
				return
			}
			mutable[key] = true
		})
	}
	// fields whose address is taken (passed around) may be written elsewhere
	for _, fn := range w.ModuleFuncs() {
		eachInstr(fn, func(in ssa.Instruction) {
			fa, ok := in.(*ssa.FieldAddr)
			if !ok {
				return
			}
			key := structName(fa.X.Type()) + "." + fieldName(fa.X.Type(), fa.Field)
			for _, r := range referrers(fa) {
				switch x := r.(type) {
				case *ssa.UnOp, *ssa.FieldAddr, *ssa.IndexAddr:
				case *ssa.Store:
					if x.Addr != ssa.Value(fa) {
						mutable[key] = true // the address itself is stored somewhere
					}
				default:
					mutable[key] = true
				}
			}
		})
	}
	out := map[string]bool{}
	for k := range all {
		if !mutable[k] {
			out[k] = true
		}
	}
	immutableFieldsCache = out
	return out
}

// writeSet returns the field / variable names a function (with the module functions it calls and
// the closures it creates) may store to; "*" if it makes calls we cannot see through.
func writeSet(w *World, fn *ssa.Function, depth int) map[string]bool {
	if ws, ok := writeSetCache[fn]; ok {
		return ws
	}
	ws := map[string]bool{}
	writeSetCache[fn] = ws // cycles: optimistic, filled below
	if depth > 6 || fn.Blocks == nil {
		ws["*"] = true
		return ws
	}
	eachInstr(fn, func(in ssa.Instruction) {
		switch x := in.(type) {
		case *ssa.Store:
			if p := addrPath(x.Addr); p != "" {
				ws[lastField(p)] = true
			} else {
				// store through a computed address (slice element etc.): does not change lengths or
				// integer fields reachable by name; ignore
			}
		case ssa.CallInstruction:
			cc := x.Common()
			if cc.IsInvoke() {
				// interface call: assume it may write anything reachable, except for well-known pure library interfaces
				if n := namedOf(cc.Value.Type()); n != nil && n.Obj().Pkg() != nil && !isModPath(n.Obj().Pkg().Path()) {
					return
				}
				ws["*"] = true
				return
			}
			if _, isB := cc.Value.(*ssa.Builtin); isB {
				return
			}
			cal := staticCallee(x)
			if cal == nil {
				ws["*"] = true
				return
			}
			if !IsModule(cal) {
				return
			}
			for k := range writeSet(w, cal, depth+1) {
				ws[k] = true
			}
		case *ssa.MakeClosure:
			for k := range writeSet(w, x.Fn.(*ssa.Function), depth+1) {
				ws[k] = true
			}
		}
	})
	return ws
}

func newMemInfo(w *World, fn *ssa.Function, extra ...string) *memInfo {
	m := &memInfo{fn: fn, w: w, at: map[ssa.Instruction]map[string]string{}, storeOf: map[string]*ssa.Store{}, fieldOf: map[string]string{}}
	set := map[string]bool{}
	note := func(a ssa.Value) {
		if p := addrPath(a); p != "" {
			set[p] = true
			if fa, ok := a.(*ssa.FieldAddr); ok {
				m.fieldOf[p] = structName(fa.X.Type()) + "." + fieldName(fa.X.Type(), fa.Field)
			}
		}
	}
	eachInstr(fn, func(in ssa.Instruction) {
		switch x := in.(type) {
		case *ssa.UnOp:
			if x.Op == token.MUL {
				note(x.X)
			}
		case *ssa.Store:
			note(x.Addr)
		}
	})
	imm := immutableFields(w)
	for _, p := range extra {
		set[p] = true
	}
	for p := range set {
		m.paths = append(m.paths, p)
	}
	sort.Strings(m.paths)
	n := len(fn.Blocks)
	m.in = make([]map[string]string, n)
	if n == 0 {
		return m
	}
	entry := map[string]string{}
	for _, p := range m.paths {
		entry[p] = "e"
	}
	m.in[0] = entry
	kill := func(st map[string]string, pred func(path string) bool, ver string) {
		for _, p := range m.paths {
			if imm[m.fieldOf[p]] {
				continue // never written after construction
			}
			if pred(p) {
				st[p] = ver
			}
		}
	}
	transfer := func(b *ssa.BasicBlock, st map[string]string, record bool) map[string]string {
		cur := map[string]string{}
		for k, v := range st {
			cur[k] = v
		}
		for i, in := range b.Instrs {
			switch x := in.(type) {
			case *ssa.UnOp:
				if record && x.Op == token.MUL {
					m.at[in] = copyMap(cur)
				}
			case *ssa.Store:
				if record {
					m.at[in] = copyMap(cur)
				}
				p := addrPath(x.Addr)
				ver := fmt.Sprintf("s%d.%d", b.Index, i)
				if p == "" {
					continue
				}
				f := lastField(p)
				isField := strings.Contains(p, ".")
				kill(cur, func(q string) bool {
					if q == p {
						return false
					}
					if strings.HasPrefix(q, p+".") {
						return true
					}
					// possible alias: same final field through a different base
					return isField && strings.Contains(q, ".") && lastField(q) == f && !distinctLocals(fn, p, q)
				}, "k"+ver)
				cur[p] = ver
				if record {
					m.storeOf[ver] = x
				}
			case ssa.CallInstruction:
				if record {
					m.at[in] = copyMap(cur)
				}
				cc := x.Common()
				if _, isB := cc.Value.(*ssa.Builtin); isB {
					continue
				}
				if _, isGo := in.(*ssa.Go); isGo {
					continue // a new goroutine: data races are out of scope
				}
				ver := fmt.Sprintf("c%d.%d", b.Index, i)
				var ws map[string]bool
				if cal := staticCallee(x); cal != nil && !cc.IsInvoke() {
					if IsModule(cal) {
						ws = writeSet(m.w, cal, 0)
					} else {
						// library: may write through pointer arguments to module structs
						ws = map[string]bool{}
						for _, a := range cc.Args {
							if ap := addrPath(a); ap != "" {
								ws["prefix:"+ap] = true
							}
						}
					}
				} else if cc.IsInvoke() {
					if n := namedOf(cc.Value.Type()); n != nil && n.Obj().Pkg() != nil && !isModPath(n.Obj().Pkg().Path()) {
						ws = map[string]bool{}
					} else {
						ws = map[string]bool{"*": true}
					}
				} else {
					// dynamic call of a function value: closures may write captured variables
					ws = map[string]bool{"*": true}
				}
				if len(ws) == 0 {
					continue
				}
				kill(cur, func(q string) bool {
					if ws["*"] {
						return true
					}
					if ws[lastField(q)] {
						return true
					}
					for k := range ws {
						if strings.HasPrefix(k, "prefix:") && (q == k[7:] || strings.HasPrefix(q, k[7:]+".")) {
							return true
						}
					}
					return false
				}, ver)
			}
		}
		return cur
	}
	out := make([]map[string]string, n)
	changed := true
	for iter := 0; changed && iter < 50; iter++ {
		changed = false
		for _, b := range fn.Blocks {
			if b.Index != 0 {
				var merged map[string]string
				for _, p := range b.Preds {
					if out[p.Index] == nil {
						continue
					}
					if merged == nil {
						merged = copyMap(out[p.Index])
						continue
					}
					for _, path := range m.paths {
						if merged[path] != out[p.Index][path] {
							merged[path] = fmt.Sprintf("m%d", b.Index)
						}
					}
				}
				if merged == nil {
					continue
				}
				if !sameMap(m.in[b.Index], merged) {
					m.in[b.Index] = merged
					changed = true
				}
			}
			if m.in[b.Index] == nil {
				continue
			}
			o := transfer(b, m.in[b.Index], false)
			if !sameMap(out[b.Index], o) {
				out[b.Index] = o
				changed = true
			}
		}
	}
	for _, b := range fn.Blocks {
		if m.in[b.Index] != nil {
			transfer(b, m.in[b.Index], true)
		}
	}
	m.out = out
	return m
}

func copyMap(a map[string]string) map[string]string {
	r := make(map[string]string, len(a))
	for k, v := range a {
		r[k] = v
	}
	return r
}

func sameMap(a, b map[string]string) bool {
	if a == nil || b == nil || len(a) != len(b) {
		return false
	}
	for k, v := range a {
		if b[k] != v {
			return false
		}
	}
	return true
}

// distinctLocals: paths p and q are rooted at two different non-escaping local struct
// variables (they cannot alias).
func distinctLocals(fn *ssa.Function, p, q string) bool {
	rp, rq := p, q
	if i := strings.Index(p, "."); i >= 0 {
		rp = p[:i]
	}
	if i := strings.Index(q, "."); i >= 0 {
		rq = q[:i]
	}
	if rp == rq {
		return false
	}
	isLocal := func(name string) bool {
		ok := false
		eachInstr(fn, func(in ssa.Instruction) {
			if al, isAl := in.(*ssa.Alloc); isAl && al.Comment == name {
				ok = true
			}
		})
		return ok
	}
	return isLocal(rp) && isLocal(rq)
}

// versionAt returns the version of path p right before instruction in (which must be a load,
// store or call), or at block entry otherwise.
func (m *memInfo) versionAt(in ssa.Instruction, p string) string {
	if st, ok := m.at[in]; ok {
		return st[p]
	}
	// fall back: walk the block
	b := in.Block()
	cur := m.in[b.Index]
	if cur == nil {
		return "?"
	}
	best := cur[p]
	for _, x := range b.Instrs {
		if x == in {
			break
		}
		if st, ok := m.at[x]; ok {
			_ = st
		}
	}
	// precise fallback: recompute by scanning recorded snapshots before `in`
	for _, x := range b.Instrs {
		if x == in {
			break
		}
		if st, ok := m.at[x]; ok {
			best = st[p]
			// the snapshot is BEFORE x; x itself may change it, which the next snapshot shows
		}
	}
	return best
}

// versionAfter returns the version of p right after instruction in.
func (m *memInfo) versionAfter(in ssa.Instruction, p string) string {
	b := in.Block()
	idx := instrIndex(in)
	for _, x := range b.Instrs[idx+1:] {
		if st, ok := m.at[x]; ok {
			return st[p]
		}
	}
	if m.out != nil && m.out[b.Index] != nil {
		return m.out[b.Index][p]
	}
	return "?"
}

// isLoopHead: block b has a predecessor that it dominates (a back edge).
func isLoopHead(b *ssa.BasicBlock) bool {
	for _, p := range b.Preds {
		if p == b || b.Dominates(p) {
			return true
		}
	}
	return false
}

// mergeBlockOf: for a version id "m<idx>" returns the block.
func (m *memInfo) mergeBlockOf(ver string) *ssa.BasicBlock {
	if !strings.HasPrefix(ver, "m") {
		return nil
	}
	var idx int
	if _, err := fmt.Sscanf(ver, "m%d", &idx); err != nil || idx < 0 || idx >= len(m.fn.Blocks) {
		return nil
	}
	return m.fn.Blocks[idx]
}
