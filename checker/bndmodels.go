package main

import (
	"fmt"
	"go/token"
	"go/types"
	"strings"

	"golang.org/x/tools/go/ssa"
)

// ---------------------------------------------------------------------------------------------
// Models of library functions, declared assumptions and lemmas.  Every entry that is used for
// a proof is named in the evidence ("assumptions").
// ---------------------------------------------------------------------------------------------

func (p *prover) eqFact(a, b linExpr, why string) {
	p.add(constraint{a.sub(b), why})
	p.add(constraint{b.sub(a), why})
}

// callModel: integer results of library / module calls.
func (e *bndEngine) callModel(p *prover, x *ssa.Call, cal *ssa.Function, k string) {
	name := cal.String()
	switch {
	case name == "bytes.IndexByte" || name == "strings.IndexByte" || name == "strings.Index" || name == "bytes.Index" || name == "strings.LastIndex" || name == "strings.IndexRune" || name == "strings.LastIndexByte":
		p.add(constraint{linVar(k).add(linConst(1)), "index functions return >= -1"})
		p.add(constraint{p.lenOf(x.Call.Args[0]).sub(linVar(k)).add(linConst(-1)), "index functions return < len"})
		p.used["model: "+name+" returns -1 <= r < len(s)"] = true
		if st, f, _, ok := fieldRefThroughLoad(x.Call.Args[0]); ok && st == "Percentile" && f == "Str" {
			if sep, isS := constString(x.Call.Args[1]); isS && sep == "_" {
				p.add(constraint{linVar(k), "percentile names contain '_'"})
				p.used["lemma L9: every Percentile.Str is built as <prefix ending in '_'> + number (witnessed by C08.R1 name:* obligations and the single Percentiles.Set caller)"] = true
			}
		}
	case strings.HasPrefix(name, "slices.IndexFunc") || strings.HasPrefix(name, "slices.Index["):
		p.add(constraint{linVar(k).add(linConst(1)), "index functions return >= -1"})
		p.add(constraint{p.lenOf(x.Call.Args[0]).sub(linVar(k)).add(linConst(-1)), "index functions return < len"})
		p.used["model: slices.Index / slices.IndexFunc return -1 <= r < len(s)"] = true
	case strings.HasSuffix(name, ".Len") && (strings.Contains(name, "strings.Builder") || strings.Contains(name, "bytes.Buffer")):
		p.add(constraint{linVar(k), "Len() >= 0"})
	case FuncName(cal) == "pkg/statsd.min":
		for _, a := range x.Call.Args {
			p.add(constraint{p.lin(a).sub(linVar(k)), "min(a,b) <= each argument"})
		}
		p.used["summary: pkg/statsd.min returns a value <= both arguments (checked structurally by C08.R3 min:is-minimum)"] = true
	}
}

// lenModel: lengths of slice / string / map results.
func (e *bndEngine) lenModel(p *prover, x *ssa.Call, cal *ssa.Function, k string) {
	name := cal.String()
	switch {
	case name == "strings.Split":
		p.add(constraint{linVar(k).add(linConst(-1)), "strings.Split returns at least one element"})
		p.used["model: strings.Split with a non-empty separator returns >= 1 element"] = true
	case name == "(*strings.Builder).String" || name == "(*bytes.Buffer).String" || name == "(*bytes.Buffer).Bytes":
		e.builderLenModel(p, x, k)
	case name == "strings.SplitN":
		if n, ok := constInt(x.Call.Args[2]); ok && n >= 2 {
			// dominated by strings.Contains(s, sep) == true with the same s and sep: at least two parts
			for _, cd := range condsFor(x.Block()) {
				cd = normCond(cd)
				if cc, ok := cd.V.(*ssa.Call); ok && isCall(cc, "strings.Contains") && cd.Sense && cc.Call.Args[0] == x.Call.Args[0] {
					s1, ok1 := constString(cc.Call.Args[1])
					s2, ok2 := constString(x.Call.Args[1])
					if ok1 && ok2 && s1 == s2 && s1 != "" {
						p.add(constraint{linVar(k).add(linConst(-2)), "Contains(s, sep) implies SplitN(s, sep, n>=2) has two parts"})
						p.used["model: strings.Contains(s, sep) implies len(strings.SplitN(s, sep, n>=2)) >= 2"] = true
					}
				}
			}
		}
		if n, ok := constInt(x.Call.Args[2]); ok && n > 0 {
			p.add(constraint{linVar(k).add(linConst(-1)), "SplitN(n>0) returns at least one element"})
			p.add(constraint{linConst(n).sub(linVar(k)), "SplitN returns at most n elements"})
			p.used["model: strings.SplitN(s, sep, n>0) returns 1..n elements"] = true
		}
	case name == "(*regexp.Regexp).SubexpNames":
		p.eqFact(linVar(k), linVar(p.valKey(x.Call.Args[0])+"#nsub").add(linConst(1)), "len(SubexpNames) = NumSubexp+1")
		p.add(constraint{linVar(p.valKey(x.Call.Args[0]) + "#nsub"), "NumSubexp >= 0"})
		p.used["model: regexp SubexpNames / FindStringSubmatch (when non-nil) both have NumSubexp()+1 elements"] = true
	case FuncName(cal) == "(*gostatsd.MetricMap).Split":
		p.eqFact(linVar(k), p.lin(x.Call.Args[1]), "Split(count) returns count maps")
		p.used["summary: MetricMap.Split(count) returns a slice of length count (witnessed by C06.R2 Split:maps-sized-by-count and Split:returns-maps)"] = true
	case strings.HasPrefix(name, "golang.org/x/exp/maps.Keys") || strings.HasPrefix(name, "golang.org/x/exp/maps.Values"):
		p.eqFact(linVar(k), p.lenOf(x.Call.Args[0]), "maps.Keys/Values return one element per entry")
		p.used["model: maps.Keys(m) has len(m) elements"] = true
	case strings.HasPrefix(name, "slices.Sorted[") || strings.HasPrefix(name, "slices.Collect[") || name == "slices.Sorted" || name == "slices.Collect":
		// slices.Sorted(maps.Keys(m)) / slices.Collect(maps.Values(m)): one element per map entry
		if it, ok := x.Call.Args[0].(*ssa.Call); ok {
			if ic := staticCallee(it); ic != nil && (strings.HasPrefix(ic.String(), "maps.Keys") || strings.HasPrefix(ic.String(), "maps.Values")) {
				p.eqFact(linVar(k), p.lenOf(it.Call.Args[0]), "collecting the keys/values of a map yields one element per entry")
				p.used["model: slices.Sorted/Collect(maps.Keys/Values(m)) has len(m) elements"] = true
			}
		}
	case strings.HasPrefix(name, "slices.AppendSeq[") || name == "slices.AppendSeq":
		if it, ok := x.Call.Args[1].(*ssa.Call); ok {
			if ic := staticCallee(it); ic != nil && (strings.HasPrefix(ic.String(), "maps.Keys") || strings.HasPrefix(ic.String(), "maps.Values")) {
				p.eqFact(linVar(k), p.lenOf(x.Call.Args[0]).add(p.lenOf(it.Call.Args[0])), "appending the keys/values of a map adds one element per entry")
				p.used["model: slices.AppendSeq(s, maps.Keys/Values(m)) has len(s)+len(m) elements"] = true
			}
		}
	}
}

// nonNilFacts: v is known (non-)nil on this path.
func (e *bndEngine) nonNilFacts(p *prover, v ssa.Value, nonNil bool) {
	if !nonNil {
		return
	}
	if cl, ok := v.(*ssa.Call); ok && isCall(cl, "(*regexp.Regexp).FindStringSubmatch") {
		k := p.lenKey(v)
		p.lenOf(v)
		ns := linVar(p.valKey(cl.Call.Args[0]) + "#nsub")
		p.eqFact(linVar(k), ns.add(linConst(1)), "non-nil submatch has NumSubexp+1 elements")
		p.add(constraint{ns, "NumSubexp >= 0"})
		p.used["model: regexp SubexpNames / FindStringSubmatch (when non-nil) both have NumSubexp()+1 elements"] = true
	}
}

// condModel: non-comparison branch conditions.
func (e *bndEngine) condModel(p *prover, c Cond) {
	if cl, ok := c.V.(*ssa.Call); ok {
		if (isCall(cl, "strings.HasPrefix") || isCall(cl, "bytes.HasPrefix") || isCall(cl, "strings.HasSuffix")) && c.Sense {
			p.add(constraint{p.lenOf(cl.Call.Args[0]).sub(p.lenOf(cl.Call.Args[1])), "HasPrefix(s,p) implies len(s) >= len(p)"})
		}
	}
	// float comparisons with lemmas
	if b, ok := c.V.(*ssa.BinOp); ok && b.Op == token.EQL && c.Sense {
		if cl, ok := b.X.(*ssa.Call); ok && isCall(cl, "math.Mod") {
			// math.Mod(float64(n), 2) == 0  =>  n is even; with n >= 1 this gives n >= 2
			if n := floatOfInt(cl.Call.Args[0]); n != nil {
				if two, isC := cl.Call.Args[1].(*ssa.Const); isC && two.Value != nil && two.Value.String() == "2" {
					ln := p.lin(n)
					if p.holds(ln.add(linConst(-1))) {
						p.add(constraint{ln.add(linConst(-2)), "n even and n >= 1 implies n >= 2"})
						p.used["lemma L3: math.Mod(float64(n), 2) == 0 means n is even (exact for n < 2^53)"] = true
					}
				}
			}
		}
	}
}

// floatOfInt: v is float64(n) for an integer n (possibly through a phi-free chain); returns n.
func floatOfInt(v ssa.Value) ssa.Value {
	if cv, ok := v.(*ssa.Convert); ok && isIntType(cv.X.Type()) {
		return cv.X
	}
	return nil
}

// floatConvFacts: integer results of float computations (lemmas by structural match).
func (e *bndEngine) floatConvFacts(p *prover, x *ssa.Convert, r linExpr) {
	cl, ok := x.X.(*ssa.Call)
	if !ok {
		return
	}
	// L1: int(round(math.Abs(pct) / 100 * float64(n)))  with |pct| <= 100  =>  0 <= k <= n
	if cal := staticCallee(cl); cal != nil && FuncName(cal) == "pkg/statsd.round" {
		if m := asBinOp(cl.Call.Args[0], token.MUL); m != nil {
			if q := asBinOp(m.X, token.QUO); q != nil {
				if ac, ok := q.X.(*ssa.Call); ok && isCall(ac, "math.Abs") {
					if c, isC := q.Y.(*ssa.Const); isC && c.Value != nil && c.Value.String() == "100" {
						if n := floatOfInt(m.Y); n != nil {
							p.add(constraint{r, "rank >= 0"})
							p.add(constraint{p.lin(n).sub(r), "rank <= n"})
							p.used["lemma L1 (assumption of the property's quantifier): percentile thresholds satisfy |p| <= 100, hence 0 <= round(|p|/100*n) <= n"] = true
						}
					}
				}
			}
		}
	}
	// L2: int(math.Floor(float64(n) / 2))  =>  2*mid <= n <= 2*mid+1
	if isCall(cl, "math.Floor") {
		if q := asBinOp(cl.Call.Args[0], token.QUO); q != nil {
			if c, isC := q.Y.(*ssa.Const); isC && c.Value != nil && c.Value.String() == "2" {
				if n := floatOfInt(q.X); n != nil {
					ln := p.lin(n)
					p.add(constraint{ln.sub(r.scale(2)), "2*floor(n/2) <= n"})
					p.add(constraint{r.scale(2).add(linConst(1)).sub(ln), "n <= 2*floor(n/2)+1"})
					p.used["lemma L2: int(math.Floor(float64(n)/2)) = floor(n/2) (exact for n < 2^53)"] = true
				}
			}
		}
	}
}

// extractFacts: integer components of tuple results.
func (e *bndEngine) extractFacts(p *prover, x *ssa.Extract, k string) {
	cl, ok := x.Tuple.(*ssa.Call)
	if !ok {
		return
	}
	cc := cl.Common()
	if cc.IsInvoke() && cc.Method.Name() == "ReadBatch" && x.Index == 0 {
		// module interface BatchReader: witnessed by checkReadBatchContract
		p.add(constraint{linVar(k), "ReadBatch returns n >= 0"})
		p.add(constraint{p.lenOf(cc.Args[0]).sub(linVar(k)), "ReadBatch returns n <= len(ms)"})
		p.used["lemma L4: BatchReader.ReadBatch returns 0 <= n <= len(ms) (module implementations checked structurally; x/net ReadBatch documented contract)"] = true
	}
	if cal := staticCallee(cl); cal != nil && strings.HasPrefix(cal.String(), "slices.BinarySearch") && x.Index == 0 {
		p.add(constraint{linVar(k), "BinarySearch returns 0 <= i"})
		p.add(constraint{p.lenOf(cc.Args[0]).sub(linVar(k)), "BinarySearch returns i <= len"})
		// found on this path?
		for _, cd := range condsFor(p.at.Block()) {
			cd = normCond(cd)
			if ex, ok := cd.V.(*ssa.Extract); ok && ex.Tuple == x.Tuple && ex.Index == 1 && cd.Sense {
				p.add(constraint{p.lenOf(cc.Args[0]).sub(linVar(k)).add(linConst(-1)), "found implies i < len"})
			}
		}
		p.used["model: slices.BinarySearch* returns 0 <= i <= len(s), and i < len(s) when found"] = true
	}
	if cal := staticCallee(cl); cal != nil {
		if strings.Contains(cal.String(), "golang.org/x/net/") && cal.Name() == "ReadBatch" && x.Index == 0 {
			p.add(constraint{linVar(k), "ReadBatch returns n >= 0"})
			p.add(constraint{p.lenOf(cc.Args[len(cc.Args)-2]).sub(linVar(k)), "ReadBatch returns n <= len(ms)"})
			p.used["model: golang.org/x/net ipv6.PacketConn.ReadBatch returns 0 <= n <= len(ms)"] = true
		}
	}
}

func (e *bndEngine) extractLenFacts(p *prover, x *ssa.Extract, k string) {
	// findTag(a, prefix) returns (tag, true) only for a tag that has the prefix
	if cl, ok := x.Tuple.(*ssa.Call); ok && x.Index == 0 {
		if cal := staticCallee(cl); cal != nil && FuncName(cal) == "pkg/statsd.findTag" {
			for _, cd := range condsFor(p.at.Block()) {
				cd = normCond(cd)
				if ex, ok := cd.V.(*ssa.Extract); ok && ex.Tuple == x.Tuple && ex.Index == 1 && cd.Sense {
					p.add(constraint{linVar(k).sub(p.lenOf(cl.Call.Args[1])), "findTag returns a tag with the prefix"})
					p.used["summary: pkg/statsd.findTag returns (n, true) only under strings.HasPrefix(n, prefix) (witnessed by C04.R1a findTag-shape)"] = true
				}
			}
		}
	}
}

// builderLenModel: length of sb.String() relative to sb.Len() / to the writes that precede it.
func (e *bndEngine) builderLenModel(p *prover, x *ssa.Call, k string) {
	recv := x.Call.Args[0]
	isWrite := func(cl ssa.CallInstruction) bool {
		cal := staticCallee(cl)
		if cal == nil || len(cl.Common().Args) == 0 || cl.Common().Args[0] != recv {
			return false
		}
		n := cal.Name()
		return strings.HasPrefix(n, "Write") || n == "Reset" || n == "Grow" || n == "Truncate"
	}
	// (a) a dominating sb.Len() with no write in between
	for _, cl := range callsIn(p.fn) {
		cal := staticCallee(cl)
		if cal == nil || cal.Name() != "Len" || len(cl.Common().Args) == 0 || cl.Common().Args[0] != recv {
			continue
		}
		lc, ok := cl.(*ssa.Call)
		if !ok || !instrDominates(lc, x) {
			continue
		}
		clean := true
		for _, w := range callsIn(p.fn) {
			if isWrite(w) && instrReaches(lc, w) && instrReaches(w, x) {
				clean = false
			}
		}
		if clean {
			p.eqFact(linVar(k), p.lin(lc), "len(sb.String()) == sb.Len() (no write in between)")
			p.used["model: strings.Builder: len(String()) == Len() when nothing was written in between"] = true
		}
	}
	// (b) a completed range loop over a non-empty map whose body always writes at least one byte
	eachInstr(p.fn, func(in ssa.Instruction) {
		rg, ok := in.(*ssa.Range)
		if !ok {
			return
		}
		if _, isMap := rg.X.Type().Underlying().(*types.Map); !isMap {
			return
		}
		var next *ssa.Next
		for _, rf := range referrers(rg) {
			if n, ok := rf.(*ssa.Next); ok {
				next = n
			}
		}
		if next == nil {
			return
		}
		head := next.Block()
		body, done := head.Succs[0], head.Succs[1]
		if !(done == x.Block() || done.Dominates(x.Block())) {
			return
		}
		// a write of a non-empty constant on every path through the body
		pd := newPostDom(p.fn)
		wrote := false
		for _, w := range callsIn(p.fn) {
			if !isWrite(w) || !(w.Block() == body || body.Dominates(w.Block())) {
				continue
			}
			cal := staticCallee(w)
			nonEmpty := cal.Name() == "WriteByte" || cal.Name() == "WriteRune"
			if cal.Name() == "WriteString" {
				if sv, ok := constString(w.Common().Args[1]); ok && sv != "" {
					nonEmpty = true
				}
			}
			if nonEmpty && (w.Block() == body || pd.PostDominates(w.Block(), body)) {
				wrote = true
			}
		}
		if !wrote {
			return
		}
		// no Reset/Truncate between loop and String
		for _, w := range callsIn(p.fn) {
			if cal := staticCallee(w); cal != nil && (cal.Name() == "Reset" || cal.Name() == "Truncate") && len(w.Common().Args) > 0 && w.Common().Args[0] == recv {
				return
			}
		}
		if p.holds(p.lenOf(rg.X).add(linConst(-1))) {
			p.add(constraint{linVar(k).add(linConst(-1)), "a loop over a non-empty map wrote at least one byte"})
			p.used["lemma L8: after ranging over a non-empty map with an unconditional non-empty write per iteration the builder is non-empty"] = true
		}
	})
}

// fieldFactsFor: configuration assumptions on integer fields.
func (e *bndEngine) fieldFactsFor(p *prover, ld *ssa.UnOp, k string) {
	if st, f, _, ok := fieldRef(ld.X); ok {
		if lb, ok := e.fieldFacts[st+"."+f]; ok {
			p.add(constraint{linVar(k).add(linConst(-lb)), "configuration assumption"})
			p.add(constraint{linConst(1<<31 - 1).sub(linVar(k)), "configuration assumption"})
			p.used[fmt.Sprintf("configuration assumption: %d <= %s.%s < 2^31", lb, st, f)] = true
		}
	}
}

// lenFieldFacts: lemmas about the length of loaded slice fields.
func (e *bndEngine) lenFieldFacts(p *prover, ld *ssa.UnOp, k string) {
	if st, f, _, ok := fieldRef(ld.X); ok {
		if st == "Message" && f == "Buffers" {
			// every Message.Buffers is a pooled *[][]byte created with exactly one buffer
			p.add(constraint{linVar(k).add(linConst(-1)), "Message.Buffers holds one buffer"})
			p.used["lemma L5: Message.Buffers always comes from DatagramBufferPool whose New creates [][]byte{make([]byte, n)} (one element; witnessed by C03.R2 pool-shape)"] = true
		}
	}
	if st, f, base, ok := fieldRef(ld.X); ok && st == "BackendHandler" && f == "workers" {
		nw := basePath(base) + ".numWorkers"
		ver := p.mem.versionAt(ld, nw)
		if ver == "" {
			ver = "e"
		}
		nk := p.prefix + "M:" + nw + "@" + ver
		if !p.defined[nk] {
			p.defined[nk] = true
			p.rangeFacts(nk, types.Typ[types.Int])
			p.add(constraint{linVar(nk).add(linConst(-1)), "configuration assumption"})
			p.add(constraint{linConst(1<<31 - 1).sub(linVar(nk)), "configuration assumption"})
		}
		p.eqFact(linVar(k), linVar(nk), "len(bh.workers) == bh.numWorkers")
		p.used["lemma L7: len(BackendHandler.workers) == BackendHandler.numWorkers (both set once from the same constructor parameter, witnessed by C06.R3 NewBackendHandler:same-count and C03.R2a frame check)"] = true
	}
	if st, f, _, ok := fieldRef(ld.X); ok && e.nonEmptyField(st, f) {
		p.add(constraint{linVar(k).add(linConst(-1)), st + "." + f + " is never empty"})
		p.used["lemma L10: "+st+"."+f+" is created with one element and only ever appended to (every store checked module-wide)"] = true
	}
	// Message.N <= len(Buffers[0]) is handled as lemma L6 at the slice site
}

// assumptions that depend on the function being analysed --------------------------------------

// lexerRoot: the name under which fn reaches the Lexer ("l" for the parameter or captured variable).
func lexerRoot(fn *ssa.Function) string {
	for _, prm := range fn.Params {
		if typeIs(prm.Type(), lexPkg, "Lexer") && prm.Name() == "l" {
			return "l"
		}
	}
	for _, fv := range fn.FreeVars {
		if fv.Name() == "l" {
			return "l"
		}
	}
	for _, prm := range fn.Params {
		if typeIs(prm.Type(), lexPkg, "Lexer") {
			return prm.Name()
		}
	}
	return ""
}

// assumptionsAt adds the lexer's object invariant (Stage A: assumed at function entry, at loop
// heads and after calls of lexer helpers - NOT at if-joins, which are handled by case
// splitting) and the post-condition of (*Lexer).next.
func (e *bndEngine) assumptionsAt(p *prover) {
	if !e.lexerFuncs[p.fn] {
		return
	}
	m := p.mem
	root := lexerRoot(p.fn)
	if root == "" {
		return
	}
	free := func(v string) bool {
		if v == "e" || strings.HasPrefix(v, "c") {
			return true
		}
		if b := m.mergeBlockOf(v); b != nil && isLoopHead(b) {
			return true
		}
		return false
	}
	mk := func(path, ver string) string { return p.prefix + "M:" + path + "@" + ver }
	type tup [4]string
	seen := map[tup]bool{}
	addINV := func(st map[string]string) {
		t := tup{st[root+".input"], st[root+".len"], st[root+".start"], st[root+".pos"]}
		if seen[t] {
			return
		}
		seen[t] = true
		vin := linVar("len(" + mk(root+".input", t[0]) + ")")
		vlen, vstart, vpos := linVar(mk(root+".len", t[1])), linVar(mk(root+".start", t[2])), linVar(mk(root+".pos", t[3]))
		p.defined["len("+mk(root+".input", t[0])+")"] = true
		p.add(constraint{vin, "len >= 0"})
		for _, v := range []linExpr{vlen, vstart, vpos} {
			p.add(constraint{v, "unsigned"})
			p.add(constraint{linConst(1<<32 - 1).sub(v), "max of type"})
		}
		fi, fl, fs, fp := free(t[0]), free(t[1]), free(t[2]), free(t[3])
		if fl {
			p.add(constraint{linConst(65535).sub(vlen), "A2: a line is at most 65535 bytes"})
		}
		if fi {
			p.add(constraint{linConst(65535).sub(vin), "A2: a line is at most 65535 bytes"})
		}
		if fi && fl {
			p.eqFact(vlen, vin, "INV: l.len == len(l.input)")
		}
		if fs && fp {
			p.add(constraint{vpos.sub(vstart), "INV: start <= pos"})
		}
		if fp && fl {
			p.add(constraint{vlen.sub(vpos), "INV: pos <= len"})
		}
		if fs && fl {
			p.add(constraint{vlen.sub(vstart), "INV: start <= len"})
		}
	}
	p.used["INV (Stage A: assumed at function entry, at loop heads and after lexer helper calls; established by Run and preserved by lexKeySep, see C03.R2a): l.len == len(l.input) <= 65535 and l.start <= l.pos <= l.len"] = true
	for _, b := range p.fn.Blocks {
		if m.in[b.Index] != nil {
			addINV(m.in[b.Index])
		}
		if m.out != nil && m.out[b.Index] != nil {
			addINV(m.out[b.Index])
		}
	}
	for _, b := range p.fn.Blocks {
		for _, in := range b.Instrs {
			if st, ok := m.at[in]; ok {
				addINV(st)
			}
		}
	}
	// state entry conditions
	if p.fn.Name() == "lexKey" || p.fn.Name() == "lexValue" {
		vs, vp := linVar(mk(root+".start", "e")), linVar(mk(root+".pos", "e"))
		p.add(gt(vp, vs, "entry condition of "+p.fn.Name()+": start < pos"))
		p.used["state entry condition: "+p.fn.Name()+" is entered with l.start < l.pos (checked at every site that returns it, C03.R2a)"] = true
	}
	// (*Lexer).next post-condition at every call in this function
	geq := map[string][]string{} // after-version -> before-versions it is >= to
	for _, cl := range callsIn(p.fn) {
		cal := staticCallee(cl)
		if cal == nil || cal.Name() != "next" || !e.lexerFuncs[cal] {
			continue
		}
		call, ok := cl.(*ssa.Call)
		if !ok {
			continue
		}
		before := m.versionAt(call, root+".pos")
		after := m.versionAfter(call, root+".pos")
		if before == "" || after == "" || after == "?" || before == "?" {
			continue
		}
		vb, va := linVar(mk(root+".pos", before)), linVar(mk(root+".pos", after))
		p.add(constraint{va.sub(vb), "next(): pos never decreases"})
		p.add(constraint{vb.add(linConst(1)).sub(va), "next(): pos advances by at most 1"})
		geq[after] = append(geq[after], before)
		if lv := m.versionAt(call, root+".len"); lv != "" {
			p.add(constraint{linVar(mk(root+".len", lv)).sub(va), "next(): pos <= len afterwards"})
		}
		if e.nonZeroAt(p, call) {
			p.add(constraint{va.sub(vb).add(linConst(-1)), "next() returned a non-zero byte: pos advanced"})
		}
		p.used["post-condition of (*Lexer).next: pos' in {pos, pos+1}, pos' <= len, and pos' = pos+1 when the returned byte is non-zero (witnessed by C03.R2a next-shape)"] = true
	}
	// induction over loop-head merges of pos: if every back edge carries a version that is >= the
	// merged one (only next() moved pos), the merged version is >= the version entering the loop
	for _, b := range p.fn.Blocks {
		if !isLoopHead(b) || m.in[b.Index] == nil {
			continue
		}
		mv := m.in[b.Index][root+".pos"]
		if m.mergeBlockOf(mv) != b {
			continue
		}
		var outside []string
		okMono := true
		for _, pr := range b.Preds {
			if m.out[pr.Index] == nil {
				continue
			}
			v := m.out[pr.Index][root+".pos"]
			if pr == b || b.Dominates(pr) {
				// back edge: v >=* mv ?
				seenV := map[string]bool{}
				var reach func(x string) bool
				reach = func(x string) bool {
					if x == mv {
						return true
					}
					if seenV[x] {
						return false
					}
					seenV[x] = true
					for _, y := range geq[x] {
						if reach(y) {
							return true
						}
					}
					return false
				}
				if !reach(v) {
					okMono = false
				}
			} else {
				outside = append(outside, v)
			}
		}
		if okMono && len(outside) == 1 {
			p.add(constraint{linVar(mk(root+".pos", mv)).sub(linVar(mk(root+".pos", outside[0]))), "pos only advances inside the loop (induction over the back edges)"})
		}
	}
}

// nonZeroAt: do the path conditions at p.at imply that the byte returned by call is non-zero?
func (e *bndEngine) nonZeroAt(p *prover, call *ssa.Call) bool {
	if !(call.Block() == p.at.Block() || call.Block().Dominates(p.at.Block())) {
		return false
	}
	// exhaustive byte decision: where does byte 0 go?  If the query point cannot be reached from
	// there without reading another byte, the byte read was non-zero.
	if call.Block() != p.at.Block() {
		tab := byteDecision(call, call.Block(), instrIndex(call)+1)
		if tab[0].Undecid == "" && tab[0].Block != nil {
			leaf0 := tab[0].Block
			reach := map[*ssa.BasicBlock]bool{leaf0: true}
			stack := []*ssa.BasicBlock{leaf0}
			for len(stack) > 0 {
				b := stack[len(stack)-1]
				stack = stack[:len(stack)-1]
				for _, s := range b.Succs {
					if s == call.Block() || reach[s] {
						continue
					}
					reach[s] = true
					stack = append(stack, s)
				}
			}
			// the decision tree's inner blocks between the call and the leaves are shared by all bytes;
			// p.at must lie beyond a leaf, i.e. not be one of the pure comparison blocks
			if !reach[p.at.Block()] {
				pure := true
				for _, in := range p.at.Block().Instrs {
					if !pureOnByte(in) {
						pure = false
					}
				}
				if !pure || p.at.Block() != leaf0 {
					// is p.at's block a leaf/after-leaf for some non-zero byte?  (it is dominated by the call block)
					onTree := false
					for b := 1; b < 256; b++ {
						if tab[b].Block == p.at.Block() || (tab[b].Block != nil && tab[b].Block.Dominates(p.at.Block())) {
							onTree = true
							break
						}
					}
					if onTree {
						return true
					}
				}
			}
		}
	}
	for _, cd := range condsFor(p.at.Block()) {
		cd = normCond(cd)
		b := asBinOp(cd.V, token.EQL, token.NEQ)
		if b == nil || stripConv(b.X) != ssa.Value(call) {
			continue
		}
		eq := (b.Op == token.EQL) == cd.Sense
		var k int64
		known := false
		if c, ok := constInt(b.Y); ok {
			k, known = c, true
		} else if prm, ok := b.Y.(*ssa.Parameter); ok {
			if c, ok := e.paramConst(prm); ok {
				k, known = c, true
			}
		} else if fv, ok := b.Y.(*ssa.FreeVar); ok {
			_ = fv
		}
		if !known {
			continue
		}
		if eq && k != 0 {
			return true
		}
		if !eq && k == 0 {
			return true
		}
	}
	// range tests: '0' <= b
	for _, cd := range condsFor(p.at.Block()) {
		cd = normCond(cd)
		if b := asBinOp(cd.V, token.LEQ, token.LSS); b != nil && cd.Sense && stripConv(b.Y) == ssa.Value(call) {
			if c, ok := constInt(b.X); ok && c >= 1 {
				return true
			}
		}
		if b := asBinOp(cd.V, token.GEQ, token.GTR); b != nil && cd.Sense && stripConv(b.X) == ssa.Value(call) {
			if c, ok := constInt(b.Y); ok && c >= 1 {
				return true
			}
		}
	}
	return false
}

var nonEmptyFieldCache = map[string]bool{}

// nonEmptyField: every store to Struct.field (module-wide) is a non-empty slice literal or
// append(<same field>, ...), and every composite literal of Struct sets the field.
func (e *bndEngine) nonEmptyField(st, f string) bool {
	key := st + "." + f
	if v, ok := nonEmptyFieldCache[key]; ok {
		return v
	}
	// only worth checking for the fields indexed with len-1
	if !(st == "groups" && f == "batches") {
		nonEmptyFieldCache[key] = false
		return false
	}
	ok := true
	nst := 0
	for _, fn := range e.w.ModuleFuncs() {
		for _, s := range fieldStores(fn, st, f) {
			nst++
			good := false
			if cl, isC := s.Val.(*ssa.Call); isC && isCall(cl, "builtin append") {
				if t, ff, _, ok2 := fieldRefThroughLoad(cl.Call.Args[0]); ok2 && t == st && ff == f {
					good = true
				}
			}
			if els := varargElems(s.Val); len(els) >= 1 {
				good = true
			}
			if !good {
				ok = false
			}
		}
		// composite literals of the struct must set the field
		eachInstr(fn, func(in ssa.Instruction) {
			if al, isAl := in.(*ssa.Alloc); isAl && al.Comment == "complit" && structName(al.Type()) == st {
				if _, has := complitFields(al)[f]; !has {
					ok = false
				}
			}
		})
	}
	nonEmptyFieldCache[key] = ok && nst >= 1
	return nonEmptyFieldCache[key]
}
