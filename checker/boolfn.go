package main

// Decision tables for side-effect-free boolean functions.
//
// A predicate such as isIndexablePod can be written as an if-chain of early returns, as one
// boolean expression, through helper predicates or with the helpers written in place.  All of these
// are the same boolean function of a few "atoms" (comparisons and boolean loads).  boolTable
// evaluates the function's SSA decision structure under every assignment of the atoms the rule
// knows; an atom the rule does not know makes the evaluation fail (closed), so an added or changed
// condition is reported, while a re-arrangement of the same conditions is not.
//
// This is a static evaluation of a finite decision diagram (no program values are computed, only
// the truth values of the named atoms are propagated through If / Phi / Return).

import (
	"fmt"
	"go/token"
	"go/types"
	"sort"
	"strings"

	"golang.org/x/tools/go/ssa"
)

type boolEval struct {
	assign  map[string]bool
	Unknown map[string]bool // atoms met that have no assignment
	Impure  string          // first side effect met
	steps   int
}

func isBoolType(t types.Type) bool {
	b, ok := t.Underlying().(*types.Basic)
	return ok && b.Info()&types.IsBoolean != 0
}

// atomKey renders a comparison canonically: operands sorted, "==" only (the caller negates).
func atomKey(x, y string) string {
	if y < x {
		x, y = y, x
	}
	return x + "==" + y
}

type boolFrame struct {
	fn   *ssa.Function
	env  *renderEnv
	phis map[*ssa.Phi]bool
}

func (e *boolEval) val(v ssa.Value, fr *boolFrame) (bool, bool) {
	e.steps++
	if e.steps > 20000 {
		return false, false
	}
	switch x := v.(type) {
	case *ssa.Const:
		if x.Value != nil && isBoolType(x.Type()) {
			return x.Value.ExactString() == "true", true
		}
	case *ssa.Phi:
		if b, ok := fr.phis[x]; ok {
			return b, true
		}
		return false, false
	case *ssa.UnOp:
		if x.Op == token.NOT {
			b, ok := e.val(x.X, fr)
			return !b, ok
		}
		if x.Op == token.MUL && isBoolType(x.Type()) {
			return e.atom(symRender(x, fr.env, 0))
		}
	case *ssa.Field:
		if isBoolType(x.Type()) {
			return e.atom(symRender(x, fr.env, 0))
		}
	case *ssa.BinOp:
		switch x.Op {
		case token.EQL, token.NEQ:
			if isBoolType(x.X.Type()) {
				a, ok1 := e.val(x.X, fr)
				b, ok2 := e.val(x.Y, fr)
				return (a == b) == (x.Op == token.EQL), ok1 && ok2
			}
			b, ok := e.atom(atomKey(symRender(x.X, fr.env, 0), symRender(x.Y, fr.env, 0)))
			return b == (x.Op == token.EQL), ok
		case token.AND, token.OR:
			if isBoolType(x.X.Type()) {
				a, ok1 := e.val(x.X, fr)
				b, ok2 := e.val(x.Y, fr)
				if x.Op == token.AND {
					return a && b, ok1 && ok2
				}
				return a || b, ok1 && ok2
			}
		case token.LSS, token.LEQ, token.GTR, token.GEQ:
			// canonical: "a<b" only;  a<=b is !(b<a),  a>b is b<a,  a>=b is !(a<b)
			l, r := symRender(x.X, fr.env, 0), symRender(x.Y, fr.env, 0)
			switch x.Op {
			case token.LSS:
				return e.atom(l + "<" + r)
			case token.GTR:
				return e.atom(r + "<" + l)
			case token.LEQ:
				b, ok := e.atom(r + "<" + l)
				return !b, ok
			default:
				b, ok := e.atom(l + "<" + r)
				return !b, ok
			}
		}
	case *ssa.Call:
		if callee, bindings := localCallee(x); callee != nil && isBoolType(x.Type()) {
			env2 := &renderEnv{root: fr.env.root, params: map[*ssa.Parameter]string{}, free: map[*ssa.FreeVar]string{}}
			for i, p := range callee.Params {
				if i < len(x.Call.Args) {
					env2.params[p] = symRender(x.Call.Args[i], fr.env, 0)
				}
			}
			for i, fv := range callee.FreeVars {
				if i < len(bindings) {
					env2.free[fv] = symRender(bindings[i], fr.env, 0)
				}
			}
			return e.fn(callee, env2)
		}
		// slices.Contains(table, x) over a package-level table of constants that is never modified:
		// x == table[0] || x == table[1] || ...
		if strings.HasPrefix(calleeName(x), "slices.Contains[") && len(x.Call.Args) == 2 {
			if ld, ok := x.Call.Args[0].(*ssa.UnOp); ok && ld.Op == token.MUL {
				if g, ok := ld.X.(*ssa.Global); ok {
					if elems, ok := constTableOf(g); ok {
						subj := symRender(x.Call.Args[1], fr.env, 0)
						res, okAll := false, true
						for _, el := range elems {
							b, ok := e.atom(atomKey(subj, symRender(el, fr.env, 0)))
							okAll = okAll && ok
							res = res || b
						}
						return res, okAll
					}
				}
			}
		}
		if isBoolType(x.Type()) {
			return e.atom(symRender(x, fr.env, 0))
		}
	}
	return e.atom(symRender(v, fr.env, 0))
}

// constTableOf: g is an unexported package-level slice initialised with a literal of constants and only ever
// read (loaded and passed on, indexed for reading, ranged over, measured) by the functions of its package.
func constTableOf(g *ssa.Global) ([]*ssa.Const, bool) {
	if g.Object() == nil || g.Object().Exported() || g.Pkg == nil {
		return nil, false
	}
	if _, isSlice := derefType(g.Type()).Underlying().(*types.Slice); !isSlice {
		return nil, false
	}
	init := g.Pkg.Func("init")
	if init == nil {
		return nil, false
	}
	var base ssa.Value
	nInit := 0
	eachInstr(init, func(in ssa.Instruction) {
		if st, ok := in.(*ssa.Store); ok && st.Addr == ssa.Value(g) {
			nInit++
			if sl, ok := st.Val.(*ssa.Slice); ok && sl.Low == nil && sl.High == nil {
				base = sl.X
			}
		}
	})
	if nInit != 1 || base == nil {
		return nil, false
	}
	elems := map[int64]*ssa.Const{}
	okElems := true
	for _, ref := range referrers(base) {
		ia, ok := ref.(*ssa.IndexAddr)
		if !ok {
			continue
		}
		idx, okI := constInt(ia.Index)
		for _, r2 := range referrers(ia) {
			st, ok := r2.(*ssa.Store)
			if !ok || st.Addr != ssa.Value(ia) {
				okElems = false
				continue
			}
			k, isK := st.Val.(*ssa.Const)
			if !okI || !isK {
				okElems = false
				continue
			}
			elems[idx] = k
		}
	}
	if !okElems || len(elems) == 0 {
		return nil, false
	}
	var out []*ssa.Const
	for i := int64(0); i < int64(len(elems)); i++ {
		k, ok := elems[i]
		if !ok {
			return nil, false
		}
		out = append(out, k)
	}
	// never written after initialisation
	readOnly := true
	var fns []*ssa.Function
	for _, m := range g.Pkg.Members {
		switch x := m.(type) {
		case *ssa.Function:
			fns = append(fns, WithAnon(x)...)
		case *ssa.Type:
			for _, t := range []types.Type{x.Type(), types.NewPointer(x.Type())} {
				ms := g.Pkg.Prog.MethodSets.MethodSet(t)
				for i := 0; i < ms.Len(); i++ {
					if f := g.Pkg.Prog.MethodValue(ms.At(i)); f != nil && f.Pkg == g.Pkg {
						fns = append(fns, WithAnon(f)...)
					}
				}
			}
		}
	}
	for _, f := range fns {
		eachInstr(f, func(in ssa.Instruction) {
			switch x := in.(type) {
			case *ssa.Store:
				if x.Addr == ssa.Value(g) && f != init {
					readOnly = false
				}
			case *ssa.UnOp:
				if x.X != ssa.Value(g) || x.Op != token.MUL {
					return
				}
				for _, ref := range referrers(x) {
					switch y := ref.(type) {
					case *ssa.IndexAddr:
						for _, r2 := range referrers(y) {
							if _, isLoad := r2.(*ssa.UnOp); !isLoad {
								if _, isD := r2.(*ssa.DebugRef); !isD {
									readOnly = false
								}
							}
						}
					case *ssa.Call:
						if !strings.HasPrefix(calleeName(y), "slices.Contains[") && !isCall(y, "builtin len") {
							readOnly = false
						}
					case *ssa.Range, *ssa.DebugRef:
					default:
						readOnly = false
					}
				}
			default:
				// the address of the variable itself must not escape
				if v, ok := in.(ssa.Value); ok {
					_ = v
				}
				for _, op := range in.Operands(nil) {
					if *op == ssa.Value(g) {
						if _, isSt := in.(*ssa.Store); !isSt {
							if _, isU := in.(*ssa.UnOp); !isU {
								readOnly = false
							}
						}
					}
				}
			}
		})
	}
	if !readOnly {
		return nil, false
	}
	return out, true
}

func (e *boolEval) atom(key string) (bool, bool) {
	if b, ok := e.assign[key]; ok {
		return b, true
	}
	e.Unknown[key] = true
	return false, false
}

// fn evaluates a boolean function under the current assignment.
func (e *boolEval) fn(f *ssa.Function, env *renderEnv) (bool, bool) {
	if len(f.Blocks) == 0 {
		return false, false
	}
	fr := &boolFrame{fn: f, env: env, phis: map[*ssa.Phi]bool{}}
	b := f.Blocks[0]
	var prev *ssa.BasicBlock
	for n := 0; n < 500; n++ {
		// phis on entry
		if prev != nil {
			idx := -1
			for i, p := range b.Preds {
				if p == prev {
					idx = i
				}
			}
			newv := map[*ssa.Phi]bool{}
			for _, in := range b.Instrs {
				ph, ok := in.(*ssa.Phi)
				if !ok {
					break
				}
				if idx < 0 || !isBoolType(ph.Type()) {
					continue
				}
				v, ok := e.val(ph.Edges[idx], fr)
				if !ok {
					// only an error if the phi is used later; remember as unknown by omission
					continue
				}
				newv[ph] = v
			}
			for k, v := range newv {
				fr.phis[k] = v
			}
		}
		for _, in := range b.Instrs {
			switch x := in.(type) {
			case *ssa.Store, *ssa.MapUpdate, *ssa.Send, *ssa.Go, *ssa.Defer, *ssa.Panic:
				if e.Impure == "" {
					e.Impure = fmt.Sprintf("%s in %s", strings.TrimPrefix(fmt.Sprintf("%T", in), "*ssa."), f.Name())
				}
				return false, false
			case *ssa.If:
				c, ok := e.val(x.Cond, fr)
				if !ok {
					return false, false
				}
				prev = b
				if c {
					b = b.Succs[0]
				} else {
					b = b.Succs[1]
				}
			case *ssa.Jump:
				prev = b
				b = b.Succs[0]
			case *ssa.Return:
				if len(x.Results) != 1 {
					return false, false
				}
				return e.val(x.Results[0], fr)
			}
		}
	}
	return false, false
}

// boolTable evaluates fn under all assignments of atoms; want gives the expected result.  It
// returns the list of disagreements (rendered assignments), the unknown atoms met and whether
// the evaluation was complete.
func boolTable(fn *ssa.Function, atoms []string, want func(a map[string]bool) bool) (bad []string, unknown []string, impure string) {
	unk := map[string]bool{}
	root := &renderEnv{root: fn, params: map[*ssa.Parameter]string{}, free: map[*ssa.FreeVar]string{}}
	for i, p := range fn.Params {
		root.params[p] = fmt.Sprintf("p%d", i)
	}
	for m := 0; m < 1<<len(atoms); m++ {
		as := map[string]bool{}
		for i, a := range atoms {
			as[a] = m&(1<<i) != 0
		}
		e := &boolEval{assign: as, Unknown: unk}
		got, ok := e.fn(fn, root)
		if e.Impure != "" {
			impure = e.Impure
		}
		if !ok {
			continue
		}
		if got != want(as) {
			var parts []string
			for _, a := range atoms {
				parts = append(parts, fmt.Sprintf("%s=%v", a, as[a]))
			}
			bad = append(bad, fmt.Sprintf("{%s} gives %v", strings.Join(parts, ", "), got))
		}
	}
	for k := range unk {
		unknown = append(unknown, k)
	}
	sort.Strings(unknown)
	return
}
