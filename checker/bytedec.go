package main

import (
	"fmt"
	"go/constant"
	"go/token"
	"strings"

	"golang.org/x/tools/go/ssa"
)

// Byte decision tables.
//
// Several lexer functions dispatch on one input byte through a tree of comparisons against
// constants (switch / range checks).  Because the byte is touched only through comparisons
// with constants, the tree can be evaluated exactly for each of the 256 byte values without
// running any gostatsd code: it is an abstract interpretation over a finite domain, and the
// result is the complete byte -> action table of the function.

// byteLeaf is where the decision for one byte value ends.
type byteLeaf struct {
	Block   *ssa.BasicBlock
	Effects string // side effects from the leaf following unconditional jumps up to a return / the start block
	Undecid string // non-empty if a condition on the byte could not be evaluated
}

func stripConv(v ssa.Value) ssa.Value {
	for {
		switch x := v.(type) {
		case *ssa.Convert:
			v = x.X
		case *ssa.ChangeType:
			v = x.X
		default:
			return v
		}
	}
}

// evalByteCond evaluates cond for byte value b if it is a comparison between the byte (possibly
// widened) and a constant.
func evalByteCond(cond ssa.Value, bv ssa.Value, b int64) (res bool, ok bool) {
	return evalByteCondEnv(cond, bv, b, nil)
}

// resolvePhi follows the phi values fixed by the path walked so far.
func resolvePhi(v ssa.Value, env map[*ssa.Phi]ssa.Value) ssa.Value {
	for i := 0; i < 8; i++ {
		ph, ok := v.(*ssa.Phi)
		if !ok {
			return v
		}
		nv, has := env[ph]
		if !has {
			return v
		}
		v = nv
	}
	return v
}

func evalByteCondEnv(cond ssa.Value, bv ssa.Value, b int64, env map[*ssa.Phi]ssa.Value) (res bool, ok bool) {
	cond = resolvePhi(cond, env)
	if c, isC := cond.(*ssa.Const); isC && c.Value != nil && c.Value.Kind() == constant.Bool {
		return constant.BoolVal(c.Value), true
	}
	bo, isB := cond.(*ssa.BinOp)
	if !isB {
		if u, isU := cond.(*ssa.UnOp); isU && u.Op == token.NOT {
			r, ok := evalByteCondEnv(u.X, bv, b, env)
			return !r, ok
		}
		if cl, isC := cond.(*ssa.Call); isC {
			return evalBytePredicate(cl, bv, b, 0)
		}
		return false, false
	}
	// comparisons of booleans (e.g. pred(b) == true) are not byte comparisons
	if (bo.Op == token.EQL || bo.Op == token.NEQ) && isBoolType(bo.X.Type()) {
		l, ok1 := evalByteCondEnv(bo.X, bv, b, env)
		r, ok2 := evalByteCondEnv(bo.Y, bv, b, env)
		return (l == r) == (bo.Op == token.EQL), ok1 && ok2
	}
	var l, r int64
	lx, rx := stripConv(bo.X), stripConv(bo.Y)
	if lx == bv {
		l = b
	} else if n, isC := constInt(bo.X); isC {
		l = n
	} else {
		return false, false
	}
	if rx == bv {
		r = b
	} else if n, isC := constInt(bo.Y); isC {
		r = n
	} else {
		return false, false
	}
	if lx != bv && rx != bv {
		return false, false
	}
	switch bo.Op {
	case token.EQL:
		return l == r, true
	case token.NEQ:
		return l != r, true
	case token.LSS:
		return l < r, true
	case token.LEQ:
		return l <= r, true
	case token.GTR:
		return l > r, true
	case token.GEQ:
		return l >= r, true
	}
	return false, false
}

// pureOnByte: the instruction is part of the comparison tree (no side effect).
func pureOnByte(in ssa.Instruction) bool {
	switch x := in.(type) {
	case *ssa.BinOp, *ssa.Convert, *ssa.ChangeType, *ssa.If, *ssa.Jump, *ssa.UnOp, *ssa.DebugRef, *ssa.Phi:
		if u, ok := in.(*ssa.UnOp); ok && u.Op != token.NOT {
			return false
		}
		return true
	case *ssa.Call:
		// a call of a module predicate whose body is itself a pure decision over its arguments
		if cal := staticCallee(x); cal != nil && IsModule(cal) && pureDecisionFunc(cal, 0) {
			return true
		}
	}
	return false
}

// pureDecisionFunc: fn returns one bool and consists only of comparisons, conversions, branches,
// phis and calls of functions of the same kind (no memory access, no other calls).
func pureDecisionFunc(fn *ssa.Function, d int) bool {
	if d > 4 || len(fn.Blocks) == 0 || fn.Signature.Results().Len() != 1 || !isBoolType(fn.Signature.Results().At(0).Type()) {
		return false
	}
	for _, b := range fn.Blocks {
		for _, in := range b.Instrs {
			switch x := in.(type) {
			case *ssa.BinOp, *ssa.Convert, *ssa.ChangeType, *ssa.If, *ssa.Jump, *ssa.DebugRef, *ssa.Phi, *ssa.Return:
			case *ssa.UnOp:
				if x.Op != token.NOT && x.Op != token.SUB {
					return false
				}
			case *ssa.Call:
				cal := staticCallee(x)
				if cal == nil || !IsModule(cal) || cal == fn || !pureDecisionFunc(cal, d+1) {
					return false
				}
			default:
				return false
			}
		}
	}
	return true
}

// evalBytePredicate evaluates a call of a pure decision function whose arguments are the byte
// (possibly converted) or constants, by walking the callee with the byte's value.
func evalBytePredicate(cl *ssa.Call, bv ssa.Value, b int64, d int) (bool, bool) {
	cal := staticCallee(cl)
	if cal == nil || !IsModule(cal) || d > 4 || !pureDecisionFunc(cal, 0) {
		return false, false
	}
	vals := map[ssa.Value]int64{}
	for i, a := range cl.Call.Args {
		if i >= len(cal.Params) {
			return false, false
		}
		if stripConv(a) == bv {
			vals[cal.Params[i]] = b
		} else if n, ok := constInt(a); ok {
			vals[cal.Params[i]] = n
		} else {
			return false, false
		}
	}
	return runDecision(cal, vals, d)
}

// runDecision interprets a pure decision function for concrete integer arguments.
func runDecision(fn *ssa.Function, vals map[ssa.Value]int64, d int) (bool, bool) {
	bools := map[ssa.Value]bool{}
	var intOf func(v ssa.Value) (int64, bool)
	intOf = func(v ssa.Value) (int64, bool) {
		if n, ok := vals[v]; ok {
			return n, true
		}
		if n, ok := constInt(v); ok {
			return n, true
		}
		switch x := v.(type) {
		case *ssa.Convert:
			return intOf(x.X)
		case *ssa.ChangeType:
			return intOf(x.X)
		}
		return 0, false
	}
	var boolOf func(v ssa.Value) (bool, bool)
	boolOf = func(v ssa.Value) (bool, bool) {
		if r, ok := bools[v]; ok {
			return r, true
		}
		switch x := v.(type) {
		case *ssa.Const:
			if x.Value != nil && x.Value.Kind() == constant.Bool {
				return constant.BoolVal(x.Value), true
			}
		case *ssa.UnOp:
			if x.Op == token.NOT {
				r, ok := boolOf(x.X)
				return !r, ok
			}
		case *ssa.BinOp:
			if isBoolType(x.X.Type()) && (x.Op == token.EQL || x.Op == token.NEQ) {
				l, ok1 := boolOf(x.X)
				r, ok2 := boolOf(x.Y)
				return (l == r) == (x.Op == token.EQL), ok1 && ok2
			}
			l, ok1 := intOf(x.X)
			r, ok2 := intOf(x.Y)
			if !ok1 || !ok2 {
				return false, false
			}
			switch x.Op {
			case token.EQL:
				return l == r, true
			case token.NEQ:
				return l != r, true
			case token.LSS:
				return l < r, true
			case token.LEQ:
				return l <= r, true
			case token.GTR:
				return l > r, true
			case token.GEQ:
				return l >= r, true
			}
		case *ssa.Call:
			cal := staticCallee(x)
			if cal == nil || d > 4 {
				return false, false
			}
			sub := map[ssa.Value]int64{}
			for i, a := range x.Call.Args {
				n, ok := intOf(a)
				if !ok || i >= len(cal.Params) {
					return false, false
				}
				sub[cal.Params[i]] = n
			}
			return runDecision(cal, sub, d+1)
		}
		return false, false
	}
	blk := fn.Blocks[0]
	var prev *ssa.BasicBlock
	for steps := 0; steps < 400; steps++ {
		if prev != nil {
			pi := -1
			for i, p := range blk.Preds {
				if p == prev {
					pi = i
				}
			}
			upd := map[ssa.Value]bool{}
			updI := map[ssa.Value]int64{}
			for _, in := range blk.Instrs {
				ph, ok := in.(*ssa.Phi)
				if !ok {
					break
				}
				if pi < 0 {
					return false, false
				}
				if isBoolType(ph.Type()) {
					if r, ok := boolOf(ph.Edges[pi]); ok {
						upd[ph] = r
					}
				} else if n, ok := intOf(ph.Edges[pi]); ok {
					updI[ph] = n
				}
			}
			for k, v := range upd {
				bools[k] = v
			}
			for k, v := range updI {
				vals[k] = v
			}
		}
		switch t := blk.Instrs[len(blk.Instrs)-1].(type) {
		case *ssa.If:
			r, ok := boolOf(t.Cond)
			if !ok {
				return false, false
			}
			prev = blk
			if r {
				blk = blk.Succs[0]
			} else {
				blk = blk.Succs[1]
			}
		case *ssa.Jump:
			prev = blk
			blk = blk.Succs[0]
		case *ssa.Return:
			return boolOf(t.Results[0])
		default:
			return false, false
		}
	}
	return false, false
}

// byteDecision evaluates the decision tree that starts right after the definition of bv.
func byteDecision(bv ssa.Value, start *ssa.BasicBlock, startIdx int) [256]byteLeaf {
	var out [256]byteLeaf
	for b := 0; b < 256; b++ {
		blk := start
		idx := startIdx
		steps := 0
		env := map[*ssa.Phi]ssa.Value{}
		step := func(to *ssa.BasicBlock) {
			enterBlock(env, blk, to)
			blk = to
			idx = 0
		}
		for {
			steps++
			if steps > 200 {
				out[b] = byteLeaf{blk, "", "decision tree too deep"}
				break
			}
			// scan block from idx: if all instructions up to the terminator are pure, evaluate terminator
			pure := true
			for _, in := range blk.Instrs[idx:] {
				if !pureOnByte(in) {
					pure = false
					break
				}
			}
			term := blk.Instrs[len(blk.Instrs)-1]
			if !pure {
				out[b] = byteLeaf{Block: blk, Effects: leafEffectsEnv(blk, idx, start, env)}
				break
			}
			switch t := term.(type) {
			case *ssa.If:
				r, ok := evalByteCondEnv(t.Cond, bv, int64(b), env)
				if !ok {
					out[b] = byteLeaf{blk, leafEffectsEnv(blk, idx, start, env), "condition not a comparison of the byte with a constant: " + pathOf(t.Cond)}
					goto next
				}
				if r {
					step(blk.Succs[0])
				} else {
					step(blk.Succs[1])
				}
				if blk == start {
					out[b] = byteLeaf{Block: blk, Effects: "loop"}
					goto next
				}
				continue
			case *ssa.Jump:
				step(blk.Succs[0])
				if blk == start {
					out[b] = byteLeaf{Block: blk, Effects: "loop"}
					goto next
				}
				continue
			default:
				out[b] = byteLeaf{Block: blk, Effects: leafEffectsEnv(blk, idx, start, env)}
			}
			break
		}
	next:
	}
	return out
}

// enterBlock records, for every phi of block to, the value it takes when entered from block from.
func enterBlock(env map[*ssa.Phi]ssa.Value, from, to *ssa.BasicBlock) {
	pi := -1
	for i, p := range to.Preds {
		if p == from {
			pi = i
		}
	}
	if pi < 0 {
		return
	}
	// phis read their operands simultaneously: resolve against the environment before this entry
	upd := map[*ssa.Phi]ssa.Value{}
	for _, in := range to.Instrs {
		ph, ok := in.(*ssa.Phi)
		if !ok {
			break
		}
		upd[ph] = resolvePhi(ph.Edges[pi], env)
	}
	for k, v := range upd {
		env[k] = v
	}
}

// leafEffects lists the side effects starting at blk[idx:], following unconditional jumps
// until a return, a branch, or the loop head.
func leafEffects(blk *ssa.BasicBlock, idx int, loopHead *ssa.BasicBlock) string {
	return leafEffectsEnv(blk, idx, loopHead, map[*ssa.Phi]ssa.Value{})
}

func leafEffectsEnv(blk *ssa.BasicBlock, idx int, loopHead *ssa.BasicBlock, env0 map[*ssa.Phi]ssa.Value) string {
	env := map[*ssa.Phi]ssa.Value{}
	for k, v := range env0 {
		env[k] = v
	}
	valDesc := func(v ssa.Value) string { return valDesc(resolvePhi(v, env)) }
	var eff []string
	seen := map[*ssa.BasicBlock]bool{}
	for blk != nil && !seen[blk] {
		seen[blk] = true
		for _, in := range blk.Instrs[idx:] {
			switch x := in.(type) {
			case *ssa.Store:
				eff = append(eff, "store "+pathOf(x.Addr)+" <- "+valDesc(x.Val))
			case *ssa.Return:
				var rs []string
				for _, r := range x.Results {
					rs = append(rs, valDesc(r))
				}
				eff = append(eff, "return "+strings.Join(rs, ","))
				return strings.Join(eff, "; ")
			case ssa.CallInstruction:
				eff = append(eff, "call "+shortCallee(x))
			case *ssa.If:
				eff = append(eff, "branch")
				// look ahead: does the region below this branch append to the lexer's tag list?
				if appendsTagsBelow(blk, loopHead) {
					eff = append(eff, "appends l.tags")
				}
				return strings.Join(eff, "; ")
			case *ssa.MapUpdate:
				eff = append(eff, "mapupdate")
			case *ssa.Panic:
				eff = append(eff, "panic")
				return strings.Join(eff, "; ")
			}
		}
		if len(blk.Succs) != 1 {
			break
		}
		enterBlock(env, blk, blk.Succs[0])
		blk = blk.Succs[0]
		idx = 0
		if blk == loopHead {
			eff = append(eff, "loop")
			break
		}
	}
	return strings.Join(eff, "; ")
}

// valDesc names a value: constants by declared name, functions by name.
func valDesc(v ssa.Value) string {
	switch x := v.(type) {
	case *ssa.Const:
		if x.Value == nil {
			return "nil"
		}
		return constName(x)
	case *ssa.Function:
		return x.Name()
	case *ssa.ChangeType:
		return valDesc(x.X)
	case *ssa.MakeClosure:
		return "closure:" + x.Fn.Name()
	case *ssa.Call:
		return "call:" + shortCallee(x)
	case *ssa.UnOp:
		if x.Op == token.MUL {
			if g, ok := x.X.(*ssa.Global); ok {
				return "global:" + g.Name()
			}
		}
	}
	return pathOf(v)
}

// nextByteCall finds the first call of (*Lexer).next in fn and returns its value and position
// (block, index after the call).
func nextByteCall(fn *ssa.Function) (*ssa.Call, *ssa.BasicBlock, int) {
	for _, b := range fn.Blocks {
		for i, in := range b.Instrs {
			if c, ok := in.(*ssa.Call); ok {
				if cal := staticCallee(c); cal != nil && cal.Name() == "next" && cal.Signature.Recv() != nil {
					return c, b, i + 1
				}
			}
		}
	}
	return nil, nil, 0
}

// summarise groups the 256 leaves by effect string: effect -> sorted byte list description.
func summariseTable(t [256]byteLeaf) map[string][]int {
	m := map[string][]int{}
	for b := 0; b < 256; b++ {
		k := t[b].Effects
		if t[b].Undecid != "" {
			k = "UNDECIDED(" + t[b].Undecid + ")"
		}
		m[k] = append(m[k], b)
	}
	return m
}

func byteSetString(bs []int) string {
	var parts []string
	for i := 0; i < len(bs); {
		j := i
		for j+1 < len(bs) && bs[j+1] == bs[j]+1 {
			j++
		}
		f := func(b int) string {
			if b > 32 && b < 127 {
				return fmt.Sprintf("%q", rune(b))
			}
			return fmt.Sprintf("0x%02x", b)
		}
		if j == i {
			parts = append(parts, f(bs[i]))
		} else {
			parts = append(parts, f(bs[i])+"-"+f(bs[j]))
		}
		i = j + 1
	}
	return strings.Join(parts, ",")
}

// appendsTagsBelow: some block reachable from b (without passing the decision loop's head) stores
// append(l.tags, ...) into the lexer's tags field.
func appendsTagsBelow(b, loopHead *ssa.BasicBlock) bool {
	seen := map[*ssa.BasicBlock]bool{}
	stack := []*ssa.BasicBlock{b}
	for len(stack) > 0 {
		x := stack[len(stack)-1]
		stack = stack[:len(stack)-1]
		if seen[x] || (x == loopHead && x != b) {
			continue
		}
		seen[x] = true
		for _, in := range x.Instrs {
			if st, ok := in.(*ssa.Store); ok {
				if t, f, _, ok := fieldRef(st.Addr); ok && t == "Lexer" && f == "tags" {
					if cl, ok := st.Val.(*ssa.Call); ok && isCall(cl, "builtin append") {
						return true
					}
				}
			}
		}
		stack = append(stack, x.Succs...)
	}
	return false
}
