package main

import (
	"fmt"
	"go/token"
	"go/types"
	"sort"
	"strings"

	"golang.org/x/tools/go/ssa"
)

func init() { register("C01", c01) }

var aggregatorMethods = []string{"ReceiveMap", "Flush", "Process", "Reset"}

// isAggregatorCall: call of one of the four Aggregator methods, via the interface or statically
// on *MetricAggregator.
func aggregatorCall(c ssa.CallInstruction) string {
	cc := c.Common()
	if cc.IsInvoke() {
		if typeIs(cc.Value.Type(), "pkg/statsd", "Aggregator") {
			for _, m := range aggregatorMethods {
				if cc.Method.Name() == m {
					return m
				}
			}
		}
		return ""
	}
	if f := staticCallee(c); f != nil && f.Signature.Recv() != nil && typeIs(f.Signature.Recv().Type(), "pkg/statsd", "MetricAggregator") {
		for _, m := range aggregatorMethods {
			if f.Name() == m {
				return m
			}
		}
	}
	return ""
}

// flowsIntoNamedFunc returns the functions (closures or named) that are converted to / passed
// as the named function type pkgRel.name anywhere in the module.
func flowsIntoNamedFunc(w *World, pkgRel, name string) map[*ssa.Function]bool {
	out := map[*ssa.Function]bool{}
	fnOf := func(v ssa.Value) *ssa.Function {
		switch x := v.(type) {
		case *ssa.MakeClosure:
			return x.Fn.(*ssa.Function)
		case *ssa.Function:
			return x
		}
		return nil
	}
	for _, fn := range w.ModuleFuncs() {
		eachInstr(fn, func(in ssa.Instruction) {
			switch x := in.(type) {
			case *ssa.ChangeType:
				if typeIs(x.Type(), pkgRel, name) {
					if f := fnOf(x.X); f != nil {
						out[f] = true
					}
				}
			case ssa.CallInstruction:
				sig := x.Common().Signature()
				args := x.Common().Args
				off := 0
				if !x.Common().IsInvoke() && sig.Recv() != nil {
					off = 1
				}
				for i := 0; i < sig.Params().Len() && i+off < len(args); i++ {
					if typeIs(sig.Params().At(i).Type(), pkgRel, name) {
						a := args[i+off]
						if ct, ok := a.(*ssa.ChangeType); ok {
							a = ct.X
						}
						if f := fnOf(a); f != nil {
							out[f] = true
						}
					}
				}
			case *ssa.Store:
				if typeIs(derefType(x.Addr.Type()), pkgRel, name) {
					v := x.Val
					if ct, ok := v.(*ssa.ChangeType); ok {
						v = ct.X
					}
					if f := fnOf(v); f != nil {
						out[f] = true
					}
				}
			}
		})
	}
	return out
}

// complitFields returns, for a composite-literal alloc, the value stored into each field.
func complitFields(al *ssa.Alloc) map[string]ssa.Value {
	out := map[string]ssa.Value{}
	for _, r := range referrers(al) {
		fa, ok := r.(*ssa.FieldAddr)
		if !ok {
			continue
		}
		for _, r2 := range referrers(fa) {
			if st, ok := r2.(*ssa.Store); ok && st.Addr == fa {
				out[fieldName(al.Type(), fa.Field)] = st.Val
			}
		}
	}
	return out
}

// resetOrigins analyses the value a Reset closure stores back for its series.
// Returns per field an origin label: "carried" (same field of the iterated element),
// "truncated" (x[:0] of the same field), "fresh-map", "emptyHistogram", or "other:<path>".
func fieldOrigin(cl *ssa.Function, field string, v ssa.Value) string {
	if u, ok := v.(*ssa.UnOp); ok && u.Op == token.MUL {
		if _, f, base, ok := fieldRef(u.X); ok && f == field {
			if al, ok := base.(*ssa.Alloc); ok && isParamSpill(cl, al, 2) {
				return "carried"
			}
		}
	}
	if sl, ok := v.(*ssa.Slice); ok {
		if hi, ok := constInt(sl.High); ok && hi == 0 && sl.Low == nil {
			if u, ok := sl.X.(*ssa.UnOp); ok {
				if _, f, base, ok := fieldRef(u.X); ok && f == field {
					if al, ok := base.(*ssa.Alloc); ok && isParamSpill(cl, al, 2) {
						return "truncated"
					}
				}
			}
		}
	}
	if _, ok := v.(*ssa.MakeMap); ok {
		return "fresh-map"
	}
	if call, ok := v.(*ssa.Call); ok && isCall(call, "pkg/statsd.emptyHistogram") {
		return "emptyHistogram"
	}
	return "other:" + pathOf(v)
}

func isParamSpill(fn *ssa.Function, al *ssa.Alloc, idx int) bool {
	for _, r := range referrers(al) {
		if st, ok := r.(*ssa.Store); ok && st.Addr == al {
			p, ok := st.Val.(*ssa.Parameter)
			return ok && idx < len(fn.Params) && fn.Params[idx] == p
		}
	}
	return false
}

// resetRule checks Reset's stored-back values (C01.R3 / C09.R4).
func resetRule(c *Ctx, r *Rule) {
	w := c.W
	fn := w.Func("pkg/statsd", "(*MetricAggregator).Reset")
	if fn == nil {
		r.Unresolved("(*MetricAggregator).Reset")
		return
	}
	c.SawFunc(FuncName(fn))
	cls := eachClosures(fn)
	identity := map[string]bool{"Timestamp": true, "Source": true, "Tags": true}
	for _, F := range mmFields {
		cl := cls[F]
		T := strings.TrimSuffix(F, "s")
		if cl == nil {
			r.Fail("Reset:"+F, fn.Pos(), "Reset does not traverse a.metricMap."+F)
			continue
		}
		// the traversal happens on every path through Reset (whatever the configuration: an expiry of 0
		// switches off expiry, not the per-flush reset)
		{
			pd := newPostDom(fn)
			always := false
			eachInstr(fn, func(in ssa.Instruction) {
				if mc, ok := in.(*ssa.MakeClosure); ok && mc.Fn == ssa.Value(cl) {
					if mc.Block() == fn.Blocks[0] || pd.PostDominates(mc.Block(), fn.Blocks[0]) {
						always = true
					}
				}
			})
			if cl.Parent() == fn && T != "Gauge" { // gauges are only ever expired here: skipping them when nothing can expire changes nothing
				r.Check("Reset:"+F+":unconditional", always, cl.Pos(), "the traversal of "+F+" runs on every path through Reset")
			}
		}
		n := 0
		eachInstr(cl, func(in ssa.Instruction) {
			mu, ok := in.(*ssa.MapUpdate)
			if !ok {
				return
			}
			mt, ok := mu.Map.Type().Underlying().(*types.Map)
			if !ok || isAggType(mt.Elem()) == "" {
				return
			}
			n++
			key := fmt.Sprintf("Reset:%s:store#%d", F, n)
			if T == "Gauge" {
				r.Fail(key, mu.Pos(), "Reset rewrites a gauge: gauges must keep their last value until they expire")
				return
			}
			if len(cl.Params) < 3 {
				r.Fail(key, mu.Pos(), "closure does not have the (name, tagsKey, element) shape")
				return
			}
			oa := &origAnalysis{}
			env := &oenv{params: map[*ssa.Parameter][]osym{}, free: map[*ssa.FreeVar][]osym{}, elem: cl.Params[2]}
			fields := oa.fieldsOf(env, mu.Value, 0)
			st, isStruct := mu.Value.Type().Underlying().(*types.Struct)
			if !isStruct {
				r.Fail(key, mu.Pos(), "value stored back is not a struct: "+pathOf(mu.Value))
				return
			}
			allIn := func(ss []osym, okf func(s osym) bool) bool {
				if len(ss) == 0 {
					return false
				}
				for _, s := range ss {
					if !okf(s) {
						return false
					}
				}
				return true
			}
			for i := 0; i < st.NumFields(); i++ {
				f := st.Field(i).Name()
				ss := fields[f]
				org := symSetString(ss)
				fk := key + ":" + f
				switch {
				case identity[f]:
					r.Check(fk, allIn(ss, func(s osym) bool { return s.Kind == "elemfield" && s.Field == f }), mu.Pos(), fmt.Sprintf("identity field %s.%s must be carried over from the same field of the existing series; origin=%s", T, f, org))
				case T == "Timer" && f == "Values":
					r.Check(fk, allIn(ss, func(s osym) bool { return s.Kind == "zero" || s.Kind == "trunc" && s.Field == f }), mu.Pos(), "Timer.Values must be emptied (x[:0] or nil); origin="+org)
				case T == "Timer" && f == "Histogram":
					r.Check(fk, allIn(ss, func(s osym) bool { return s.Kind == "zero" || s.Kind == "emptyhist" }), mu.Pos(), "Timer.Histogram must be nil or a zeroed histogram; origin="+org)
				case T == "Set" && f == "Values":
					r.Check(fk, allIn(ss, func(s osym) bool { return s.Kind == "freshmap" }), mu.Pos(), "Set.Values must be a fresh empty map; origin="+org)
				default:
					r.Check(fk, allIn(ss, func(s osym) bool { return s.Kind == "zero" }), mu.Pos(), fmt.Sprintf("data field %s.%s must be zero after Reset; origin=%s", T, f, org))
				}
			}
			// stored under the iterated keys
			r.Check(key+":tagsKey", paramIndex(cl, mu.Key) == 1, mu.Pos(), "stored under key "+pathOf(mu.Key))
			if lk, ok := mu.Map.(*ssa.Lookup); ok {
				ls := loadsOf(lk.X)
				r.Check(key+":same-collection", paramIndex(cl, lk.Index) == 0 && len(ls) == 1 && ls[0].F == F && strings.HasSuffix(ls[0].Base, "metricMap"), mu.Pos(), "stored into "+pathOf(lk.X)+"["+pathOf(lk.Index)+"]")
			} else {
				r.Fail(key+":same-collection", mu.Pos(), "destination map is "+pathOf(mu.Map))
			}
		})
		if T != "Gauge" {
			r.Check("Reset:"+F+":has-store", n >= 1, cl.Pos(), fmt.Sprintf("%d store-back sites for live %s", n, F))
			// on every non-expired path exactly one store-back
			m := countOnPaths(cl, func(in ssa.Instruction) bool {
				if mu, ok := in.(*ssa.MapUpdate); ok {
					if mt, ok := mu.Map.Type().Underlying().(*types.Map); ok && isAggType(mt.Elem()) != "" {
						return true
					}
				}
				if c, ok := in.(ssa.CallInstruction); ok {
					if isCall(c, "pkg/statsd.deleteMetric") {
						return true
					}
					// the same helper made generic over the four collection types
					if cal := staticCallee(c); cal != nil && cal.Origin() != nil && cal.Origin().Name() == "deleteMetric" && fnPkgPath(cal.Origin()) == pkgPath("pkg/statsd") {
						return true
					}
				}
				return false
			})
			r.Check("Reset:"+F+":reset-or-delete-once", m == 2, cl.Pos(), "every series is either deleted or reset exactly once per Reset; counts over paths = "+maskString(m))
		}
	}
}

func c01(c *Ctx) {
	w := c.W
	c.Explanation = "C01 (every datapoint lands in exactly one flush): structural necessary conditions - the aggregator is only driven from its shard's worker goroutine; Flush -> Process -> Reset happen in this order inside one process command; Reset carries identity fields and no data; backends do not retain the aggregate asynchronously; the receive path adds trunc(value/rate) and 1/rate; routing is a partition (C06 rules) and all four types are handled everywhere (C07.R6)."
	c.NotDecided = []string{"the interleaving behaviour itself (Go channel semantics between parser, dispatcher and worker)", "arithmetic conservation of sums as values"}
	c.Assumptions = []string{"Go channel and select semantics; a goroutine executes its loop body serially", "asynchronous retention of the aggregate is looked for intraprocedurally in SendMetricsAsync (direct references only)"}

	dpf := flowsIntoNamedFunc(w, "pkg/statsd", "DispatcherProcessFunc")

	c.Rule("C01.R1", "single owner: Aggregator methods are called only from the shard worker loop, from process commands, or by the aggregator itself", 4, func(r *Rule) {
		nDyn := 0
		// code that runs on the worker goroutine: work(), function literals it calls in place, and
		// executeProcess when it exists and is called (synchronously) only from there
		wkFn := w.Func("pkg/statsd", "(*worker).work")
		epFn := w.Func("pkg/statsd", "(*worker).executeProcess")
		onWorker := map[*ssa.Function]bool{}
		if wkFn != nil {
			onWorker[wkFn] = true
			for _, g := range WithAnon(wkFn)[1:] {
				// a literal inside work that is only ever called where it stands (not started with go, not stored)
				calledInPlace := false
				escapes := false
				for _, h := range WithAnon(wkFn) {
					eachInstr(h, func(in ssa.Instruction) {
						switch x := in.(type) {
						case *ssa.Call:
							if cal, _ := localCallee(x); cal == g {
								calledInPlace = true
							}
						case *ssa.Go:
							if mc, ok := x.Call.Value.(*ssa.MakeClosure); ok && mc.Fn == ssa.Value(g) {
								escapes = true
							}
							if f, ok := x.Call.Value.(*ssa.Function); ok && f == g {
								escapes = true
							}
						}
					})
				}
				if calledInPlace && !escapes {
					onWorker[g] = true
				}
			}
		}
		if epFn != nil {
			onWorker[epFn] = true
		}
		for _, fn := range w.ModuleFuncs() {
			if strings.Contains(fnPkgPath(fn), "/internal/fixtures") {
				continue
			}
			for _, call := range callsIn(fn) {
				m := aggregatorCall(call)
				if m == "" {
					continue
				}
				c.SawFunc(FuncName(fn))
				key := FuncName(fn) + ":" + m
				_, isGo := call.(*ssa.Go)
				allowed := false
				why := ""
				switch {
				case onWorker[fn] && fn != epFn && m == "ReceiveMap":
					allowed, why = true, "worker loop merges queued maps"
				case dpf[fn]:
					allowed, why = true, "function flows into a DispatcherProcessFunc (executed by the worker)"
				case fn.Signature.Recv() != nil && typeIs(fn.Signature.Recv().Type(), "pkg/statsd", "MetricAggregator"):
					allowed, why = true, "aggregator method"
				}
				if isGo {
					allowed, why = false, "aggregator method started as a goroutine"
				}
				r.Check(key, allowed, call.Pos(), "call of Aggregator."+m+" in "+FuncName(fn)+": "+why)
			}
			// values of type DispatcherProcessFunc are called only in executeProcess
			for _, call := range callsIn(fn) {
				cc := call.Common()
				if cc.IsInvoke() || staticCallee(call) != nil {
					continue
				}
				if typeIs(cc.Value.Type(), "pkg/statsd", "DispatcherProcessFunc") {
					nDyn++
					_, isGo := call.(*ssa.Go)
					r.Check("call-of-DispatcherProcessFunc:"+FuncName(fn), onWorker[fn] && !isGo, call.Pos(), "process commands are executed only on the worker goroutine (work, a literal it calls in place, or executeProcess), synchronously")
				}
			}
		}
		r.Check("process-command-executor-exists", nDyn >= 1, token.NoPos, fmt.Sprintf("%d call sites of a DispatcherProcessFunc value", nDyn))
		// executeProcess is called only from work, and not via go
		ep := epFn
		wk := wkFn
		if wk == nil {
			r.Unresolved("(*worker).work")
			return
		}
		if ep != nil {
			for _, fn := range w.ModuleFuncs() {
				for _, call := range callsIn(fn) {
					if staticCallee(call) == ep {
						_, isGo := call.(*ssa.Go)
						r.Check("executeProcess-caller:"+FuncName(fn), onWorker[fn] && fn != ep && !isGo, call.Pos(), "executeProcess must run on the worker goroutine")
					}
				}
			}
		}
		// the worker receives both queues in one select loop (serialisation of merge and flush)
		okSel := false
		eachInstr(wk, func(in ssa.Instruction) {
			if sel, ok := in.(*ssa.Select); ok {
				var chans []string
				for _, st := range sel.States {
					chans = append(chans, pathOf(st.Chan))
				}
				sort.Strings(chans)
				if len(chans) == 2 && chans[0] == "w.metricMapQueue" && chans[1] == "w.processChan" {
					okSel = true
				}
			}
		})
		r.Check("work:single-select", okSel, wk.Pos(), "work() receives metricMapQueue and processChan in one select")
		// work is started once per worker via wg.Start(worker.work) in BackendHandler.Run only
		n := 0
		for _, fn := range w.ModuleFuncs() {
			eachInstr(fn, func(in ssa.Instruction) {
				for _, op := range in.Operands(nil) {
					if mc, ok := (*op).(*ssa.MakeClosure); ok && mc.Fn == wk.Prog.NewFunction("", nil, "") {
						_ = mc
					}
				}
				if mc, ok := in.(*ssa.MakeClosure); ok {
					if f, ok := mc.Fn.(*ssa.Function); ok && strings.HasPrefix(f.Name(), "work$bound") {
						n++
						r.Check("work-started-in:"+FuncName(fn), FuncName(fn) == "(*pkg/statsd.BackendHandler).Run", in.Pos(), "worker.work bound and started")
					}
				}
			})
		}
		r.Check("work-start-sites", n == 1, wk.Pos(), fmt.Sprintf("%d sites start worker.work (one goroutine per worker)", n))
	})

	c.Rule("C01.R2", "flush order: inside one process command Flush, then Process, then Reset, each once, none in a goroutine", 4, func(r *Rule) {
		found := 0
		var fns []*ssa.Function
		for f := range dpf {
			fns = append(fns, f)
		}
		sort.Slice(fns, func(i, j int) bool { return fns[i].Pos() < fns[j].Pos() })
		for _, f := range fns {
			ev := func(in ssa.Instruction) int {
				call, ok := in.(ssa.CallInstruction)
				if !ok {
					return -1
				}
				switch aggregatorCall(call) {
				case "Flush":
					return 0
				case "Process":
					return 1
				case "Reset":
					return 2
				}
				return -1
			}
			has := false
			eachInstr(f, func(in ssa.Instruction) {
				if ev(in) >= 0 {
					has = true
				}
			})
			// nested closures of the command must not drive the aggregator
			for _, a := range WithAnon(f)[1:] {
				for _, call := range callsIn(a) {
					if m := aggregatorCall(call); m != "" {
						r.Fail(FuncName(f)+":nested-"+m, call.Pos(), "Aggregator."+m+" called from a nested closure of the process command")
					}
				}
			}
			if !has {
				continue
			}
			found++
			c.SawFunc(FuncName(f))
			res := runAutomaton(f, 0, ev, func(s, e int) int {
				if s == e {
					return s + 1
				}
				return -1
			})
			key := FuncName(f)
			names := []string{"Flush", "Process", "Reset"}
			for _, e := range res.Errors {
				r.Fail(key+":order", e.At.Pos(), fmt.Sprintf("Aggregator.%s reached in state %d (expected order Flush, Process, Reset, each exactly once)", names[e.Event], e.State))
			}
			var m uint32
			for _, s := range res.ExitStates {
				m |= s
			}
			r.Check(key+":complete", m == 1<<3, f.Pos(), fmt.Sprintf("states at exit %b: every path through the command must perform Flush, Process and Reset (state 3 only)", m))
			for _, call := range callsIn(f) {
				if aggregatorCall(call) != "" {
					_, isCall := call.(*ssa.Call)
					r.Check(key+":sync:"+aggregatorCall(call), isCall, call.Pos(), "aggregator step must be a plain synchronous call (not go/defer)")
				}
			}
		}
		r.Check("flush-command-exists", found == 1, token.NoPos, fmt.Sprintf("%d process commands drive Flush/Process/Reset (exactly one expected: the flusher's)", found))
		// the flusher waits for the command to complete on all workers before waiting for sends
		fd := w.Func("pkg/statsd", "(*MetricFlusher).flushData")
		if fd == nil {
			r.Unresolved("(*MetricFlusher).flushData")
			return
		}
		var proc, waitCall, sendWait ssa.Instruction
		for _, call := range callsIn(fd) {
			if call.Common().IsInvoke() && call.Common().Method.Name() == "Process" && typeIs(call.Common().Value.Type(), "pkg/statsd", "AggregateProcesser") {
				proc = call
			}
			if isCall(call, "(*sync.WaitGroup).Wait") {
				sendWait = call
			}
			if pv, ok := proc.(ssa.Value); ok && proc != nil && call.Common().Value == pv {
				waitCall = call
			}
		}
		// the aggregator's own map (the argument of the ProcessFunc) is handed to the backends inside the callback and
		// nowhere else: anything kept from it (a reference, or a copy that shares its value slices / sets) would be
		// read after Reset truncated and re-filled those slices
		nPF := 0
		for _, g := range WithAnon(fd) {
			for _, call := range callsIn(g) {
				cc := call.Common()
				if !cc.IsInvoke() || cc.Method.Name() != "Process" || !typeIs(cc.Value.Type(), "pkg/statsd", "Aggregator") || len(cc.Args) != 1 {
					continue
				}
				var pf *ssa.Function
				switch x := stripConvVal(ptrOrigin(stripConvVal(cc.Args[0]))).(type) {
				case *ssa.MakeClosure:
					pf, _ = x.Fn.(*ssa.Function)
				case *ssa.Function:
					pf = x
				}
				if pf == nil || len(pf.Params) != 1 {
					r.Fail("flushData:process-callback", call.Pos(), "the function handed to Aggregator.Process is not a literal or function of this package")
					continue
				}
				nPF++
				m := pf.Params[0]
				holders := []ssa.Value{m}
				for _, ref := range referrers(m) {
					if st, ok := ref.(*ssa.Store); ok && st.Val == ssa.Value(m) {
						if al, isAl := st.Addr.(*ssa.Alloc); isAl {
							for _, r2 := range referrers(al) {
								if ld, ok := r2.(*ssa.UnOp); ok {
									holders = append(holders, ld)
								}
							}
						}
					}
				}
				bad := ""
				for _, h := range holders {
					for _, ref := range referrers(h) {
						switch x := ref.(type) {
						case *ssa.Store:
							if x.Val == h {
								if _, isAl := x.Addr.(*ssa.Alloc); !isAl {
									bad = "stored to " + pathOf(x.Addr)
								}
							}
						case *ssa.DebugRef:
						case *ssa.FieldAddr:
							if f := fieldName(x.X.Type(), x.Field); f != "Forwarded" {
								bad = "field " + f + " of the aggregator's map is accessed outside a backend"
							}
						case ssa.CallInstruction:
							cal := staticCallee(x)
							toBackend := x.Common().IsInvoke() && x.Common().Method.Name() == "SendMetricsAsync"
							if !toBackend && (cal == nil || cal.Name() != "sendMetricsAsync") {
								bad = "passed to " + shortCallee(x)
							}
							if _, isGo := x.(*ssa.Go); isGo {
								bad = "handed to a goroutine"
							}
						default:
							bad = fmt.Sprintf("used by %T", ref)
						}
					}
				}
				r.Check("flushData:aggregate-only-to-backends", bad == "", pf.Pos(), "the map the aggregator passes to its ProcessFunc goes to sendMetricsAsync only "+bad)
			}
		}
		r.Check("flushData:process-callback-found", nPF == 1, fd.Pos(), fmt.Sprintf("%d Aggregator.Process calls in flushData", nPF))
		r.Check("flushData:process-then-wait", proc != nil && waitCall != nil && instrDominates(proc, waitCall), fd.Pos(), "flushData calls the Wait returned by Process")
		r.Check("flushData:wait-before-sendwait", waitCall != nil && sendWait != nil && instrDominates(waitCall, sendWait), fd.Pos(), "process wait precedes the send WaitGroup wait")
		// the aggregator hands its whole aggregate to the callback: every call of Process's parameter gets the
		// receiver's metricMap itself (a filtered or rebuilt copy would leave datapoints out of the flush that
		// Reset then clears)
		if ap := w.Func("pkg/statsd", "(*MetricAggregator).Process"); ap == nil {
			r.Unresolved("(*MetricAggregator).Process")
		} else if len(ap.Params) == 2 {
			c.SawFunc(FuncName(ap))
			n := 0
			for _, g := range WithAnon(ap) {
				for _, cl := range callsIn(g) {
					if cl.Common().IsInvoke() || staticCallee(cl) != nil || ptrOrigin(cl.Common().Value) != ssa.Value(ap.Params[1]) {
						continue
					}
					n++
					ok := false
					if len(cl.Common().Args) == 1 {
						if ld, isLd := ptrOrigin(cl.Common().Args[0]).(*ssa.UnOp); isLd && ld.Op == token.MUL {
							if fa, isFA := ld.X.(*ssa.FieldAddr); isFA && fieldName(fa.X.Type(), fa.Field) == "metricMap" && ptrOrigin(fa.X) == ssa.Value(ap.Params[0]) {
								ok = true
							}
						}
					}
					r.Check("Process:callback-gets-the-aggregate", ok, cl.Pos(), "Process passes a.metricMap itself to the callback (got "+pathOf(cl.Common().Args[0])+")")
				}
			}
			r.Check("Process:calls-the-callback", n >= 1, ap.Pos(), fmt.Sprintf("%d calls of the ProcessFunc parameter", n))
		}
	})

	c.Rule("C01.R10", "flushing reports, it does not consume: Flush writes only derived statistics into a series - the received data (a timer's values and sampled count, a counter's value, timestamps, tags, source) are left as they are until Reset (the only other writes are the zeros of an idle timer)", 2, func(r *Rule) {
		fl := w.Func("pkg/statsd", "(*MetricAggregator).Flush")
		if fl == nil {
			r.Unresolved("(*MetricAggregator).Flush")
			return
		}
		c.SawFunc(FuncName(fl))
		inputs := map[string][]string{
			"Timer":   {"Values", "SampledCount", "Timestamp", "Tags", "Source"},
			"Counter": {"Value", "Timestamp", "Tags", "Source"},
			"Gauge":   {"Value", "Timestamp", "Tags", "Source"},
			"Set":     {"Values", "Timestamp", "Tags", "Source"},
		}
		n := 0
		for _, g := range WithAnon(fl) {
			for T, fs := range inputs {
				for _, f := range fs {
					for _, st := range fieldStores(g, T, f) {
						n++
						zero := false
						if k, isC := st.Val.(*ssa.Const); isC && (k.Value == nil || k.Value.ExactString() == "0") {
							zero = true
						}
						okIdle := zero && T == "Timer" && f == "SampledCount" && knownEmpty(factsAt(st.Block()), func(v ssa.Value) bool {
							return strings.HasSuffix(pathOf(v), ".Values") || strings.HasSuffix(pathOf(ptrOrigin(v)), ".Values")
						})
						r.Check("Flush:leaves:"+T+"."+f, okIdle, st.Pos(), fmt.Sprintf("Flush assigns %s.%s (received data must reach Reset unchanged; only an idle timer's sampled count is zeroed)", T, f))
					}
				}
			}
		}
		r.Check("Flush:input-writes-examined", n >= 1, fl.Pos(), fmt.Sprintf("%d stores into received-data fields in Flush", n))
	})

	c.Rule("C01.R3", "Reset carries identity (Timestamp, Source, Tags) and no data; gauges untouched", 20, func(r *Rule) {
		resetRule(c, r)
	})

	c.Rule("C01.R4", "backends do not retain the flushed aggregate asynchronously (no go-closure capture, channel send or heap store of the *MetricMap in SendMetricsAsync)", 9, func(r *Rule) {
		for _, fn := range backendImpls(w, "SendMetricsAsync") {
			c.SawFunc(FuncName(fn))
			key := FuncName(fn)
			if len(fn.Params) < 3 {
				r.Fail(key, fn.Pos(), "unexpected signature")
				continue
			}
			mm := fn.Params[2]
			bad := ""
			// the parameter may be spilled into an alloc when captured by closures
			var holders []ssa.Value = []ssa.Value{mm}
			for _, rf := range referrers(mm) {
				if st, ok := rf.(*ssa.Store); ok && st.Val == mm {
					holders = append(holders, st.Addr)
					if _, isAlloc := st.Addr.(*ssa.Alloc); !isAlloc {
						bad = "stored to " + pathOf(st.Addr)
					}
				}
				if sd, ok := rf.(*ssa.Send); ok && sd.X == mm {
					bad = "sent on channel " + pathOf(sd.Chan)
				}
			}
			// closures capturing a holder must not be (transitively) started with go
			var goClosures = map[*ssa.Function]bool{}
			for _, f := range WithAnon(fn) {
				eachInstr(f, func(in ssa.Instruction) {
					if g, ok := in.(*ssa.Go); ok {
						if mc, ok := g.Call.Value.(*ssa.MakeClosure); ok {
							for _, a := range WithAnon(mc.Fn.(*ssa.Function)) {
								goClosures[a] = true
							}
						}
						for _, a := range g.Call.Args {
							if a == mm {
								bad = "passed to a goroutine at " + w.Pos(g.Pos())
							}
						}
					}
				})
			}
			for _, f := range WithAnon(fn)[1:] {
				if !goClosures[f] {
					continue
				}
				for _, fv := range f.FreeVars {
					if fv.Name() == mm.Name() {
						bad = "captured by goroutine closure " + f.Name()
					}
				}
			}
			r.Check(key, bad == "", fn.Pos(), "the *MetricMap parameter must not outlive the call: "+bad)
		}
	})

	c.Rule("C01.R5", "routing: split i goes to worker i (C06.R3) and Split is a partition (C06.R2)", 1, func(r *Rule) {
		sub := &Ctx{W: w, Prop: c.Prop, Tier: c.Tier, known: c.known}
		c06rules(sub, w, "C06")
		for _, sr := range sub.Rules {
			for _, o := range sr.Obls {
				o2 := *o
				o2.Rule = "C01.R5"
				o2.Key = sr.ID + "/" + o.Key
				r.Obls = append(r.Obls, &o2)
			}
		}
		for f := range sub.funcsSeen {
			c.SawFunc(f)
		}
	})

	c.Rule("C01.R6", "receive path formulas: counter += int64(value/rate); timer sampled count += 1/rate (all branches agree, C07.R5b); four-type dispatch in Receive", 6, func(r *Rule) {
		writeBackAll(c, r, func(fn *ssa.Function) bool {
			return strings.Contains(fn.Name(), "receive") || strings.Contains(fn.Name(), "Merge") || strings.Contains(FuncName(fn), "MetricAggregator")
		})
		// (a receive helper written into its arm of Receive's switch is looked for there)
		rc, _ := w.FuncOrHost("", "(*MetricMap).receiveCounter")
		rt, _ := w.FuncOrHost("", "(*MetricMap).receiveTimer")
		rv := w.Func("", "(*MetricMap).Receive")
		if rc == nil || rt == nil || rv == nil {
			r.Unresolved("(*MetricMap).receiveCounter/receiveTimer/Receive")
			return
		}
		c.SawFunc(FuncName(rc))
		c.SawFunc(FuncName(rt))
		// counter: the only value added / constructed is conv(int64)(m.Value / m.Rate)
		n := 0
		eachInstr(rc, func(in ssa.Instruction) {
			cv, ok := in.(*ssa.Convert)
			if !ok {
				return
			}
			if b := asBinOp(cv.X, token.QUO); b != nil && pathOf(b.X) == "m.Value" && pathOf(b.Y) == "m.Rate" {
				if bt, ok := cv.Type().Underlying().(*types.Basic); ok && bt.Kind() == types.Int64 {
					n++
				}
			}
		})
		r.Check("receiveCounter:trunc(value/rate)", n == 1, rc.Pos(), fmt.Sprintf("%d conversions int64(m.Value/m.Rate)", n))
		for _, st := range fieldStores(rc, "Counter", "Value") {
			b := asBinOp(st.Val, token.ADD)
			ok := b != nil && (pathOf(b.Y) == "conv((m.Value/m.Rate))" || pathOf(b.X) == "conv((m.Value/m.Rate))")
			r.Check("receiveCounter:adds-scaled-value", ok, st.Pos(), "stored "+pathOf(st.Val))
		}
		for _, call := range callsTo(rc, "gostatsd.NewCounter") {
			r.Check("receiveCounter:new-with-scaled-value", pathOf(call.Common().Args[1]) == "conv((m.Value/m.Rate))", call.Pos(), "NewCounter value = "+pathOf(call.Common().Args[1]))
		}
		// timer: every SampledCount store is old + 1/m.Rate or 1/m.Rate
		ns := 0
		for _, st := range fieldStores(rt, "Timer", "SampledCount") {
			p := pathOf(st.Val)
			ok := p == "(1/m.Rate)" || strings.HasSuffix(p, "+(1/m.Rate))")
			ns++
			r.Check("receiveTimer:sampled-count", ok, st.Pos(), "SampledCount <- "+p)
		}
		// (found / new tag set / new name; the two constructions may share one site) and every constructed timer gets one
		nNew := len(callsTo(rt, "gostatsd.NewTimer"))
		r.Check("receiveTimer:sampled-count-sites", ns >= 2 && ns >= nNew+1, rt.Pos(), fmt.Sprintf("%d SampledCount stores for the found case and %d NewTimer sites", ns, nNew))
		// every NewTimer call in receiveTimer is followed by a SampledCount store on all paths to the map update
		for _, call := range callsTo(rt, "gostatsd.NewTimer") {
			ok := false
			pd := newPostDom(rt)
			for _, st := range fieldStores(rt, "Timer", "SampledCount") {
				if pd.instrPostDominates(st, call) && instrDominates(call, st) {
					ok = true
				}
			}
			r.Check("receiveTimer:new-timer-gets-sampled-count", ok, call.Pos(), "a new timer's SampledCount must be set to 1/rate (NewTimer defaults it to the number of values)")
		}
		// Receive dispatches each MetricType constant to its receiver and calls Done once
		want := map[string]string{"COUNTER": "receiveCounter", "GAUGE": "receiveGauge", "TIMER": "receiveTimer", "SET": "receiveSet"}
		tab := switchTable(rv)
		for cn, fnn := range want {
			got := ""
			for k, blk := range tab {
				if k == cn {
					for _, in := range blk.Instrs {
						if call, ok := in.(ssa.CallInstruction); ok {
							if f := staticCallee(call); f != nil && strings.HasPrefix(f.Name(), "receive") {
								got = f.Name()
							}
						}
					}
					if got == "" {
						// the receiver is written in place: the arm (and nothing else) stores into the collection of its type
						field := map[string]string{"COUNTER": "Counters", "GAUGE": "Gauges", "TIMER": "Timers", "SET": "Sets"}[cn]
						okArm, other := false, false
						for _, b2 := range rv.Blocks {
							if b2 != blk && !blk.Dominates(b2) {
								continue
							}
							for _, in := range b2.Instrs {
								if mu, ok := in.(*ssa.MapUpdate); ok {
									p := mapHome(mu.Map) + " " + pathOf(mu.Map)
									for _, f := range []string{"Counters", "Gauges", "Timers", "Sets"} {
										if strings.Contains(p, "."+f) {
											if f == field {
												okArm = true
											} else {
												other = true
											}
										}
									}
								}
							}
						}
						if okArm && !other {
							got = fnn
						}
					}
				}
			}
			r.Check("Receive:"+cn, got == fnn, rv.Pos(), fmt.Sprintf("type %s handled by %q (want %s)", cn, got, fnn))
		}
	})

	if c.Tier == "thorough" {
		c.Rule("C01.R8", "thorough: in the VTA call graph (function values and interface calls resolved) the aggregator methods have no caller other than the worker loop, process commands and the aggregator itself", 4, func(r *Rule) {
			for _, m := range aggregatorMethods {
				fn := w.Func("pkg/statsd", "(*MetricAggregator)."+m)
				if fn == nil {
					r.Unresolved("(*MetricAggregator)." + m)
					continue
				}
				for _, caller := range vtaCallersOf(w, fn) {
					if strings.Contains(fnPkgPath(caller), "/internal/fixtures") {
						continue
					}
					ok := FuncName(caller) == "(*pkg/statsd.worker).work" || dpf[caller] || (caller.Signature.Recv() != nil && typeIs(caller.Signature.Recv().Type(), "pkg/statsd", "MetricAggregator")) || caller.Synthetic != ""
					r.Check("vta-caller:"+m+":"+FuncName(caller), ok, caller.Pos(), FuncName(caller)+" may call MetricAggregator."+m+" per VTA")
				}
			}
		})
	}

	c.Rule("C01.R11", "the parser hands on what it folded: in DatagramParser.Run every path from a MetricMap.Receive to the next batch passes the DispatchMetricMap of that map; a guard may only test the emptiness of what was folded (the slice ranged over, or the map)", 1, func(r *Rule) {
		run := w.Func("pkg/statsd", "(*DatagramParser).Run")
		if run == nil {
			r.Unresolved("(*DatagramParser).Run")
			return
		}
		c.SawFunc(FuncName(run))
		for i, rc := range callsTo(run, "(*gostatsd.MetricMap).Receive") {
			args := rc.Common().Args
			mm := args[0]
			var folded ssa.Value
			if u, isU := args[1].(*ssa.UnOp); isU {
				if ia, isIA := u.X.(*ssa.IndexAddr); isIA {
					folded = ia.X
				}
			}
			dispatches := func(b *ssa.BasicBlock) bool {
				for _, in := range b.Instrs {
					if cl, ok := in.(ssa.CallInstruction); ok && cl.Common().IsInvoke() && cl.Common().Method.Name() == "DispatchMetricMap" && len(cl.Common().Args) == 2 && cl.Common().Args[1] == mm {
						if _, isGo := in.(*ssa.Go); !isGo {
							return true
						}
					}
				}
				return false
			}
			nextBatch := func(b *ssa.BasicBlock) bool {
				for _, in := range b.Instrs {
					switch in.(type) {
					case *ssa.Select, *ssa.Return:
						return true
					}
				}
				return false
			}
			// nonEmpty(cond) = +1 when cond holds exactly when the folded data is non-empty, -1 when it holds exactly when it is empty
			nonEmpty := func(cond ssa.Value) int {
				sense := 1
				for {
					u, ok := cond.(*ssa.UnOp)
					if !ok || u.Op != token.NOT {
						break
					}
					sense, cond = -sense, u.X
				}
				if cl, ok := cond.(*ssa.Call); ok && isCall(cl, "(*gostatsd.MetricMap).IsEmpty") && cl.Call.Args[0] == mm {
					return -sense
				}
				b, ok := cond.(*ssa.BinOp)
				if !ok || folded == nil {
					return 0
				}
				isLen := func(v ssa.Value) bool {
					cl, ok := v.(*ssa.Call)
					return ok && isCall(cl, "builtin len") && cl.Call.Args[0] == folded
				}
				x, y, op := b.X, b.Y, b.Op
				if isLen(y) { // const OP len -> len OP' const
					x, y = y, x
					switch op {
					case token.LSS:
						op = token.GTR
					case token.GTR:
						op = token.LSS
					case token.LEQ:
						op = token.GEQ
					case token.GEQ:
						op = token.LEQ
					}
				}
				k, isC := constInt(y)
				if !isLen(x) || !isC {
					return 0
				}
				switch {
				case op == token.GTR && k == 0, op == token.NEQ && k == 0, op == token.GEQ && k == 1:
					return sense
				case op == token.EQL && k == 0, op == token.LSS && k == 1, op == token.LEQ && k == 0:
					return -sense
				}
				return 0
			}
			seen := map[*ssa.BasicBlock]bool{}
			var escape *ssa.BasicBlock
			var dfs func(b *ssa.BasicBlock)
			dfs = func(b *ssa.BasicBlock) {
				if escape != nil || seen[b] {
					return
				}
				seen[b] = true
				if dispatches(b) {
					return
				}
				if b != rc.Block() && nextBatch(b) {
					escape = b
					return
				}
				succs := b.Succs
				if iff, ok := b.Instrs[len(b.Instrs)-1].(*ssa.If); ok && len(succs) == 2 {
					switch nonEmpty(iff.Cond) {
					case 1:
						succs = succs[:1]
					case -1:
						succs = succs[1:]
					}
				}
				for _, s := range succs {
					dfs(s)
				}
			}
			seen[rc.Block()] = false
			for _, s := range rc.Block().Succs {
				dfs(s)
			}
			where := ""
			if escape != nil {
				where = fmt.Sprintf(" (reaches block %d %s without it)", escape.Index, escape.Comment)
			}
			r.Check(fmt.Sprintf("Run:folded-is-dispatched#%d", i+1), escape == nil, rc.Pos(), "after mm.Receive the batch map is dispatched before the next batch is read"+where)
		}
	})

	c.Rule("C01.R7", "four-type exhaustiveness on the standalone path (C07.R6)", 10, func(r *Rule) {
		fourTypeRule(c, r, nil)
	})

	c.Rule("C01.R9", "what a shard receives is merged without loss: the merge rules C07.R1-R5 / R8 on MetricMap.Merge* (the aggregator's ReceiveMap) and receive*", 40, func(r *Rule) {
		sub := &Ctx{W: w, Prop: c.Prop, Tier: c.Tier, known: c.known}
		c07(sub)
		for _, sr := range sub.Rules {
			switch sr.ID {
			case "C07.R1", "C07.R2", "C07.R3", "C07.R4", "C07.R5", "C07.R5b", "C07.R5c", "C07.R8":
			default:
				continue
			}
			for _, o := range sr.Obls {
				if strings.Contains(o.Key, "gostatsd.MetricMap") || sr.ID == "C07.R8" {
					o2 := *o
					o2.Rule = "C01.R9"
					o2.Key = sr.ID + "/" + o.Key
					r.Obls = append(r.Obls, &o2)
				}
			}
		}
	})
}

// switchTable maps named constants compared with == against the switched value to the block
// entered when equal.  Constants are resolved to their declared names in the root package.
func switchTable(fn *ssa.Function) map[string]*ssa.BasicBlock {
	out := map[string]*ssa.BasicBlock{}
	eachInstr(fn, func(in ssa.Instruction) {
		ifi, ok := in.(*ssa.If)
		if !ok {
			return
		}
		b := asBinOp(ifi.Cond, token.EQL)
		if b == nil {
			return
		}
		cst, ok := b.Y.(*ssa.Const)
		if !ok {
			cst, ok = b.X.(*ssa.Const)
		}
		if !ok || cst.Value == nil {
			return
		}
		name := constName(cst)
		out[name] = ifi.Block().Succs[0]
	})
	return out
}

// constName resolves a typed constant to the name of a package-level constant of the same
// named type and value, else its literal.
func constName(c *ssa.Const) string {
	if n, ok := c.Type().(*types.Named); ok && n.Obj().Pkg() != nil {
		sc := n.Obj().Pkg().Scope()
		for _, nm := range sc.Names() {
			if k, ok := sc.Lookup(nm).(*types.Const); ok && types.Identical(k.Type(), n) && k.Val().ExactString() == c.Value.ExactString() {
				return nm
			}
		}
	}
	return c.Value.ExactString()
}

// backendImpls returns the method `name` of every module type implementing gostatsd.Backend.
func backendImpls(w *World, name string) []*ssa.Function {
	bi := w.Named("", "Backend")
	if bi == nil {
		return nil
	}
	iface := bi.Underlying().(*types.Interface)
	var out []*ssa.Function
	seen := map[*ssa.Function]bool{}
	for path, sp := range w.SSAPkgs {
		if !isModPath(path) || strings.Contains(path, "/internal/fixtures") || strings.Contains(path, "/cmd/") {
			continue
		}
		for _, mem := range sp.Members {
			t, ok := mem.(*ssa.Type)
			if !ok {
				continue
			}
			for _, typ := range []types.Type{t.Type(), types.NewPointer(t.Type())} {
				if _, isIface := typ.Underlying().(*types.Interface); isIface {
					continue
				}
				if types.Implements(typ, iface) {
					sel := w.Prog.MethodSets.MethodSet(typ).Lookup(sp.Pkg, name)
					if sel == nil {
						continue
					}
					f := w.Prog.MethodValue(sel)
					if f != nil && f.Blocks != nil && !seen[f] && f.Synthetic == "" {
						seen[f] = true
						out = append(out, f)
					}
				}
			}
		}
	}
	sort.Slice(out, func(i, j int) bool { return FuncName(out[i]) < FuncName(out[j]) })
	return out
}

// vtaCallersOf returns the functions with an edge to fn in the VTA call graph.
func vtaCallersOf(w *World, fn *ssa.Function) []*ssa.Function {
	cg := w.VTA()
	n := cg.Nodes[fn]
	if n == nil {
		return nil
	}
	seen := map[*ssa.Function]bool{}
	var out []*ssa.Function
	for _, e := range n.In {
		c := e.Caller.Func
		if c != nil && !seen[c] {
			seen[c] = true
			out = append(out, c)
		}
	}
	sort.Slice(out, func(i, j int) bool { return FuncName(out[i]) < FuncName(out[j]) })
	return out
}
