package main

import (
	"fmt"
	"go/token"
	"go/types"
	"sort"
	"strings"

	"golang.org/x/tools/go/ssa"
)

func init() { register("C02", c02) }

const lexPkg = "internal/lexer"

// classify maps a leaf's effect string to an action class via ordered patterns.
type effClass struct {
	Name string
	Must []string // substrings that must all be present
	Not  []string // substrings that must be absent
}

func classifyEff(eff string, classes []effClass) string {
	for _, c := range classes {
		ok := true
		for _, m := range c.Must {
			// "a||b": either spelling of the same effect
			any := false
			for _, alt := range strings.Split(m, "||") {
				if strings.Contains(eff, alt) {
					any = true
				}
			}
			if !any {
				ok = false
			}
		}
		for _, n := range c.Not {
			if strings.Contains(eff, n) {
				ok = false
			}
		}
		if ok {
			return c.Name
		}
	}
	return "other(" + eff + ")"
}

// checkByteTable compares the extracted table of fn with want(b) for all 256 bytes.
func checkByteTable(c *Ctx, r *Rule, fn *ssa.Function, classes []effClass, want func(b int) string) {
	call, blk, idx := nextByteCall(fn)
	if call == nil {
		r.Fail(fn.Name()+":dispatch-byte", fn.Pos(), "function does not read a byte with l.next()")
		return
	}
	c.SawFunc(FuncName(fn))
	tab := byteDecision(call, blk, idx)
	// group mismatches by (got,want)
	type mm struct{ got, want string }
	bad := map[mm][]int{}
	good := map[string][]int{}
	for b := 0; b < 256; b++ {
		got := classifyEff(tab[b].Effects, classes)
		if tab[b].Undecid != "" {
			got = "undecided(" + tab[b].Undecid + ")"
		}
		w := want(b)
		if got != w {
			bad[mm{got, w}] = append(bad[mm{got, w}], b)
		} else {
			good[w] = append(good[w], b)
		}
	}
	var names []string
	for k := range good {
		names = append(names, k)
	}
	sort.Strings(names)
	for _, k := range names {
		r.Pass(fn.Name()+":"+k, fn.Pos(), "bytes "+byteSetString(good[k])+" -> "+k)
	}
	for k, bs := range bad {
		r.Fail(fn.Name()+":"+k.want, fn.Pos(), fmt.Sprintf("bytes %s -> %s, documented: %s", byteSetString(bs), k.got, k.want))
	}
}

func c02(c *Ctx) {
	w := c.W
	c.Explanation = "C02 (line grammar): the lexer's byte dispatch tables are extracted exhaustively (all 256 byte values through each comparison tree) and compared with the documented grammar: name normalisation, type table, attribute introducers, event attribute keys, priority / alert words; well-formedness guards dominate the stores of name, value and sample rate; tags are non-empty and delimiter-free by construction; accept exits and the state-transition relation match the documented chain; every per-line field is re-initialised by Run."
	c.NotDecided = []string{"that the state machine as a whole accepts exactly the grammar on all byte strings (offset arithmetic, field extraction positions)", "strconv.ParseFloat's accepted syntax"}
	c.Assumptions = []string{"the documented tables frozen in checker/c02.go are the README grammar", "anchors by name: the state functions of internal/lexer (a pure rename is reported as UNRESOLVED-ANCHOR)"}

	F := func(name string) *ssa.Function {
		if name == "lexKey" {
			// lexKey may have been merged into the state that hands over to it (its only user)
			fn, _ := w.FuncOrHost(lexPkg, name)
			return fn
		}
		return w.Func(lexPkg, name)
	}

	c.Rule("C02.R1", "type table: c->COUNTER g->GAUGE ms->TIMER h->TIMER s->SET, anything else is an error", 6, func(r *Rule) {
		fn := F("lexType")
		if fn == nil {
			r.Unresolved("lexer.lexType")
			return
		}
		classes := []effClass{
			{"COUNTER", []string{"store l.m.Type <- COUNTER", "return lexMetricAttributes"}, []string{"l.err"}},
			{"GAUGE", []string{"store l.m.Type <- GAUGE", "return lexMetricAttributes"}, []string{"l.err"}},
			{"TIMER", []string{"store l.m.Type <- TIMER", "return lexMetricAttributes"}, []string{"l.err"}},
			{"SET", []string{"store l.m.Type <- SET", "return lexMetricAttributes"}, []string{"l.err"}},
			{"second-byte", []string{"call (*internal/lexer.Lexer).next", "branch"}, []string{"store"}},
			{"error", []string{"store l.err <- global:errInvalidType", "return nil"}, []string{"l.m.Type"}},
		}
		checkByteTable(c, r, fn, classes, func(b int) string {
			switch b {
			case 'c':
				return "COUNTER"
			case 'g':
				return "GAUGE"
			case 'h':
				return "TIMER"
			case 's':
				return "SET"
			case 'm':
				return "second-byte"
			}
			return "error"
		})
		// the 'm' case: second byte must be 's' for TIMER, otherwise error
		var second *ssa.Call
		n := 0
		eachInstr(fn, func(in ssa.Instruction) {
			if cl, ok := in.(*ssa.Call); ok {
				if cal := staticCallee(cl); cal != nil && cal.Name() == "next" {
					n++
					if n == 2 {
						second = cl
					}
				}
			}
		})
		if second == nil {
			r.Fail("lexType:ms", fn.Pos(), "no second byte read for the 'ms' type")
			return
		}
		tab := byteDecision(second, second.Block(), instrIndex(second)+1)
		okS, okOther := true, true
		for b := 0; b < 256; b++ {
			cl := classifyEff(tab[b].Effects, classes)
			if b == 's' && cl != "TIMER" {
				okS = false
			}
			if b != 's' && cl != "error" {
				okOther = false
			}
		}
		r.Check("lexType:ms->TIMER", okS, second.Pos(), "'m' followed by 's' yields TIMER")
		r.Check("lexType:m?->error", okOther, second.Pos(), "'m' followed by anything else is an invalid type")
	})

	c.Rule("C02.R2", "event attribute table: d,h,k,p,s,t,# map to their fields; priority {low,normal}; alert {error,warning,success,info}; unknown keys skipped", 14, func(r *Rule) {
		fn := F("lexEventAttribute")
		if fn == nil {
			r.Unresolved("lexer.lexEventAttribute")
			return
		}
		c.SawFunc(FuncName(fn))
		call, blk, idx := nextByteCall(fn)
		if call == nil {
			r.Fail("lexEventAttribute:dispatch", fn.Pos(), "no byte dispatch")
			return
		}
		tab := byteDecision(call, blk, idx)
		// for each key byte, the Event fields stored by closures created in the leaf block
		fieldsOf := func(leaf *ssa.BasicBlock) (fields []string, tags bool, skip bool) {
			set := map[string]bool{}
			var visit func(f *ssa.Function)
			visit = func(f *ssa.Function) {
				for _, g := range WithAnon(f) {
					for _, st := range storesIn(g) {
						if t, fld, _, ok := fieldRef(st.Addr); ok && t == "Event" {
							set[fld] = true
						}
					}
					for _, cl := range callsIn(g) {
						if cal := staticCallee(cl); cal != nil && cal.Name() == "appendTag" {
							tags = true
						}
					}
					for _, st := range fieldStores(g, "Lexer", "tags") {
						if cl, ok := st.Val.(*ssa.Call); ok && isCall(cl, "builtin append") {
							tags = true
						}
					}
				}
			}
			for _, in := range leaf.Instrs {
				if mc, ok := in.(*ssa.MakeClosure); ok {
					visit(mc.Fn.(*ssa.Function))
				}
				for _, op := range in.Operands(nil) {
					if af, ok := (*op).(*ssa.Function); ok && af.Parent() != nil {
						visit(af)
					}
				}
			}
			// direct effects in the leaf region (tags loop / skip)
			reg := reachableFrom(leaf)
			reg[leaf] = true
			for b := range reg {
				if !(b == leaf || leaf.Dominates(b)) {
					continue
				}
				for _, in := range b.Instrs {
					if cl, ok := in.(ssa.CallInstruction); ok {
						if cal := staticCallee(cl); cal != nil {
							switch cal.Name() {
							case "appendTag":
								tags = true
							case "seekUntil":
								skip = true
							}
						}
					}
					if st, ok := in.(*ssa.Store); ok {
						if t, f, _, ok := fieldRef(st.Addr); ok && t == "Lexer" && f == "tags" {
							if cl, ok := st.Val.(*ssa.Call); ok && isCall(cl, "builtin append") {
								tags = true
							}
						}
					}
				}
			}
			for f := range set {
				fields = append(fields, f)
			}
			sort.Strings(fields)
			return
		}
		want := map[int]string{'d': "DateHappened", 'h': "Source", 'k': "AggregationKey", 'p': "Priority", 's': "SourceTypeName", 't': "AlertType"}
		seenLeaves := map[*ssa.BasicBlock]bool{}
		var otherBytes []int
		okOther := true
		for b := 0; b < 256; b++ {
			if tab[b].Undecid != "" {
				r.Fail(fmt.Sprintf("lexEventAttribute:byte-%d", b), fn.Pos(), tab[b].Undecid)
				continue
			}
			leaf := tab[b].Block
			fields, tags, skip := fieldsOf(leaf)
			if wf, ok := want[b]; ok {
				r.Check(fmt.Sprintf("lexEventAttribute:%q", rune(b)), len(fields) == 1 && fields[0] == wf && !tags, fn.Pos(), fmt.Sprintf("key %q stores Event fields %v (documented: %s)", rune(b), fields, wf))
				seenLeaves[leaf] = true
				continue
			}
			if b == '#' {
				r.Check("lexEventAttribute:'#'", tags && len(fields) == 0, fn.Pos(), fmt.Sprintf("'#' appends tags=%v, stores %v", tags, fields))
				continue
			}
			otherBytes = append(otherBytes, b)
			if len(fields) != 0 || tags || !skip || strings.Contains(tab[b].Effects, "l.err") || !strings.Contains(tab[b].Effects, "return lexEventAttributes") {
				okOther = false
			}
		}
		r.Check("lexEventAttribute:unknown-keys-skipped", okOther, fn.Pos(), "bytes "+byteSetString(otherBytes)+" skip to the next '|' and continue without error")
		// word comparisons: bytes.Equal(data, <constant bytes>) or string(data) == "<word>" (incl. switch cases)
		wordOf := func(v ssa.Value) (string, bool) {
			switch x := v.(type) {
			case *ssa.Call:
				if isCall(x, "bytes.Equal") && len(x.Call.Args) == 2 {
					if s, ok := byteSliceConst(w, x.Call.Args[1], 0); ok {
						return s, true
					}
					if s, ok := byteSliceConst(w, x.Call.Args[0], 0); ok {
						return s, true
					}
				}
			case *ssa.BinOp:
				if x.Op == token.EQL {
					if s, ok := constString(x.Y); ok {
						if _, isConv := x.X.(*ssa.Convert); isConv {
							return s, true
						}
					}
					if s, ok := constString(x.X); ok {
						if _, isConv := x.Y.(*ssa.Convert); isConv {
							return s, true
						}
					}
				}
			}
			return "", false
		}
		// in the p / t closures: the store of constant K is controlled by a successful comparison with K's word
		wantWord := map[string]string{"PriLow": "low", "AlertError": "error", "AlertWarning": "warning", "AlertSuccess": "success"}
		wantSet := map[string]string{"Priority": "low normal", "AlertType": "error info success warning"}
		found := map[string]bool{}
		for _, g := range WithAnon(fn) {
			fieldOfG := ""
			for _, st := range storesIn(g) {
				t, fld, _, ok := fieldRef(st.Addr)
				if !ok || t != "Event" || (fld != "Priority" && fld != "AlertType") {
					continue
				}
				fieldOfG = fld
				k, isC := st.Val.(*ssa.Const)
				if !isC {
					r.Fail("enum-store:"+fld, st.Pos(), "non-constant stored into Event."+fld)
					continue
				}
				name := constName(k)
				guard, have := "", false
				for _, cd := range condsFor(st.Block()) {
					cd = normCond(cd)
					if wd, ok := wordOf(cd.V); ok && cd.Sense {
						guard, have = wd, true
					}
				}
				found[name] = true
				r.Check("enum-store:"+name, have && guard == wantWord[name], st.Pos(), fmt.Sprintf("%s stored when the word is %q (documented %q)", name, guard, wantWord[name]))
			}
			if fieldOfG == "" {
				continue
			}
			// the words this closure knows, and: an unknown word reaches the error store
			set := map[string]bool{}
			var cmps []ssa.Value
			eachInstr(g, func(in ssa.Instruction) {
				if v, ok := in.(ssa.Value); ok {
					if wd, ok := wordOf(v); ok {
						set[wd] = true
						cmps = append(cmps, v)
					}
				}
			})
			var ws []string
			for wd := range set {
				ws = append(ws, wd)
			}
			sort.Strings(ws)
			r.Check("word:"+fieldOfG, strings.Join(ws, " ") == wantSet[fieldOfG], g.Pos(), fmt.Sprintf("words accepted for Event.%s: %v (documented: %s)", fieldOfG, ws, wantSet[fieldOfG]))
			okErr := false
			for _, st := range fieldStores(g, "Lexer", "err") {
				falseSeen := map[ssa.Value]bool{}
				for _, cd := range condsFor(st.Block()) {
					cd = normCond(cd)
					if _, ok := wordOf(cd.V); ok && !cd.Sense {
						falseSeen[cd.V] = true
					}
				}
				if len(falseSeen) == len(cmps) && len(cmps) > 0 {
					okErr = true
				}
			}
			r.Check("enum-unknown-word-is-error:"+fieldOfG, okErr, g.Pos(), fmt.Sprintf("%d word comparisons; an unknown word must reach the error store", len(cmps)))
		}
		for k := range wantWord {
			if !found[k] {
				r.Fail("enum-store:"+k, fn.Pos(), "no store of "+k)
			}
		}
		// d: value bounded by MaxInt64 before the int64 conversion
		for _, g := range WithAnon(fn) {
			for _, st := range fieldStores(g, "Event", "DateHappened") {
				ok := false
				for _, cd := range condsFor(st.Block()) {
					cd = normCond(cd)
					if b := asBinOp(cd.V, token.GTR); b != nil && !cd.Sense {
						if n, isC := constInt(b.Y); isC && n == 1<<63-1 {
							ok = true
						}
					}
				}
				r.Check("DateHappened:bounded", ok, st.Pos(), "DateHappened stored only when value <= MaxInt64")
			}
		}
	})

	c.Rule("C02.R3", "name normalisation: '/'->'-', blank and tab->'_', [A-Za-z0-9._-] kept, ':' ends the name, NUL/end is an error, every other byte deleted", 6, func(r *Rule) {
		fn := F("lexKeySep")
		if fn == nil {
			r.Unresolved("lexer.lexKeySep")
			return
		}
		endOfName := effClass{"end-of-name", []string{"return lexKey"}, []string{"store"}}
		if lk := F("lexKey"); lk != nil && lk.Name() != "lexKey" {
			// the name state was merged into the separator state: ':' now does what lexKey did (checked by the
			// lexKey rules on the merged function) and hands over to lexKey's successor
			endOfName = effClass{"end-of-name", []string{"branch"}, nil}
		}
		classes := []effClass{
			{"replace-with-'-'", []string{"store l.input[(l.pos-1)] <- 45", "loop"}, []string{"l.err", "append"}},
			{"replace-with-'_'", []string{"store l.input[(l.pos-1)] <- 95", "loop"}, []string{"l.err", "append"}},
			endOfName,
			{"error", []string{"store l.err <- global:errMissingKeySep", "return nil"}, nil},
			{"keep", []string{"loop"}, []string{"store", "call"}},
			{"delete", []string{"call builtin append||call builtin copy", "store l.input <-", "store l.len <- (l.len-1)", "store l.pos <- (l.pos-1)", "loop"}, []string{"l.err"}},
		}
		checkByteTable(c, r, fn, classes, func(b int) string {
			switch {
			case b == '/':
				return "replace-with-'-'"
			case b == ' ' || b == '\t':
				return "replace-with-'_'"
			case b == ':':
				return "end-of-name"
			case b == 0:
				return "error"
			case b == '.' || b == '-' || b == '_' || (b >= 'a' && b <= 'z') || (b >= 'A' && b <= 'Z') || (b >= '0' && b <= '9'):
				return "keep"
			}
			return "delete"
		})
		// the deletion moves the suffix left inside l.input, over the byte just read:
		// append(l.input[:pos-1], l.input[pos:]...)  or  copy(l.input[pos-1:], l.input[pos:]) followed by a reslice
		ok := false
		eachInstr(fn, func(in ssa.Instruction) {
			cl, isC := in.(*ssa.Call)
			if !isC {
				return
			}
			if isCall(cl, "builtin append") {
				a0, a1 := pathOf(cl.Call.Args[0]), pathOf(cl.Call.Args[1])
				if (a0 == "l.input[0:(l.pos-1)]" || a0 == "l.input[:(l.pos-1)]") && strings.HasPrefix(a1, "l.input[l.pos:") {
					ok = true
				}
				// the same with the offsets computed through temporaries: append(l.input[:pos+a], l.input[pos+b:]...)
				// with a == -1 and b == 0
				var posOff func(v ssa.Value, d int) (int64, bool)
				posOff = func(v ssa.Value, d int) (int64, bool) {
					if d > 4 {
						return 0, false
					}
					if pathOf(v) == "l.pos" {
						return 0, true
					}
					if b, isB := v.(*ssa.BinOp); isB && (b.Op == token.ADD || b.Op == token.SUB) {
						if k, isK := constInt(b.Y); isK {
							if o, okX := posOff(b.X, d+1); okX {
								if b.Op == token.SUB {
									k = -k
								}
								return o + k, true
							}
						}
					}
					return 0, false
				}
				s0, is0 := cl.Call.Args[0].(*ssa.Slice)
				s1, is1 := stripConv(cl.Call.Args[1]).(*ssa.Slice)
				if is0 && is1 && pathOf(s0.X) == "l.input" && pathOf(s1.X) == "l.input" && s0.High != nil && s1.Low != nil && s1.High == nil {
					lowZero := s0.Low == nil
					if k, isK := constInt(s0.Low); s0.Low != nil && isK && k == 0 {
						lowZero = true
					}
					h, okH := posOff(s0.High, 0)
					lo, okL := posOff(s1.Low, 0)
					if lowZero && okH && okL && h == -1 && lo == 0 {
						ok = true
					}
				}
			}
			if isCall(cl, "builtin copy") {
				a0, a1 := pathOf(cl.Call.Args[0]), pathOf(cl.Call.Args[1])
				if strings.HasPrefix(a0, "l.input[(l.pos-1):") && strings.HasPrefix(a1, "l.input[l.pos:") {
					ok = true
				}
			}
		})
		r.Check("lexKeySep:delete-shape", ok, fn.Pos(), "deletion shifts l.input[pos:] onto l.input[pos-1:] (append or copy form)")
	})

	c.Rule("C02.R3b", "attribute introducers: '|' continues, end accepts, anything else is an error; '@' rate, '#' tags, other fields skipped; '_' selects events", 9, func(r *Rule) {
		for _, nm := range []string{"lexMetricAttributes", "lexEventAttributes"} {
			fn := F(nm)
			if fn == nil {
				r.Unresolved("lexer." + nm)
				continue
			}
			next := strings.TrimSuffix(nm, "s")
			classes := []effClass{
				{"continue", []string{"return " + next}, []string{"l.err"}},
				{"accept", []string{"return nil"}, []string{"l.err", "store l.m", "store l.e"}},
				{"error", []string{"store l.err <- global:", "return nil"}, nil},
			}
			checkByteTable(c, r, fn, classes, func(b int) string {
				switch b {
				case '|':
					return "continue"
				case 0:
					return "accept"
				}
				return "error"
			})
		}
		if fn := F("lexMetricAttribute"); fn != nil {
			classes := []effClass{
				{"rate", []string{"call internal/lexer.seekUntil", "call strconv.ParseFloat", "branch"}, nil},
				{"tags", []string{"call internal/lexer.seekDelimited", "call (*internal/lexer.Lexer).appendTag||appends l.tags"}, []string{"l.err"}},
				{"skip", []string{"call internal/lexer.seekUntil", "return lexMetricAttributes"}, []string{"l.err", "ParseFloat", "appendTag", "l.sampling"}},
			}
			checkByteTable(c, r, fn, classes, func(b int) string {
				switch b {
				case '@':
					return "rate"
				case '#':
					return "tags"
				}
				return "skip"
			})
		} else {
			r.Unresolved("lexer.lexMetricAttribute")
		}
		if fn := F("lexSpecial"); fn != nil {
			classes := []effClass{
				{"event", []string{"return lexDatadogSpecial"}, []string{"l.err", "store"}},
				{"error", []string{"store l.err <- global:", "return nil"}, nil},
				{"metric", []string{"store l.pos <- (l.pos-1)", "call (*internal/pool.MetricPool).Get", "return lexKeySep"}, []string{"l.err"}},
			}
			checkByteTable(c, r, fn, classes, func(b int) string {
				switch b {
				case '_':
					return "event"
				case 0:
					return "error"
				}
				return "metric"
			})
		} else {
			r.Unresolved("lexer.lexSpecial")
		}
		if fn := F("lexDatadogSpecial"); fn != nil {
			classes := []effClass{
				{"event", []string{"store l.e <-", "call internal/lexer.lexAssert", "return call:internal/lexer.lexAssert"}, []string{"l.err"}},
				{"error", []string{"store l.err <- global:", "return nil"}, nil},
			}
			checkByteTable(c, r, fn, classes, func(b int) string {
				if b == 'e' {
					return "event"
				}
				return "error"
			})
		} else {
			r.Unresolved("lexer.lexDatadogSpecial")
		}
	})

	c.Rule("C02.R4", "well-formedness guards dominate the stores of name, value and sample rate; tags are non-empty and contain neither ',' nor '|'", 8, func(r *Rule) {
		// (a) lexKey: Name stored only when start != pos-1
		if fn := F("lexKey"); fn != nil {
			c.SawFunc(FuncName(fn))
			sts := fieldStores(fn, "Metric", "Name")
			r.Check("lexKey:stores-name", len(sts) >= 1, fn.Pos(), "lexKey stores the metric name")
			for _, st := range sts {
				ok := false
				for _, cd := range condsFor(st.Block()) {
					cd = normCond(cd)
					if b := asBinOp(cd.V, token.EQL, token.NEQ); b != nil {
						x, y := pathOf(b.X), pathOf(b.Y)
						if (x == "l.start" && y == "(l.pos-1)") || (y == "l.start" && x == "(l.pos-1)") {
							if (b.Op == token.EQL && !cd.Sense) || (b.Op == token.NEQ && cd.Sense) {
								ok = true
							}
						}
					}
				}
				r.Check("lexKey:non-empty-name", ok, st.Pos(), "Name stored only when l.start != l.pos-1 (non-empty name)")
			}
			// the name is l.input[start:pos-1]
			okSl := false
			eachInstr(fn, func(in ssa.Instruction) {
				if sl, ok := in.(*ssa.Slice); ok && pathOf(sl) == "l.input[l.start:(l.pos-1)]" {
					okSl = true
				}
			})
			r.Check("lexKey:name-slice", okSl, fn.Pos(), "name is l.input[l.start : l.pos-1]")
		} else {
			r.Unresolved("lexer.lexKey")
		}
		// (b) Run: m.Value stored only when ParseFloat succeeded and the value is not NaN
		run := F("(*Lexer).Run")
		if run == nil {
			r.Unresolved("(*Lexer).Run")
			return
		}
		c.SawFunc(FuncName(run))
		for _, st := range fieldStores(run, "Metric", "Value") {
			okErr, okNaN, okNotSet := false, false, false
			for _, cd := range condsFor(st.Block()) {
				cd = normCond(cd)
				if cl, ok := cd.V.(*ssa.Call); ok && isCall(cl, "math.IsNaN") && !cd.Sense && cl.Call.Args[0] == stripConv(st.Val) {
					okNaN = true
				}
				if b := asBinOp(cd.V, token.NEQ, token.EQL); b != nil {
					if isNilConst(b.Y) && strings.Contains(pathOf(b.X), "call(strconv.ParseFloat)#1") {
						if (b.Op == token.NEQ && !cd.Sense) || (b.Op == token.EQL && cd.Sense) {
							okErr = true
						}
					}
					if strings.HasSuffix(pathOf(b.X), ".Type") {
						if n := constName(b.Y.(*ssa.Const)); n == "SET" && ((b.Op == token.NEQ && cd.Sense) || (b.Op == token.EQL && !cd.Sense)) {
							okNotSet = true
						}
					}
				}
			}
			src := strings.Contains(pathOf(st.Val), "call(strconv.ParseFloat)#0")
			if ph, isPhi := st.Val.(*ssa.Phi); isPhi && !src {
				// the (value, error) pair of a conversion helper written in place: only the origin that comes with a nil
				// error reaches this store; it must be ParseFloat's value, and the helper's own tests (error, NaN) are
				// the conditions on that edge
				if leaves, ok := successLeaves(ph, st.Block()); ok && len(leaves) == 1 {
					lv := leaves[0]
					if strings.Contains(pathOf(lv.V), "call(strconv.ParseFloat)#0") {
						src = true
						for _, cd := range lv.Conds {
							cd = normCond(cd)
							if cl, ok := cd.V.(*ssa.Call); ok && isCall(cl, "math.IsNaN") && !cd.Sense && cl.Call.Args[0] == stripConv(lv.V) {
								okNaN = true
							}
							if b := asBinOp(cd.V, token.NEQ, token.EQL); b != nil && isNilConst(b.Y) && strings.Contains(pathOf(b.X), "call(strconv.ParseFloat)#1") {
								if (b.Op == token.NEQ && !cd.Sense) || (b.Op == token.EQL && cd.Sense) {
									okErr = true
								}
							}
						}
					}
				}
			}
			r.Check("Run:value-from-ParseFloat", src, st.Pos(), "Value <- "+pathOf(st.Val))
			r.Check("Run:value-parse-ok", okErr, st.Pos(), "Value stored only when ParseFloat's error is nil")
			r.Check("Run:value-not-NaN", okNaN, st.Pos(), "Value stored only when !math.IsNaN(v)")
			r.Check("Run:value-non-set", okNotSet, st.Pos(), "numeric conversion only for non-set types")
		}
		// every non-error return of Run for a metric passes the Value store or is a SET
		// (c) sample rate: every store to l.sampling is 1 or a guarded ParseFloat result
		n := 0
		for _, fn := range pkgFuncs(w, lexPkg) {
			for _, st := range fieldStores(fn, "Lexer", "sampling") {
				n++
				key := "sampling-store:" + FuncName(fn)
				if k, ok := stripConv(st.Val).(*ssa.Const); ok {
					r.Check(key, k.Value != nil && k.Value.ExactString() == "1", st.Pos(), "constant sample rate "+pathOf(k))
					continue
				}
				stVal := st.Val
				conds := condsFor(st.Block())
				if ph, isPhi := st.Val.(*ssa.Phi); isPhi {
					// a (value, error) pair returned by an inlined helper: only the origins that come with a nil
					// error reach this store (the error is tested before it)
					leaves, ok := successLeaves(ph, st.Block())
					if !ok || len(leaves) != 1 {
						r.Fail(key, st.Pos(), fmt.Sprintf("sample rate stored from %s (%d success origins)", pathOf(st.Val), len(leaves)))
						continue
					}
					stVal = leaves[0].V
					conds = append(append([]Cond{}, leaves[0].Conds...), conds...)
				}
				if !strings.Contains(pathOf(stVal), "call(strconv.ParseFloat)#0") {
					r.Fail(key, st.Pos(), "sample rate stored from "+pathOf(stVal))
					continue
				}
				okErr, okPos, okFin := false, false, false
				for _, cd := range conds {
					cd = normCond(cd)
					if b := asBinOp(cd.V, token.NEQ, token.EQL); b != nil && isNilConst(b.Y) && strings.Contains(pathOf(b.X), "ParseFloat)#1") {
						if (b.Op == token.NEQ && !cd.Sense) || (b.Op == token.EQL && cd.Sense) {
							okErr = true
						}
					}
					if b := asBinOp(cd.V, token.GTR, token.LSS); b != nil && cd.Sense {
						zeroR, _ := constFloatZero(b.Y)
						zeroL, _ := constFloatZero(b.X)
						if (b.Op == token.GTR && b.X == stVal && zeroR) || (b.Op == token.LSS && b.Y == stVal && zeroL) {
							okPos = true // v > 0 is false for NaN as well
						}
					}
					if cl, ok := cd.V.(*ssa.Call); ok && isCall(cl, "math.IsInf") && !cd.Sense && cl.Call.Args[0] == stVal {
						if s, isC := constInt(cl.Call.Args[1]); isC && s >= 0 {
							okFin = true
						}
					}
				}
				r.Check(key+":parse-ok", okErr, st.Pos(), "rate stored only when ParseFloat succeeded")
				r.Check(key+":positive-not-NaN", okPos, st.Pos(), "rate stored only under 'v > 0' (excludes 0, negatives and NaN)")
				r.Check(key+":finite", okFin, st.Pos(), "rate stored only under !math.IsInf(v, +1|0)")
			}
		}
		r.Check("sampling-store-sites", n >= 2, run.Pos(), fmt.Sprintf("%d stores to l.sampling (reset to 1 in Run, parsed in lexMetricAttribute)", n))
		// m.Rate <- l.sampling unconditionally for metrics
		for _, st := range fieldStores(run, "Metric", "Rate") {
			r.Check("Run:rate-from-sampling", pathOf(st.Val) == "l.sampling", st.Pos(), "Rate <- "+pathOf(st.Val))
			nc := 0
			for _, cd := range condsFor(st.Block()) {
				p := pathOf(normCond(cd).V)
				if strings.Contains(p, "sampling") || strings.Contains(p, "Rate") {
					nc++
				}
			}
			r.Check("Run:rate-unconditional", nc == 0, st.Pos(), "the rate of every metric is the rate lexed for this line")
		}
		// (d) tags: every append to l.tags, wherever it is written, appends string(data) - a copy - of a
		// non-empty data that was produced by seekDelimited(l, '|', ',')
		isTagData := func(v ssa.Value) bool {
			ex, isE := v.(*ssa.Extract)
			if !isE || ex.Index != 0 {
				return false
			}
			sc, isC := ex.Tuple.(*ssa.Call)
			if !isC || !isCall(sc, "internal/lexer.seekDelimited") {
				return false
			}
			s1, ok1 := constInt(sc.Call.Args[1])
			s2, ok2 := constInt(sc.Call.Args[2])
			return ok1 && ok2 && s1 == '|' && s2 == ','
		}
		nApp := 0
		for _, fn := range pkgFuncs(w, lexPkg) {
			for _, st := range fieldStores(fn, "Lexer", "tags") {
				cl, ok := st.Val.(*ssa.Call)
				if !ok || !isCall(cl, "builtin append") {
					continue
				}
				nApp++
				c.SawFunc(FuncName(fn))
				key := "tags-append:" + FuncName(fn)
				els := varargElems(cl.Call.Args[1])
				var data ssa.Value
				okCopy := len(els) == 1
				for _, e := range els {
					cv, isCv := e.(*ssa.Convert)
					if !isCv {
						okCopy = false
					} else if bt, isB := cv.Type().Underlying().(*types.Basic); !isB || bt.Kind() != types.String {
						okCopy = false
					} else {
						data = cv.X
					}
				}
				r.Check(key+":copies", okCopy, cl.Pos(), "appended value is string(data), a copy of the bytes")
				if data == nil {
					continue
				}
				r.Check(key+":non-empty", knownNonEmpty(factsAt(cl.Block()), func(x ssa.Value) bool { return x == data }), cl.Pos(), "a tag is appended only when len(data) > 0")
				// provenance of data
				okSrc := isTagData(data)
				if p, isP := data.(*ssa.Parameter); isP && !okSrc {
					idx := paramIndex(fn, p)
					n := 0
					okSrc = true
					for _, g := range pkgFuncs(w, lexPkg) {
						for _, cc := range callsIn(g) {
							if staticCallee(cc) == fn {
								n++
								if !isTagData(cc.Common().Args[idx]) {
									okSrc = false
								}
							}
						}
					}
					okSrc = okSrc && n > 0
				}
				r.Check(key+":source", okSrc, cl.Pos(), "tag data comes from seekDelimited(l, '|', ',')")
			}
		}
		r.Check("tags-append:sites", nApp >= 1, token.NoPos, fmt.Sprintf("%d append sites to l.tags", nApp))
		// seekDelimited returns slices that exclude the delimiter and the stop byte
		if sd := F("seekDelimited"); sd != nil {
			c.SawFunc(FuncName(sd))
			call, blk, idx := nextByteCall(sd)
			if call != nil {
				// stop and delimiter are parameters: evaluate structurally instead: each return slice's high bound
				eachInstr(sd, func(in ssa.Instruction) {
					rt, ok := in.(*ssa.Return)
					if !ok {
						return
					}
					sl, ok := rt.Results[0].(*ssa.Slice)
					if !ok {
						r.Fail("seekDelimited:return-shape", rt.Pos(), "returns "+pathOf(rt.Results[0]))
						return
					}
					lo, hi := pathOf(sl.Low), pathOf(sl.High)
					// which byte class led here?
					var eqDelim, eqStop, eqEOF bool
					for _, cd := range condsFor(rt.Block()) {
						cd = normCond(cd)
						if b := asBinOp(cd.V, token.EQL); b != nil && cd.Sense && b.X == ssa.Value(call) {
							switch {
							case b.Y == ssa.Value(sd.Params[2]):
								eqDelim = true
							case b.Y == ssa.Value(sd.Params[1]):
								eqStop = true
							default:
								if z, isC := constInt(b.Y); isC && z == 0 {
									eqEOF = true
								}
							}
						}
					}
					switch {
					case eqDelim:
						r.Check("seekDelimited:delimiter-excluded", lo == "l.start" && hi == "(l.pos-1)", rt.Pos(), "on delimiter returns l.input["+lo+":"+hi+"] (delimiter consumed, not included)")
					case eqStop:
						// pos-- before the slice
						r.Check("seekDelimited:stop-excluded", lo == "l.start" && hi == "l.pos", rt.Pos(), "on stop byte returns l.input["+lo+":"+hi+"] after un-reading the stop byte")
						okDec := false
						for _, st := range fieldStores(sd, "Lexer", "pos") {
							if st.Block() == rt.Block() && pathOf(st.Val) == "(l.pos-1)" {
								okDec = true
							}
						}
						r.Check("seekDelimited:stop-unread", okDec, rt.Pos(), "stop byte is un-read (pos--) so that it is not part of the tag")
					case eqEOF:
						r.Check("seekDelimited:eof", lo == "l.start" && hi == "l.pos", rt.Pos(), "at end returns l.input["+lo+":"+hi+"]")
					default:
						r.Fail("seekDelimited:return-class", rt.Pos(), "return not controlled by a delimiter/stop/eof comparison")
					}
				})
				_ = blk
				_ = idx
			}
		} else {
			r.Unresolved("lexer.seekDelimited")
		}
	})

	c.Rule("C02.R5", "accept exits: only lexMetricAttributes and lexEventAttributes can end a line without error (checked through R3b tables) and no other state returns nil without storing an error", 10, func(r *Rule) {
		for _, fn := range stateFuncs(w) {
			c.SawFunc(FuncName(fn))
			// automaton: has an error been stored on the path to a `return nil`?
			accepts := false
			res := runAutomaton(fn, 0, func(in ssa.Instruction) int {
				if st, ok := in.(*ssa.Store); ok {
					if t, f, _, ok := fieldRef(st.Addr); ok && t == "Lexer" && f == "err" {
						return 0
					}
				}
				return -1
			}, func(s, e int) int { return 1 })
			for blk, states := range res.ExitStates {
				rt := blk.Instrs[len(blk.Instrs)-1].(*ssa.Return)
				if len(rt.Results) == 1 && isNilConst(stripConv(rt.Results[0])) && states&1 != 0 {
					accepts = true
				}
			}
			name := fn.Name()
			wantAccept := name == "lexMetricAttributes" || name == "lexEventAttributes"
			r.Check("accept-exit:"+FuncName(fn), accepts == wantAccept, fn.Pos(), fmt.Sprintf("can end the line without an error: %v (documented: %v)", accepts, wantAccept))
		}
	})

	c.Rule("C02.R6", "state-transition relation equals the documented chain", 12, func(r *Rule) {
		want := map[string][]string{
			"lexSpecial":          {"lexDatadogSpecial", "lexKeySep", "nil"},
			"lexKeySep":           {"lexKey", "nil"},
			"lexKey":              {"lexValueSep", "nil"},
			"lexValueSep":         {"lexValue", "nil"},
			"lexValue":            {"lexType"},
			"lexType":             {"lexMetricAttributes", "nil"},
			"lexMetricAttributes": {"lexMetricAttribute", "nil"},
			"lexMetricAttribute":  {"lexMetricAttributes", "nil"},
			"lexDatadogSpecial":   {"lexAssert", "lexEventBody", "lexUint32", "nil"},
			"lexEventBody":        {"lexEventAttributes", "nil"},
			"lexEventAttributes":  {"lexEventAttribute", "nil"},
			"lexEventAttribute":   {"closure", "lexAssert", "lexEventAttributes", "lexUint"},
		}
		// a documented state whose function was merged into its predecessor(s) is contracted: its
		// predecessors then hand over to its successors directly.  Only pass-through states (one
		// documented predecessor, entered unconditionally from it) can be merged this way.
		contractible := map[string]bool{"lexValue": true, "lexKey": true}
		for nm := range contractible {
			if fn := F(nm); fn != nil && fn.Name() == nm {
				continue
			}
			succ := want[nm]
			delete(want, nm)
			for k, vs := range want {
				var out []string
				set := map[string]bool{}
				for _, v := range vs {
					if v == nm {
						for _, s2 := range succ {
							if !set[s2] {
								set[s2] = true
								out = append(out, s2)
							}
						}
					} else if !set[v] {
						set[v] = true
						out = append(out, v)
					}
				}
				sort.Strings(out)
				want[k] = out
			}
			r.Note("state " + nm + " has no function of its own: treated as merged into its predecessor")
		}
		names := make([]string, 0, len(want))
		for k := range want {
			names = append(names, k)
		}
		sort.Strings(names)
		for _, nm := range names {
			fn := F(nm)
			if fn == nil {
				r.Unresolved("lexer." + nm)
				continue
			}
			got := returnedStates(fn)
			r.Check("transitions:"+nm, strings.Join(got, ",") == strings.Join(want[nm], ","), fn.Pos(), fmt.Sprintf("returns %v, documented %v", got, want[nm]))
		}
		// every closure handed out by lexEventAttribute returns to the attribute loop (or errors)
		if fn := F("lexEventAttribute"); fn != nil {
			for _, g := range WithAnon(fn)[1:] {
				if res := g.Signature.Results(); res.Len() != 1 || !strings.HasSuffix(res.At(0).Type().String(), "stateFn") {
					continue // not a state function (e.g. a field setter handed to a helper)
				}
				got := returnedStates(g)
				ok := true
				for _, s := range got {
					if s != "lexEventAttributes" && s != "nil" {
						ok = false
					}
				}
				has := false
				for _, s := range got {
					if s == "lexEventAttributes" {
						has = true
					}
				}
				r.Check("transitions:"+g.Name(), ok && has, g.Pos(), fmt.Sprintf("attribute handler returns %v (must return to lexEventAttributes)", got))
			}
		}
		// combinators: lexAssert's closure returns next or nil+err; lexUint's closure returns handler(l, value)
		for _, nm := range []string{"lexAssert", "lexUint32", "lexUint"} {
			fn := F(nm)
			if fn == nil {
				r.Unresolved("lexer." + nm)
				continue
			}
			for _, g := range WithAnon(fn)[1:] {
				got := returnedStates(g)
				var wantS string
				switch nm {
				case "lexAssert", "lexUint32":
					wantS = "next,nil"
				case "lexUint":
					wantS = "dyn:handler,nil"
				}
				r.Check("transitions:"+nm+"/"+g.Name(), strings.Join(got, ",") == wantS, g.Pos(), fmt.Sprintf("returns %v", got))
			}
		}
		// Run drives the machine from lexSpecial until nil
		run := F("(*Lexer).Run")
		if run != nil {
			ok := false
			eachInstr(run, func(in ssa.Instruction) {
				if ph, isP := in.(*ssa.Phi); isP {
					for _, e := range ph.Edges {
						if valDesc(e) == "lexSpecial" {
							ok = true
						}
					}
				}
			})
			r.Check("Run:starts-at-lexSpecial", ok, run.Pos(), "the state loop starts at lexSpecial")
		}
	})

	c.Rule("C02.R7", "per-line re-initialisation: Run (with reset) stores every per-line lexer field before the state loop", 10, func(r *Rule) {
		run := F("(*Lexer).Run")
		rs := F("(*Lexer).reset")
		if run == nil || rs == nil {
			r.Unresolved("(*Lexer).Run / reset")
			return
		}
		// loop head: block containing the phi over states
		var loop *ssa.BasicBlock
		eachInstr(run, func(in ssa.Instruction) {
			if ph, ok := in.(*ssa.Phi); ok && loop == nil {
				if _, isSig := ph.Type().Underlying().(*types.Signature); isSig {
					loop = ph.Block()
				}
			}
		})
		if loop == nil {
			r.Fail("Run:state-loop", run.Pos(), "state loop not found")
			return
		}
		var resetCall ssa.Instruction
		for _, cl := range callsIn(run) {
			if staticCallee(cl) == rs {
				resetCall = cl
			}
		}
		r.Check("Run:calls-reset-before-loop", resetCall != nil && resetCall.Block().Dominates(loop), run.Pos(), "Run calls l.reset() before the state loop")
		want := map[string]string{
			"input": "input", "namespace": "namespace", "len": "conv(call(builtin len))", "sampling": "1",
			"start": "0", "pos": "0", "m": "nil", "e": "nil", "tags": "nil", "err": "nil",
		}
		st := namedStruct(w, lexPkg, "Lexer")
		if st == nil {
			r.Unresolved("lexer.Lexer")
			return
		}
		allow := map[string]string{
			"MetricPool":    "configuration, not per-line state",
			"eventTitleLen": "written by lexUint32 before lexEventBody reads it (R6: lexDatadogSpecial -> lexUint32 -> ... -> lexEventBody)",
			"eventTextLen":  "written by lexUint32 before lexEventBody reads it",
		}
		for i := 0; i < st.NumFields(); i++ {
			f := st.Field(i).Name()
			if why, ok := allow[f]; ok {
				r.Pass("reinit:"+f, run.Pos(), "allow-listed: "+why)
				continue
			}
			got := ""
			for _, s := range fieldStores(run, "Lexer", f) {
				if s.Block().Dominates(loop) {
					got = pathOf(stripConvConst(s.Val))
				}
			}
			if got == "" && resetCall != nil {
				for _, s := range fieldStores(rs, "Lexer", f) {
					got = pathOf(stripConvConst(s.Val))
				}
			}
			w2, known := want[f]
			if !known {
				r.Fail("reinit:"+f, run.Pos(), "field "+f+" is not known to the checker: a new per-line field must be re-initialised in Run/reset and added to the table")
				continue
			}
			r.Check("reinit:"+f, got == w2, run.Pos(), fmt.Sprintf("before the state loop l.%s <- %q (required %q)", f, got, w2))
		}
	})

	c.Rule("C02.R9", "a metric taken from the pool starts from the initial state: a recycled metric is fully reset before the lexer fills it (the lexer appends to the metric's own tag buffer and leaves fields it does not parse alone, so anything left over becomes part of the next line's result) - C05.R6's pool obligations, shared", 3, func(r *Rule) {
		importObligations(c, r, c05, "C05.R6", func(k string) bool {
			return strings.HasPrefix(k, "Metric.Reset:") || strings.HasPrefix(k, "MetricPool.")
		})
	})

	c.Rule("C02.R8", "totality: every line ends in accept or reject - all panic obligations (index, slice, make, conversion-guarded arithmetic) inside the lexer package are discharged (engine of C03.R2 restricted to internal/lexer, with the Stage-A invariant witnesses)", 20, func(r *Rule) {
		e := newBndEngine(w)
		var fns []*ssa.Function
		for _, fn := range c03Scope(w) {
			if fnPkgPath(fn) == Mod+"/"+lexPkg {
				fns = append(fns, fn)
			}
		}
		bndRule(c, r, e, fns)
		lexerStageA(c, r, e)
		r.Note(fmt.Sprintf("%d lexer functions", len(fns)))
	})
}

func stripConvConst(v ssa.Value) ssa.Value {
	if cv, ok := v.(*ssa.Convert); ok {
		if _, isC := cv.X.(*ssa.Const); isC {
			return cv.X
		}
	}
	return v
}

func constFloatZero(v ssa.Value) (bool, bool) {
	k, ok := stripConv(v).(*ssa.Const)
	if !ok || k.Value == nil {
		return false, false
	}
	s := k.Value.ExactString()
	return s == "0", true
}

func namedStruct(w *World, rel, name string) *types.Struct {
	n := w.Named(rel, name)
	if n == nil {
		return nil
	}
	st, _ := n.Underlying().(*types.Struct)
	return st
}

// pkgFuncs returns all functions (incl. closures and methods) of a module package.
func pkgFuncs(w *World, rel string) []*ssa.Function {
	var out []*ssa.Function
	for _, fn := range w.ModuleFuncs() {
		if fnPkgPath(fn) == pkgPath(rel) {
			out = append(out, fn)
		}
	}
	return out
}

// stateFuncs: every function in the lexer package whose signature is func(*Lexer) stateFn.
func stateFuncs(w *World) []*ssa.Function {
	var out []*ssa.Function
	for _, fn := range pkgFuncs(w, lexPkg) {
		sig := fn.Signature
		if sig.Recv() != nil || sig.Params().Len() != 1 || sig.Results().Len() != 1 {
			continue
		}
		if !typeIs(sig.Params().At(0).Type(), lexPkg, "Lexer") || !typeIs(sig.Results().At(0).Type(), lexPkg, "stateFn") {
			continue
		}
		out = append(out, fn)
	}
	return out
}

// returnedStates: the set of state names a function can return: named functions, "nil",
// "closure" for anonymous functions, free variables/parameters by name, and, for calls to
// combinators, the combinator's name plus every function-valued argument (recursively).
func returnedStates(fn *ssa.Function) []string {
	set := map[string]bool{}
	var add func(v ssa.Value, d int)
	add = func(v ssa.Value, d int) {
		if d > 10 {
			return
		}
		switch x := v.(type) {
		case *ssa.Const:
			if x.Value == nil {
				set["nil"] = true
			}
		case *ssa.Function:
			if x.Parent() != nil {
				set["closure"] = true
			} else {
				set[x.Name()] = true
			}
		case *ssa.ChangeType:
			add(x.X, d+1)
		case *ssa.MakeClosure:
			set["closure"] = true
		case *ssa.Phi:
			for _, e := range x.Edges {
				add(e, d+1)
			}
		case *ssa.Call:
			if cal := staticCallee(x); cal != nil {
				set[cal.Name()] = true
				for _, a := range x.Call.Args {
					if _, isSig := a.Type().Underlying().(*types.Signature); isSig {
						add(a, d+1)
					}
				}
			} else {
				set["dyn:"+valueName(x.Call.Value)] = true
			}
		case *ssa.UnOp:
			if x.Op == token.MUL {
				set[valueName(x.X)] = true
			}
		case *ssa.FreeVar:
			set[x.Name()] = true
		case *ssa.Parameter:
			set[x.Name()] = true
		}
	}
	eachInstr(fn, func(in ssa.Instruction) {
		if rt, ok := in.(*ssa.Return); ok && len(rt.Results) == 1 {
			add(rt.Results[0], 0)
		}
	})
	var out []string
	for k := range set {
		out = append(out, k)
	}
	sort.Strings(out)
	return out
}

// globalByteStrings: package-level `var x = []byte("...")` initialisers, read from the
// package's init function.
func globalByteStrings(w *World, rel string) map[string]string {
	out := map[string]string{}
	p := w.Pkg(rel)
	if p == nil {
		return out
	}
	init := p.Func("init")
	if init == nil {
		return out
	}
	eachInstr(init, func(in ssa.Instruction) {
		st, ok := in.(*ssa.Store)
		if !ok {
			return
		}
		g, ok := st.Addr.(*ssa.Global)
		if !ok {
			return
		}
		if cv, ok := st.Val.(*ssa.Convert); ok {
			if s, ok := constString(cv.X); ok {
				out[g.Name()] = s
			}
		}
	})
	return out
}

// varargElems: for a variadic argument slice built by the compiler (slice of a fresh array),
// returns the values stored into its elements.
// successLeaves: ph is the value half of a (value, error) pair of phis in one block (the results of
// an inlined helper) and the error half is known to be nil at block at; returns the origins of ph
// that arrive together with a nil error, with the conditions known on the incoming edge.  An error
// half that is a package-level error variable or a value known non-nil on its edge cannot be nil.
func successLeaves(ph *ssa.Phi, at *ssa.BasicBlock) ([]valueCase, bool) {
	var errPhi *ssa.Phi
	for _, f := range factsAt(at) {
		if f.Op == token.EQL && isNilConst(f.Y) {
			if p, ok := f.X.(*ssa.Phi); ok && p.Block() == ph.Block() && p != ph {
				errPhi = p
			}
		}
	}
	if errPhi == nil {
		return nil, false
	}
	var out []valueCase
	for i, e := range ph.Edges {
		pred := ph.Block().Preds[i]
		cs := append([]Cond(nil), condsFor(pred)...)
		if len(pred.Instrs) > 0 {
			if ifi, ok := pred.Instrs[len(pred.Instrs)-1].(*ssa.If); ok && pred.Succs[0] != pred.Succs[1] {
				cs = append(cs, Cond{ifi.Cond, pred.Succs[0] == ph.Block(), ifi})
			}
		}
		ev := errPhi.Edges[i]
		if !isNilConst(ev) {
			nonNil := false
			if ld, ok := ev.(*ssa.UnOp); ok && ld.Op == token.MUL {
				if _, isG := ld.X.(*ssa.Global); isG {
					nonNil = true // a declared error value (errors.New at package level)
				}
			}
			var facts []canonCond
			for _, cd := range cs {
				facts = append(facts, canonOf(cd))
			}
			if knownNonNil(facts, func(v ssa.Value) bool { return v == ev }) {
				nonNil = true
			}
			if nonNil {
				continue
			}
			return nil, false
		}
		if _, nested := e.(*ssa.Phi); nested {
			return nil, false
		}
		out = append(out, valueCase{e, cs})
	}
	return out, true
}

func varargElems(v ssa.Value) []ssa.Value {
	sl, ok := v.(*ssa.Slice)
	if !ok {
		return nil
	}
	al, ok := sl.X.(*ssa.Alloc)
	if !ok {
		return nil
	}
	var out []ssa.Value
	for _, r := range referrers(al) {
		if ia, ok := r.(*ssa.IndexAddr); ok {
			for _, r2 := range referrers(ia) {
				if st, ok := r2.(*ssa.Store); ok && st.Addr == ia {
					out = append(out, st.Val)
				}
			}
		}
	}
	return out
}
