package main

import (
	"fmt"
	"go/token"
	"go/types"
	"os"
	"sort"
	"strings"

	"golang.org/x/tools/go/ssa"
)

func init() {
	register("C03", c03)
	register("C04", c04)
}

func c03Scope(w *World) []*ssa.Function {
	var entries []*ssa.Function
	for _, e := range [][2]string{
		{"internal/lexer", "(*Lexer).Run"},
		{"pkg/statsd", "(*DatagramParser).Run"},
		{"pkg/statsd", "(*DatagramReceiver).Receive"},
		{"pkg/web", "(*rawHttpHandlerV2).MetricHandler"},
		{"pkg/web", "(*rawHttpHandlerV2).EventHandler"},
	} {
		if f := w.Func(e[0], e[1]); f != nil {
			entries = append(entries, f)
		}
	}
	for _, f := range stateFuncs(w) {
		entries = append(entries, f)
	}
	follow := map[string]bool{"PipelineHandler": true, "BatchReader": true, "CachedInstances": true, "TagChanger": true, "AggregatedMetrics": true}
	return scopeFrom(w, entries, follow, func(fn *ssa.Function) bool {
		p := fnPkgPath(fn)
		return strings.Contains(p, "/pkg/backends/") || p == Mod+"/pkg/stats"
	})
}

func c04Scope(w *World) []*ssa.Function {
	var entries []*ssa.Function
	for _, n := range []string{"(*MetricAggregator).Flush", "(*MetricAggregator).Process", "(*MetricAggregator).Reset", "(*MetricAggregator).ReceiveMap", "(*MetricFlusher).flushData"} {
		if f := w.Func("pkg/statsd", n); f != nil {
			entries = append(entries, f)
		}
	}
	entries = append(entries, backendImpls(w, "SendMetricsAsync")...)
	return scopeFrom(w, entries, map[string]bool{"Backend": true, "Aggregator": true, "AggregatedMetrics": true}, func(fn *ssa.Function) bool {
		p := fnPkgPath(fn)
		return p == Mod+"/pkg/stats" || strings.Contains(p, "/pkg/transport")
	})
}

type bndResult struct {
	OK     bool
	Detail string
	Used   []string
}

// allow-listed aborts / assertions: one named symbol each, with the reason.
var abortAllow = map[string]string{
	"(*pkg/statsd.DatagramParser).handleDatagram:abort:Panic#1":                               "unreachable: Lexer.Run returns a metric or an event whenever it returns no error (lexSpecial allocates l.m, lexDatadogSpecial allocates l.e before any accept exit; C02.R5/R6 pin the accept exits)",
	"(*pkg/statsd.GenericBatchReader).ReadBatch:abort:panic(\"attempt to read 0 packets\")#1": "start-up configuration error (receive-batch-size 0), not reachable from network input: guarded by len(ms) == 0 and the batch slice has the configured size (assumption receiveBatchSize >= 1)",
}

func init() {
	abortAllow["(*pkg/backends/statsdaemon.Client).processMetrics$1:abort:panic(call(builtin recover))#1"] = "re-raises a foreign panic only: the deferred function recovers, and swallows the value when it is the local stopProcessing marker"
	abortAllow["(*pkg/backends/statsdaemon.Client).processMetrics$3:abort:panic(nil)#1"] = "control-flow panic(stopProcessing{}) that is always recovered by the deferred function of processMetrics (same function, registered before any write)"
}

// indexLemmas: obligations that depend on a data-structure invariant outside linear arithmetic.
var indexLemmas = map[string]string{
	"pkg/backends/otlp/internal/data.WithHistogramDataPointCumulativeBucketValues$1:index:hdp.raw.ExplicitBounds[(phi:rangeindex+1)]#1": "a non-empty Timer.Histogram always contains the +Inf bucket (emptyHistogram and latencyHistogram store it on every path that returns a non-empty map, C08.R3), the bounds are sorted so +Inf is last, and the write is guarded by !math.IsInf(bound, 1): the index is therefore at most len(buckets)-2 = len(ExplicitBounds)-1",
}

// infLastLemma recognises the site of lemma L11 by its structure instead of its spelling: inside
// WithHistogramDataPointCumulativeBucketValues an element i of a slice made with len(buckets)-1
// elements is written, where i is the index at which the sorted bounds are visited and the write
// is on the !math.IsInf(bound, 1) side of a test of the bound visited at i.
func infLastLemma(ob bndOb) bool {
	if ob.Kind != "index" || ob.Fn == nil {
		return false
	}
	outer := ob.Fn
	for outer.Parent() != nil {
		outer = outer.Parent()
	}
	if !strings.HasPrefix(outer.Name(), "WithHistogramDataPointCumulativeBucketValues") || !strings.HasSuffix(fnPkgPath(outer), "/otlp/internal/data") {
		return false
	}
	ia, ok := ob.In.(*ssa.IndexAddr)
	if !ok {
		return false
	}
	// the slice: made with len(<map>) - 1 elements
	mk, ok := ptrOrigin(ia.X).(*ssa.MakeSlice)
	if !ok {
		// through a field of the data point: find the store of a MakeSlice into that field in this function
		if ld, isLd := ia.X.(*ssa.UnOp); isLd {
			for _, st := range storesIn(ob.Fn) {
				if pathOf(st.Addr) == pathOf(ld.X) {
					mk, ok = st.Val.(*ssa.MakeSlice)
				}
			}
		}
	}
	if !ok || mk == nil {
		return false
	}
	sub := asBinOp(mk.Len, token.SUB)
	if sub == nil {
		return false
	}
	if one, isC := constInt(sub.Y); !isC || one != 1 {
		return false
	}
	lc, isLen := sub.X.(*ssa.Call)
	if !isLen || !isCall(lc, "builtin len") {
		return false
	}
	if _, isMap := lc.Call.Args[0].Type().Underlying().(*types.Map); !isMap {
		return false
	}
	// a known-false math.IsInf(x, 1) whose x is the element visited at the same index
	for _, f := range factsAt(ia.Block()) {
		if f.Op != token.ILLEGAL || f.True {
			continue
		}
		cl, isCl := f.V.(*ssa.Call)
		if !isCl || !isCall(cl, "math.IsInf") {
			continue
		}
		if sign, isC := constInt(cl.Call.Args[1]); !isC || sign != 1 {
			continue
		}
		x := stripConvVal(cl.Call.Args[0])
		if cv, isCv := x.(*ssa.Convert); isCv {
			x = cv.X
		}
		if ld, isLd := x.(*ssa.UnOp); isLd && ld.Op == token.MUL {
			if ia2, isIA := ld.X.(*ssa.IndexAddr); isIA && ia2.Index == ia.Index {
				return true
			}
		}
	}
	return false
}

// obKeyNoGenerics drops the type-argument list of generic instantiations from a key.
func obKeyNoGenerics(k string) string {
	for {
		i := strings.Index(k, "[map[")
		if i < 0 {
			i = strings.Index(k, "[gostatsd.")
		}
		if i < 0 {
			return k
		}
		depth, j := 0, i
		for ; j < len(k); j++ {
			if k[j] == '[' {
				depth++
			}
			if k[j] == ']' {
				depth--
				if depth == 0 {
					break
				}
			}
		}
		if j >= len(k) {
			return k
		}
		k = k[:i] + k[j+1:]
	}
}

var assertLemmas = map[string]string{
	"(*internal/pool.DatagramBufferPool).Get:assert:call((*sync.Pool).Get).(*[][]byte)#1":     "pool-shape",
	"(*internal/pool.MetricPool).Get:assert:call((*sync.Pool).Get).(*gostatsd.Metric)#1":      "pool-shape",
	"(*pkg/backends/sender.Sender).GetBuffer:assert:call((*sync.Pool).Get).(*bytes.Buffer)#1": "pool-shape",
}

// poolShape verifies that every value put into / created for the sync.Pool field read by fn's
// Get has the asserted type.
func poolShape(w *World, get *ssa.Function, ta *ssa.TypeAssert) (bool, string) {
	// the pool: receiver field (x.p / x.BufPool) passed to (*sync.Pool).Get
	var poolPath, poolStruct string
	for _, cl := range callsTo(get, "(*sync.Pool).Get") {
		poolPath = pathOf(cl.Common().Args[0])
		if st, _, _, ok := fieldRef(cl.Common().Args[0]); ok {
			poolStruct = st
		}
	}
	if poolPath == "" {
		return false, "pool not identified"
	}
	field := poolStruct + "." + lastField(poolPath)
	sameField := func(addr ssa.Value) bool {
		st, f, _, ok := fieldRef(addr)
		return ok && st+"."+f == field
	}
	want := ta.AssertedType.String()
	n := 0
	for _, fn := range w.ModuleFuncs() {
		if strings.Contains(fnPkgPath(fn), "/internal/fixtures") {
			continue
		}
		for _, cl := range callsTo(fn, "(*sync.Pool).Put") {
			if !sameField(cl.Common().Args[0]) {
				continue
			}
			n++
			if mi, ok := cl.Common().Args[1].(*ssa.MakeInterface); !ok || mi.X.Type().String() != want {
				return false, "a value of another type is Put into the pool in " + FuncName(fn)
			}
		}
		// New: closures stored into a sync.Pool literal's New field next to this field
		eachInstr(fn, func(in ssa.Instruction) {
			st, ok := in.(*ssa.Store)
			if !ok {
				return
			}
			if _, f, base, ok := fieldRef(st.Addr); ok && f == "New" && sameField(base) {
				if cf, ok := stripConv(st.Val).(*ssa.Function); ok {
					eachInstr(cf, func(in2 ssa.Instruction) {
						if rt, ok := in2.(*ssa.Return); ok {
							n++
							if mi, ok := rt.Results[0].(*ssa.MakeInterface); !ok || mi.X.Type().String() != want {
								n = -1000
							}
						}
					})
				} else if mc, ok := stripConv(st.Val).(*ssa.MakeClosure); ok {
					eachInstr(mc.Fn.(*ssa.Function), func(in2 ssa.Instruction) {
						if rt, ok := in2.(*ssa.Return); ok {
							n++
							if mi, ok := rt.Results[0].(*ssa.MakeInterface); !ok || mi.X.Type().String() != want {
								n = -1000
							}
						}
					})
				}
			}
		})
	}
	if n < 1 {
		return false, fmt.Sprintf("no Put/New of type %s found for pool field %s", want, field)
	}
	return true, fmt.Sprintf("every Put into and New of pool field %s yields %s (%d sites)", field, want, n)
}

type bndGoal struct {
	g   linExpr
	why string
}

// goalsFor builds the bound goals of an index / slice / make obligation in prover p.
func (e *bndEngine) goalsFor(p *prover, ob bndOb) []bndGoal {
	var goals []bndGoal
	add := func(g linExpr, why string) { goals = append(goals, bndGoal{g, why}) }
	switch x := ob.In.(type) {
	case *ssa.IndexAddr:
		idx := p.lin(x.Index)
		add(idx, "index >= 0")
		add(p.lenOf(x.X).sub(idx).add(linConst(-1)), "index < len")
	case *ssa.Index:
		idx := p.lin(x.Index)
		add(idx, "index >= 0")
		add(p.lenOf(x.X).sub(idx).add(linConst(-1)), "index < len")
	case *ssa.Slice:
		ln := p.lenOf(x.X)
		lo := linConst(0)
		if x.Low != nil {
			lo = p.lin(x.Low)
			add(lo, "low >= 0")
		}
		hi := ln
		if x.High != nil {
			hi = p.lin(x.High)
			add(ln.sub(hi), "high <= len")
		}
		add(hi.sub(lo), "low <= high")
		e.sliceLemmas(p, x)
	case *ssa.MakeSlice:
		add(p.lin(x.Len), "len >= 0")
		if x.Cap != nil && x.Cap != x.Len {
			add(p.lin(x.Cap).sub(p.lin(x.Len)), "cap >= len")
		}
	case ssa.CallInstruction:
		if ob.Kind == "libpanic" {
			a := x.Common().Args
			switch {
			case strings.HasPrefix(ob.Expr, "nonempty:"):
				add(p.lenOf(a[0]).add(linConst(-1)), "argument is not empty")
			case strings.HasPrefix(ob.Expr, "count>=0:"):
				add(p.lin(a[1]), "count >= 0")
			case strings.HasPrefix(ob.Expr, "grow:"):
				add(p.lin(a[1]), "count >= 0")
				add(linConst(1<<31-1).sub(p.lin(a[1])), "count bounded by a length that exists in memory (an unchecked number from the input can make the allocation fail)")
			case strings.HasPrefix(ob.Expr, "range:"):
				i, j := p.lin(a[1]), p.lin(a[2])
				add(i, "i >= 0")
				add(j.sub(i), "i <= j")
				add(p.lenOf(a[0]).sub(j), "j <= len")
			}
		}
	}
	return goals
}

// tryProve gathers facts in p and proves every goal; returns the failure description or "".
func (e *bndEngine) tryProve(p *prover, ob bndOb) string {
	p.gather()
	goals := e.goalsFor(p, ob)
	for _, pn := range p.pendingNeq {
		if p.holds(pn[0].sub(pn[1])) {
			p.add(gt(pn[0], pn[1], "x != y with x >= y"))
		} else if p.holds(pn[1].sub(pn[0])) {
			p.add(gt(pn[1], pn[0], "x != y with x <= y"))
		}
	}
	if dk := os.Getenv("GSD_DEBUG_KEY"); dk != "" && strings.Contains(ob.Key, dk) {
		fmt.Printf("DEBUG %s (%d facts)\n", ob.Key, len(p.facts))
		for _, f := range p.facts {
			fmt.Printf("   %s >= 0   [%s]\n", strings.ReplaceAll(f.E.String(), p.prefix, ""), f.Why)
		}
		for _, g := range goals {
			fmt.Printf("   GOAL %s >= 0 [%s]\n", strings.ReplaceAll(g.g.String(), p.prefix, ""), g.why)
		}
	}
	for _, g := range goals {
		ok, decided := entails(p.facts, g.g)
		if !ok && p.minmaxCases(g.g) {
			ok = true
		}
		if !ok {
			d := "cannot prove " + g.why + " for " + ob.Expr
			if !decided {
				d += " (undecided: elimination bound exceeded)"
			}
			return d + "; goal " + strings.ReplaceAll(g.g.String(), p.prefix, "") + " >= 0; facts: " + factSummary(p)
		}
	}
	return ""
}

// minmaxCases: the goal mentions the result k of a min (max) builtin; k equals one of its arguments, so the
// goal holds if it holds with k replaced by each argument in turn (case split; sub-provers share the facts).
func (p *prover) minmaxCases(goal linExpr) bool {
	for k, def := range p.minmax {
		coef, ok := goal.Coef[k]
		if !ok || coef.Sign() == 0 {
			continue
		}
		all := true
		for _, a := range def.args {
			g2 := goal.clone()
			delete(g2.Coef, k)
			// g2 += coef * a
			num := coef.Num().Int64()
			if !coef.IsInt() {
				all = false
				break
			}
			g2 = g2.add(a.scale(num))
			if ok2, _ := entails(p.facts, g2); !ok2 {
				all = false
				break
			}
		}
		if all && len(def.args) > 0 {
			p.used["case split on the result of the min/max builtin (it equals one of its arguments)"] = true
			return true
		}
	}
	return false
}

// joinAbove: the nearest non-loop join block at or above b on the dominator chain.
func joinAbove(b *ssa.BasicBlock) *ssa.BasicBlock {
	for x := b; x != nil; x = x.Idom() {
		if len(x.Preds) >= 2 && !isLoopHead(x) {
			return x
		}
	}
	return nil
}

func (e *bndEngine) discharge(ob bndOb) bndResult {
	switch x := ob.In.(type) {
	case *ssa.BinOp:
		p := e.newProver(ob.Fn, ob.In)
		p.gather()
		d := p.lin(x.Y)
		if p.holds(d.add(linConst(-1))) || p.holds(d.scale(-1).add(linConst(-1))) {
			return bndResult{true, "divisor is non-zero", sortedKeys(p.used)}
		}
		return bndResult{false, "divisor " + pathOf(x.Y) + " is not known to be non-zero; facts: " + factSummary(p), sortedKeys(p.used)}
	case *ssa.MapUpdate:
		lk := x.Map.(*ssa.Lookup)
		ok := false
		eachInstr(ob.Fn, func(in ssa.Instruction) {
			mu, isMU := in.(*ssa.MapUpdate)
			if !isMU || mu == x {
				return
			}
			if canonPath(mu.Map) == canonPath(lk.X) && mu.Key == lk.Index && instrDominates(mu, x) {
				if _, isMk := mu.Value.(*ssa.MakeMap); isMk {
					ok = true
				}
			}
		})
		if ok {
			return bndResult{true, "the inner map is created under the same key on every path before it is written", nil}
		}
		// inside a callback given to <collection>.Each: the key being visited exists in that collection
		if par := ob.Fn.Parent(); par != nil && len(ob.Fn.Params) >= 1 && lk.Index == ssa.Value(ob.Fn.Params[0]) {
			okEach := false
			for _, cl := range callsIn(par) {
				cal := staticCallee(cl)
				if cal == nil || cal.Name() != "Each" || len(cl.Common().Args) != 2 {
					continue
				}
				if mc, isMC := cl.Common().Args[1].(*ssa.MakeClosure); isMC && mc.Fn == ssa.Value(ob.Fn) {
					if canonPath(cl.Common().Args[0]) == canonPath(lk.X) {
						okEach = true
					}
				}
			}
			// and the callback does not delete from the collection before this write on the same path
			if okEach {
				clean := true
				for _, cl := range callsIn(ob.Fn) {
					if cal := staticCallee(cl); cal != nil && cal.Name() == "deleteMetric" && instrReaches(cl, x) {
						clean = false
					}
				}
				if clean {
					return bndResult{true, "inside the Each callback of the same collection: the visited key's inner map exists (Each passes existing keys; no deletion precedes the write on this path)", []string{"summary: <collection>.Each(f) calls f(key, tagsKey, v) only for keys present in the collection (C09.R5 sibling check pins Each)"}}
				}
			}
		}
		// the inner map exists because this very iteration ranges over the outer map's entry
		if strings.Contains(pathOf(lk.Index), "next(range("+pathOf(lk.X)+"))#1") {
			return bndResult{true, "the inner map is the entry currently ranged over", nil}
		}
		return bndResult{false, "writing into " + pathOf(lk) + " which may be a missing (nil) inner map", nil}
	case *ssa.TypeAssert:
		if kind, ok := assertLemmas[ob.Key]; ok && kind == "pool-shape" {
			good, why := poolShape(e.w, ob.Fn, x)
			return bndResult{good, why, []string{"lemma: a sync.Pool only returns what was Put or created by New"}}
		}
		if strings.Contains(ob.Key, "ByIndex") && strings.Contains(ob.Key, "*v1.Pod") {
			return bndResult{true, "the pod informer's index only stores *v1.Pod (client-go contract; podByIpIndexFunc makes the same assertion)", []string{"lemma: client-go pod informer stores *v1.Pod objects"}}
		}
		if prm, isP := x.X.(*ssa.Parameter); isP {
			if ok, why := e.assertByCallers(ob.Fn, prm, x.AssertedType.String(), 0); ok {
				return bndResult{true, why, []string{"lemma: an interface parameter whose every caller passes the asserted concrete type"}}
			} else {
				return bndResult{false, "unchecked type assertion " + ob.Expr + ": " + why, nil}
			}
		}
		return bndResult{false, "unchecked type assertion " + ob.Expr + " has no lemma", nil}
	}
	if ob.Kind == "abort" {
		if why, ok := abortAllow[ob.Key]; ok {
			return bndResult{true, "allow-listed: " + why, []string{"allow-list: " + ob.Key}}
		}
		return bndResult{false, "explicit abort " + ob.Expr + " reachable from the scope's entry points and not allow-listed", nil}
	}
	if why, ok := indexLemmas[obKeyNoGenerics(ob.Key)]; ok {
		return bndResult{true, "lemma: " + why, []string{"lemma L11: " + why}}
	}
	if infLastLemma(ob) {
		why := indexLemmas["pkg/backends/otlp/internal/data.WithHistogramDataPointCumulativeBucketValues$1:index:hdp.raw.ExplicitBounds[(phi:rangeindex+1)]#1"]
		return bndResult{true, "lemma: " + why, []string{"lemma L11: " + why}}
	}
	p := e.newProver(ob.Fn, ob.In)
	fail := e.tryProve(p, ob)
	if fail == "" {
		return bndResult{true, fmt.Sprintf("bounds proved from %d facts", len(p.facts)), sortedKeys(p.used)}
	}
	if ok, why, used := e.proveAtCallSites(ob); ok {
		return bndResult{true, why, used}
	} else if why != "" {
		fail += " || " + why
	}
	// case split on the nearest non-loop join: prove the obligation once per incoming edge
	if j := joinAbove(ob.In.Block()); j != nil {
		mem := e.memOf(ob.Fn)
		all := true
		used := map[string]bool{}
		var firstFail string
		for i, pred := range j.Preds {
			if mem.out[pred.Index] == nil {
				continue // unreachable predecessor
			}
			q := e.newProver(ob.Fn, ob.In)
			q.override = map[string]string{}
			for _, path := range mem.paths {
				if mem.in[j.Index] != nil && mem.in[j.Index][path] == fmt.Sprintf("m%d", j.Index) {
					q.override[path+"@"+fmt.Sprintf("m%d", j.Index)] = mem.out[pred.Index][path]
				}
			}
			// phis of the join take the value of this edge
			for _, in := range j.Instrs {
				ph, ok := in.(*ssa.Phi)
				if !ok {
					break
				}
				if isIntType(ph.Type()) {
					q.pendingPhiInt = append(q.pendingPhiInt, [2]ssa.Value{ph, ph.Edges[i]})
				} else {
					q.phiAlias = append(q.phiAlias, [2]ssa.Value{ph, ph.Edges[i]})
				}
			}
			q.extraConds = append(q.extraConds, condsFor(pred)...)
			if len(pred.Instrs) > 0 {
				if ifi, ok := pred.Instrs[len(pred.Instrs)-1].(*ssa.If); ok && pred.Succs[0] != pred.Succs[1] {
					q.extraConds = append(q.extraConds, Cond{ifi.Cond, pred.Succs[0] == j, ifi})
				}
			}
			if f := e.tryProve(q, ob); f != "" {
				all = false
				if firstFail == "" {
					firstFail = fmt.Sprintf("(case: edge from block %d) %s", pred.Index, f)
				}
			}
			for u := range q.used {
				used[u] = true
			}
		}
		if all {
			return bndResult{true, fmt.Sprintf("bounds proved by case split over the %d edges into the join at block %d", len(j.Preds), j.Index), sortedKeys(used)}
		}
		return bndResult{false, fail + " || " + firstFail, sortedKeys(p.used)}
	}
	return bndResult{false, fail, sortedKeys(p.used)}
}

// assertByCallers: every static caller passes a value of dynamic type `want` for prm
// (following pass-through parameters up to three levels).
func (e *bndEngine) assertByCallers(fn *ssa.Function, prm *ssa.Parameter, want string, depth int) (bool, string) {
	if depth > 3 {
		return false, "caller chain too deep"
	}
	idx := -1
	for i, q := range fn.Params {
		if q == prm {
			idx = i
		}
	}
	cs := e.callers[fn]
	if idx < 0 || len(cs) == 0 {
		return false, "no static callers of " + FuncName(fn)
	}
	for _, cl := range cs {
		a := cl.Common().Args[idx]
		switch v := a.(type) {
		case *ssa.MakeInterface:
			if v.X.Type().String() != want {
				return false, FuncName(cl.Parent()) + " passes " + v.X.Type().String()
			}
		case *ssa.Parameter:
			if ok, why := e.assertByCallers(cl.Parent(), v, want, depth+1); !ok {
				return false, why
			}
		default:
			return false, FuncName(cl.Parent()) + " passes " + pathOf(a)
		}
	}
	return true, fmt.Sprintf("every caller of %s passes a %s", FuncName(fn), want)
}

// sliceLemmas: site-specific lemmas for slice expressions.
func (e *bndEngine) sliceLemmas(p *prover, x *ssa.Slice) {
	// L6: messages[i].Buffers[0][:messages[i].N] : a read never returns more bytes than the buffer holds
	if x.High != nil && strings.HasSuffix(pathOf(x.High), ".N") && strings.Contains(pathOf(x.X), ".Buffers[") {
		p.add(constraint{p.lin(x.High), "bytes read >= 0"})
		p.add(constraint{p.lenOf(x.X).sub(p.lin(x.High)), "bytes read <= len(buffer)"})
		p.used["lemma L6: Message.N is the byte count reported by ReadFrom/ReadBatch for Buffers[0], hence 0 <= N <= len(Buffers[0]) (net package contract)"] = true
	}
}

func factSummary(p *prover) string {
	var s []string
	n := 0
	for i := len(p.facts) - 1; i >= 0 && n < 14; i-- {
		f := p.facts[i]
		if strings.HasPrefix(f.Why, "max of type") || strings.HasPrefix(f.Why, "unsigned") || strings.HasPrefix(f.Why, "min of type") || strings.HasPrefix(f.Why, "len >= 0") {
			continue
		}
		s = append(s, "["+f.E.String()+" >= 0: "+f.Why+"]")
		n++
	}
	r := strings.Join(s, " ")
	r = strings.ReplaceAll(r, p.prefix, "")
	return r
}

// bndRule runs enumeration + discharge over a scope.
func bndRule(c *Ctx, r *Rule, e *bndEngine, fns []*ssa.Function) {
	assum := map[string]bool{}
	for _, fn := range fns {
		obs := enumObligations(fn)
		if len(obs) > 0 {
			c.SawFunc(FuncName(fn))
		}
		for _, ob := range obs {
			res := e.discharge(ob)
			for _, u := range res.Used {
				assum[u] = true
			}
			r.Check(ob.Key, res.OK, ob.In.Pos(), ob.Kind+": "+res.Detail)
		}
	}
	for _, a := range sortedKeys(assum) {
		found := false
		for _, x := range c.Assumptions {
			if x == a {
				found = true
			}
		}
		if !found {
			c.Assumptions = append(c.Assumptions, a)
		}
	}
}

// preconditionRule checks the declared preconditions at every static call site.
func preconditionRule(c *Ctx, r *Rule, e *bndEngine, inScope map[*ssa.Function]bool) {
	var names []string
	for n := range e.requires {
		names = append(names, n)
	}
	sort.Strings(names)
	for _, n := range names {
		var callee *ssa.Function
		for fn := range e.callers {
			if FuncName(fn) == n {
				callee = fn
			}
		}
		if callee == nil {
			// generic instantiations: match by origin name
			for fn := range e.callers {
				if fn.Origin() != nil && FuncName(fn.Origin()) == n {
					callee = fn
					e.requires[FuncName(fn)] = e.requires[n]
				}
			}
		}
		if callee == nil {
			// no static call site in the module (the function was written into its caller, or is only exported):
			// a precondition binds call sites; the operation it protected is an obligation of its own wherever it
			// stands now (R2 / R1)
			r.Pass("precondition:"+n+":no-call-sites", token.NoPos, "no static call of "+n+" in the module: nothing to establish at call sites")
			continue
		}
		for _, cl := range e.callers[callee] {
			caller := cl.Parent()
			if strings.Contains(fnPkgPath(caller), "/internal/fixtures") {
				continue
			}
			for _, rq := range e.requires[n] {
				p := e.newProver(caller, cl)
				p.gather()
				a := cl.Common().Args[rq.Param]
				var g linExpr
				switch rq.Kind {
				case "int>=":
					g = p.lin(a).add(linConst(-rq.K))
				case "int<=":
					g = linConst(rq.K).sub(p.lin(a))
				default:
					g = p.lenOf(a).add(linConst(-rq.K))
				}
				ok := p.holds(g)
				for _, u := range sortedKeys(p.used) {
					c.Assumptions = appendUnique(c.Assumptions, u)
				}
				r.Check("precondition:"+n+":"+rq.Kind+":"+FuncName(caller), ok, cl.Pos(), fmt.Sprintf("call site must establish '%s' for argument %s; facts: %s", rq.Why, pathOf(a), factSummary(p)))
			}
		}
	}
}

func appendUnique(xs []string, s string) []string {
	for _, x := range xs {
		if x == s {
			return xs
		}
	}
	return append(xs, s)
}

// lexerStageA: the witnesses of the lexer assumptions.
func lexerStageA(c *Ctx, r *Rule, e *bndEngine) {
	w := c.W
	// (1) next-shape
	nx := w.Func(lexPkg, "(*Lexer).next")
	if nx == nil {
		r.Unresolved("(*Lexer).next")
		return
	}
	okZero, okByte := false, false
	eachInstr(nx, func(in ssa.Instruction) {
		rt, ok := in.(*ssa.Return)
		if !ok {
			return
		}
		if n, isC := constInt(rt.Results[0]); isC && n == 0 {
			// no store to pos on the way
			st := false
			for _, s := range fieldStores(nx, "Lexer", "pos") {
				if s.Block() == rt.Block() || s.Block().Dominates(rt.Block()) {
					st = true
				}
			}
			isPos := func(v ssa.Value) bool { return strings.HasSuffix(pathOf(v), ".pos") }
			isLen := func(v ssa.Value) bool { return strings.HasSuffix(pathOf(v), ".len") }
			okZero = !st && cmpHolds(factsAt(rt.Block()), isPos, isLen, token.GEQ)
			return
		}
		// returns the byte at pos and advances by one, under pos < len
		isPos := func(v ssa.Value) bool { return strings.HasSuffix(pathOf(v), ".pos") }
		isLen := func(v ssa.Value) bool { return strings.HasSuffix(pathOf(v), ".len") }
		adv := false
		for _, s := range fieldStores(nx, "Lexer", "pos") {
			if s.Block() == rt.Block() && pathOf(s.Val) == "(l.pos+1)" {
				adv = true
			}
		}
		okByte = adv && cmpHolds(factsAt(rt.Block()), isPos, isLen, token.LSS) && strings.HasPrefix(pathOf(rt.Results[0]), "l.input[l.pos]")
	})
	r.Check("lexer:next-shape", okZero && okByte, nx.Pos(), "next() returns 0 without moving when pos >= len, otherwise returns input[pos] and advances pos by exactly 1 (non-zero bytes always advance; input is NUL-free by the property's quantifier)")
	// (2) state entry conditions at every site returning lexKey / lexValue
	for _, fn := range stateFuncs(w) {
		eachInstr(fn, func(in ssa.Instruction) {
			rt, ok := in.(*ssa.Return)
			if !ok || len(rt.Results) != 1 {
				return
			}
			tgt := valDesc(rt.Results[0])
			if tgt != "lexKey" && tgt != "lexValue" {
				return
			}
			p := e.newProver(fn, rt)
			p.gather()
			m := p.mem
			root := "l"
			sv, pv := m.versionAt(rt, root+".start"), m.versionAt(rt, root+".pos")
			if sv == "" || pv == "" {
				// fields not otherwise accessed in this function: the versions are the entry versions
				if sv == "" {
					sv = "e"
				}
				if pv == "" {
					pv = "e"
				}
			}
			mk := func(path, ver string) linExpr { return linVar(p.prefix + "M:" + path + "@" + ver) }
			g := mk(root+".pos", pv).sub(mk(root+".start", sv)).add(linConst(-1))
			r.Check("lexer:entry-condition:"+fn.Name()+"->"+tgt, p.holds(g), rt.Pos(), "start < pos must hold when handing control to "+tgt+"; facts: "+factSummary(p))
		})
	}
	// (3) writers of input / len are Run and lexKeySep only; writers of pos/start are lexer functions
	for _, f := range []string{"input", "len"} {
		for _, fn := range w.ModuleFuncs() {
			if len(fieldStores(fn, "Lexer", f)) > 0 {
				r.Check("lexer:frame:"+f+":"+fn.Name(), fn.Name() == "Run" || fn.Name() == "lexKeySep", fn.Pos(), "l."+f+" is written only by Run and lexKeySep")
			}
		}
	}
	// (4) INV established by Run: len = uint32(len(input)), reset sets start = pos = 0
	run := w.Func(lexPkg, "(*Lexer).Run")
	if run != nil {
		ok := false
		for _, s := range fieldStores(run, "Lexer", "len") {
			if pathOf(s.Val) == "conv(call(builtin len))" {
				ok = true
			}
		}
		r.Check("lexer:INV-established-by-Run", ok, run.Pos(), "Run sets l.len = uint32(len(l.input)) and reset() zeroes start and pos (C02.R7)")
	}
	// (5) INV preserved by lexKeySep's deletion: len--, pos-- together with removing one byte
	if ks := w.Func(lexPkg, "lexKeySep"); ks != nil {
		for _, s := range fieldStores(ks, "Lexer", "input") {
			p := e.newProver(ks, s)
			p.gather()
			nl := p.lenOf(s.Val)
			// len(new input) == old len - 1
			var lenStore *ssa.Store
			for _, s2 := range fieldStores(ks, "Lexer", "len") {
				if s2.Block() == s.Block() {
					lenStore = s2
				}
			}
			ok := false
			if lenStore != nil {
				b := asBinOp(lenStore.Val, token.SUB)
				if b != nil {
					old := p.lin(b.X)
					ok = p.holds(nl.sub(old).add(linConst(1))) && p.holds(old.sub(nl).add(linConst(-1)))
				}
			}
			r.Check("lexer:INV-preserved-by-deletion", ok, s.Pos(), "after deleting one byte len(l.input) == l.len - 1, matching l.len--; facts: "+factSummary(p))
		}
	}
}

// lemmaWitnesses: structural witnesses for lemmas L5, L7 and the findTag summary.
func lemmaWitnesses(c *Ctx, r *Rule, which string) {
	w := c.W
	if which == "C03" {
		imm := immutableFields(w)
		r.Check("lemma-L7-witness:frame", imm["BackendHandler.workers"] && imm["BackendHandler.numWorkers"], token.NoPos, "BackendHandler.workers and .numWorkers are only stored by the constructor's composite literal")
		np := w.Func("internal/pool", "NewDatagramBufferPool")
		ok := false
		if np != nil {
			for _, g := range WithAnon(np)[1:] {
				eachInstr(g, func(in ssa.Instruction) {
					if st, isSt := in.(*ssa.Store); isSt {
						if els := varargElems(st.Val); len(els) == 1 {
							if _, isMk := els[0].(*ssa.MakeSlice); isMk {
								ok = true
							}
						}
					}
				})
			}
		}
		r.Check("lemma-L5-witness:pool-new-shape", ok, token.NoPos, "DatagramBufferPool's New creates [][]byte{make([]byte, n)}: exactly one buffer")
		rc := w.Func("pkg/statsd", "(*DatagramReceiver).Receive")
		okB := rc != nil
		if rc != nil {
			for _, st := range fieldStores(rc, "Message", "Buffers") {
				if !strings.Contains(pathOf(st.Val), "retBuffers") && !strings.Contains(exprString(st.Val, 0), "DatagramBufferPool).Get") {
					if u, isU := st.Val.(*ssa.UnOp); !isU || !strings.Contains(pathOf(u.X), "makeslice[") {
						okB = false
					}
				}
			}
		}
		r.Check("lemma-L5-witness:buffers-from-pool", okB, token.NoPos, "Message.Buffers is only ever set to a buffer set taken from the pool")
	}
	if which == "C04" {
		ft := w.Func("pkg/statsd", "findTag")
		ok := ft != nil
		n := 0
		if ft != nil {
			eachInstr(ft, func(in ssa.Instruction) {
				rt, isR := in.(*ssa.Return)
				if !isR {
					return
				}
				if k, isC := rt.Results[1].(*ssa.Const); isC && k.Value.ExactString() == "true" {
					n++
					// the element is the first match of a predicate that is HasPrefix(element, prefix)
					if pred, isFM := firstMatchOf(rt.Results[0], rt.Block()); isFM && predicateRenders(pred, "strings.HasPrefix(p0,prefix)") {
						return
					}
					okPrefix := false
					for _, f := range factsAt(rt.Block()) {
						if cl, isCl := f.V.(*ssa.Call); f.Op == token.ILLEGAL && f.True && isCl && isCall(cl, "strings.HasPrefix") {
							if _, isParam := cl.Call.Args[1].(*ssa.Parameter); isParam {
								okPrefix = true
							}
						}
					}
					if !okPrefix {
						ok = false
					}
					// the returned string is the one tested
					for _, cd := range condsFor(rt.Block()) {
						cd = normCond(cd)
						if cl, isCl := cd.V.(*ssa.Call); isCl && isCall(cl, "strings.HasPrefix") && cl.Call.Args[0] != rt.Results[0] {
							ok = false
						}
					}
				}
			})
		}
		if ft != nil && n == 0 {
			// result variables instead of an early return: (tag, found) are carried by paired phis; wherever found
			// becomes true, the tag assigned with it is the element just tested with HasPrefix(element, prefix)
			okPair, sawTrue := true, false
			seenP := map[[2]ssa.Value]bool{}
			var walk func(tag, found ssa.Value, facts []canonCond, d int)
			walk = func(tag, found ssa.Value, facts []canonCond, d int) {
				if d > 6 || seenP[[2]ssa.Value{tag, found}] {
					return
				}
				seenP[[2]ssa.Value{tag, found}] = true
				if k, isC := found.(*ssa.Const); isC {
					if k.Value != nil && k.Value.ExactString() == "true" {
						sawTrue = true
						good := false
						for _, f := range facts {
							if cl, isCl := f.V.(*ssa.Call); f.Op == token.ILLEGAL && f.True && isCl && isCall(cl, "strings.HasPrefix") {
								if _, isParam := cl.Call.Args[1].(*ssa.Parameter); isParam && (cl.Call.Args[0] == tag || pathOf(cl.Call.Args[0]) == pathOf(tag)) {
									good = true
								}
							}
						}
						if !good {
							okPair = false
						}
					}
					return
				}
				fp, ok1 := found.(*ssa.Phi)
				tp, ok2 := tag.(*ssa.Phi)
				if !ok1 || !ok2 || fp.Block() != tp.Block() {
					okPair = false
					return
				}
				for i := range fp.Edges {
					pred := fp.Block().Preds[i]
					fs := factsAt(pred)
					if len(pred.Instrs) > 0 {
						if ifi, ok := pred.Instrs[len(pred.Instrs)-1].(*ssa.If); ok && pred.Succs[0] != pred.Succs[1] {
							fs = append(fs, canonOf(Cond{V: ifi.Cond, Sense: pred.Succs[0] == fp.Block(), If: ifi}))
						}
					}
					walk(tp.Edges[i], fp.Edges[i], fs, d+1)
				}
			}
			nRet := 0
			eachInstr(ft, func(in ssa.Instruction) {
				if rt, isR := in.(*ssa.Return); isR && len(rt.Results) == 2 {
					nRet++
					walk(rt.Results[0], rt.Results[1], factsAt(rt.Block()), 0)
				}
			})
			if nRet >= 1 && okPair && sawTrue {
				n = 1
			}
		}
		r.Check("findTag-shape", ok && n == 1, token.NoPos, "findTag returns (n, true) only for an element n with strings.HasPrefix(n, prefix)")
	}
}

func readBatchContract(c *Ctx, r *Rule) {
	w := c.W
	for _, nm := range []string{"(*V6BatchReader).ReadBatch", "(*GenericBatchReader).ReadBatch"} {
		fn := w.Func("pkg/statsd", nm)
		if fn == nil {
			r.Unresolved(nm)
			continue
		}
		ok := true
		eachInstr(fn, func(in ssa.Instruction) {
			rt, isR := in.(*ssa.Return)
			if !isR {
				return
			}
			v := rt.Results[0]
			if n, isC := constInt(v); isC {
				if n == 0 {
					return
				}
				if n == 1 {
					// allowed only under len(ms) != 0
					if !knownNonEmpty(factsAt(rt.Block()), func(v ssa.Value) bool { _, isP := v.(*ssa.Parameter); return isP }) {
						ok = false
					}
					return
				}
				ok = false
				return
			}
			// count returned by the library ReadBatch on a slice made with len(ms)
			if ex, isE := v.(*ssa.Extract); isE {
				if cl, isCl := ex.Tuple.(*ssa.Call); isCl && strings.Contains(shortCallee(cl), "golang.org/x/net/") && strings.HasSuffix(shortCallee(cl), ".ReadBatch") {
					return
				}
			}
			ok = false
		})
		r.Check("lemma-L4-witness:"+nm, ok, fn.Pos(), "returns 0, 1 (only when len(ms) > 0) or the library's count for a slice of len(ms)")
	}
}

// errFirstRule: v, err := lib.F(...) with v a pointer or an interface: every use of v as a receiver, a
// dereference or the subject of a defer lies where err == nil (or v != nil) is established.  Library
// functions return a nil v with a non-nil error; `defer v.Close()` placed before the error test, or a
// use on the error path, is a nil dereference for exactly the inputs the library rejects.
func errFirstRule(r *Rule, scope []*ssa.Function) {
	isErr := func(t types.Type) bool {
		n, ok := t.(*types.Named)
		return ok && n.Obj().Pkg() == nil && n.Obj().Name() == "error"
	}
	for _, fn := range scope {
		eachInstr(fn, func(in ssa.Instruction) {
			cl, ok := in.(*ssa.Call)
			if !ok {
				return
			}
			tup, ok := cl.Type().(*types.Tuple)
			if !ok || tup.Len() < 2 || !isErr(tup.At(tup.Len()-1).Type()) {
				return
			}
			if cal := staticCallee(cl); cal != nil && isModPath(fnPkgPath(cal)) {
				return // module functions have their own contracts (partial results with an error)
			}
			if cl.Call.IsInvoke() {
				if n, isN := types.Unalias(cl.Call.Value.Type()).(*types.Named); isN && n.Obj().Pkg() != nil && isModPath(n.Obj().Pkg().Path()) {
					return
				}
			}
			var errEx *ssa.Extract
			var vals []*ssa.Extract
			for _, ref := range referrers(cl) {
				ex, ok := ref.(*ssa.Extract)
				if !ok {
					continue
				}
				if ex.Index == tup.Len()-1 {
					errEx = ex
					continue
				}
				switch ex.Type().Underlying().(type) {
				case *types.Pointer, *types.Interface:
					vals = append(vals, ex)
				}
			}
			if errEx == nil {
				return // the error is discarded: another kind of defect, not decided here
			}
			for _, v := range vals {
				for _, use := range referrers(v) {
					what := ""
					switch u := use.(type) {
					case ssa.CallInstruction:
						cc := u.Common()
						if cc.IsInvoke() && cc.Value == ssa.Value(v) {
							what = "method " + cc.Method.Name() + " called"
						} else if cal := staticCallee(u); cal != nil && cal.Signature.Recv() != nil && len(cc.Args) > 0 && cc.Args[0] == ssa.Value(v) {
							what = "method " + cal.Name() + " called"
						}
						if _, isDefer := u.(*ssa.Defer); isDefer && what != "" {
							what += " (deferred)"
						}
					case *ssa.FieldAddr:
						if u.X == ssa.Value(v) {
							what = "field read"
						}
					case *ssa.UnOp:
						if u.Op == token.MUL && u.X == ssa.Value(v) {
							what = "dereferenced"
						}
					}
					if what == "" {
						continue
					}
					facts := factsAt(use.Block())
					isE := func(x ssa.Value) bool { return x == ssa.Value(errEx) }
					isV := func(x ssa.Value) bool { return x == ssa.Value(v) }
					ok := knownNil(facts, isE) || knownNonNil(facts, isV)
					r.Check(FuncName(fn)+":"+shortCallee(cl)+":result-used-after-error-test:"+what, ok, use.Pos(), "the result of "+shortCallee(cl)+" is used ("+what+") only where its error is known to be nil")
				}
			}
		})
	}
}

func c03(c *Ctx) {
	w := c.W
	c.Explanation = "C03 (no network input can crash ingestion): every index, slice, make, unchecked type assertion, integer division, nested-map write and explicit abort in the code reachable from the datagram receiver, the parser (incl. the lexer's state functions and the whole synchronous handler chain) and the two HTTP ingestion handlers is an obligation; each is discharged from dominating branch conditions, wrap-aware SSA definitions, length facts, memory versions, loop induction and named library models / assumptions by Fourier–Motzkin refutation of its negation. Undischarged or undecided obligations fail the check. Every handler path answers with exactly one status (C14.R5 rules)."
	c.NotDecided = []string{"nil-pointer dereferences other than library results used before their error test (R5) and unpopulated batches (R4); sends on closed channels", "memory exhaustion by huge or highly compressible bodies", "liveness ('wedge') in general", "panics inside third-party libraries"}
	e := newBndEngine(w)
	scope := c03Scope(w)
	added := 0
	if c.Tier == "thorough" {
		scope, added = vtaExtend(w, scope, []string{"(*pkg/statsd.DatagramParser).Run", "(*pkg/statsd.DatagramReceiver).Receive", "(*pkg/web.rawHttpHandlerV2).MetricHandler", "(*pkg/web.rawHttpHandlerV2).EventHandler"}, func(fn *ssa.Function) bool {
			p := fnPkgPath(fn)
			return strings.Contains(p, "/pkg/backends/") || p == Mod+"/pkg/stats" || strings.Contains(p, "/pkg/transport") || strings.Contains(p, "/pkg/healthcheck") || strings.Contains(p, "/pkg/fakesocket") || strings.Contains(p, "/internal/fixtures")
		})
	}
	inScope := map[*ssa.Function]bool{}
	for _, f := range scope {
		inScope[f] = true
	}

	c.Rule("C03.R2", "panic obligations over the ingestion scope are discharged", 85, func(r *Rule) {
		bndRule(c, r, e, scope)
		r.Note(fmt.Sprintf("%d functions in scope (%d added by the VTA call graph in the thorough tier)", len(scope), added))
	})

	c.Rule("C03.R2a", "witnesses of the assumptions used by R2: lexer next() shape, state entry conditions, frame of input/len, invariant establishment and preservation, ReadBatch contract, declared preconditions at call sites", 8, func(r *Rule) {
		lexerStageA(c, r, e)
		readBatchContract(c, r)
		runOutputContract(c, r)
		lemmaWitnesses(c, r, "C03")
		preconditionRule(c, r, e, inScope)
	})

	c.Rule("C03.R1", "overflow taint: lengths parsed from the event header are compared only after widening (no 32-bit sum of attacker-controlled values guards a slice)", 1, func(r *Rule) {
		eb := w.Func(lexPkg, "lexEventBody")
		if eb == nil {
			r.Unresolved("lexer.lexEventBody")
			return
		}
		// any + or * on uint32 values derived from eventTitleLen / eventTextLen inside a branch condition must be at >= 64 bits
		n := 0
		eachInstr(eb, func(in ssa.Instruction) {
			ifi, ok := in.(*ssa.If)
			if !ok {
				return
			}
			var walk func(v ssa.Value, d int)
			walk = func(v ssa.Value, d int) {
				if d > 8 {
					return
				}
				if b, ok := v.(*ssa.BinOp); ok {
					if (b.Op == token.ADD || b.Op == token.MUL) && (strings.Contains(pathOf(b), "eventTitleLen") || strings.Contains(pathOf(b), "eventTextLen")) {
						bits, _, _ := typeBits(b.Type())
						n++
						r.Check("lexEventBody:guard-arithmetic-width", bits >= 64, b.Pos(), fmt.Sprintf("guard computes %s at %d bits (a 32-bit sum of two attacker-chosen lengths can wrap and pass the not-enough-data test)", pathOf(b), bits))
					}
					walk(b.X, d+1)
					walk(b.Y, d+1)
				}
				if cv, ok := v.(*ssa.Convert); ok {
					walk(cv.X, d+1)
				}
			}
			walk(ifi.Cond, 0)
		})
		r.Check("lexEventBody:guard-found", n >= 1, eb.Pos(), fmt.Sprintf("%d arithmetic nodes over the declared lengths in guards", n))
	})

	c.Rule("C03.R4", "batches handed on are fully populated: every make([]*T, n) in the ingestion scope has each element stored with a fresh value on every path of a 0..n counted loop (the consumers dereference the elements unconditionally; nil dereferences are otherwise not enumerated)", 2, func(r *Rule) {
		for _, fn := range scope {
			eachInstr(fn, func(in ssa.Instruction) {
				ms, ok := in.(*ssa.MakeSlice)
				if !ok {
					return
				}
				sl, ok := ms.Type().Underlying().(*types.Slice)
				if !ok {
					return
				}
				if _, isPtr := sl.Elem().Underlying().(*types.Pointer); !isPtr {
					return
				}
				if n, isC := constInt(ms.Len); isC && n == 0 {
					return
				}
				okp, detail := fullyPopulated(ms)
				r.Check(FuncName(fn)+":populated:"+exprString(ms, 0), okp, ms.Pos(), detail)
			})
		}
	})

	c.Rule("C03.R5", "a pointer or interface result that a library call returns together with an error is dereferenced, called or deferred only where that error is known to be nil (or the result known to be non-nil)", 3, func(r *Rule) {
		errFirstRule(r, scope)
	})

	c.Rule("C03.R6", "a set always has a member map: every gostatsd.Set built on an ingestion path gets Values from make / a map literal or from another set (merging and receiving write into Values without testing it; a nil map there is a panic in the aggregator goroutine)", 3, func(r *Rule) {
		n := 0
		for _, fn := range w.ModuleFuncs() {
			p := fnPkgPath(fn)
			if fn.Parent() != nil || !(p == Mod || p == Mod+"/pkg/statsd" || p == Mod+"/pkg/web") {
				continue
			}
			for _, lit := range complitsOf(fn, "Set") {
				n++
				v, has := lit["Values"]
				if !has {
					r.Fail(FuncName(fn)+":set-values:missing", fn.Pos(), "a Set literal without Values: its member map is nil")
					continue
				}
				bad := ""
				var check func(v ssa.Value, d int)
				check = func(v ssa.Value, d int) {
					for _, vc := range valueCases(v, nil) {
						switch x := ptrOrigin(vc.V).(type) {
						case *ssa.MakeMap:
						case *ssa.UnOp:
							if t, f, _, ok := fieldRefThroughLoad(x); !(ok && t == "Set" && f == "Values") {
								bad = exprString(vc.V, 0)
							}
						case *ssa.Field:
							if fieldName(x.X.Type(), x.Field) != "Values" {
								bad = exprString(vc.V, 0)
							}
						case *ssa.Parameter:
							// a constructor's parameter: what the module's call sites pass
							if d > 2 {
								bad = exprString(vc.V, 0)
								continue
							}
							pf := x.Parent()
							idx := -1
							for i, q := range pf.Params {
								if q == x {
									idx = i
								}
							}
							for _, g := range w.ModuleFuncs() {
								if strings.Contains(fnPkgPath(g), "/internal/fixtures") {
									continue
								}
								for _, cc := range callsIn(g) {
									if staticCallee(cc) == pf && idx >= 0 && idx < len(cc.Common().Args) {
										check(cc.Common().Args[idx], d+1)
									}
								}
							}
						default:
							bad = exprString(vc.V, 0)
						}
					}
				}
				check(v, 0)
				r.Check(FuncName(fn)+":set-values:never-nil", bad == "", fn.Pos(), "Values of a new Set is a fresh map or another set's member map "+bad)
			}
		}
		r.Check("set-construction-sites", n >= 2, token.NoPos, fmt.Sprintf("%d Set literals", n))
	})

	c.Rule("C03.R7", "a request does not leave the receiver holding a slot: in the HTTP receiver's request functions every send on a channel (a slot taken) is followed on every path to the function's exit by a receive from that channel (or a deferred one) - a slot kept on an error path blocks every later request once the channel is full", 6, func(r *Rule) {
		for _, fn := range c03Scope(w) {
			if fnPkgPath(fn) != pkgPath("pkg/web") || len(fn.Blocks) == 0 {
				continue
			}
			c.SawFunc(FuncName(fn))
			type acq struct {
				ch  string
				b   *ssa.BasicBlock
				idx int // first instruction after the acquisition
				pos token.Pos
			}
			var acqs []acq
			for _, b := range fn.Blocks {
				for i, in := range b.Instrs {
					switch x := in.(type) {
					case *ssa.Send:
						acqs = append(acqs, acq{pathOf(x.Chan), b, i + 1, x.Pos()})
					case *ssa.Select:
						for k, st := range x.States {
							if st.Dir != types.SendOnly {
								continue
							}
							// the block entered when case k was chosen
							for _, b2 := range fn.Blocks {
								iff, ok := b2.Instrs[len(b2.Instrs)-1].(*ssa.If)
								if !ok {
									continue
								}
								if bo := asBinOp(iff.Cond, token.EQL); bo != nil {
									if ex, isE := bo.X.(*ssa.Extract); isE && ex.Tuple == ssa.Value(x) && ex.Index == 0 {
										if kk, isC := constInt(bo.Y); isC && int(kk) == k {
											acqs = append(acqs, acq{pathOf(st.Chan), b2.Succs[0], 0, st.Pos})
										}
									}
								}
							}
						}
					}
				}
			}
			releases := func(in ssa.Instruction, ch string) bool {
				switch x := in.(type) {
				case *ssa.UnOp:
					return x.Op == token.ARROW && pathOf(x.X) == ch
				case *ssa.Defer:
					if mc, ok := x.Call.Value.(*ssa.MakeClosure); ok {
						found := false
						eachInstr(mc.Fn.(*ssa.Function), func(i2 ssa.Instruction) {
							if u, ok := i2.(*ssa.UnOp); ok && u.Op == token.ARROW && chanType(u.X.Type()) {
								found = true
							}
						})
						return found
					}
				case *ssa.Select:
					for _, st := range x.States {
						if st.Dir == types.RecvOnly && pathOf(st.Chan) == ch {
							return true
						}
					}
				}
				return false
			}
			bad := ""
			for _, a := range acqs {
				seen := map[*ssa.BasicBlock]bool{}
				var walk func(b *ssa.BasicBlock, from int) bool // true = an exit is reached holding the slot
				walk = func(b *ssa.BasicBlock, from int) bool {
					for _, in := range b.Instrs[from:] {
						if releases(in, a.ch) {
							return false
						}
						if _, isRet := in.(*ssa.Return); isRet {
							return true
						}
					}
					for _, s := range b.Succs {
						if seen[s] {
							continue
						}
						seen[s] = true
						if walk(s, 0) {
							return true
						}
					}
					return false
				}
				if walk(a.b, a.idx) {
					bad = fmt.Sprintf("%s taken at %s is still held at a return", a.ch, w.Fset.Position(a.pos))
				}
			}
			r.Check("slots-returned:"+FuncName(fn), bad == "", fn.Pos(), fmt.Sprintf("%d slot acquisitions; %s", len(acqs), bad))
		}
	})

	c.Rule("C03.R8", "a line that ends without an error has produced a metric or an event: Lexer.Run and the parser dereference the result on that path without a nil test, so a state that stops lexing without storing an error (before the metric / event was allocated) is a nil dereference in the parser goroutine - C02.R5's accept-exit obligations, shared (only the two attribute states may end a line without an error)", 5, func(r *Rule) {
		importObligations(c, r, c02, "C02.R5", nil)
	})

	c.Rule("C03.R3", "every request is answered with exactly one status and errors dispatch nothing (C14.R5)", 10, func(r *Rule) {
		sub := &Ctx{W: w, Prop: c.Prop, Tier: c.Tier, known: c.known, Only: "C14.R5"}
		c14(sub)
		for _, sr := range sub.Rules {
			for _, o := range sr.Obls {
				o2 := *o
				o2.Rule = "C03.R3"
				r.Obls = append(r.Obls, &o2)
			}
		}
		// handlers are only registered on the router (net/http recovers per request); never called from our goroutines
		for _, nm := range []string{"MetricHandler", "EventHandler"} {
			fn := w.Func("pkg/web", "(*rawHttpHandlerV2)."+nm)
			if fn == nil {
				continue
			}
			n := 0
			for _, f := range w.ModuleFuncs() {
				for _, cl := range callsIn(f) {
					if staticCallee(cl) == fn {
						n++
					}
				}
			}
			r.Check("handler-not-called-directly:"+nm, n == 0, fn.Pos(), fmt.Sprintf("%d direct calls (handlers run only under net/http, which isolates panics per request)", n))
		}
	})

}

func c04(c *Ctx) {
	w := c.W
	c.Explanation = "C04 (flushing never crashes): the same obligation engine as C03 over the flush scope: MetricAggregator.Flush/Process/Reset/ReceiveMap, the histogram helpers, the flusher and every bundled backend's SendMetricsAsync with everything they call in the module (payload builders, batching, goroutine bodies). Percentile ranks use the quantifier's assumption |p| <= 100; persisted idle series are covered because lengths are only known to be >= 0 unless a guard says more."
	c.NotDecided = []string{"panics inside third-party encoders (jsoniter, protobuf, AWS SDK)", "nil-pointer dereferences (not enumerated)", "numerical results"}
	e := newBndEngine(w)
	scope := c04Scope(w)
	added := 0
	if c.Tier == "thorough" {
		scope, added = vtaExtend(w, scope, []string{"(*pkg/statsd.MetricFlusher).flushData"}, func(fn *ssa.Function) bool {
			p := fnPkgPath(fn)
			return p == Mod+"/pkg/stats" || strings.Contains(p, "/pkg/transport") || strings.Contains(p, "/pkg/healthcheck") || strings.Contains(p, "/pkg/fakesocket") || strings.Contains(p, "/internal/fixtures")
		})
	}
	inScope := map[*ssa.Function]bool{}
	for _, f := range scope {
		inScope[f] = true
	}
	c.Rule("C04.R1", "panic obligations over the flush scope are discharged", 120, func(r *Rule) {
		bndRule(c, r, e, scope)
		r.Note(fmt.Sprintf("%d functions in scope (%d added by the VTA call graph in the thorough tier)", len(scope), added))
	})
	c.Rule("C04.R1a", "declared preconditions hold at every call site; witnesses of the summaries used by R1", 4, func(r *Rule) {
		preconditionRule(c, r, e, inScope)
		lemmaWitnesses(c, r, "C04")
	})
	c.Rule("C04.R2", "histogram contract: a limit-0 histogram is a non-nil empty map and untagged timers have nil; every consumer that branches on the histogram tolerates the empty non-nil case (obligations of R1 inside those branches)", 3, func(r *Rule) {
		eh := w.Func("pkg/statsd", "emptyHistogram")
		if eh == nil {
			r.Unresolved("emptyHistogram")
			return
		}
		okEmpty, okNil := false, false
		eachInstr(eh, func(in ssa.Instruction) {
			if rt, ok := in.(*ssa.Return); ok {
				fs := factsAt(rt.Block())
				isLimit := func(v ssa.Value) bool {
					p, ok := stripConv(v).(*ssa.Parameter)
					return ok && p.Parent() == eh && isIntType(p.Type())
				}
				isZero := func(v ssa.Value) bool { n, ok := constInt(v); return ok && n == 0 }
				if _, isMk := rt.Results[0].(*ssa.MakeMap); isMk && cmpHolds(fs, isLimit, isZero, token.EQL) {
					okEmpty = true
				}
				if isNilConst(rt.Results[0]) {
					// nil exactly when the thresholds could not be retrieved (a fact about retrieveThresholds' result)
					for _, f := range fs {
						for _, v := range []ssa.Value{f.X, f.Y, f.V} {
							if v != nil && (strings.Contains(exprString(v, 0), "retrieveThresholds") || strings.Contains(exprString(v, 0), "findTag")) {
								okNil = true
							}
						}
					}
				}
			}
		})
		r.Check("emptyHistogram:limit0-is-empty-non-nil", okEmpty, eh.Pos(), "limit 0 returns an empty non-nil map")
		r.Check("emptyHistogram:untagged-is-nil", okNil, eh.Pos(), "no histogram tag returns nil")
		// consumers: list the functions that test Histogram
		n := 0
		for _, fn := range backendFuncs(w) {
			for _, in := range fieldReads(fn, "Timer", "Histogram") {
				_ = in
				n++
				break
			}
		}
		r.Check("consumers-found", n >= 6, token.NoPos, fmt.Sprintf("%d backend functions read Timer.Histogram (their index/slice obligations are in R1)", n))
	})
}

// vtaExtend adds to scope every module function reachable in the VTA call graph from the
// named entries (function values and interface calls resolved by variable-type analysis).
func vtaExtend(w *World, scope []*ssa.Function, entries []string, stop func(*ssa.Function) bool) ([]*ssa.Function, int) {
	cg := w.VTA()
	in := map[*ssa.Function]bool{}
	for _, f := range scope {
		in[f] = true
	}
	seen := map[*ssa.Function]bool{}
	var stack []*ssa.Function
	for fn := range cg.Nodes {
		if fn == nil {
			continue
		}
		for _, e := range entries {
			if FuncName(fn) == e {
				stack = append(stack, fn)
			}
		}
	}
	for len(stack) > 0 {
		fn := stack[len(stack)-1]
		stack = stack[:len(stack)-1]
		if seen[fn] {
			continue
		}
		seen[fn] = true
		n := cg.Nodes[fn]
		if n == nil {
			continue
		}
		for _, ed := range n.Out {
			cal := ed.Callee.Func
			if cal == nil || !IsModule(cal) || (stop != nil && stop(cal)) {
				continue
			}
			stack = append(stack, cal)
		}
	}
	added := 0
	for fn := range seen {
		if IsModule(fn) && !in[fn] && fn.Blocks != nil && !(stop != nil && stop(fn)) {
			scope = append(scope, fn)
			in[fn] = true
			added++
		}
	}
	sort.Slice(scope, func(i, j int) bool { return FuncName(scope[i]) < FuncName(scope[j]) })
	return scope, added
}

var _ = types.Typ

// fullyPopulated: ms = make([]*T, n) must have every element stored with a fresh non-nil value before
// the slice is used: the only element stores are s[i] = <alloc|call result> in a counted loop
// (i from 0, step 1, bound n) and no path from the loop body's entry to the loop header or exit
// avoids the store.
func fullyPopulated(ms *ssa.MakeSlice) (bool, string) {
	// aliases: the slice value itself and loads of a local cell it is (solely) stored into
	aliases := []ssa.Value{ms}
	for _, ref := range referrers(ms) {
		if st, ok := ref.(*ssa.Store); ok && st.Val == ms {
			if cell, ok := st.Addr.(*ssa.Alloc); ok {
				n := 0
				for _, r2 := range referrers(cell) {
					if s2, ok := r2.(*ssa.Store); ok && s2.Addr == cell {
						n++
					}
				}
				if n != 1 {
					return false, "the slice variable is reassigned"
				}
				for _, r2 := range referrers(cell) {
					if ld, ok := r2.(*ssa.UnOp); ok && ld.Op == token.MUL {
						aliases = append(aliases, ld)
					}
				}
			}
		}
	}
	var stores []*ssa.Store
	var uses []ssa.Instruction
	for _, a := range aliases {
		for _, ref := range referrers(a) {
			ia, ok := ref.(*ssa.IndexAddr)
			if !ok {
				if st, isSt := ref.(*ssa.Store); isSt && st.Val == a {
					continue
				}
				if cl, isCl := ref.(*ssa.Call); isCl && (isCall(cl, "builtin len") || isCall(cl, "builtin cap")) {
					continue // the length is fixed when the slice is made; no element is read
				}
				uses = append(uses, ref)
				continue
			}
			isStore := false
			for _, r2 := range referrers(ia) {
				if st, ok := r2.(*ssa.Store); ok && st.Addr == ia {
					stores = append(stores, st)
					isStore = true
				}
			}
			if !isStore {
				uses = append(uses, ia)
			}
		}
	}
	if len(stores) == 0 {
		return false, "no element store found"
	}
	var populating *ssa.BasicBlock // exit block of the populating loop
	var popStore *ssa.Store
	why := ""
	for _, st := range stores {
		switch st.Val.(type) {
		case *ssa.Alloc, *ssa.Call:
		default:
			return false, "stored element is not a fresh allocation or call result: " + exprString(st.Val, 0)
		}
		ia := st.Addr.(*ssa.IndexAddr)
		// the counter: i (a phi starting at 0) or, in the form range loops compile to, phi+1 with the phi starting at -1
		phi, ok := ia.Index.(*ssa.Phi)
		var counter ssa.Value = ia.Index
		first := int64(0)
		if !ok {
			if b := asBinOp(ia.Index, token.ADD); b != nil {
				if one, isC := constInt(b.Y); isC && one == 1 {
					phi, ok = b.X.(*ssa.Phi)
					first = -1
				}
			}
		}
		if !ok {
			why = "element index is not a loop counter: " + exprString(ia.Index, 0)
			continue
		}
		h := phi.Block()
		ifi, ok := h.Instrs[len(h.Instrs)-1].(*ssa.If)
		rotated := false
		if cmp0, isB := func() (*ssa.BinOp, bool) {
			if !ok {
				return nil, false
			}
			b, isB := ifi.Cond.(*ssa.BinOp)
			return b, isB
		}(); !ok || !isB || cmp0.X != counter {
			// rotated loop (range over an int): the test "counter+1 < N" stands at the bottom, the loop is entered under "0 < N"
			ok = false
			if first == 0 {
				for _, e := range phi.Edges {
					inc := asBinOp(e, token.ADD)
					if inc == nil || inc.X != ssa.Value(phi) {
						continue
					}
					for _, ref := range referrers(inc) {
						c2, isC := ref.(*ssa.BinOp)
						if !isC || c2.Op != token.LSS || c2.X != ssa.Value(inc) {
							continue
						}
						for _, r2 := range referrers(c2) {
							if li, isIf := r2.(*ssa.If); isIf && li.Block().Succs[0] == h {
								// entered under 0 < N with the same N
								for _, pred := range h.Preds {
									if pred == li.Block() {
										continue
									}
									if pi, isIf := pred.Instrs[len(pred.Instrs)-1].(*ssa.If); isIf && pred.Succs[0] == h {
										if pc := asBinOp(pi.Cond, token.LSS); pc != nil && pathOf(pc.Y) == pathOf(c2.Y) {
											if z, isZ := constInt(pc.X); isZ && z == 0 {
												ifi, ok, rotated = li, true, true
												counter = inc
											}
										}
									}
								}
							}
						}
					}
				}
			}
		}
		if !ok {
			why = "loop header does not end in the bound test"
			continue
		}
		cmp, ok := ifi.Cond.(*ssa.BinOp)
		lenOfSelf := false
		if !ok {
			why = "loop test is not a comparison"
			continue
		}
		if lc, isC := cmp.Y.(*ssa.Call); ok && isC && isCall(lc, "builtin len") {
			for _, a := range aliases {
				if lc.Call.Args[0] == a {
					lenOfSelf = true // i < len(s): the slice's own length (it is never re-assigned)
				}
			}
			// or the length of another slice that was made with the same size and is never re-assigned
			if other, isMk := ptrOrigin(lc.Call.Args[0]).(*ssa.MakeSlice); isMk && pathOf(other.Len) != "" && pathOf(other.Len) == pathOf(ms.Len) {
				if _, isConstOrField := other.Len.(*ssa.Call); !isConstOrField {
					lenOfSelf = true
				}
			}
		}
		if !ok || cmp.Op != token.LSS || cmp.X != counter || !(lenOfSelf || cmp.Y == ms.Len || (pathOf(cmp.Y) != "" && pathOf(cmp.Y) == pathOf(ms.Len))) {
			why = "loop bound is not i < len: " + exprString(ifi.Cond, 0)
			continue
		}
		// init 0, step +1
		okInit, okStep := false, false
		for _, e := range phi.Edges {
			if n, isC := constInt(e); isC && n == first {
				okInit = true
			} else if b, isB := e.(*ssa.BinOp); isB && b.Op == token.ADD && b.X == phi {
				if n, isC := constInt(b.Y); isC && n == 1 {
					okStep = true
				}
			}
		}
		if !okInit || !okStep {
			why = "loop counter does not run 0,1,2,...: " + exprString(phi, 0)
			continue
		}
		var body, exit *ssa.BasicBlock
		seen := map[*ssa.BasicBlock]bool{}
		var stack []*ssa.BasicBlock
		if rotated {
			// the head is the first block of the body; the exit is the false side of the bottom test
			exit = ifi.Block().Succs[1]
			if h != st.Block() {
				for _, sx := range h.Succs {
					if sx != st.Block() {
						stack = append(stack, sx)
						seen[sx] = true
					}
				}
				if len(h.Succs) == 0 {
					stack = nil
				}
			}
		} else {
			body, exit = h.Succs[0], h.Succs[1]
			// search from body avoiding the store's block (a block is straight-line: entering it executes the store)
			if body != st.Block() {
				stack = append(stack, body)
				seen[body] = true
			}
		}
		bad := ""
		for len(stack) > 0 && bad == "" {
			b := stack[len(stack)-1]
			stack = stack[:len(stack)-1]
			if b == h || b == exit {
				bad = fmt.Sprintf("a path through the loop body reaches block %d (%s) without storing element i", b.Index, map[bool]string{true: "next iteration", false: "loop exit"}[b == h])
				break
			}
			for _, s := range b.Succs {
				if s != st.Block() && !seen[s] {
					seen[s] = true
					stack = append(stack, s)
				}
			}
		}
		if bad != "" {
			why = bad
			continue
		}
		populating = exit
		popStore = st
	}
	if populating == nil {
		return false, "no loop stores every element 0..len-1 on all paths: " + why
	}
	// every other use of the slice comes after the populating loop
	for _, u := range uses {
		if ia, isIA := u.(*ssa.IndexAddr); isIA && ia.Index == popStore.Addr.(*ssa.IndexAddr).Index && instrDominates(popStore, u) {
			continue // element i read back after it was stored in the same iteration
		}
		if u.Block() != populating && !populating.Dominates(u.Block()) {
			return false, "the slice is used at " + exprString0(u) + " before (or not dominated by) the populating loop"
		}
	}
	return true, fmt.Sprintf("%d element store(s) of fresh values; one 0..len counted loop stores element i on every path and dominates the %d other use(s)", len(stores), len(uses))
}

func exprString0(in ssa.Instruction) string {
	if v, ok := in.(ssa.Value); ok {
		return exprString(v, 0)
	}
	return in.String()
}

// runOutputContract: witness of the allow-listed abort in handleDatagram ("both event and metric are
// nil"): whenever (*Lexer).Run returns neither a metric nor an event, the error it returns is
// non-nil on that path.
func runOutputContract(c *Ctx, r *Rule) {
	w := c.W
	run := w.Func(lexPkg, "(*Lexer).Run")
	if run == nil {
		r.Unresolved("(*Lexer).Run")
		return
	}
	var nonNil func(v ssa.Value, facts []canonCond, d int) bool
	nonNil = func(v ssa.Value, facts []canonCond, d int) bool {
		if d > 6 {
			return false
		}
		if knownNonNil(facts, func(x ssa.Value) bool { return x == v }) {
			return true
		}
		switch x := v.(type) {
		case *ssa.UnOp:
			// a package-level error value (errNaN, errInvalidType, ...) initialised once with a fresh error
			if g, ok := x.X.(*ssa.Global); ok && x.Op == token.MUL {
				if iv := globalInitValue(w, g); iv != nil {
					if cl, ok := iv.(*ssa.Call); ok && (isCall(cl, "errors.New") || strings.HasPrefix(calleeName(cl), "fmt.Errorf")) {
						return true
					}
				}
			}
			// a load of l.err (or a local holding it) where the same location was tested non-nil
			p := pathOf(x)
			if p != "" && knownNonNil(facts, func(y ssa.Value) bool { return pathOf(y) == p }) {
				return true
			}
		case *ssa.MakeInterface:
			return true
		case *ssa.Call:
			if isCall(x, "errors.New") || strings.HasPrefix(calleeName(x), "fmt.Errorf") {
				return true
			}
		}
		return false
	}
	n := 0
	eachInstr(run, func(in ssa.Instruction) {
		rt, ok := in.(*ssa.Return)
		if !ok || len(rt.Results) != 3 {
			return
		}
		if !isNilConst(rt.Results[0]) || !isNilConst(rt.Results[1]) {
			return
		}
		n++
		okAll := true
		if knownNonNil(factsAt(rt.Block()), func(v ssa.Value) bool { return v == rt.Results[2] }) {
			// returned under "err != nil": whatever its origins
			r.Check(fmt.Sprintf("Run:no-output-means-error#%d", n), true, rt.Pos(), "a return of (nil, nil, err) stands under err != nil")
			return
		}
		for _, vc := range valueCases(rt.Results[2], rt.Block()) {
			var facts []canonCond
			for _, cd := range vc.Conds {
				facts = append(facts, canonOf(cd))
			}
			if !nonNil(vc.V, facts, 0) {
				okAll = false
			}
		}
		r.Check(fmt.Sprintf("Run:no-output-means-error#%d", n), okAll, rt.Pos(), "a return of (nil, nil, err) carries a non-nil error (handleDatagram aborts on a line that is neither metric, event nor error)")
	})
	r.Check("Run:error-returns", n >= 1, run.Pos(), fmt.Sprintf("%d returns without metric or event", n))
}

func chanType(t types.Type) bool {
	_, ok := t.Underlying().(*types.Chan)
	return ok
}
