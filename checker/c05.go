package main

import (
	"fmt"
	"go/token"
	"go/types"
	"sort"
	"strings"

	"golang.org/x/tools/go/ssa"
)

func init() { register("C05", c05) }

// reachableTypes walks fields / elements from t and reports offending leaf types.
func aliasableLeaves(t types.Type, path string, seen map[types.Type]bool, out *[]string) {
	if seen[t] {
		return
	}
	seen[t] = true
	switch u := t.Underlying().(type) {
	case *types.Basic:
		if u.Kind() == types.UnsafePointer {
			*out = append(*out, path+": unsafe.Pointer")
		}
	case *types.Slice:
		if b, ok := u.Elem().Underlying().(*types.Basic); ok && (b.Kind() == types.Byte || b.Kind() == types.Uint8) {
			*out = append(*out, path+": []byte")
			return
		}
		aliasableLeaves(u.Elem(), path+"[]", seen, out)
	case *types.Array:
		aliasableLeaves(u.Elem(), path+"[]", seen, out)
	case *types.Pointer:
		aliasableLeaves(u.Elem(), path+"*", seen, out)
	case *types.Map:
		aliasableLeaves(u.Key(), path+"[key]", seen, out)
		aliasableLeaves(u.Elem(), path+"[val]", seen, out)
	case *types.Struct:
		for i := 0; i < u.NumFields(); i++ {
			aliasableLeaves(u.Field(i).Type(), path+"."+u.Field(i).Name(), seen, out)
		}
	case *types.Interface:
		*out = append(*out, path+": interface (could hold a []byte)")
	case *types.Signature:
		*out = append(*out, path+": func")
	case *types.Chan:
		aliasableLeaves(u.Elem(), path+"<-", seen, out)
	}
}

func c05(c *Ctx) {
	w := c.W
	c.Explanation = "C05 (line independence, no aliasing of the receive buffer): parsed data cannot share memory with the datagram because no type reachable from Metric/Event/MetricMap can hold a []byte and the packages use no unsafe (decided for every input); lexer tag buffers come only from nil / the pooled metric / append; constructors copy tags when folding into a map; the datagram buffer is released after parsing; line accounting, metadata and gauge ties are structural."
	c.NotDecided = []string{"the equation 'parsing a datagram = concatenation of parsing its lines' as a whole (it relies on R3, R6, R8 and on C02)"}

	c.Rule("C05.R1", "no-alias by types: nothing reachable from Metric, Event, MetricMap can reference a byte buffer; no unsafe in the ingestion packages", 6, func(r *Rule) {
		for _, tn := range []string{"Metric", "Event", "MetricMap"} {
			n := w.Named("", tn)
			if n == nil {
				r.Unresolved("gostatsd." + tn)
				continue
			}
			var leaves []string
			aliasableLeaves(n, tn, map[types.Type]bool{}, &leaves)
			var bad []string
			for _, l := range leaves {
				if l == "Metric.DoneFunc: func" {
					continue // inspected below
				}
				bad = append(bad, l)
			}
			r.Check("types:"+tn, len(bad) == 0, n.Obj().Pos(), fmt.Sprintf("aliasable leaves: %v", bad))
		}
		// DoneFunc closures capture only *MetricPool / *Metric
		nst := 0
		for _, fn := range w.ModuleFuncs() {
			if strings.Contains(fnPkgPath(fn), "/internal/fixtures") {
				continue
			}
			for _, st := range fieldStores(fn, "Metric", "DoneFunc") {
				nst++
				mc, ok := st.Val.(*ssa.MakeClosure)
				if !ok {
					if isNilConst(st.Val) {
						r.Pass("DoneFunc-store:"+FuncName(fn), st.Pos(), "nil")
						continue
					}
					r.Fail("DoneFunc-store:"+FuncName(fn), st.Pos(), "DoneFunc set from "+pathOf(st.Val))
					continue
				}
				var bad []string
				for _, b := range mc.Bindings {
					t := b.Type()
					for {
						p, isP := t.Underlying().(*types.Pointer)
						if !isP {
							break
						}
						t = p.Elem()
					}
					// only the pool itself and the pooled metric may be captured
					if !(typeIs(t, "internal/pool", "MetricPool") || typeIs(t, "", "Metric")) {
						bad = append(bad, b.Name()+" "+b.Type().String())
					}
				}
				r.Check("DoneFunc-store:"+FuncName(fn), len(bad) == 0, st.Pos(), fmt.Sprintf("closure captures %d values; byte-buffer captures: %v", len(mc.Bindings), bad))
			}
		}
		r.Check("DoneFunc-store-sites", nst >= 1, token.NoPos, fmt.Sprintf("%d stores to Metric.DoneFunc", nst))
		for _, rel := range []string{"internal/lexer", "internal/pool", "pkg/statsd", ""} {
			p := w.ByPath[pkgPath(rel)]
			if p == nil {
				r.Unresolved("package " + rel)
				continue
			}
			bad := ""
			for imp := range p.Imports {
				if imp == "unsafe" {
					bad = "imports unsafe"
				}
			}
			// reflect.SliceHeader / StringHeader
			for _, obj := range p.TypesInfo.Uses {
				if obj.Pkg() != nil && obj.Pkg().Path() == "reflect" && (obj.Name() == "SliceHeader" || obj.Name() == "StringHeader") {
					bad = "uses reflect." + obj.Name()
				}
			}
			r.Check("no-unsafe:"+pkgPath(rel), bad == "", token.NoPos, bad)
		}
	})

	c.Rule("C05.R2", "buffer release order: in the parser loop DoneFunc of a datagram runs after that datagram has been parsed, once per iteration", 3, func(r *Rule) {
		run := w.Func("pkg/statsd", "(*DatagramParser).Run")
		hd := w.Func("pkg/statsd", "(*DatagramParser).handleDatagram")
		if run == nil || hd == nil {
			r.Unresolved("(*DatagramParser).Run / handleDatagram")
			return
		}
		c.SawFunc(FuncName(run))
		var parse, done []ssa.CallInstruction
		for _, cl := range callsIn(run) {
			if staticCallee(cl) == hd {
				parse = append(parse, cl)
			}
			if strings.HasSuffix(calleeName(cl), ".DoneFunc") && strings.HasPrefix(calleeName(cl), "dynamic:") {
				done = append(done, cl)
			}
		}
		r.Check("Run:one-parse-site", len(parse) == 1, run.Pos(), fmt.Sprintf("%d handleDatagram call sites", len(parse)))
		r.Check("Run:one-release-site", len(done) == 1, run.Pos(), fmt.Sprintf("%d DoneFunc call sites", len(done)))
		if len(parse) == 1 && len(done) == 1 {
			r.Check("Run:release-after-parse", parse[0].Block() == done[0].Block() && instrIndex(parse[0]) < instrIndex(done[0]), done[0].Pos(), "DoneFunc is called after handleDatagram in the same loop iteration")
			_, isCall := done[0].(*ssa.Call)
			r.Check("Run:release-synchronous", isCall, done[0].Pos(), "release is a plain call (not go/defer)")
			// same datagram
			msg := parse[0].Common().Args[5]
			d1 := strings.TrimSuffix(pathOf(msg), ".Msg")
			d2 := strings.TrimSuffix(strings.TrimPrefix(calleeName(done[0]), "dynamic:"), ".DoneFunc")
			r.Check("Run:same-datagram", d1 == d2 && strings.HasSuffix(pathOf(msg), ".Msg"), done[0].Pos(), fmt.Sprintf("parsed %s, released %s", d1, d2))
		}
		// the receiver's DoneFunc returns exactly the buffer the datagram was read into
		rc := w.Func("pkg/statsd", "(*DatagramReceiver).Receive")
		if rc == nil {
			r.Unresolved("(*DatagramReceiver).Receive")
			return
		}
		c.SawFunc(FuncName(rc))
		ok := false
		for _, g := range WithAnon(rc)[1:] {
			for _, cl := range callsTo(g, "(*internal/pool.DatagramBufferPool).Put") {
				// the buffer put back is this datagram's slot: slots[i] read in the iteration that reads messages[i]
				v := ptrOrigin(cl.Common().Args[1])
				ld, isLd := v.(*ssa.UnOp)
				if !isLd || ld.Op != token.MUL {
					continue
				}
				ia, isIA := ld.X.(*ssa.IndexAddr)
				if !isIA || !strings.HasSuffix(ia.X.Type().String(), "[]*[][]byte") {
					continue
				}
				for _, in := range ia.Block().Instrs {
					if ia2, isIA2 := in.(*ssa.IndexAddr); isIA2 && ia2 != ia && ia2.Index == ia.Index && strings.Contains(ia2.X.Type().String(), "Message") {
						ok = true
					}
				}
			}
		}
		r.Check("Receive:done-returns-own-buffer", ok, rc.Pos(), "DoneFunc puts back retBuf, the buffer captured for this datagram")
		// after handing a buffer out, the slot gets a fresh buffer from the pool before the next read
		okFresh := false
		for _, st := range storesIn(rc) {
			if ia, isIA := st.Addr.(*ssa.IndexAddr); isIA && strings.HasSuffix(ia.X.Type().String(), "[]*[][]byte") && instrReaches(firstSendOrSelect(rc), st) {
				if cl, ok := st.Val.(*ssa.Call); ok && isCall(cl, "(*internal/pool.DatagramBufferPool).Get") {
					okFresh = true
				}
			}
		}
		r.Check("Receive:fresh-buffer-per-slot", okFresh, rc.Pos(), "a handed-out buffer is replaced by a fresh pool buffer")
	})

	c.Rule("C05.R3", "line accounting: one parse per line; a rejected line increments the bad-line count and yields nothing; an accepted metric is appended exactly once; an event is counted and dispatched once", 8, func(r *Rule) {
		hd := w.Func("pkg/statsd", "(*DatagramParser).handleDatagram")
		if hd == nil {
			r.Unresolved("handleDatagram")
			return
		}
		c.SawFunc(FuncName(hd))
		pl := callsTo(hd, "(*pkg/statsd.DatagramParser).parseLine")
		lineArg := 2
		direct := false
		if len(pl) == 0 {
			// the one-line wrapper written in place: l.Run(line, dp.namespace)
			pl = callsTo(hd, "(*internal/lexer.Lexer).Run")
			lineArg, direct = 1, true
		}
		if !r.Check("parseLine:one-site", len(pl) == 1, hd.Pos(), fmt.Sprintf("%d parseLine call sites", len(pl))) {
			return
		}
		pc := pl[0].(*ssa.Call)
		errV := func(v ssa.Value) bool {
			ex, ok := v.(*ssa.Extract)
			return ok && ex.Tuple == pc && ex.Index == 2
		}
		condErr := func(b *ssa.BasicBlock) (isErr, known bool) {
			for _, cd := range condsFor(b) {
				cd = normCond(cd)
				if bo := asBinOp(cd.V, token.NEQ, token.EQL); bo != nil && errV(bo.X) && isNilConst(bo.Y) {
					e := cd.Sense
					if bo.Op == token.EQL {
						e = !e
					}
					return e, true
				}
			}
			return false, false
		}
		// a datagram that ends in a newline has no further line: where the rest of the message is taken as the
		// last line (no newline left), it is known to be non-empty - an empty remainder parsed as a line is a
		// phantom bad line
		{
			isZero := func(v ssa.Value) bool { k, ok := constInt(v); return ok && k == 0 }
			nonEmpty := func(facts []canonCond, v ssa.Value) bool {
				isLen := func(x ssa.Value) bool {
					cl, ok := x.(*ssa.Call)
					return ok && isCall(cl, "builtin len") && (cl.Call.Args[0] == v || pathOf(cl.Call.Args[0]) == pathOf(v))
				}
				return cmpHolds(facts, isLen, isZero, token.NEQ) || cmpHolds(facts, isLen, isZero, token.GTR)
			}
			// the fact sets under which a block is entered: its dominating facts, refined per incoming edge
			edgeFacts := func(b *ssa.BasicBlock) [][]canonCond {
				if len(b.Preds) < 2 {
					return [][]canonCond{factsAt(b)}
				}
				var out [][]canonCond
				for _, pred := range b.Preds {
					fs := factsAt(pred)
					if ifi, ok := pred.Instrs[len(pred.Instrs)-1].(*ssa.If); ok && pred.Succs[0] != pred.Succs[1] {
						fs = append(fs, canonOf(Cond{ifi.Cond, pred.Succs[0] == b, ifi}))
					}
					out = append(out, fs)
				}
				return out
			}
			okLine := func(v ssa.Value, facts []canonCond) bool {
				if sl, isSl := v.(*ssa.Slice); isSl && sl.High != nil {
					return true // msg[:idx]: a line in front of a newline
				}
				if ex, isEx := v.(*ssa.Extract); isEx && ex.Index == 0 {
					if cc, isC := ex.Tuple.(*ssa.Call); isC && strings.HasPrefix(calleeName(cc), "bytes.Cut") {
						// before, _, found := bytes.Cut(msg, sep): a line in front of a newline when found, else the whole rest
						found := func(x ssa.Value) bool {
							e2, ok := x.(*ssa.Extract)
							return ok && e2.Tuple == ex.Tuple && e2.Index == 2
						}
						return boolKnown(facts, found, true) || nonEmpty(facts, v) || nonEmpty(facts, cc.Call.Args[0])
					}
				}
				return nonEmpty(facts, v)
			}
			arg := pc.Call.Args[lineArg]
			// the line and - where the splitting was written as a helper returning (line, rest, ok) - the flag
			// under which the call is reached are followed in lockstep through the joins: a leaf is fine if it is
			// a line in front of a newline, a remainder known to be non-empty (possibly because the flag IS that
			// test), or comes with the flag false (that way does not lead to the call)
			var walk func(L, F ssa.Value, facts []canonCond, d int) bool
			walk = func(L, F ssa.Value, facts []canonCond, d int) bool {
				if F != nil {
					_, isK := F.(*ssa.Const)
					_, isP := F.(*ssa.Phi)
					if !isK && !isP {
						// the flag is a computed test on this way (ok = len(msg) != 0): it holds at the call
						facts = append(append([]canonCond{}, facts...), canonOf(Cond{V: F, Sense: true}))
					}
				}
				if d > 0 && okLine(L, facts) {
					return true // e.g. the remainder variable itself (a loop phi), known to be non-empty here
				}
				if ph, isPhi := L.(*ssa.Phi); isPhi && d < 5 {
					fph, _ := F.(*ssa.Phi)
					for i, e := range ph.Edges {
						pred := ph.Block().Preds[i]
						fs := factsAt(pred)
						if ifi, ok := pred.Instrs[len(pred.Instrs)-1].(*ssa.If); ok && pred.Succs[0] != pred.Succs[1] {
							fs = append(fs, canonOf(Cond{ifi.Cond, pred.Succs[0] == ph.Block(), ifi}))
						}
						f2 := F
						if fph != nil && fph.Block() == ph.Block() && i < len(fph.Edges) {
							f2 = fph.Edges[i]
						}
						if !walk(e, f2, fs, d+1) {
							return false
						}
					}
					return true
				}
				if F != nil {
					if k, isK := F.(*ssa.Const); isK && k.Value != nil && k.Value.ExactString() == "false" {
						return true
					}
					if _, isK := F.(*ssa.Const); !isK {
						if _, isPhi := F.(*ssa.Phi); !isPhi {
							facts = append(append([]canonCond{}, facts...), canonOf(Cond{V: F, Sense: true}))
						}
					}
				}
				return okLine(L, facts)
			}
			okTail := false
			if _, isPhi := arg.(*ssa.Phi); isPhi {
				cands := []ssa.Value{nil}
				for _, f := range factsAt(pc.Block()) {
					if f.Op == token.ILLEGAL && f.True && f.V != nil && isBoolType(f.V.Type()) {
						cands = append(cands, f.V)
					}
				}
				for _, F := range cands {
					if walk(arg, F, nil, 0) {
						okTail = true
					}
				}
			} else {
				okTail = true
				for _, fs := range edgeFacts(pc.Block()) {
					if !okLine(arg, fs) {
						okTail = false
					}
				}
			}
			r.Check("split:no-line-after-the-last-newline", okTail, pc.Pos(), "the remainder of the datagram is parsed as a line only where it is known to be non-empty")
		}
		// increments of the named counters
		// the counters are identified by the result they are returned as (events: #1, bad lines: #2)
		incs := map[string][]*ssa.BinOp{}
		flowsTo := func(from ssa.Value, idx int) bool {
			seen := map[ssa.Value]bool{}
			work := []ssa.Value{from}
			for len(work) > 0 {
				v := work[len(work)-1]
				work = work[:len(work)-1]
				if seen[v] {
					continue
				}
				seen[v] = true
				for _, ref := range referrers(v) {
					switch x := ref.(type) {
					case *ssa.Phi:
						work = append(work, x)
					case *ssa.Return:
						if idx < len(x.Results) && x.Results[idx] == v {
							return true
						}
					}
				}
			}
			return false
		}
		eachInstr(hd, func(in ssa.Instruction) {
			if b, ok := in.(*ssa.BinOp); ok && b.Op == token.ADD {
				if _, ok := b.X.(*ssa.Phi); ok {
					if one, isC := constInt(b.Y); isC && one == 1 {
						if flowsTo(b, 1) {
							incs["numEvents"] = append(incs["numEvents"], b)
						}
						if flowsTo(b, 2) {
							incs["numBad"] = append(incs["numBad"], b)
						}
					}
				}
			}
		})
		if r.Check("numBad:one-increment", len(incs["numBad"]) == 1, hd.Pos(), fmt.Sprintf("%d increments of numBad", len(incs["numBad"]))) {
			b := incs["numBad"][0]
			e, known := condErr(b.Block())
			r.Check("numBad:on-error", known && e, b.Pos(), "numBad++ happens exactly on the err != nil branch")
			// control-equivalence: the error branch head is the increment's block or leads to it unconditionally
			pd := newPostDom(hd)
			var errHead *ssa.BasicBlock
			eachInstr(hd, func(in ssa.Instruction) {
				if ifi, ok := in.(*ssa.If); ok {
					if bo := asBinOp(ifi.Cond, token.NEQ); bo != nil && errV(bo.X) {
						errHead = ifi.Block().Succs[0]
					}
				}
			})
			r.Check("numBad:every-error", errHead != nil && (errHead == b.Block() || pd.PostDominates(b.Block(), errHead)), b.Pos(), "every rejected line reaches the increment")
		}
		// appends to metrics
		var apps []*ssa.Call
		eachInstr(hd, func(in ssa.Instruction) {
			if cl, ok := in.(*ssa.Call); ok && isCall(cl, "builtin append") {
				if ph, ok := cl.Call.Args[0].(*ssa.Phi); ok && ph.Comment == "metrics" {
					apps = append(apps, cl)
				}
			}
		})
		if r.Check("metrics:one-append", len(apps) == 1, hd.Pos(), fmt.Sprintf("%d appends to metrics", len(apps))) {
			a := apps[0]
			e, known := condErr(a.Block())
			r.Check("metrics:append-on-success", known && !e, a.Pos(), "append only when the line parsed")
			els := varargElems(a.Call.Args[1])
			okEl := len(els) == 1
			if okEl {
				ex, ok := els[0].(*ssa.Extract)
				okEl = ok && ex.Tuple == pc && ex.Index == 0
			}
			r.Check("metrics:appends-parsed-metric", okEl, a.Pos(), "the appended element is the metric returned by parseLine")
			// non-nil metric
			okNN := false
			for _, cd := range condsFor(a.Block()) {
				cd = normCond(cd)
				if bo := asBinOp(cd.V, token.NEQ); bo != nil && cd.Sense && isNilConst(bo.Y) {
					if ex, ok := bo.X.(*ssa.Extract); ok && ex.Tuple == pc && ex.Index == 0 {
						okNN = true
					}
				}
			}
			r.Check("metrics:append-non-nil", okNN, a.Pos(), "append only when metric != nil")
		}
		// events
		de := 0
		for _, cl := range callsIn(hd) {
			if cl.Common().IsInvoke() && cl.Common().Method.Name() == "DispatchEvent" {
				de++
				e, known := condErr(cl.Block())
				r.Check("event:dispatch-on-success", known && !e, cl.Pos(), "events are dispatched only for parsed lines")
				ex, ok := cl.Common().Args[1].(*ssa.Extract)
				r.Check("event:dispatches-parsed-event", ok && ex.Tuple == pc && ex.Index == 1, cl.Pos(), "the dispatched event is the one returned by parseLine")
				if len(incs["numEvents"]) == 1 {
					r.Check("event:counted-once", incs["numEvents"][0].Block().Dominates(cl.Block()), cl.Pos(), "numEvents++ dominates the dispatch")
				} else {
					r.Fail("event:counted-once", cl.Pos(), fmt.Sprintf("%d increments of numEvents", len(incs["numEvents"])))
				}
			}
		}
		r.Check("event:one-dispatch-site", de == 1, hd.Pos(), fmt.Sprintf("%d DispatchEvent sites", de))
		// line splitting on '\n'
		okIdx, okLine, okRest := false, false, false
		var idxCall, cutCall *ssa.Call
		for _, cl := range callsTo(hd, "bytes.IndexByte") {
			if n, isC := constInt(cl.Common().Args[1]); isC && n == '\n' {
				okIdx = true
				idxCall = cl.(*ssa.Call)
			}
		}
		eachInstr(hd, func(in ssa.Instruction) {
			if sl, ok := in.(*ssa.Slice); ok && idxCall != nil {
				if sl.Low == nil && sl.High == ssa.Value(idxCall) && sl.X == idxCall.Call.Args[0] {
					okLine = true
				}
				if b := asBinOp(sl.Low, token.ADD); b != nil && b.X == ssa.Value(idxCall) && sl.High == nil && sl.X == idxCall.Call.Args[0] {
					if one, isC := constInt(b.Y); isC && one == 1 {
						okRest = true
					}
				}
			}
		})
		// the same split spelled bytes.Cut(msg, "\n"): line = before, msg = after
		for _, cl := range callsTo(hd, "bytes.Cut") {
			sep, okSep := byteSliceConst(w, cl.Common().Args[1], 0)
			if !okSep || sep != "\n" {
				continue
			}
			okIdx = true
			cutCall = cl.(*ssa.Call)
			for _, ref := range referrers(cutCall) {
				if ex, ok := ref.(*ssa.Extract); ok {
					switch ex.Index {
					case 0:
						okLine = true
					case 1:
						// the remainder becomes the next msg (it flows into the msg phi / cut argument)
						okRest = true
					}
				}
			}
		}
		r.Check("split:on-newline", okIdx, hd.Pos(), "lines are found with bytes.IndexByte(msg, '\\n') or bytes.Cut(msg, \"\\n\")")
		r.Check("split:line-excludes-newline", okLine, hd.Pos(), "line = msg[:idx]")
		r.Check("split:rest-after-newline", okRest, hd.Pos(), "msg = msg[idx+1:]")
		// the line handed to parseLine is the split line
		// every value that can reach parseLine's line argument is the remaining datagram itself or a prefix of it
		okLineArg := true
		var leaves func(v ssa.Value, d int)
		seenPhi := map[*ssa.Phi]bool{}
		// the datagram parameter (the last one, a []byte) or what is left of it: re-slices, the loop-carried rest
		isMsgParam := func(p *ssa.Parameter) bool {
			return p.Parent() == hd && len(hd.Params) > 0 && p == hd.Params[len(hd.Params)-1]
		}
		var fromMsgD func(v ssa.Value, seen map[ssa.Value]bool) bool
		fromMsgD = func(v ssa.Value, seen map[ssa.Value]bool) bool {
			if v == nil || seen[v] {
				return true // a cycle through the loop adds nothing
			}
			seen[v] = true
			switch x := v.(type) {
			case *ssa.Parameter:
				return isMsgParam(x)
			case *ssa.Phi:
				for _, e := range x.Edges {
					if !fromMsgD(e, seen) {
						return false
					}
				}
				return true
			case *ssa.Slice:
				return fromMsgD(x.X, seen)
			case *ssa.ChangeType:
				return fromMsgD(x.X, seen)
			case *ssa.Extract:
				return cutCall != nil && x.Tuple == ssa.Value(cutCall) && x.Index == 1 // the rest returned by bytes.Cut
			case *ssa.Const:
				return x.Value == nil // msg = nil after the last line
			}
			return false
		}
		fromMsg := func(v ssa.Value) bool { return fromMsgD(v, map[ssa.Value]bool{}) }
		isRestPhi := func(x *ssa.Phi) bool { return fromMsg(x) }
		leaves = func(v ssa.Value, d int) {
			if d > 8 {
				okLineArg = false
				return
			}
			switch x := v.(type) {
			case *ssa.Phi:
				if isRestPhi(x) {
					return
				}
				if seenPhi[x] {
					return
				}
				seenPhi[x] = true
				for _, e := range x.Edges {
					leaves(e, d+1)
				}
			case *ssa.Slice:
				if x.Low != nil || !fromMsg(x.X) {
					okLineArg = false
				}
			case *ssa.Extract:
				if !(cutCall != nil && x.Tuple == ssa.Value(cutCall) && x.Index == 0) {
					okLineArg = false
				}
			case *ssa.Const:
				if x.Value != nil {
					okLineArg = false
				}
			case *ssa.ChangeType:
				leaves(x.X, d+1)
			case *ssa.Parameter:
				if !isMsgParam(x) {
					okLineArg = false
				}
			default:
				okLineArg = false
			}
		}
		leaves(pc.Call.Args[lineArg], 0)
		r.Check("split:parse-the-line", okLineArg, pc.Pos(), "parseLine receives the rest of the datagram or a prefix of it (up to the newline): "+pathOf(pc.Call.Args[lineArg]))
		if direct {
			a := pc.Call.Args
			r.Check("parseLine:delegates", paramIndex(hd, a[0]) == 2 && strings.HasSuffix(pathOf(a[2]), ".namespace"), pc.Pos(), "the line is lexed with l.Run(line, dp.namespace)")
		}
		// parseLine passes the line and namespace straight to Lexer.Run
		pf := w.Func("pkg/statsd", "(*DatagramParser).parseLine")
		if pf != nil {
			okp := false
			for _, cl := range callsTo(pf, "(*internal/lexer.Lexer).Run") {
				a := cl.Common().Args
				okp = paramIndex(pf, a[0]) == 1 && paramIndex(pf, a[1]) == 2 && pathOf(a[2]) == "dp.namespace"
			}
			r.Check("parseLine:delegates", okp, pf.Pos(), "parseLine = l.Run(line, dp.namespace)")
		}
	})

	c.Rule("C05.R3b", "batch accounting in the parser loop: the bad-line, event and metric totals of every received batch are added to the parser's counters whatever the batch contains (the adds post-dominate the parse; the added values are the per-datagram sums of handleDatagram's results)", 6, func(r *Rule) {
		run := w.Func("pkg/statsd", "(*DatagramParser).Run")
		hd := w.Func("pkg/statsd", "(*DatagramParser).handleDatagram")
		if run == nil || hd == nil {
			r.Unresolved("(*DatagramParser).Run / handleDatagram")
			return
		}
		c.SawFunc(FuncName(run))
		hcs := callsTo(run, "(*pkg/statsd.DatagramParser).handleDatagram")
		if !r.Check("Run:one-handleDatagram-site", len(hcs) == 1, run.Pos(), fmt.Sprintf("%d handleDatagram call sites", len(hcs))) {
			return
		}
		hc := hcs[0].(*ssa.Call)
		// which result of handleDatagram is which counter
		// (C05.R3 establishes that result #1 counts the dispatched events and result #2 the rejected lines)
		resIdx := map[string]int{"metrics": 0, "numEvents": 1, "numBad": 2}
		dependsOn := func(v ssa.Value, pred func(ssa.Value) bool) bool {
			seen := map[ssa.Value]bool{}
			var walk func(v ssa.Value, d int) bool
			walk = func(v ssa.Value, d int) bool {
				if v == nil || seen[v] || d > 30 {
					return false
				}
				seen[v] = true
				if pred(v) {
					return true
				}
				if in, ok := v.(ssa.Instruction); ok {
					for _, op := range in.Operands(nil) {
						if *op != nil && walk(*op, d+1) {
							return true
						}
					}
				}
				return false
			}
			return walk(v, 0)
		}
		pd := newPostDom(run)
		want := map[string]string{"eventsReceived": "numEvents", "Cur": "numBad", "metricsReceived": "metrics"}
		seen := map[string]int{}
		for _, cl := range callsTo(run, "sync/atomic.AddUint64") {
			_, f, _, ok := fieldRef(cl.Common().Args[0])
			if !ok {
				continue
			}
			src, known := want[f]
			if !known {
				continue
			}
			seen[f]++
			r.Check("Run:"+f+":every-batch", pd.PostDominates(cl.Block(), hc.Block()), cl.Pos(), "the add to "+f+" is executed for every parsed batch (it post-dominates the handleDatagram call)")
			v := cl.Common().Args[1]
			if f == "metricsReceived" {
				okLen := false
				if cv, ok := v.(*ssa.Convert); ok {
					if lc, ok := cv.X.(*ssa.Call); ok && isCall(lc, "builtin len") {
						if dependsOn(lc.Call.Args[0], func(x ssa.Value) bool {
							ex, ok := x.(*ssa.Extract)
							return ok && ex.Tuple == ssa.Value(hc) && ex.Index == resIdx["metrics"]
						}) {
							okLen = true
						}
					}
				}
				r.Check("Run:"+f+":value", okLen, cl.Pos(), "adds len(metrics)")
				continue
			}
			okSum := false
			if ph, ok := v.(*ssa.Phi); ok {
				zero, sum := false, false
				for _, e := range ph.Edges {
					if n, isC := constInt(e); isC && n == 0 {
						zero = true
					} else if b, isB := e.(*ssa.BinOp); isB && b.Op == token.ADD && b.X == ssa.Value(ph) {
						if ex, ok := b.Y.(*ssa.Extract); ok && ex.Tuple == ssa.Value(hc) {
							if i, has := resIdx[src]; has && i == ex.Index {
								sum = true
							}
						}
					}
				}
				okSum = zero && sum && len(ph.Edges) == 2
			}
			r.Check("Run:"+f+":value", okSum, cl.Pos(), "adds the sum over the batch's datagrams of handleDatagram's "+src+" result")
		}
		for _, f := range []string{"Cur", "eventsReceived", "metricsReceived"} {
			r.Check("Run:"+f+":one-add", seen[f] == 1, run.Pos(), fmt.Sprintf("%d atomic adds to %s", seen[f], f))
		}
	})

	c.Rule("C05.R4", "metadata: every metric gets the datagram's receive time; source is the sender address, or with ignore-host the first host: tag which is then removed", 6, func(r *Rule) {
		hd := w.Func("pkg/statsd", "(*DatagramParser).handleDatagram")
		if hd == nil {
			r.Unresolved("handleDatagram")
			return
		}
		// the receive time is taken after the datagrams were read: the clock call whose value becomes
		// Datagram.Timestamp follows the (blocking) read of the batch in the same iteration
		if rc := w.Func("pkg/statsd", "(*DatagramReceiver).Receive"); rc == nil {
			r.Unresolved("(*DatagramReceiver).Receive")
		} else {
			c.SawFunc(FuncName(rc))
			var read ssa.Instruction
			for _, cl := range callsIn(rc) {
				if cl.Common().IsInvoke() && cl.Common().Method.Name() == "ReadBatch" {
					read = cl
				}
			}
			nTs := 0
			for _, lit := range complitsOf(rc, "Datagram") {
				ts, has := lit["Timestamp"]
				if !has {
					continue
				}
				nTs++
				clk, isCall := ptrOrigin(ts).(*ssa.Call)
				okAfter := isCall && read != nil && instrDominates(read, clk)
				r.Check("Receive:timestamp-after-read", okAfter, rc.Pos(), "Datagram.Timestamp is "+exprString(ts, 0)+", a clock reading taken after ReadBatch returned")
			}
			r.Check("Receive:timestamp-site", nTs >= 1 && read != nil, rc.Pos(), fmt.Sprintf("%d Datagram literals with a Timestamp", nTs))
		}
		var app *ssa.Call
		eachInstr(hd, func(in ssa.Instruction) {
			if cl, ok := in.(*ssa.Call); ok && isCall(cl, "builtin append") {
				if ph, ok := cl.Call.Args[0].(*ssa.Phi); ok && ph.Comment == "metrics" {
					app = cl
				}
			}
		})
		if app == nil {
			r.Fail("append-site", hd.Pos(), "no append to metrics")
			return
		}
		okTs := false
		tsBlocks := map[*ssa.BasicBlock]bool{}
		for _, st := range fieldStores(hd, "Metric", "Timestamp") {
			if paramIndex(hd, st.Val) == 3 {
				if st.Block() == app.Block() {
					okTs = instrDominates(st, app)
				} else {
					tsBlocks[st.Block()] = true
				}
			}
			r.Check("timestamp:value", paramIndex(hd, st.Val) == 3, st.Pos(), "Timestamp <- "+pathOf(st.Val)+" (must be the datagram time parameter)")
		}
		if !okTs && len(tsBlocks) > 0 {
			okTs = !pathsAvoiding(hd.Blocks[0], app.Block(), func(b *ssa.BasicBlock) bool { return tsBlocks[b] })
		}
		r.Check("timestamp:on-every-metric", okTs, app.Pos(), "every path to the append passes a store of the datagram time into Timestamp")
		nSrcIP, nSrcTag := 0, 0
		for _, st := range fieldStores(hd, "Metric", "Source") {
			ih, known := false, false
			for _, cd := range condsFor(st.Block()) {
				cd = normCond(cd)
				if pathOf(cd.V) == "dp.ignoreHost" {
					ih, known = cd.Sense, true
				}
			}
			if paramIndex(hd, st.Val) == 4 {
				nSrcIP++
				r.Check("source:ip-when-not-ignore-host", known && !ih, st.Pos(), "Source <- ip exactly when ignore-host is off")
				continue
			}
			nSrcTag++
			// value = the tag without its "host:" prefix, for a tag that has that prefix
			okPref := false
			if tagV, needsGuard, ok := strStripped(stripConv(st.Val), "host:", false); ok {
				// (i) a dominating prefix test of the same tag
				for _, f := range factsAt(st.Block()) {
					if f.Op == token.ILLEGAL && f.True {
						if src, isT := strPrefixTest(f.V, "host:", false); isT && src == tagV {
							okPref = true
						}
					}
				}
				// (ii) the tag is the first element satisfying a predicate that is that prefix test
				if pred, isFM := firstMatchOf(tagV, st.Block()); isFM && predicateRenders(pred, "strings.HasPrefix(p0,\"host:\")") {
					okPref = true
				}
				_ = needsGuard
			}
			r.Check("source:host-tag-when-ignore-host", known && ih && okPref, st.Pos(), "Source <- tag[len(\"host:\"):] for the tag with prefix host:, only with ignore-host")
			// the tag is removed: a Tags store in the region dominated by this block on every path, then the loop is left
			pd := newPostDom(hd)
			okRm := false
			nTagStores := 0
			for _, ts := range fieldStores(hd, "Metric", "Tags") {
				if st.Block().Dominates(ts.Block()) {
					nTagStores++
				}
			}
			// every path from st.Block() to the append passes a Tags store
			m := pathsAvoiding(st.Block(), app.Block(), func(b *ssa.BasicBlock) bool {
				for _, ts := range fieldStores(hd, "Metric", "Tags") {
					if ts.Block() == b {
						return true
					}
				}
				return false
			})
			okRm = !m && nTagStores >= 1
			_ = pd
			r.Check("source:host-tag-removed", okRm, st.Pos(), "every path from taking the host tag to the append rewrites Tags without it")
			// first tag only: no path from this block back to the loop head
			okBreak := !reachableFrom(st.Block())[st.Block()] || !loopsBackBefore(st.Block(), app.Block())
			r.Check("source:first-host-tag-only", okBreak, st.Pos(), "the scan stops at the first host: tag")
		}
		r.Check("source:sites", nSrcIP == 1 && nSrcTag == 1, hd.Pos(), fmt.Sprintf("%d ip stores, %d host-tag stores", nSrcIP, nSrcTag))
		// the removal keeps the other tags in order: append(Tags[:idx], Tags[idx+1:]...)
		okShape := false
		for _, ts := range fieldStores(hd, "Metric", "Tags") {
			if cl, ok := ts.Val.(*ssa.Call); ok && isCall(cl, "builtin append") {
				s0, ok0 := cl.Call.Args[0].(*ssa.Slice)
				s1, ok1 := stripConv(cl.Call.Args[1]).(*ssa.Slice)
				if ok0 && ok1 && s0.Low == nil && s1.High == nil {
					if b := asBinOp(s1.Low, token.ADD); b != nil && b.X == s0.High {
						if one, isC := constInt(b.Y); isC && one == 1 && strings.HasSuffix(pathOf(s0.X), ".Tags") && pathOf(s0.X) == pathOf(s1.X) {
							okShape = true
						}
					}
				}
			}
		}
		r.Check("source:removal-shape", okShape, hd.Pos(), "removal is append(Tags[:idx], Tags[idx+1:]...)")
	})

	c.Rule("C05.R5", "gauge ties: within a datagram (equal timestamps) the later line wins, and lines are folded in order", 3, func(r *Rule) {
		rg, _ := w.FuncOrHost("", "(*MetricMap).receiveGauge")
		if rg == nil {
			r.Unresolved("(*MetricMap).receiveGauge")
			return
		}
		c.SawFunc(FuncName(rg))
		n := 0
		for _, s := range findMergeSites(w) {
			if s.Fn != rg {
				continue
			}
			for _, st := range fieldStores(rg, "Gauge", "Value") {
				if !inRegion(st.Block(), s.FoundBlk) {
					continue
				}
				n++
				_, _, base, _ := fieldRef(st.Addr)
				into := pathOf(base)
				ls := loadsOf(st.Val)
				if len(ls) != 1 {
					r.Fail("receiveGauge:value-source", st.Pos(), "value stored: "+pathOf(st.Val))
					continue
				}
				from := ls[0].Base
				admitsEq, guarded := true, false
				for _, cd := range condsFor(st.Block()) {
					if imp, strict, ok := tsRelation(cd, into, from); ok {
						guarded = true
						if !imp || strict {
							admitsEq = false
						}
					}
				}
				r.Check("receiveGauge:ties-go-to-later-line", admitsEq, st.Pos(), fmt.Sprintf("the existing gauge is overwritten when the incoming timestamp is >= the stored one (guarded=%v); a strict '>' keeps the first line of a datagram", guarded))
			}
		}
		r.Check("receiveGauge:found-branch-store", n >= 1, rg.Pos(), fmt.Sprintf("%d value stores in the found branch", n))
		// the updated copy is stored back into the map (maps hold the series by value), for all four types
		writeBackAll(c, r, func(fn *ssa.Function) bool { return strings.Contains(fn.Name(), "receive") })
		// Run folds metrics in slice order
		run := w.Func("pkg/statsd", "(*DatagramParser).Run")
		if run == nil {
			r.Unresolved("(*DatagramParser).Run")
			return
		}
		ok := false
		for _, cl := range callsTo(run, "(*gostatsd.MetricMap).Receive") {
			if u, isU := cl.Common().Args[1].(*ssa.UnOp); isU {
				if ia, isIA := u.X.(*ssa.IndexAddr); isIA {
					if b := asBinOp(ia.Index, token.ADD); b != nil {
						if ph, isP := b.X.(*ssa.Phi); isP && ph.Comment == "rangeindex" {
							ok = true
						}
					}
				}
			}
		}
		r.Check("Run:folds-in-order", ok, run.Pos(), "metrics are folded with a forward range over the slice")
		// parsed metrics of successive datagrams are appended in order
		okApp := false
		for _, cl := range callsTo(run, "builtin append") {
			if ph, isP := cl.Common().Args[0].(*ssa.Phi); isP && ph.Comment == "metrics" {
				okApp = true
			}
		}
		r.Check("Run:appends-in-order", okApp, run.Pos(), "metrics = append(metrics, parsedMetrics...)")
	})

	c.Rule("C05.R6", "tag buffer provenance in the lexer: l.tags is only nil, the pooled metric's own buffer, or append(l.tags, string(...)); outputs take l.tags", 5, func(r *Rule) {
		lexerTagsProvenance(c, r)
	})

	c.Rule("C05.R7", "tags are copied when a metric is folded into a map: NewCounter/NewGauge/NewSet/NewTimer store tags.Copy(); Copy returns fresh storage", 5, func(r *Rule) {
		for _, T := range aggTypes {
			fn := w.Func("", "New"+T)
			if fn == nil {
				r.Unresolved("gostatsd.New" + T)
				continue
			}
			c.SawFunc(FuncName(fn))
			ok := false
			n := 0
			for _, st := range fieldStores(fn, T, "Tags") {
				n++
				if cl, isC := st.Val.(*ssa.Call); isC && isCall(cl, "(gostatsd.Tags).Copy") {
					if _, isP := cl.Call.Args[0].(*ssa.Parameter); isP {
						ok = true
					}
				}
			}
			r.Check("New"+T+":copies-tags", ok && n == 1, fn.Pos(), "Tags field <- tags.Copy()")
		}
		cp := w.Func("", "Tags.Copy")
		if cp == nil {
			r.Unresolved("gostatsd.Tags.Copy")
			return
		}
		mk, cpy := false, false
		eachInstr(cp, func(in ssa.Instruction) {
			if _, ok := in.(*ssa.MakeSlice); ok {
				mk = true
			}
			if cl, ok := in.(*ssa.Call); ok && isCall(cl, "builtin copy") {
				cpy = true
			}
		})
		okRet := true
		eachInstr(cp, func(in ssa.Instruction) {
			if rt, ok := in.(*ssa.Return); ok {
				switch v := rt.Results[0].(type) {
				case *ssa.Const:
				case *ssa.MakeSlice:
				default:
					_ = v
					if paramIndex(cp, rt.Results[0]) == 0 {
						okRet = false
					}
				}
			}
		})
		r.Check("Tags.Copy:fresh", mk && cpy && okRet, cp.Pos(), "Copy allocates a new slice, copies into it and never returns its receiver")
	})

	c.Rule("C05.R8", "no lexer state survives from one line to the next (C02.R7)", 10, func(r *Rule) {
		sub := &Ctx{W: w, Prop: c.Prop, Tier: c.Tier, known: c.known, Only: "C02.R7"}
		c02(sub)
		for _, sr := range sub.Rules {
			for _, o := range sr.Obls {
				o2 := *o
				o2.Rule = "C05.R8"
				r.Obls = append(r.Obls, &o2)
			}
		}
	})
}

// pathsAvoiding: is there a path from `from` to `to` that avoids every block for which
// passes(b) holds (from itself is not tested)?
func pathsAvoiding(from, to *ssa.BasicBlock, passes func(*ssa.BasicBlock) bool) bool {
	seen := map[*ssa.BasicBlock]bool{}
	var dfs func(b *ssa.BasicBlock) bool
	dfs = func(b *ssa.BasicBlock) bool {
		if b == to {
			return true
		}
		if seen[b] {
			return false
		}
		seen[b] = true
		for _, s := range b.Succs {
			if s != to && passes(s) {
				continue
			}
			if dfs(s) {
				return true
			}
		}
		return false
	}
	if passes(from) {
		return false
	}
	return dfs(from)
}

// loopsBackBefore: can control return to `from` without passing `stop`?
func loopsBackBefore(from, stop *ssa.BasicBlock) bool {
	seen := map[*ssa.BasicBlock]bool{}
	stack := append([]*ssa.BasicBlock{}, from.Succs...)
	for len(stack) > 0 {
		b := stack[len(stack)-1]
		stack = stack[:len(stack)-1]
		if b == from {
			return true
		}
		if b == stop || seen[b] {
			continue
		}
		seen[b] = true
		stack = append(stack, b.Succs...)
	}
	return false
}

var _ = sort.Strings

// firstSendOrSelect returns the first select/send instruction of fn (or its first instruction).
func firstSendOrSelect(fn *ssa.Function) ssa.Instruction {
	var out ssa.Instruction
	eachInstr(fn, func(in ssa.Instruction) {
		if out != nil {
			return
		}
		switch in.(type) {
		case *ssa.Select, *ssa.Send:
			out = in
		}
	})
	if out == nil {
		out = fn.Blocks[0].Instrs[0]
	}
	return out
}

// lexerTagsProvenance (C05.R6, C19.R5): where the lexer's tag slice may come from.
func lexerTagsProvenance(c *Ctx, r *Rule) {
	w := c.W

	n := 0
	for _, fn := range pkgFuncs(w, lexPkg) {
		for _, st := range fieldStores(fn, "Lexer", "tags") {
			n++
			key := "tags-store:" + FuncName(fn)
			ok := false
			desc := pathOf(st.Val)
			switch v := st.Val.(type) {
			case *ssa.Const:
				ok = v.Value == nil
			case *ssa.UnOp:
				ok = pathOf(v) == "l.m.Tags"
				if ok {
					// l.m must be the metric just taken from the pool in this function
					ok = false
					for _, s2 := range fieldStores(fn, "Lexer", "m") {
						if cl, isC := s2.Val.(*ssa.Call); isC && isCall(cl, "(*internal/pool.MetricPool).Get") && instrDominates(s2, st) {
							ok = true
						}
					}
				}
			case *ssa.Call:
				ok = isCall(v, "builtin append") && pathOf(v.Call.Args[0]) == "l.tags"
			}
			r.Check(key, ok, st.Pos(), "l.tags <- "+desc+" (a re-sliced old buffer would alias the previous line's tags)")
		}
		for _, T := range []string{"Metric", "Event"} {
			for _, st := range fieldStores(fn, T, "Tags") {
				r.Check("output-tags:"+FuncName(fn)+":"+T, pathOf(st.Val) == "l.tags", st.Pos(), T+".Tags <- "+pathOf(st.Val))
			}
		}
	}
	r.Check("tags-store-sites", n >= 3, token.NoPos, fmt.Sprintf("%d stores to l.tags", n))
	// pooled metrics: Reset keeps only the tag buffer (length 0); Get resets reused metrics
	mr := w.Func("", "(*Metric).Reset")
	if mr != nil {
		ok := false
		for _, st := range fieldStores(mr, "Metric", "Tags") {
			if sl, isS := st.Val.(*ssa.Slice); isS {
				if hi, isC := constInt(sl.High); isC && hi == 0 {
					ok = true
				}
			}
		}
		r.Check("Metric.Reset:tags-truncated", ok, mr.Pos(), "Reset truncates Tags to length 0")
		// every other field (except the release hook) is set to its initial value: a recycled metric
		// carries nothing of the line it was used for before (the parser relies on that, e.g. it sets
		// Source only when there is something to set)
		if nm := namedOf(derefType(mr.Params[0].Type())); nm != nil {
			if st, isSt := nm.Underlying().(*types.Struct); isSt {
				for i := 0; i < st.NumFields(); i++ {
					f := st.Field(i).Name()
					if f == "Tags" || f == "DoneFunc" {
						continue
					}
					okF := false
					for _, s2 := range fieldStores(mr, "Metric", f) {
						switch v := s2.Val.(type) {
						case *ssa.Const:
							zero := v.Value == nil || v.Value.ExactString() == "0" || v.Value.ExactString() == `""` || v.Value.ExactString() == "false"
							if zero || (f == "Rate" && v.Value.ExactString() == "1") {
								okF = true
							}
						}
					}
					r.Check("Metric.Reset:clears:"+f, okF, mr.Pos(), "Reset sets "+f+" to its initial value")
				}
			}
		}
	}
	// the pool hands out a metric only after it was reset (recycled) or set up (new)
	if get := w.Func("internal/pool", "(*MetricPool).Get"); get != nil && mr != nil {
		res := runAutomaton(get, 0, func(in ssa.Instruction) int {
			if cl, ok := in.(ssa.CallInstruction); ok && staticCallee(cl) == mr {
				return 0
			}
			if st, ok := in.(*ssa.Store); ok {
				if _, f, _, ok := fieldRef(st.Addr); ok && f == "DoneFunc" {
					return 0
				}
			}
			return -1
		}, func(st, ev int) int { return 1 })
		var m uint32
		for _, s2 := range res.ExitStates {
			m |= s2
		}
		r.Check("MetricPool.Get:reset-or-new", m == 2, get.Pos(), "every metric handed out was reset (recycled) or had its release hook installed (new)")
		// and the recycled side is the one that resets
		okSide := false
		for _, cl := range callsIn(get) {
			if staticCallee(cl) == mr && knownNonNil(factsAt(cl.Block()), func(v ssa.Value) bool { return strings.HasSuffix(pathOf(v), ".DoneFunc") }) {
				okSide = true
			}
		}
		r.Check("MetricPool.Get:recycled-is-reset", okSide, get.Pos(), "a metric whose release hook is already set (a recycled one) goes through Reset")
	} else {
		r.Unresolved("(*MetricPool).Get / (*Metric).Reset")
	}
	// a new metric starts with an empty tag buffer too (capacity may be reserved, length may not: the lexer
	// appends to what is there)
	nNew := 0
	for _, fn := range pkgFuncs(w, "internal/pool") {
		for _, st := range fieldStores(fn, "Metric", "Tags") {
			nNew++
			ok := false
			switch v := st.Val.(type) {
			case *ssa.Const:
				ok = v.Value == nil
			case *ssa.MakeSlice:
				k, isC := constInt(v.Len)
				ok = isC && k == 0
			case *ssa.Slice:
				if v.High != nil {
					k, isC := constInt(v.High)
					ok = isC && k == 0
				}
			}
			r.Check("MetricPool.new:tags-empty:"+FuncName(fn), ok, st.Pos(), "the pool sets Tags to "+exprString(st.Val, 0)+" (must have length 0)")
		}
	}
	r.Check("MetricPool.new:sites", nNew >= 1, token.NoPos, fmt.Sprintf("%d Tags stores in the pool package", nNew))
}
