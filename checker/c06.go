package main

import (
	"fmt"
	"go/token"
	"go/types"
	"strings"

	"golang.org/x/tools/go/ssa"
)

func init() { register("C06", c06) }

// paramIndex: v is parameter idx of fn, directly or through its spill alloc (struct params are
// spilled to a local that is stored once from the parameter and then only loaded).
// paramsFlowingInto: indices of the parameters of fn that v is computed from (backward slice
// through operands, phis and local memory cells incl. elements of local arrays).
func paramsFlowingInto(fn *ssa.Function, v ssa.Value) map[int]bool {
	out := map[int]bool{}
	seen := map[ssa.Value]bool{}
	var baseAlloc func(a ssa.Value) *ssa.Alloc
	baseAlloc = func(a ssa.Value) *ssa.Alloc {
		switch x := a.(type) {
		case *ssa.Alloc:
			return x
		case *ssa.IndexAddr:
			return baseAlloc(x.X)
		case *ssa.FieldAddr:
			return baseAlloc(x.X)
		}
		return nil
	}
	var walk func(v ssa.Value, d int)
	walk = func(v ssa.Value, d int) {
		if v == nil || seen[v] || d > 40 {
			return
		}
		seen[v] = true
		if p, ok := v.(*ssa.Parameter); ok {
			for i, q := range fn.Params {
				if q == p {
					out[i] = true
				}
			}
			return
		}
		if u, ok := v.(*ssa.UnOp); ok && u.Op == token.MUL {
			if al := baseAlloc(u.X); al != nil {
				// everything stored into the cell or a part of it
				var stores func(addr ssa.Value)
				stores = func(addr ssa.Value) {
					for _, ref := range referrers(addr) {
						switch x := ref.(type) {
						case *ssa.Store:
							if x.Addr == addr {
								walk(x.Val, d+1)
							}
						case *ssa.IndexAddr:
							if x.X == addr {
								stores(x)
							}
						case *ssa.FieldAddr:
							if x.X == addr {
								stores(x)
							}
						}
					}
				}
				stores(al)
				return
			}
		}
		if in, ok := v.(ssa.Instruction); ok {
			for _, op := range in.Operands(nil) {
				if *op != nil {
					walk(*op, d+1)
				}
			}
		}
	}
	walk(v, 0)
	return out
}

func paramIndex(fn *ssa.Function, v ssa.Value) int {
	switch x := v.(type) {
	case *ssa.Parameter:
		for i, p := range fn.Params {
			if p == x {
				return i
			}
		}
	case *ssa.UnOp:
		if x.Op == token.MUL {
			if al, ok := x.X.(*ssa.Alloc); ok {
				// all stores into the alloc (whole) must be the same parameter
				idx := -1
				n := 0
				for _, r := range referrers(al) {
					if st, ok := r.(*ssa.Store); ok && st.Addr == al {
						n++
						if p, ok := st.Val.(*ssa.Parameter); ok {
							for i, q := range fn.Params {
								if q == p {
									idx = i
								}
							}
						} else {
							return -1
						}
					}
					// a FieldAddr on the alloc used as a store target means the copy was modified
					if fa, ok := r.(*ssa.FieldAddr); ok {
						for _, r2 := range referrers(fa) {
							if st, ok := r2.(*ssa.Store); ok && st.Addr == fa {
								return -1
							}
						}
					}
				}
				if n == 1 {
					return idx
				}
			}
		}
	}
	return -1
}

// freeVarName: v is a load of (or is) the free variable / parameter / local named name.
func valueName(v ssa.Value) string {
	switch x := v.(type) {
	case *ssa.UnOp:
		if x.Op == token.MUL {
			return valueName(x.X)
		}
	case *ssa.FreeVar:
		return x.Name()
	case *ssa.Parameter:
		return x.Name()
	case *ssa.Alloc:
		return x.Comment
	}
	return ""
}

// eachCallsOn finds `X.Each(closure)` calls in fn where X is field F of the MetricMap at base
// path `base`; returns field -> closure function.
func eachClosures(fn *ssa.Function) map[string]*ssa.Function {
	out := map[string]*ssa.Function{}
	for _, c := range callsIn(fn) {
		cal := staticCallee(c)
		if cal == nil || cal.Name() != "Each" || len(c.Common().Args) != 2 {
			continue
		}
		ls := loadsOf(c.Common().Args[0])
		if len(ls) != 1 || ls[0].T != "MetricMap" {
			continue
		}
		if mc, ok := c.Common().Args[1].(*ssa.MakeClosure); ok {
			out[ls[0].F] = mc.Fn.(*ssa.Function)
		} else if f, ok := c.Common().Args[1].(*ssa.Function); ok {
			out[ls[0].F] = f
		}
	}
	return out
}

func c06(c *Ctx) {
	w := c.W
	c.Explanation = "C06 (shard routing is a deterministic partition): Bucket is a pure function of its arguments; each Split/SplitByTags closure stores the iterated element exactly once on every path, under unchanged keys, into the same-typed field of the map selected by Bucket(name, tagsKey, count) (resp. tagsMatch(tagNames, tagsKey)); the dispatcher sends split i to worker i and sizes splits and workers from the same number."
	c.NotDecided = []string{"distribution quality of the hash", "that the union of shards equals the batch as a value (implied by exactly-one-store per entry, not computed)"}
	c06rules(c, w, "C06")
}

func c06rules(c *Ctx, w *World, pfx string) {
	c.Rule(pfx+".R1", "Bucket is pure: no globals, no calls except hash/adler32.Checksum, no map iteration, goroutines or channels", 1, func(r *Rule) {
		fn := w.Func("", "Bucket")
		if fn == nil {
			if _, host := w.FuncOrHost("", "Bucket"); host {
				// Bucket was written into its only user: the formula is then checked where the shard is selected (R2)
				r.Pass("Bucket:in-place", token.NoPos, "no Bucket function: the shard index formula is checked in place by R2's selector obligations")
				return
			}
			r.Unresolved("gostatsd.Bucket")
			return
		}
		c.SawFunc(FuncName(fn))
		ok := true
		var why []string
		ncalls := 0
		eachInstr(fn, func(in ssa.Instruction) {
			for _, op := range in.Operands(nil) {
				if g, isG := (*op).(*ssa.Global); isG {
					ok = false
					why = append(why, "reads/writes package-level variable "+g.Name()+" at "+w.Pos(in.Pos()))
				}
			}
			switch x := in.(type) {
			case ssa.CallInstruction:
				if _, isGo := x.(*ssa.Go); isGo {
					ok = false
					why = append(why, "starts a goroutine")
				}
				if isCall(x, "hash/adler32.Checksum") {
					ncalls++
					return
				}
				if b, isB := x.Common().Value.(*ssa.Builtin); isB && (b.Name() == "len") {
					return
				}
				ok = false
				why = append(why, "calls "+shortCallee(x)+" at "+w.Pos(x.Pos()))
			case *ssa.Range, *ssa.Select, *ssa.Send, *ssa.MakeChan:
				ok = false
				why = append(why, fmt.Sprintf("%T at %s", x, w.Pos(in.Pos())))
			case *ssa.UnOp:
				if x.Op == token.ARROW {
					ok = false
					why = append(why, "channel receive")
				}
			}
		})
		// the result must depend on all three parameters
		r.Check("Bucket:pure", ok, fn.Pos(), strings.Join(why, "; "))
		// both strings flow into a checksum (two calls, or one call applied to each in turn)
		hashed := map[int]bool{}
		for _, cl := range callsTo(fn, "hash/adler32.Checksum") {
			for i := range paramsFlowingInto(fn, cl.Common().Args[0]) {
				hashed[i] = true
			}
		}
		r.Check("Bucket:hashes-both", ncalls >= 1 && hashed[0] && hashed[1], fn.Pos(), fmt.Sprintf("%d adler32.Checksum calls; parameters hashed: %v (name and key both hashed)", ncalls, hashed))
		for i, p := range fn.Params {
			r.Check("Bucket:uses-param-"+p.Name(), len(referrers(p)) > 0, fn.Pos(), fmt.Sprintf("parameter %d (%s) is used", i, p.Name()))
		}
		// modulus by the shard count parameter
		okMod := false
		eachInstr(fn, func(in ssa.Instruction) {
			if b, isB := in.(*ssa.BinOp); isB && b.Op == token.REM {
				if strings.Contains(pathOf(b.Y), fn.Params[2].Name()) {
					okMod = true
				}
			}
		})
		r.Check("Bucket:mod-count", okMod, fn.Pos(), "result is reduced modulo the shard-count parameter")
	})

	splitRule := func(r *Rule, fname string, selector func(cl *ssa.Function, mmSplit ssa.Value) (bool, string)) {
		fn := w.Func("", "(*MetricMap)."+fname)
		if fn == nil {
			r.Unresolved("(*MetricMap)." + fname)
			return
		}
		c.SawFunc(FuncName(fn))
		cls := eachClosures(fn)
		for _, F := range mmFields {
			cl := cls[F]
			key := fname + ":" + F
			if cl == nil {
				r.Fail(key, fn.Pos(), "no Each closure over mm."+F)
				continue
			}
			if len(cl.Params) != 3 {
				r.Fail(key, cl.Pos(), "closure does not have (name, tagsKey, element) parameters")
				continue
			}
			// (a) exactly one MapUpdate storing the element under the tagsKey parameter on every path
			// the element is stored by a map update, or handed to the split map's own Merge<T>(name, tagsKey, elem)
			mergeCall := func(in ssa.Instruction) *ssa.Call {
				cc, ok := in.(*ssa.Call)
				if !ok {
					return nil
				}
				cal := staticCallee(cc)
				if cal == nil || cal.Name() != "Merge"+strings.TrimSuffix(F, "s") || len(cc.Call.Args) != 4 {
					return nil
				}
				if paramIndex(cl, cc.Call.Args[3]) != 2 {
					return nil
				}
				return cc
			}
			isElemStore := func(in ssa.Instruction) bool {
				if mergeCall(in) != nil {
					return true
				}
				mu, ok := in.(*ssa.MapUpdate)
				return ok && paramIndex(cl, mu.Value) == 2
			}
			m := countOnPaths(cl, isElemStore)
			r.Check(key+":exactly-once", m == 2, cl.Pos(), "number of stores of the iterated element over all paths = "+maskString(m)+" (must be exactly {1})")
			eachInstr(cl, func(in ssa.Instruction) {
				if !isElemStore(in) {
					return
				}
				if mc := mergeCall(in); mc != nil {
					a := mc.Call.Args
					r.Check(key+":tagskey-unchanged", paramIndex(cl, a[2]) == 1, mc.Pos(), "element merged under key "+pathOf(a[2])+" (must be the tagsKey parameter)")
					r.Check(key+":name-unchanged", paramIndex(cl, a[1]) == 0, mc.Pos(), "element merged under name "+pathOf(a[1])+" (must be the metric-name parameter)")
					r.Check(key+":same-type-field", true, mc.Pos(), "Merge"+strings.TrimSuffix(F, "s")+" stores into field "+F+" of the split")
					good, why := selector(cl, a[0])
					r.Check(key+":selector", good, mc.Pos(), why)
					return
				}
				mu := in.(*ssa.MapUpdate)
				r.Check(key+":tagskey-unchanged", paramIndex(cl, mu.Key) == 1, mu.Pos(), "element stored under key "+pathOf(mu.Key)+" (must be the tagsKey parameter)")
				// the inner map must be either the result of looking up <split>.F[name] or a fresh map stored there
				inner := mu.Map
				var outerMap, nameKey ssa.Value
				resolveInner := func(v ssa.Value) (ssa.Value, ssa.Value) {
					switch x := v.(type) {
					case *ssa.Extract:
						if lk, ok := x.Tuple.(*ssa.Lookup); ok {
							return lk.X, lk.Index
						}
					case *ssa.MakeMap:
						for _, rf := range referrers(x) {
							if mu2, ok := rf.(*ssa.MapUpdate); ok && mu2.Value == x {
								return mu2.Map, mu2.Key
							}
						}
					case *ssa.Lookup:
						return x.X, x.Index
					}
					return nil, nil
				}
				if ph, isPhi := inner.(*ssa.Phi); isPhi {
					// create-on-miss: the existing per-name map or a fresh one stored under the same name
					env := &renderEnv{root: cl}
					agree := true
					for i, e := range ph.Edges {
						om, nk := resolveInner(e)
						if om == nil {
							agree = false
							break
						}
						if i == 0 {
							outerMap, nameKey = om, nk
						} else if symRender(om, env, 0) != symRender(outerMap, env, 0) || symRender(nk, env, 0) != symRender(nameKey, env, 0) {
							agree = false
						}
					}
					if !agree {
						outerMap = nil
					}
				} else {
					outerMap, nameKey = resolveInner(inner)
				}
				if outerMap == nil {
					r.Fail(key+":dest", mu.Pos(), "cannot identify the per-name map the element is stored in: "+pathOf(inner))
					return
				}
				r.Check(key+":name-unchanged", paramIndex(cl, nameKey) == 0, mu.Pos(), "per-name map selected by "+pathOf(nameKey)+" (must be the metric-name parameter)")
				ls := loadsOf(outerMap)
				if len(ls) != 1 || ls[0].T != "MetricMap" {
					r.Fail(key+":dest", mu.Pos(), "destination is not a field of a MetricMap: "+pathOf(outerMap))
					return
				}
				r.Check(key+":same-type-field", ls[0].F == F, mu.Pos(), fmt.Sprintf("element of mm.%s stored into field %s of the split", F, ls[0].F))
				// selector of the split map
				var base ssa.Value
				if u, ok := stripConvVal(outerMap).(*ssa.UnOp); ok {
					if fa, ok := u.X.(*ssa.FieldAddr); ok {
						base = fa.X
					}
				}
				good, why := selector(cl, base)
				r.Check(key+":selector", good, mu.Pos(), why)
			})
		}
	}

	c.Rule(pfx+".R2", "Split: each of the four closures stores the element exactly once, keys unchanged, into field X of maps[Bucket(name, tagsKey, count)]", 20, func(r *Rule) {
		splitRule(r, "Split", func(cl *ssa.Function, mmSplit ssa.Value) (bool, string) {
			// mmSplit must denote maps[Bucket(metricName, tagsKey, count)] (written in place or through a local helper)
			got := symRender(mmSplit, &renderEnv{root: cl}, 0)
			// the slice Split returns and Split's count parameter, under whatever names they have
			outer := cl
			for outer.Parent() != nil {
				outer = outer.Parent()
			}
			sliceName, countName := "?", "?"
			eachInstr(outer, func(in ssa.Instruction) {
				if rt, isR := in.(*ssa.Return); isR && len(rt.Results) == 1 {
					sliceName = valueName(rt.Results[0])
				}
			})
			if len(outer.Params) == 2 {
				countName = outer.Params[1].Name()
			}
			want := sliceName + "[" + Mod + ".Bucket(p0,p1," + countName + ")]"
			// the same fact by identity: the element of the returned slice at Bucket(name, key, count | len(slice))
			structural := func() bool {
				var made ssa.Value
				eachInstr(outer, func(in ssa.Instruction) {
					if rt, isR := in.(*ssa.Return); isR && len(rt.Results) == 1 {
						made = ptrOrigin(rt.Results[0])
					}
				})
				if _, isMk := made.(*ssa.MakeSlice); !isMk || len(outer.Params) != 2 {
					return false
				}
				ld, ok := ptrOrigin(mmSplit).(*ssa.UnOp)
				if !ok || ld.Op != token.MUL {
					return false
				}
				ia, ok := ld.X.(*ssa.IndexAddr)
				if !ok || ptrOrigin(ia.X) != made {
					return false
				}
				isCountVal := func(n ssa.Value) bool {
					n = ptrOrigin(n)
					if n == ssa.Value(outer.Params[1]) {
						return true
					}
					if lc, isC := n.(*ssa.Call); isC && isCall(lc, "builtin len") && ptrOrigin(lc.Call.Args[0]) == made {
						// len(maps) is count: maps = make([]*MetricMap, count) is checked below
						return true
					}
					return false
				}
				if bc, ok := ptrOrigin(ia.Index).(*ssa.Call); ok && isCall(bc, "gostatsd.Bucket") && len(bc.Call.Args) == 3 {
					a := bc.Call.Args
					return paramIndex(cl, a[0]) == 0 && paramIndex(cl, a[1]) == 1 && isCountVal(a[2])
				}
				// the formula written in place: int((adler32(name) + adler32(tagsKey)) % uint32(count))
				cv, ok := ptrOrigin(ia.Index).(*ssa.Convert)
				if !ok {
					return false
				}
				rem := asBinOp(ptrOrigin(cv.X), token.REM)
				if rem == nil {
					return false
				}
				sum := asBinOp(ptrOrigin(rem.X), token.ADD)
				if sum == nil {
					return false
				}
				hashOf := func(v ssa.Value) int {
					hc, ok := ptrOrigin(v).(*ssa.Call)
					if !ok || !isCall(hc, "hash/adler32.Checksum") {
						return -1
					}
					return paramIndex(cl, stripConvVal(ptrOrigin(hc.Call.Args[0])))
				}
				h0, h1 := hashOf(sum.X), hashOf(sum.Y)
				if !((h0 == 0 && h1 == 1) || (h0 == 1 && h1 == 0)) {
					return false
				}
				m := ptrOrigin(rem.Y)
				if mc, isCv := m.(*ssa.Convert); isCv {
					return isCountVal(mc.X)
				}
				return false
			}
			if got != want && !structural() {
				return false, "split map is " + got + "; shard count and slice must be Split's count and maps, selected by Bucket(metricName, tagsKey, count)"
			}
			return true, "maps[Bucket(metricName, tagsKey, count)]"
		})
		// maps is sized by count and every slot is initialised
		fn := w.Func("", "(*MetricMap).Split")
		if fn != nil {
			ok := false
			eachInstr(fn, func(in ssa.Instruction) {
				if ms, isMs := in.(*ssa.MakeSlice); isMs && paramIndex(fn, ms.Len) == 1 {
					ok = true
				}
			})
			r.Check("Split:maps-sized-by-count", ok, fn.Pos(), "maps = make([]*MetricMap, count)")
			// returns maps
			// returns the slice that was made (and that the closures fill, see the selectors)
			okRet := false
			eachInstr(fn, func(in ssa.Instruction) {
				if rt, isR := in.(*ssa.Return); isR && len(rt.Results) == 1 {
					if _, isMk := ptrOrigin(rt.Results[0]).(*ssa.MakeSlice); isMk {
						okRet = true
					}
				}
			})
			r.Check("Split:returns-maps", okRet, fn.Pos(), "Split returns the slice it filled")
		}
	})

	c.Rule(pfx+".R2b", "SplitByTags: each closure stores the element exactly once, keys unchanged, into field X of maps[tagsMatch(tagNames, tagsKey)]", 20, func(r *Rule) {
		splitRule(r, "SplitByTags", func(cl *ssa.Function, mmSplit ssa.Value) (bool, string) {
			outer := cl
			for outer.Parent() != nil {
				outer = outer.Parent()
			}
			// the result map: what SplitByTags returns
			resName := ""
			resMakes := map[ssa.Value]bool{} // map values returned directly (the result map when it is not a captured variable)
			eachInstr(outer, func(in ssa.Instruction) {
				if rt, ok := in.(*ssa.Return); ok && len(rt.Results) == 1 {
					if _, isMap := rt.Results[0].Type().Underlying().(*types.Map); isMap {
						if _, isMk := rt.Results[0].(*ssa.MakeMap); !isMk {
							resName = pathOf(rt.Results[0])
						} else {
							resMakes[rt.Results[0]] = true
						}
					}
				}
			})
			isRes := func(v ssa.Value) bool {
				if resName != "" && pathOf(v) == resName {
					return true
				}
				return resMakes[ptrOrigin(v)]
			}
			if (resName == "" && len(resMakes) == 0) || len(outer.Params) < 2 {
				return false, "the map returned by SplitByTags is not identified"
			}
			keyOK := func(k ssa.Value) (bool, string) {
				call, ok := k.(*ssa.Call)
				if !ok || !isCall(call, "gostatsd.tagsMatch") {
					return false, "key is not tagsMatch(...): " + pathOf(k)
				}
				a := call.Call.Args
				if len(a) != 2 || !(valueName(a[0]) == outer.Params[1].Name() || ptrOrigin(a[0]) == ssa.Value(outer.Params[1])) || paramIndex(cl, a[1]) != 1 {
					return false, "tagsMatch is not applied to (tagNames, tagsKey)"
				}
				return true, ""
			}
			n := 0
			for _, vc := range valueCases(mmSplit, nil) {
				n++
				leaf := vc.V
				if ex, ok := leaf.(*ssa.Extract); ok && ex.Index == 0 {
					leaf = ex.Tuple
				}
				switch x := leaf.(type) {
				case *ssa.Lookup:
					if ok, why := keyOK(x.Index); !ok {
						return false, why
					}
					if !isRes(x.X) {
						return false, "lookup is not in the result map"
					}
				case *ssa.Call:
					// a fresh split: it must be filed in the result map under the same key
					filed := false
					for _, ref := range referrers(x) {
						if mu, ok := ref.(*ssa.MapUpdate); ok && mu.Value == ssa.Value(x) && isRes(mu.Map) {
							if ok, _ := keyOK(mu.Key); ok {
								filed = true
							}
						}
					}
					if !filed {
						return false, "a new split map is used without being stored in the result under tagsMatch(tagNames, tagsKey): " + pathOf(x)
					}
				default:
					return false, "split map is not maps[key]: " + pathOf(leaf)
				}
			}
			if n == 0 {
				return false, "split map has no origin"
			}
			return true, "maps[tagsMatch(tagNames, tagsKey)]"
		})
	})

	c.Rule(pfx+".R3", "dispatch: split i is queued to worker i; splits and workers are sized by the same number", 5, func(r *Rule) {
		fn := w.Func("pkg/statsd", "(*BackendHandler).DispatchMetricMap")
		if fn == nil {
			r.Unresolved("(*BackendHandler).DispatchMetricMap")
			return
		}
		c.SawFunc(FuncName(fn))
		var split *ssa.Call
		for _, cl := range callsTo(fn, "(*gostatsd.MetricMap).Split") {
			split = cl.(*ssa.Call)
		}
		if split == nil {
			r.Fail("dispatch:split", fn.Pos(), "DispatchMetricMap does not call MetricMap.Split")
			return
		}
		r.Check("dispatch:split-count", pathOf(split.Call.Args[1]) == "bh.numWorkers", split.Pos(), "Split("+pathOf(split.Call.Args[1])+")")
		r.Check("dispatch:split-receiver", paramIndex(fn, split.Call.Args[0]) == 2, split.Pos(), "the incoming map is the one split")
		nsend := 0
		eachInstr(fn, func(in ssa.Instruction) {
			var ch, val ssa.Value
			switch x := in.(type) {
			case *ssa.Select:
				for _, st := range x.States {
					if st.Dir == types.SendOnly {
						ch, val = st.Chan, st.Send
					}
				}
			case *ssa.Send:
				ch, val = x.Chan, x.X
			}
			if ch == nil {
				return
			}
			nsend++
			// val = *(&split[i]); ch = *(&(*(&(*(&bh.workers))[j])).metricMapQueue)
			var iv, jv ssa.Value
			if u, ok := val.(*ssa.UnOp); ok {
				if ia, ok := u.X.(*ssa.IndexAddr); ok && ia.X == ssa.Value(split) {
					iv = ia.Index
				}
			}
			chp := pathOf(ch)
			if u, ok := ch.(*ssa.UnOp); ok {
				if fa, ok := u.X.(*ssa.FieldAddr); ok {
					if u2, ok := fa.X.(*ssa.UnOp); ok {
						if ia, ok := u2.X.(*ssa.IndexAddr); ok && pathOf(ia.X) == "bh.workers" {
							jv = ia.Index
						}
					}
				}
			}
			r.Check("dispatch:send-value-is-split-element", iv != nil, in.Pos(), "value sent: "+pathOf(val))
			r.Check("dispatch:send-chan-is-worker-queue", jv != nil && strings.HasSuffix(chp, ".metricMapQueue"), in.Pos(), "channel: "+chp)
			r.Check("dispatch:same-index", iv != nil && iv == jv, in.Pos(), fmt.Sprintf("split index %s, worker index %s (must be the same SSA value)", pathOf(iv), pathOf(jv)))
			if iv != nil {
				// the index must be the range index of the loop over the split result (phi + 1 compared with len(split))
				okIdx := false
				var ph *ssa.Phi
				if p, ok := iv.(*ssa.Phi); ok {
					ph = p
				} else if b := asBinOp(iv, token.ADD); b != nil {
					ph, _ = b.X.(*ssa.Phi)
				}
				if ph != nil && loopCoversSlice(ph, split) {
					okIdx = true
				}
				r.Check("dispatch:index-is-range-index", okIdx, in.Pos(), "index "+pathOf(iv)+" must be the range key over the split result")
				// ... and the loop runs over all of it: it is left only where the index is compared with the
				// length (no break, return or second loop condition stops the walk while splits remain)
				if ph != nil {
					h := ph.Block()
					early := ""
					if body := loopBody(h); body != nil && body[in.Block()] {
						for _, ex := range earlyExits(h) {
							if _, isPanic := ex[1].Instrs[len(ex[1].Instrs)-1].(*ssa.Panic); isPanic {
								continue
							}
							early = fmt.Sprintf("the loop can be left from block %d (%s)", ex[0].Index, ex[0].Comment)
						}
						if iff, ok := h.Instrs[len(h.Instrs)-1].(*ssa.If); ok {
							if b := asBinOp(iff.Cond, token.LSS); b == nil {
								early = "the loop condition is not the index bound"
							}
						}
					} else {
						early = "the hand-over is not inside the loop over the split result"
					}
					r.Check("dispatch:every-split-visited", early == "", in.Pos(), "the loop over the split result ends only at its end "+early)
				}
			}
		})
		r.Check("dispatch:one-send-site", nsend == 1, fn.Pos(), fmt.Sprintf("%d send sites", nsend))
		// NewBackendHandler: numWorkers field and len(workers) from the same parameter
		nb := w.Func("pkg/statsd", "NewBackendHandler")
		if nb == nil {
			r.Unresolved("NewBackendHandler")
			return
		}
		c.SawFunc(FuncName(nb))
		var pNum ssa.Value
		for _, st := range fieldStores(nb, "BackendHandler", "numWorkers") {
			pNum = st.Val
		}
		okMake := false
		eachInstr(nb, func(in ssa.Instruction) {
			if ms, ok := in.(*ssa.MakeSlice); ok && strings.Contains(ms.Type().String(), "worker") && ms.Len == pNum {
				okMake = true
			}
		})
		_, isParam := pNum.(*ssa.Parameter)
		r.Check("NewBackendHandler:same-count", isParam && okMake, nb.Pos(), "numWorkers field and make([]*worker, n) use the same parameter")
		okW := false
		for _, st := range fieldStores(nb, "BackendHandler", "workers") {
			if _, ok := st.Val.(*ssa.MakeSlice); ok {
				okW = true
			}
		}
		r.Check("NewBackendHandler:workers-field", okW, nb.Pos(), "workers field is the slice that was made")
		// the table index -> worker is fixed once built: after construction the workers slice is only read
		// (indexed, ranged, measured); it is never written through, re-sliced into a call, sorted or replaced
		nUses := 0
		for _, f := range pkgFuncs(w, "pkg/statsd") {
			if f == nb || (f.Parent() != nil && f.Parent() == nb) {
				continue
			}
			for _, st := range fieldStores(f, "BackendHandler", "workers") {
				r.Check("workers-table:fixed:"+FuncName(f), false, st.Pos(), "the workers field is replaced after construction")
			}
			eachInstr(f, func(in ssa.Instruction) {
				u, ok := in.(*ssa.UnOp)
				if !ok || u.Op != token.MUL {
					return
				}
				if t, fld, _, isF := fieldRef(u.X); !isF || t != "BackendHandler" || fld != "workers" {
					return
				}
				nUses++
				bad := ""
				var visit func(v ssa.Value, depth int)
				visit = func(v ssa.Value, depth int) {
					if v.Referrers() == nil || depth > 6 {
						return
					}
					for _, ref := range *v.Referrers() {
						switch x := ref.(type) {
						case *ssa.IndexAddr:
							for _, r2 := range *x.Referrers() {
								if st, isSt := r2.(*ssa.Store); isSt && st.Addr == ssa.Value(x) {
									bad = "an element is overwritten"
								} else if _, isU := r2.(*ssa.UnOp); !isU {
									if _, isD := r2.(*ssa.DebugRef); !isD {
										bad = "the address of an element escapes"
									}
								}
							}
						case *ssa.Phi:
							visit(x, depth+1)
						case *ssa.Slice:
							visit(x, depth+1)
						case *ssa.Range, *ssa.DebugRef:
						case ssa.CallInstruction:
							if !isCall(x, "builtin len", "builtin cap") {
								bad = "the slice is passed to " + exprString(x.Common().Value, 0)
								if sc := staticCallee(x); sc != nil {
									bad = "the slice is passed to " + FuncName(sc)
								}
							}
						case *ssa.MakeClosure:
							bad = "the slice is captured by a closure"
						case *ssa.Store:
							if x.Val != v {
								break
							}
							// a local variable (possibly shared with closures): follow its loads
							al, isAl := x.Addr.(*ssa.Alloc)
							if !isAl {
								bad = "the slice is stored elsewhere"
								break
							}
							var cells []ssa.Value
							cells = append(cells, al)
							for _, r2 := range *al.Referrers() {
								if mc, isMC := r2.(*ssa.MakeClosure); isMC {
									for bi, bnd := range mc.Bindings {
										if bnd == ssa.Value(al) {
											cells = append(cells, mc.Fn.(*ssa.Function).FreeVars[bi])
										}
									}
								} else if _, isSt := r2.(*ssa.Store); !isSt {
									if _, isU := r2.(*ssa.UnOp); !isU {
										if _, isD := r2.(*ssa.DebugRef); !isD {
											bad = "the variable holding the slice escapes"
										}
									}
								}
							}
							for _, cell := range cells {
								for _, r2 := range *cell.Referrers() {
									if ld, isU := r2.(*ssa.UnOp); isU && ld.Op == token.MUL {
										visit(ld, depth+1)
									}
								}
							}
						case *ssa.MakeInterface, *ssa.ChangeType:
							bad = "the slice is converted and handed on"
						}
					}
				}
				visit(u, 0)
				r.Check(fmt.Sprintf("workers-table:read-only:%s#%d", FuncName(f), nUses), bad == "", u.Pos(), "bh.workers is only indexed, ranged over or measured after construction; "+bad)
			})
		}
		r.Check("workers-table:uses", nUses >= 2, token.NoPos, fmt.Sprintf("%d reads of the workers field outside the constructor", nUses))
	})
}
