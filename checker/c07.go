package main

import (
	"fmt"
	"go/token"
	"go/types"
	"sort"
	"strings"

	"golang.org/x/tools/go/ssa"
)

func init() { register("C07", c07) }

var aggTypes = []string{"Counter", "Gauge", "Timer", "Set"}
var mmFields = []string{"Counters", "Timers", "Gauges", "Sets"}

func isAggType(t types.Type) string {
	n, ok := t.(*types.Named)
	if !ok || n.Obj().Pkg() == nil || n.Obj().Pkg().Path() != Mod {
		return ""
	}
	for _, a := range aggTypes {
		if n.Obj().Name() == a {
			return a
		}
	}
	return ""
}

// mergeSite is a function that looks a series up in a map[string]T (comma-ok) and
// combines an incoming value with the existing one.
type mergeSite struct {
	Fn       *ssa.Function
	T        string
	Lookup   *ssa.Lookup
	FoundBlk *ssa.BasicBlock // region entered when the series already exists
	ElseBlk  *ssa.BasicBlock
}

// findMergeSites discovers merge sites by role in every module function.
func findMergeSites(w *World) []mergeSite {
	var out []mergeSite
	for _, fn := range w.ModuleFuncs() {
		if strings.Contains(fnPkgPath(fn), "/internal/fixtures") || strings.Contains(fnPkgPath(fn), "/cmd/") {
			continue
		}
		eachInstr(fn, func(in ssa.Instruction) {
			lk, ok := in.(*ssa.Lookup)
			if !ok || !lk.CommaOk {
				return
			}
			mt, ok := lk.X.Type().Underlying().(*types.Map)
			if !ok {
				return
			}
			T := isAggType(mt.Elem())
			if T == "" {
				return
			}
			// find "extract #1" -> If
			for _, r := range referrers(lk) {
				ex, ok := r.(*ssa.Extract)
				if !ok || ex.Index != 1 {
					continue
				}
				for _, r2 := range referrers(ex) {
					if ifi, ok := r2.(*ssa.If); ok {
						out = append(out, mergeSite{fn, T, lk, ifi.Block().Succs[0], ifi.Block().Succs[1]})
					}
				}
			}
		})
	}
	return out
}

func inRegion(b, head *ssa.BasicBlock) bool { return b == head || head.Dominates(b) }

// fieldLoadsIn collects, from the expression tree of v, loads of field F of aggregate type T
// (or of gostatsd.Metric) together with the access path of the base.
type fieldLoad struct {
	T, F, Base string
}

func exprFieldLoads(v ssa.Value, depth int, out *[]fieldLoad, seen map[ssa.Value]bool) {
	if v == nil || depth > 8 || seen[v] {
		return
	}
	seen[v] = true
	switch x := v.(type) {
	case *ssa.UnOp:
		if x.Op == token.MUL {
			if t := aliasTarget(x.X); t != nil {
				exprFieldLoads(t, depth+1, out, seen)
				return
			}
			if t, f, base, ok := fieldRef(x.X); ok {
				*out = append(*out, fieldLoad{t, f, pathOf(base)})
				return
			}
		}
		exprFieldLoads(x.X, depth+1, out, seen)
	case *ssa.Field:
		if t, f, base, ok := fieldRef(x); ok {
			*out = append(*out, fieldLoad{t, f, pathOf(base)})
		}
	case *ssa.BinOp:
		exprFieldLoads(x.X, depth+1, out, seen)
		exprFieldLoads(x.Y, depth+1, out, seen)
	case *ssa.Convert:
		exprFieldLoads(x.X, depth+1, out, seen)
	case *ssa.ChangeType:
		exprFieldLoads(x.X, depth+1, out, seen)
	case *ssa.MakeInterface:
		exprFieldLoads(x.X, depth+1, out, seen)
	case *ssa.Call:
		for _, a := range x.Call.Args {
			exprFieldLoads(a, depth+1, out, seen)
		}
	case *ssa.Phi:
		for _, e := range x.Edges {
			exprFieldLoads(e, depth+1, out, seen)
		}
	case *ssa.Slice:
		exprFieldLoads(x.X, depth+1, out, seen)
	case *ssa.IndexAddr:
		exprFieldLoads(x.X, depth+1, out, seen)
	}
}

func loadsOf(v ssa.Value) []fieldLoad {
	var out []fieldLoad
	exprFieldLoads(v, 0, &out, map[ssa.Value]bool{})
	return out
}

func firstTsBase(v ssa.Value) string {
	ls := loadsOf(v)
	if len(ls) == 1 && ls[0].F == "Timestamp" {
		return ls[0].Base
	}
	return ""
}

// tsRelation inspects a comparison condition between X.Timestamp and Y.Timestamp and
// reports whether, given its sense, it implies from.Timestamp >= into.Timestamp (newer-or-equal
// wins), where into/from are access paths.  ok=false if the condition is not such a comparison.
func tsRelation(c Cond, into, from string) (implied bool, strict bool, ok bool) {
	c = normCond(c)
	b := asBinOp(c.V, token.LSS, token.GTR, token.LEQ, token.GEQ)
	if b == nil {
		return false, false, false
	}
	lx, ly := loadsOf(b.X), loadsOf(b.Y)
	if len(lx) != 1 || len(ly) != 1 || lx[0].F != "Timestamp" || ly[0].F != "Timestamp" {
		return false, false, false
	}
	op := b.Op
	l, r := lx[0].Base, ly[0].Base
	if l == into && r == from {
		// mirror to "from op' into"
		switch op {
		case token.LSS:
			op = token.GTR
		case token.GTR:
			op = token.LSS
		case token.LEQ:
			op = token.GEQ
		case token.GEQ:
			op = token.LEQ
		}
	} else if !(l == from && r == into) {
		return false, false, false
	}
	// now: from op into, with sense
	if !c.Sense {
		switch op {
		case token.LSS:
			op = token.GEQ
		case token.GTR:
			op = token.LEQ
		case token.LEQ:
			op = token.GTR
		case token.GEQ:
			op = token.LSS
		}
	}
	switch op {
	case token.GTR:
		return true, true, true
	case token.GEQ:
		return true, false, true
	}
	return false, false, true
}

// onAllFoundPaths: instruction in executes on every path through the found region of s
// (its block is the region head or post-dominates it).
func onAllFoundPaths(s mergeSite, pd *postDom, blk *ssa.BasicBlock) bool {
	return blk == s.FoundBlk || (s.FoundBlk.Dominates(blk) && pd.PostDominates(blk, s.FoundBlk))
}

func c07(c *Ctx) {
	w := c.W
	c.Explanation = "C07 (merge independent of order/grouping): every merge site (found by role: comma-ok lookup in a map[string]{Counter,Gauge,Timer,Set}) combines values only with commutative/associative operations (+, append, set insert, timestamp max) or by a timestamp comparison in the newer-wins direction; not-found branches store the operand unchanged; every traversal of a MetricMap covers all four types."
	c.NotDecided = []string{"equality of the final aggregate as a value (float addition is not associative; integer wrap-around)", "the consolidator's slot scheduling"}
	c.Assumptions = []string{"merge sites are the functions containing a comma-ok lookup on map[string]T with T one of gostatsd.Counter/Gauge/Timer/Set; a merge written without such a lookup is not seen by R1-R5 (R6 still sees its traversal)"}
	sites := findMergeSites(w)
	byT := map[string][]mergeSite{}
	for _, s := range sites {
		byT[s.T] = append(byT[s.T], s)
		c.SawFunc(FuncName(s.Fn))
	}

	// helper: stores in the found region of a site to T.field
	foundStores := func(s mergeSite, field string) []*ssa.Store {
		var out []*ssa.Store
		for _, st := range fieldStores(s.Fn, s.T, field) {
			if inRegion(st.Block(), s.FoundBlk) {
				out = append(out, st)
			}
		}
		return out
	}
	intoPath := func(st *ssa.Store) string {
		_, _, base, _ := fieldRef(st.Addr)
		return pathOf(base)
	}
	// timestamp only raised
	checkTimestamp := func(r *Rule, s mergeSite) {
		key := FuncName(s.Fn) + ":" + s.T + ".Timestamp"
		sts := foundStores(s, "Timestamp")
		if len(sts) == 0 {
			r.Fail(key, s.Lookup.Pos(), "found-branch never raises the series timestamp: the newest timestamp seen is not kept")
			return
		}
		pd := newPostDom(s.Fn)
		allPaths := false
		defer func() {
			r.Check(key+":all-paths", allPaths, s.Lookup.Pos(), "the timestamp update (NanoMax store, or the newer-than test guarding the copy) must be reached on every path through the found-branch, not only under an extra condition")
		}()
		for _, st := range sts {
			into := intoPath(st)
			if onAllFoundPaths(s, pd, st.Block()) {
				allPaths = true
			}
			for _, cd := range condsFor(st.Block()) {
				if _, _, ok := tsRelation(cd, into, firstTsBase(st.Val)); ok && onAllFoundPaths(s, pd, cd.If.Block()) {
					allPaths = true
				}
			}
			// accepted idiom 1: value = NanoMax(into.Timestamp, from.Timestamp)
			if call, ok := st.Val.(*ssa.Call); ok && (isCall(call, "gostatsd.NanoMax") || isCall(call, "builtin max")) {
				ls := loadsOf(call)
				hasInto, hasOther := false, false
				for _, l := range ls {
					if l.F == "Timestamp" && l.Base == into {
						hasInto = true
					} else if l.F == "Timestamp" {
						hasOther = true
					}
				}
				r.Check(key, hasInto && hasOther, st.Pos(), "Timestamp = NanoMax(into, from)")
				continue
			}
			// accepted idiom 2: guarded by from.Timestamp > into.Timestamp, stores from.Timestamp
			ls := loadsOf(st.Val)
			if len(ls) != 1 || ls[0].F != "Timestamp" {
				r.Fail(key, st.Pos(), "timestamp store is neither NanoMax(into,from) nor a guarded copy of the incoming timestamp")
				continue
			}
			from := ls[0].Base
			good := false
			for _, cd := range condsFor(st.Block()) {
				if imp, _, ok := tsRelation(cd, into, from); ok && imp {
					good = true
				}
			}
			r.Check(key, good, st.Pos(), fmt.Sprintf("Timestamp copied from %s must be guarded by %s.Timestamp > %s.Timestamp (any mirrored form)", from, from, into))
		}
		// the raised timestamp is not undone: the local copy is not overwritten as a whole after (or
		// instead of) the timestamp update and before it is stored back
		for _, st := range sts {
			fa, ok := st.Addr.(*ssa.FieldAddr)
			if !ok {
				continue
			}
			al, ok := fa.X.(*ssa.Alloc)
			if !ok {
				continue
			}
			undone := ""
			for _, ref := range referrers(al) {
				if ws, ok := ref.(*ssa.Store); ok && ws.Addr == ssa.Value(al) && inRegion(ws.Block(), s.FoundBlk) {
					if instrReaches(st, ws) || instrReaches(ifOf(st), ws) {
						undone = s.Fn.Prog.Fset.Position(ws.Pos()).String()
					}
				}
			}
			r.Check(key+":not-undone", undone == "", st.Pos(), "the merged copy is not overwritten as a whole after its timestamp was raised"+map[bool]string{true: "", false: " (overwritten at " + undone + ")"}[undone == ""])
		}
	}

	c.Rule("C07.R1", "counters: found-branch stores Value = old + incoming; timestamp only raised", 3, func(r *Rule) {
		for _, s := range byT["Counter"] {
			key := FuncName(s.Fn) + ":Counter.Value"
			sts := foundStores(s, "Value")
			if len(sts) == 0 {
				r.Fail(key, s.Lookup.Pos(), "found-branch does not add the incoming value to the existing counter")
				continue
			}
			for _, st := range sts {
				into := intoPath(st)
				b := asBinOp(st.Val, token.ADD)
				ok := false
				if b != nil {
					lx, ly := loadsOf(b.X), loadsOf(b.Y)
					isOld := func(l []fieldLoad) bool { return len(l) == 1 && l[0].F == "Value" && l[0].Base == into }
					ok = (isOld(lx) && !isOld(ly)) || (isOld(ly) && !isOld(lx))
				}
				r.Check(key, ok, st.Pos(), "stored value must be into.Value + <incoming> (addition is the only order-independent combination)")
				r.Check(key+":all-paths", onAllFoundPaths(s, newPostDom(s.Fn), st.Block()), st.Pos(), "the addition must happen on every path through the found-branch")
			}
			checkTimestamp(r, s)
		}
	})

	c.Rule("C07.R2", "gauges: Value and Timestamp stored together, only when the incoming timestamp is newer (or equal)", 3, func(r *Rule) {
		for _, s := range byT["Gauge"] {
			key := FuncName(s.Fn) + ":Gauge.Value"
			sts := foundStores(s, "Value")
			if len(sts) == 0 {
				r.Fail(key, s.Lookup.Pos(), "found-branch never takes the incoming gauge value: a newer datapoint would be ignored")
				continue
			}
			for _, st := range sts {
				into := intoPath(st)
				ls := loadsOf(st.Val)
				if len(ls) != 1 || ls[0].F != "Value" || ls[0].Base == into {
					r.Fail(key, st.Pos(), "gauge value stored is not a plain copy of the incoming value")
					continue
				}
				from := ls[0].Base
				good := false
				guardAll := false
				pd := newPostDom(s.Fn)
				for _, cd := range condsFor(st.Block()) {
					if imp, _, ok := tsRelation(cd, into, from); ok {
						good = imp
						guardAll = onAllFoundPaths(s, pd, cd.If.Block())
						if !imp {
							good = false
							break
						}
					}
				}
				r.Check(key+":all-paths", guardAll, st.Pos(), "the newer-than test must be evaluated on every path through the found-branch")
				r.Check(key, good, st.Pos(), fmt.Sprintf("store of %s.Value into %s must be controlled by a comparison implying %s.Timestamp >= %s.Timestamp", from, into, from, into))
				// the timestamp must be stored in the same block region
				tsOK := false
				for _, ts := range foundStores(s, "Timestamp") {
					if ts.Block() == st.Block() && intoPath(ts) == into {
						l2 := loadsOf(ts.Val)
						if len(l2) == 1 && l2[0].F == "Timestamp" && l2[0].Base == from {
							tsOK = true
						}
					}
				}
				r.Check(FuncName(s.Fn)+":Gauge.Timestamp", tsOK, st.Pos(), "the incoming timestamp must be stored together with the incoming value (same branch)")
			}
		}
	})

	c.Rule("C07.R3", "timers: on every found-branch path appends the incoming values and adds the sampled count; timestamp only raised", 3, func(r *Rule) {
		for _, s := range byT["Timer"] {
			key := FuncName(s.Fn) + ":Timer.Values"
			sts := foundStores(s, "Values")
			okv := false
			for _, st := range sts {
				into := intoPath(st)
				if call, ok := st.Val.(*ssa.Call); ok && isCall(call, "builtin append") && len(call.Call.Args) >= 2 {
					l0 := loadsOf(call.Call.Args[0])
					if len(l0) == 1 && l0[0].F == "Values" && l0[0].Base == into {
						okv = onAllFoundPaths(s, newPostDom(s.Fn), st.Block())
						continue
					}
				}
				r.Fail(key, st.Pos(), "Timer.Values stored in the found-branch is not append(into.Values, incoming...)")
			}
			r.Check(key, okv, s.Lookup.Pos(), "found-branch must append incoming timer values to the existing ones (multiset union)")
			key = FuncName(s.Fn) + ":Timer.SampledCount"
			sts = foundStores(s, "SampledCount")
			oks := false
			for _, st := range sts {
				into := intoPath(st)
				b := asBinOp(st.Val, token.ADD)
				if b != nil {
					lx, ly := loadsOf(b.X), loadsOf(b.Y)
					isOld := func(l []fieldLoad) bool {
						return len(l) == 1 && l[0].F == "SampledCount" && l[0].Base == into
					}
					if (isOld(lx) && !isOld(ly)) || (isOld(ly) && !isOld(lx)) {
						oks = onAllFoundPaths(s, newPostDom(s.Fn), st.Block())
						continue
					}
				}
				r.Fail(key, st.Pos(), "SampledCount stored in the found-branch is not into.SampledCount + <incoming>")
			}
			r.Check(key, oks, s.Lookup.Pos(), "found-branch must add the incoming sampled count")
			checkTimestamp(r, s)
		}
	})

	c.Rule("C07.R4", "sets: found-branch inserts every incoming member into the existing set; timestamp only raised", 3, func(r *Rule) {
		for _, s := range byT["Set"] {
			key := FuncName(s.Fn) + ":Set.Values"
			ok := false
			eachInstr(s.Fn, func(in ssa.Instruction) {
				mu, isMu := in.(*ssa.MapUpdate)
				if !isMu || !inRegion(mu.Block(), s.FoundBlk) {
					return
				}
				ls := loadsOf(mu.Map)
				if len(ls) == 1 && ls[0].T == "Set" && ls[0].F == "Values" {
					// key must come from ranging over the incoming set's Values, or from the metric's StringValue
					kp := pathOf(mu.Key)
					pd := newPostDom(s.Fn)
					if strings.Contains(kp, "next(range(") && strings.Contains(kp, ".Values") && !strings.Contains(kp, "range("+ls[0].Base+".Values") {
						// the loop (its Range instruction) must be entered on every found path
						eachInstr(s.Fn, func(in2 ssa.Instruction) {
							if rg, isR := in2.(*ssa.Range); isR && strings.Contains(kp, pathOf(rg)) && onAllFoundPaths(s, pd, rg.Block()) {
								ok = true
							}
						})
					} else if strings.HasSuffix(kp, ".StringValue") {
						ok = onAllFoundPaths(s, pd, mu.Block())
					}
				}
			})
			// the same union spelled maps.Copy(into.Values, from.Values)
			if !ok {
				pd := newPostDom(s.Fn)
				for _, cl := range callsIn(s.Fn) {
					if !strings.HasPrefix(calleeName(cl), "maps.Copy") || !inRegion(cl.Block(), s.FoundBlk) {
						continue
					}
					a := cl.Common().Args
					dst, src := loadsOf(a[0]), loadsOf(a[1])
					if len(dst) == 1 && len(src) == 1 && dst[0].T == "Set" && dst[0].F == "Values" && src[0].F == "Values" && dst[0].Base != src[0].Base && onAllFoundPaths(s, pd, cl.Block()) {
						ok = true
					}
				}
			}
			r.Check(key, ok, s.Lookup.Pos(), "every found-branch path must insert each incoming member (range over incoming Values, maps.Copy, or the metric's StringValue) into the existing set")
			checkTimestamp(r, s)
		}
	})

	c.Rule("C07.R5", "not-found branches store the incoming operand unchanged (or a constructor of it)", 12, func(r *Rule) {
		for _, s := range sites {
			// Every MapUpdate into a map[string]T in the function: its value is either the local
			// merged copy (loaded from the lookup target alloc), the incoming operand, a NewT(...) call
			// or a complit map holding one of those.
			eachInstr(s.Fn, func(in ssa.Instruction) {
				mu, ok := in.(*ssa.MapUpdate)
				if !ok {
					return
				}
				mt, ok := mu.Map.Type().Underlying().(*types.Map)
				if !ok || isAggType(mt.Elem()) != s.T {
					return
				}
				key := FuncName(s.Fn) + ":" + s.T + ":mapupdate"
				if inRegion(mu.Block(), s.FoundBlk) {
					return // found-branch content is R1-R4's
				}
				vp := pathOf(mu.Value)
				good := false
				switch v := mu.Value.(type) {
				case *ssa.UnOp: // load of a local struct alloc: whole-struct copy of operand or merged local
					good = v.Op == token.MUL
				case *ssa.Call:
					good = isCall(v, "gostatsd.New"+s.T)
				case *ssa.Parameter:
					good = true
				case *ssa.Phi:
					good = true
				}
				r.Check(key, good, mu.Pos(), "value stored for a new series is "+vp)
			})
			// whole-struct stores into the lookup-target alloc outside the found region must copy the operand
			for _, st := range storesIn(s.Fn) {
				al, ok := st.Addr.(*ssa.Alloc)
				if !ok || isAggType(derefType(al.Type())) != s.T {
					continue
				}
				if inRegion(st.Block(), s.ElseBlk) && !inRegion(st.Block(), s.FoundBlk) {
					key := FuncName(s.Fn) + ":" + s.T + ":else-store"
					good := false
					switch v := st.Val.(type) {
					case *ssa.UnOp:
						good = v.Op == token.MUL
						if a2, ok := v.X.(*ssa.Alloc); ok && a2 == al {
							good = false
						}
					case *ssa.Call:
						good = isCall(v, "gostatsd.New"+s.T)
					case *ssa.Parameter:
						good = true
					}
					r.Check(key, good, st.Pos(), "not-found branch stores "+pathOf(st.Val)+" as the new series")
				}
			}
		}
	})

	c.Rule("C07.R5c", "a merge is total: every path through a merge site stores the series exactly once (no early exit that leaves the operand out, e.g. for a zero increment - the series' existence and timestamp are part of the result)", 8, func(r *Rule) {
		seenFn := map[string]bool{}
		for _, s := range sites {
			// the declared merge entry points and the receive helpers: functions whose only job is this merge
			if s.Fn.Parent() != nil || fnPkgPath(s.Fn) != Mod {
				continue
			}
			// (Receive itself when the receive helpers were written into the arms of its switch: the arm of the
			// type is then the region in which the series must be stored exactly once)
			var arm *ssa.BasicBlock
			if s.Fn.Name() == "Receive" {
				cn := map[string]string{"Counter": "COUNTER", "Gauge": "GAUGE", "Timer": "TIMER", "Set": "SET"}[s.T]
				arm = switchTable(s.Fn)[cn]
				if arm == nil {
					continue
				}
			} else if !(strings.HasPrefix(s.Fn.Name(), "Merge") || strings.HasPrefix(s.Fn.Name(), "receive")) {
				continue
			}
			key := FuncName(s.Fn) + ":" + s.T
			if seenFn[key] {
				continue
			}
			seenFn[key] = true
			T := s.T
			// states: 0 nothing yet, 1 stored once, 2 series found (a path may leave it as it is), 3 stored twice
			start := 0
			if arm != nil {
				start = 4 // outside the arm
			}
			res := runAutomatonE(s.Fn, start, func(in ssa.Instruction) int {
				mu, ok := in.(*ssa.MapUpdate)
				if !ok {
					return -1
				}
				if mt, ok := mu.Map.Type().Underlying().(*types.Map); ok && isAggType(mt.Elem()) == T {
					return 0
				}
				return -1
			}, func(from, to *ssa.BasicBlock) int {
				if arm != nil && to == arm {
					return 2 // entering the arm
				}
				cd, ok := edgeCondResolved(from, to)
				if !ok || !cd.Sense {
					return -1
				}
				if ex, ok := cd.V.(*ssa.Extract); ok && ex.Index == 1 {
					if lk, ok := ex.Tuple.(*ssa.Lookup); ok && lk.CommaOk {
						if mt, ok := lk.X.Type().Underlying().(*types.Map); ok && isAggType(mt.Elem()) == T {
							return 1
						}
					}
				}
				return -1
			}, func(st, ev int) int {
				if st == 4 {
					if ev == 2 {
						return 0
					}
					return 4
				}
				switch {
				case ev == 0 && (st == 0 || st == 2):
					return 1
				case ev == 0:
					return 3
				case ev == 1 && st == 0:
					return 2
				}
				return st
			})
			var m uint32
			for _, st := range res.ExitStates {
				m |= st
			}
			r.Check(key+":stores-once-on-every-path", m&(1|8) == 0 && m != 0, s.Fn.Pos(), fmt.Sprintf("every path stores the %s exactly once, or found the series and left it as it is (exit states %b: bit0 = nothing stored for a series not known to exist, bit3 = stored twice)", T, m))
		}
	})

	c.Rule("C07.R5b", "sibling agreement: the two not-found branches of a merge site (new tag set under a known name / new name) build the new series identically", 6, func(r *Rule) {
		for _, s := range sites {
			// outer lookup: comma-ok lookup on the collection type map[string]map[string]T
			var outerElse *ssa.BasicBlock
			eachInstr(s.Fn, func(in ssa.Instruction) {
				lk, ok := in.(*ssa.Lookup)
				if !ok || !lk.CommaOk || lk == s.Lookup {
					return
				}
				mt, ok := lk.X.Type().Underlying().(*types.Map)
				if !ok {
					return
				}
				inner, ok := mt.Elem().Underlying().(*types.Map)
				if !ok || isAggType(inner.Elem()) != s.T {
					return
				}
				for _, rf := range referrers(lk) {
					if ex, ok := rf.(*ssa.Extract); ok && ex.Index == 1 {
						for _, r2 := range referrers(ex) {
							if ifi, ok := r2.(*ssa.If); ok && ifi.Block().Dominates(s.Lookup.Block()) {
								outerElse = ifi.Block().Succs[1]
							}
						}
					}
				}
			})
			key := FuncName(s.Fn) + ":" + s.T + ":not-found-siblings"
			if outerElse == nil {
				// the series lookup is not under a test of the name lookup: when it reads the (possibly nil)
				// per-name map that the name lookup returned, one builder serves both not-found cases
				single := false
				if ex, ok := s.Lookup.X.(*ssa.Extract); ok && ex.Index == 0 {
					if lk, ok := ex.Tuple.(*ssa.Lookup); ok && lk.CommaOk {
						if mt, ok := lk.X.Type().Underlying().(*types.Map); ok {
							if inner, ok := mt.Elem().Underlying().(*types.Map); ok && isAggType(inner.Elem()) == s.T {
								single = true
							}
						}
					}
				}
				r.Check(key, single, s.Lookup.Pos(), "no enclosing test of the metric-name lookup: the series lookup must read the per-name map that lookup returned (one builder for both not-found cases)")
				continue
			}
			feat := func(head *ssa.BasicBlock, excl *ssa.BasicBlock) []string {
				set := map[string]bool{}
				eachInstr(s.Fn, func(in ssa.Instruction) {
					b := in.Block()
					if !inRegion(b, head) || (excl != nil && inRegion(b, excl)) {
						return
					}
					switch x := in.(type) {
					case *ssa.Store:
						if t, f, _, ok := fieldRef(x.Addr); ok && t == s.T {
							set["store "+f+" <- "+pathOf(x.Val)] = true
						}
					case *ssa.Call:
						if cal := staticCallee(x); cal != nil && cal.Name() == "New"+s.T {
							var as []string
							for _, a := range x.Call.Args {
								as = append(as, pathOf(a))
							}
							set["call New"+s.T+"("+strings.Join(as, ",")+")"] = true
						}
					}
				})
				var out []string
				for k := range set {
					out = append(out, k)
				}
				sort.Strings(out)
				return out
			}
			a := feat(s.ElseBlk, s.FoundBlk)
			b := feat(outerElse, nil)
			// get-or-create form: the new-name branch only installs an empty per-name map and falls into the
			// same tags lookup, so one builder serves both cases
			collapsed := false
			if len(b) == 0 && reachableFrom(outerElse)[s.Lookup.Block()] {
				for _, in := range outerElse.Instrs {
					if mu, ok := in.(*ssa.MapUpdate); ok {
						if _, isMk := mu.Value.(*ssa.MakeMap); isMk {
							collapsed = true
						}
					}
				}
			}
			r.Check(key, collapsed || strings.Join(a, ";") == strings.Join(b, ";"), s.Lookup.Pos(), fmt.Sprintf("new-tagset branch builds %v, new-name branch builds %v", a, b))
		}
	})

	c.Rule("C07.R7", "modified copies of map elements (the maps hold Counter/Gauge/Timer/Set by value) are stored back into the map on every path", 8, func(r *Rule) {
		writeBackAll(c, r, nil)
	})

	c.Rule("C07.R8", "series enter a MetricMap only through merging inserts: every direct store of a Counter/Gauge/Timer/Set into a per-name map is in a merge site, in a place where the key is unique by construction (Split, the aggregator's write-back, the wire decoder), or goes through Merge<T>", 10, func(r *Rule) {
		mergeFns := map[*ssa.Function]bool{}
		for _, s := range sites {
			mergeFns[s.Fn] = true
		}
		allowed := func(fn *ssa.Function) (bool, string) {
			root := fn
			for root.Parent() != nil {
				root = root.Parent()
			}
			name := FuncName(root)
			switch {
			case mergeFns[fn] || mergeFns[root]:
				return true, "merge site (C07.R1-R5)"
			case name == "(*gostatsd.MetricMap).Split" || name == "(*gostatsd.MetricMap).SplitByTags":
				return true, "partition of a map with unique keys (C06.R2)"
			case strings.HasPrefix(name, "(*pkg/statsd.MetricAggregator)."):
				return true, "write-back under the visited key (C01.R3, C07.R7)"
			case name == "pkg/web.translateFromProtobufV2":
				return true, "decoder: one entry per key of the wire map (C14.R1)"
			case strings.HasPrefix(name, "gostatsd.New") || strings.Contains(name, "fixtures"):
				return true, "constructor / fixture"
			}
			return false, ""
		}
		n := 0
		for _, fn := range w.ModuleFuncs() {
			p := fnPkgPath(fn)
			if strings.Contains(p, "/internal/fixtures") || strings.Contains(p, "/cmd/") || strings.Contains(p, "/pkg/backends/") {
				continue
			}
			eachInstr(fn, func(in ssa.Instruction) {
				mu, ok := in.(*ssa.MapUpdate)
				if !ok {
					return
				}
				mt, ok := mu.Map.Type().Underlying().(*types.Map)
				if !ok || isAggType(mt.Elem()) == "" {
					return
				}
				n++
				okA, why := allowed(fn)
				r.Check("insert:"+FuncName(fn), okA, mu.Pos(), "direct store of a "+isAggType(mt.Elem())+" into a per-name map in "+FuncName(fn)+map[bool]string{true: ": " + why, false: ": not a merging insert - a series already present under that key is overwritten (use Merge" + isAggType(mt.Elem()) + ")"}[okA])
			})
		}
		r.Check("insert-sites", n >= 10, token.NoPos, fmt.Sprintf("%d direct insert sites", n))
	})

	if !c.Sub {
		c.Rule("C07.R9", "merge keys of the pipeline stages: where the tag stage and the cloud stage merge series into the map they forward, every key is FormatTagsKey of the element's (possibly changed) source and tags, computed after the change - a stale or shortcut key lets two entries of one series coexist, i.e. the collision merge never happens (C10.R4 / C11 re-keying checks, shared)", 8, func(r *Rule) {
			for _, share := range []struct {
				run  func(*Ctx)
				rule string
				pick func(key string) bool
			}{
				{c10, "C10.R4", func(k string) bool { return strings.HasSuffix(k, ":rekeyed") || k == "forward:rebuilt-map" }},
				{c11, "C11.R2", func(k string) bool {
					return strings.HasSuffix(k, ":hit") || k == "prepareMetricQueue:returns-the-registered-queue"
				}},
				{c11, "C11.R3", func(k string) bool { return strings.HasSuffix(k, ":rekeyed") }},
			} {
				sub := &Ctx{W: c.W, Prop: c.Prop, Tier: c.Tier, known: c.known, Sub: true}
				share.run(sub)
				for _, sr := range sub.Rules {
					if sr.ID != share.rule {
						continue
					}
					for _, o := range sr.Obls {
						if share.pick(o.Key) {
							o2 := *o
							o2.Rule = "C07.R9"
							o2.Key = sr.ID + "/" + o.Key
							r.Obls = append(r.Obls, &o2)
						}
					}
				}
			}
		})
	}

	c.Rule("C07.R10", "consolidator slots: a map put (back) into the slot channel is either fresh or one just taken from the slot channel by a function that hands nothing to the sink - a map already handed to the sink is never filled again (its later datapoints would be merged twice or into a batch in flight)", 4, func(r *Rule) {
		isField := func(v ssa.Value, name string) bool {
			T, f, _, ok := fieldRefThroughLoad(v)
			return ok && T == "MetricConsolidator" && f == name
		}
		n := 0
		for _, fn := range pkgFuncs(w, "") {
			if fn.Signature.Recv() == nil || !strings.HasSuffix(fn.Signature.Recv().Type().String(), "gostatsd.MetricConsolidator") {
				continue
			}
			for _, g := range WithAnon(fn) {
				// does this function hand maps to the sink?
				toSink := false
				eachInstr(g, func(in ssa.Instruction) {
					if sd, ok := in.(*ssa.Send); ok && isField(sd.Chan, "sink") {
						toSink = true
					}
				})
				fromSlot := func(v ssa.Value) bool {
					switch x := v.(type) {
					case *ssa.UnOp:
						return x.Op == token.ARROW && isField(x.X, "maps")
					case *ssa.Extract:
						if sel, ok := x.Tuple.(*ssa.Select); ok && x.Index >= 2 {
							k := 0
							for _, st := range sel.States {
								if st.Dir == types.RecvOnly {
									if 2+k == x.Index {
										return isField(st.Chan, "maps")
									}
									k++
								}
							}
						}
					}
					return false
				}
				eachInstr(g, func(in ssa.Instruction) {
					sd, ok := in.(*ssa.Send)
					if !ok || !isField(sd.Chan, "maps") {
						return
					}
					n++
					for _, vc := range valueCases(sd.X, nil) {
						v := ptrOrigin(vc.V)
						okv, why := false, pathOf(v)
						if cl, isC := v.(*ssa.Call); isC && isCall(cl, "gostatsd.NewMetricMap") {
							okv, why = true, "a fresh map"
						} else if fromSlot(v) && !toSink {
							okv, why = true, "the map just taken from a slot"
						} else if ld, isLd := v.(*ssa.UnOp); isLd && ld.Op == token.MUL && !toSink {
							// an element of the local slice of maps taken from the slots (put back when a drain is abandoned)
							if ia, isIA := ld.X.(*ssa.IndexAddr); isIA {
								local := true
								var visit func(x ssa.Value, d int)
								seen := map[ssa.Value]bool{}
								visit = func(x ssa.Value, d int) {
									if d > 8 || seen[x] {
										return
									}
									seen[x] = true
									switch y := x.(type) {
									case *ssa.MakeSlice:
									case *ssa.Phi:
										for _, e := range y.Edges {
											visit(e, d+1)
										}
									case *ssa.Call:
										if isCall(y, "builtin append") {
											visit(y.Call.Args[0], d+1)
											for _, el := range varargElems(y.Call.Args[1]) {
												if !fromSlot(el) {
													local = false
												}
											}
										} else {
											local = false
										}
									case *ssa.Slice:
										visit(y.X, d+1)
									default:
										local = false
									}
								}
								visit(ia.X, 0)
								if local {
									okv, why = true, "an element of the local slice of maps taken from the slots"
								}
							}
						}
						r.Check(FuncName(g)+":slot-gets:"+exprString(vc.V, 0), okv, sd.Pos(), "put into the slot channel: "+why+" (must be fresh, or taken from a slot by a function that sends nothing to the sink)")
					}
				})
			}
		}
		r.Check("slot-puts-found", n >= 3, token.NoPos, fmt.Sprintf("%d sends on the consolidator's slot channel", n))
	})

	c.Rule("C07.R11", "the forwarder merges what it drained: the consolidator's slots are combined with MergeMaps before they are split into requests (the wire format carries no timestamps, so this is the last place where the newest gauge datapoint of a flush can win; slots sent one by one make the result depend on the slot a batch landed in) - C15.R2's merging obligations, shared", 2, func(r *Rule) {
		importObligations(c, r, c15, "C15.R2", func(k string) bool {
			return strings.HasPrefix(k, "merging:split") || strings.HasPrefix(k, "UNRESOLVED-ANCHOR")
		})
	})

	c.Rule("C07.R6", "four-type exhaustiveness: a function traversing >= 2 of Counters/Timers/Gauges/Sets of one MetricMap traverses all four", 15, func(r *Rule) {
		fourTypeRule(c, r, nil)
	})
}

// mmTraversals: for function fn (with closures), which MetricMap fields (by base path) are
// traversed: .Each(...) call on mm.X, or `range mm.X`.
func mmTraversals(fn *ssa.Function) map[string]map[string]token.Pos {
	res := map[string]map[string]token.Pos{}
	add := func(base, f string, p token.Pos) {
		if res[base] == nil {
			res[base] = map[string]token.Pos{}
		}
		res[base][f] = p
	}
	for _, f := range WithAnon(fn) {
		eachInstr(f, func(in ssa.Instruction) {
			switch x := in.(type) {
			case ssa.CallInstruction:
				if cal := staticCallee(x); cal != nil && cal.Name() == "Each" && len(x.Common().Args) > 0 {
					ls := loadsOf(x.Common().Args[0])
					if len(ls) == 1 && ls[0].T == "MetricMap" {
						add(ls[0].Base, ls[0].F, x.Pos())
					}
				}
			case *ssa.Range:
				ls := loadsOf(x.X)
				if len(ls) == 1 && ls[0].T == "MetricMap" {
					add(ls[0].Base, ls[0].F, x.Pos())
				}
			case *ssa.FieldAddr, *ssa.Field:
				// any other touch (len(mm.X), mm.X[k], complit field) counts as well
				if t, fld, base, ok := fieldRef(x.(ssa.Value)); ok && t == "MetricMap" && fld != "Forwarded" {
					if _, isAlloc := base.(*ssa.Alloc); isAlloc && pathOf(base) == "alloc" {
						return
					}
					add(pathOf(base), fld, x.Pos())
				}
			}
		})
	}
	return res
}

// fourTypeAllow lists functions that legitimately traverse fewer than four types.
var fourTypeAllow = map[string]string{
	"(*pkg/statsd.MetricAggregator).Flush": "gauges and sets need no derived values at flush time; only counters (per-second) and timers (statistics) are computed",
}

func fourTypeRule(c *Ctx, r *Rule, filter func(fn *ssa.Function) bool) {
	w := c.W
	for _, fn := range w.ModuleFuncs() {
		if fn.Parent() != nil {
			continue // closures are analysed with their parent
		}
		pp := fnPkgPath(fn)
		if strings.Contains(pp, "/internal/fixtures") || strings.HasSuffix(pp, "/cmd/tester") || strings.HasSuffix(pp, "/cmd/loader") {
			continue
		}
		if filter != nil && !filter(fn) {
			continue
		}
		tr := mmTraversals(fn)
		var bases []string
		for b := range tr {
			bases = append(bases, b)
		}
		sort.Strings(bases)
		for _, base := range bases {
			fs := tr[base]
			if len(fs) < 2 {
				continue
			}
			c.SawFunc(FuncName(fn))
			key := FuncName(fn) + ":" + base
			var missing []string
			for _, f := range mmFields {
				if _, ok := fs[f]; !ok {
					missing = append(missing, f)
				}
			}
			if len(missing) > 0 {
				if why, ok := fourTypeAllow[FuncName(fn)]; ok {
					r.Pass(key, fn.Pos(), "allow-listed: "+why)
					continue
				}
			}
			r.Check(key, len(missing) == 0, fn.Pos(), fmt.Sprintf("traverses %d of 4 metric types of %s; missing %v", len(fs), base, missing))
		}
	}
}

// ---------- write-back of modified map-element copies ----------

var aggregateElem = map[string]bool{"Counter": true, "Gauge": true, "Timer": true, "Set": true}

// writeBackSites: the maps of a MetricMap hold their elements by value.  For every local copy of
// an element (a variable initialised from a map lookup, a range value or an Each-callback
// parameter) that is modified afterwards, every path to a return must store the copy back into a
// map (m[k] = copy) after the last modification; otherwise the update is lost.
func writeBackRule(r *Rule, fn *ssa.Function) int {
	n := 0
	eachInstr(fn, func(in ssa.Instruction) {
		a, ok := in.(*ssa.Alloc)
		if !ok {
			return
		}
		nm := namedOf(derefType(a.Type()))
		if nm == nil || !aggregateElem[nm.Obj().Name()] || nm.Obj().Pkg() == nil || nm.Obj().Pkg().Path() != Mod {
			return
		}
		isCopySource := func(v ssa.Value) bool {
			switch x := v.(type) {
			case *ssa.Parameter:
				return fn.Parent() != nil // the element handed to an Each-style callback; a plain by-value parameter is the caller's operand, not a map element
			case *ssa.Lookup:
				return true
			case *ssa.Extract:
				switch x.Tuple.(type) {
				case *ssa.Lookup, *ssa.Next:
					return true
				}
			}
			return false
		}
		fromCopy := false
		dirtyStores := 0
		escapes := false
		for _, ref := range referrers(a) {
			switch x := ref.(type) {
			case *ssa.Store:
				if x.Addr == ssa.Value(a) {
					if isCopySource(x.Val) {
						fromCopy = true
					} else {
						dirtyStores++
					}
				}
			case *ssa.FieldAddr:
				for _, r2 := range referrers(x) {
					if st, ok := r2.(*ssa.Store); ok && st.Addr == ssa.Value(x) {
						dirtyStores++
					}
				}
			case *ssa.UnOp:
				for _, r2 := range referrers(x) {
					switch r2.(type) {
					case *ssa.Return:
						escapes = true
					}
				}
			case *ssa.MakeClosure, ssa.CallInstruction:
				escapes = true // address passed on: the callee may store it
			}
		}
		if !fromCopy || dirtyStores == 0 || escapes {
			return
		}
		n++
		const (
			evCopy = iota
			evDirty
			evWriteBack
			evTransfer   // the whole (modified) copy is assigned to another local of the same type
			evWriteOther // that other local is stored into a map
		)
		// locals that receive a whole copy of a
		heirs := map[*ssa.Alloc]bool{}
		for _, ref := range referrers(a) {
			if ld, ok := ref.(*ssa.UnOp); ok && ld.Op == token.MUL {
				for _, r2 := range referrers(ld) {
					if st, ok := r2.(*ssa.Store); ok && st.Val == ssa.Value(ld) {
						if b, ok := st.Addr.(*ssa.Alloc); ok && b != a {
							heirs[b] = true
						}
					}
				}
			}
		}
		res := runAutomaton(fn, 0, func(in ssa.Instruction) int {
			switch x := in.(type) {
			case *ssa.Store:
				if x.Addr == ssa.Value(a) {
					if isCopySource(x.Val) {
						return evCopy
					}
					return evDirty
				}
				if fa, ok := x.Addr.(*ssa.FieldAddr); ok && fa.X == ssa.Value(a) {
					return evDirty
				}
				if b, ok := x.Addr.(*ssa.Alloc); ok && heirs[b] {
					if ld, ok := x.Val.(*ssa.UnOp); ok && ld.Op == token.MUL && ld.X == ssa.Value(a) {
						return evTransfer
					}
				}
			case *ssa.UnOp:
				// a whole copy of the local that travels (through the result variable of an inlined helper: phis) into
				// a map store: the copy is taken here, so this is the point up to which modifications are written back
				if x.Op == token.MUL && x.X == ssa.Value(a) {
					seenV := map[ssa.Value]bool{}
					var reaches func(v ssa.Value, d int) bool
					reaches = func(v ssa.Value, d int) bool {
						if d > 4 || seenV[v] {
							return false
						}
						seenV[v] = true
						for _, ref := range referrers(v) {
							switch y := ref.(type) {
							case *ssa.MapUpdate:
								if y.Value == v && v != ssa.Value(x) {
									return true
								}
							case *ssa.Phi:
								if reaches(y, d+1) {
									return true
								}
							}
						}
						return false
					}
					if reaches(x, 0) {
						return evWriteBack
					}
				}
			case *ssa.MapUpdate:
				if ld, ok := x.Value.(*ssa.UnOp); ok && ld.Op == token.MUL {
					if ld.X == ssa.Value(a) {
						return evWriteBack
					}
					if b, ok := ld.X.(*ssa.Alloc); ok && heirs[b] {
						return evWriteOther
					}
				}
			}
			return -1
		}, func(state, ev int) int {
			// 0 clean, 1 modified, 2 modified and handed to another local that still has to be stored
			switch ev {
			case evCopy, evWriteBack:
				return 0
			case evTransfer:
				if state == 1 {
					return 2
				}
				return state
			case evWriteOther:
				if state == 2 {
					return 0
				}
				return state
			default:
				return 1
			}
		})
		bad := ""
		for b, st := range res.ExitStates {
			if st&(2|4) != 0 {
				bad = fmt.Sprintf("a path reaches the return in block %d with the modified copy not stored back", b.Index)
			}
		}
		r.Check(FuncName(fn)+":write-back:"+a.Comment, bad == "", a.Pos(), "local copy "+a.Comment+" of a map element ("+nm.Obj().Name()+") is stored back into the map after its last modification on every path"+map[bool]string{true: "", false: ": " + bad}[bad == ""])
	})
	return n
}

func writeBackAll(c *Ctx, r *Rule, only func(fn *ssa.Function) bool) {
	for _, fn := range c.W.ModuleFuncs() {
		p := fnPkgPath(fn)
		if p != Mod && p != Mod+"/pkg/statsd" {
			continue
		}
		if only != nil && !only(fn) {
			continue
		}
		if writeBackRule(r, fn) > 0 {
			c.SawFunc(FuncName(fn))
		}
	}
}

// ifOf: the branch instruction guarding st's block (the nearest controlling If), or st itself.
func ifOf(st ssa.Instruction) ssa.Instruction {
	cs := condsFor(st.Block())
	if len(cs) == 0 {
		return st
	}
	return cs[len(cs)-1].If
}
