package main

import (
	"fmt"
	"go/token"
	"sort"
	"strings"

	"golang.org/x/tools/go/ssa"
)

func init() { register("C08", c08) }

// linForm is a linear form over named integer atoms: sum(coef*atom) + const.
type linForm struct {
	Coef  map[string]int64
	Const int64
	OK    bool
}

func (l linForm) String() string {
	if !l.OK {
		return "non-linear"
	}
	var ks []string
	for k, c := range l.Coef {
		if c != 0 {
			ks = append(ks, fmt.Sprintf("%+d*%s", c, k))
		}
	}
	sort.Strings(ks)
	return strings.Join(ks, " ") + fmt.Sprintf(" %+d", l.Const)
}

func (l linForm) sub(o linForm) linForm {
	r := linForm{Coef: map[string]int64{}, OK: l.OK && o.OK}
	for k, c := range l.Coef {
		r.Coef[k] += c
	}
	for k, c := range o.Coef {
		r.Coef[k] -= c
	}
	r.Const = l.Const - o.Const
	return r
}

func (l linForm) isAtomPlus(atom string, k int64) bool {
	if !l.OK || l.Const != k {
		return false
	}
	for a, c := range l.Coef {
		if a == atom && c != 1 {
			return false
		}
		if a != atom && c != 0 {
			return false
		}
	}
	return l.Coef[atom] == 1
}

// linOf linearises an int SSA value over the given atoms (value -> name).
func linOf(v ssa.Value, atoms map[ssa.Value]string, d int) linForm {
	if d > 10 {
		return linForm{}
	}
	if n, ok := atoms[v]; ok {
		return linForm{Coef: map[string]int64{n: 1}, OK: true}
	}
	if c, ok := constInt(v); ok {
		if _, isC := v.(*ssa.Const); isC {
			return linForm{Coef: map[string]int64{}, Const: c, OK: true}
		}
	}
	if b, ok := v.(*ssa.BinOp); ok && (b.Op == token.ADD || b.Op == token.SUB) {
		x, y := linOf(b.X, atoms, d+1), linOf(b.Y, atoms, d+1)
		if !x.OK || !y.OK {
			return linForm{}
		}
		if b.Op == token.SUB {
			return x.sub(y)
		}
		neg := linForm{Coef: map[string]int64{}, OK: true}
		return x.sub(neg.sub(y))
	}
	return linForm{}
}

func c08(c *Ctx) {
	w := c.W
	const P = "pkg/statsd"
	c.Explanation = "C08 (timer statistics and histograms): the non-numeric clauses only. Each percentile sub-metric is emitted under its own mask flag with its own value and name prefix; upper is used for p > 0 and lower otherwise; a histogram-tagged timer gets a histogram and no summary statistics, exactly under hasHistogramTag; the histogram counts values <= bound, records the total under +Inf, is empty for limit 0 and truncated to the limit, skipping unparsable bounds; the number of values summed for a percentile equals the rank (index/count agreement by linear forms over n and k); count and rates are derived from the sampled count and the flush interval."
	c.NotDecided = []string{"every numerical clause as a value: count, per-second, min/max/sum/mean/median/std-dev, percentile sums and boundaries, histogram counts (floating point results are not computed statically)", "rank rounding k = round(|p|/100*n)"}

	fl := w.Func(P, "(*MetricAggregator).Flush")
	var ft *ssa.Function // timers closure
	if fl != nil {
		ft = eachClosures(fl)["Timers"]
	}

	c.Rule("C08.R1", "percentile sub-metric table: (name field, mask flag, value) agree; upper for p > 0, lower otherwise; names are built from the matching prefix", 12, func(r *Rule) {
		if ft == nil {
			r.Unresolved("(*MetricAggregator).Flush timers closure")
			return
		}
		c.SawFunc(FuncName(ft))
		// every configured threshold is registered: the constructor fills the table in a loop that covers the
		// thresholds parameter itself (not a value that may have been replaced or cut down on some path)
		if nm := w.Func(P, "NewMetricAggregator"); nm != nil {
			okReg := false
			eachInstr(nm, func(in ssa.Instruction) {
				mu, ok := in.(*ssa.MapUpdate)
				if !ok || !(strings.HasSuffix(pathOf(mu.Map), "percentThresholds") || strings.HasSuffix(mapHome(mu.Map), "percentThresholds")) {
					return
				}
				ld, ok := mu.Key.(*ssa.UnOp)
				if !ok || ld.Op != token.MUL {
					return
				}
				ia, ok := ld.X.(*ssa.IndexAddr)
				if !ok {
					return
				}
				if _, isParam := stripConv(ia.X).(*ssa.Parameter); !isParam {
					return
				}
				var ph *ssa.Phi
				if p, ok := ia.Index.(*ssa.Phi); ok {
					ph = p
				} else if b := asBinOp(ia.Index, token.ADD); b != nil {
					ph, _ = b.X.(*ssa.Phi)
				}
				if ph != nil && loopCoversSlice(ph, ia.X) && len(condsFor(mu.Block())) == 1 {
					okReg = true
				}
			})
			r.Check("thresholds:every-configured-threshold-registered", okReg, nm.Pos(), "NewMetricAggregator registers a name set for every element of its thresholds parameter, unconditionally")
		} else {
			r.Unresolved("NewMetricAggregator")
		}
		want := map[string][2]string{ // name field -> (flag, value)
			"count": {"CountPct", "numInThreshold"}, "mean": {"MeanPct", "mean"}, "sum": {"SumPct", "sum"},
			"sumSquares": {"SumSquaresPct", "sumSquares"}, "upper": {"UpperPct", "thresholdBoundary"}, "lower": {"LowerPct", "thresholdBoundary"},
		}
		seen := map[string]bool{}
		for _, cl := range callsTo(ft, "(*gostatsd.Percentiles).Set") {
			a := cl.Common().Args
			nameField := ""
			if _, f, _, ok := fieldRefThroughLoad(a[1]); ok {
				nameField = f
			}
			wv, known := want[nameField]
			if !known {
				r.Fail("percentile:unknown-name-field:"+nameField, cl.Pos(), "Percentiles.Set with name "+pathOf(a[1]))
				continue
			}
			seen[nameField] = true
			// flag
			flag := ""
			pctPos := ""
			for _, cd := range condsFor(cl.Block()) {
				cd = normCond(cd)
				if f := subtypeFlagOf(cd.V); f != "" && !cd.Sense && strings.HasSuffix(f, "Pct") {
					flag = f
				}
				if b := asBinOp(cd.V, token.GTR); b != nil {
					if z, isC := constFloatZero(b.Y); isC && z && strings.Contains(pathOf(b.X), "#1") {
						pctPos = fmt.Sprint(cd.Sense)
					}
				}
			}
			r.Check("percentile:"+nameField+":flag", flag == wv[0], cl.Pos(), fmt.Sprintf("%s is emitted under !disabledSubtypes.%s (documented %s)", nameField, flag, wv[0]))
			// value
			val := a[2]
			if cv, ok := val.(*ssa.Convert); ok {
				val = cv.X
			}
			vn := ""
			if ph, ok := val.(*ssa.Phi); ok {
				vn = ph.Comment
			}
			// ... or, whatever the variable is called, by what the value is made of
			kindWant := map[string]string{"count": "count", "mean": "mean", "sum": "sum", "sumSquares": "sumSquares", "upper": "boundary", "lower": "boundary"}[nameField]
			kindGot := percentileValueKind(ft, a[2])
			r.Check("percentile:"+nameField+":value", vn == wv[1] || kindGot == kindWant, cl.Pos(), fmt.Sprintf("%s carries %s (documented %s); by construction the value is a %s", nameField, vn, wv[1], kindGot))
			if nameField == "upper" {
				r.Check("percentile:upper-for-positive", pctPos == "true", cl.Pos(), "upper_<p> is emitted for p > 0")
			}
			if nameField == "lower" {
				r.Check("percentile:lower-for-non-positive", pctPos == "false", cl.Pos(), "lower_<p> is emitted for p <= 0")
			}
			// target: this timer's Percentiles
			r.Check("percentile:"+nameField+":target", strings.HasSuffix(pathOf(a[0]), "timer.Percentiles"), cl.Pos(), "set on timer.Percentiles")
		}
		for k := range want {
			r.Check("percentile:"+k+":emitted", seen[k], ft.Pos(), "sub-metric "+k+" has an emission site")
		}
		// each timer's percentiles live in that timer's own slice: where the closure assigns timer.Percentiles
		// itself, the value is nil, a slice made inside the closure, or this timer's own slice cut down - never
		// a buffer captured from outside (every timer flushed together would then report the last one's values)
		for _, st := range fieldStores(ft, "Timer", "Percentiles") {
			bad := ""
			seen := map[ssa.Value]bool{}
			var leaf func(v ssa.Value, d int)
			leaf = func(v ssa.Value, d int) {
				if seen[v] || d > 8 {
					return
				}
				seen[v] = true
				switch x := v.(type) {
				case *ssa.Const:
					if x.Value != nil {
						bad = exprString(x, 0)
					}
				case *ssa.MakeSlice:
				case *ssa.Phi:
					for _, e := range x.Edges {
						leaf(e, d+1)
					}
				case *ssa.Slice:
					leaf(x.X, d+1)
				case *ssa.Call:
					if isCall(x, "builtin append") {
						leaf(x.Call.Args[0], d+1)
					} else {
						bad = "the result of " + calleeName(x)
					}
				case *ssa.UnOp:
					if t, f, _, ok := fieldRef(x.X); ok && t == "Timer" && f == "Percentiles" {
						return // this timer's own slice
					}
					bad = "a value loaded from " + pathOf(x.X) + " (shared by every timer the closure is called for)"
				default:
					bad = exprString(v, 0)
				}
			}
			leaf(st.Val, 0)
			r.Check("percentile:own-slice", bad == "", st.Pos(), "timer.Percentiles is assigned nil, a fresh slice or this timer's own slice; "+bad)
		}
		// names
		na := w.Func(P, "NewMetricAggregator")
		if na == nil {
			r.Unresolved("NewMetricAggregator")
			return
		}
		prefixes := map[string]string{"count": "count_", "mean": "mean_", "sum": "sum_", "sumSquares": "sum_squares_", "upper": "upper_", "lower": "lower_"}
		for _, lit := range complitsOf(na, "percentStruct") {
			for f, v := range lit {
				ok := false
				if b := asBinOp(v, token.ADD); b != nil {
					if s, isS := constString(b.X); isS && s == prefixes[f] {
						ok = strings.Contains(exprString(b.Y, 0), "strconv.Itoa")
					}
				}
				r.Check("name:"+f, ok, na.Pos(), fmt.Sprintf("percentStruct.%s = %q + Itoa(pct)", f, prefixes[f]))
			}
		}
	})

	c.Rule("C08.R2", "histogram exclusivity: a timer carrying the histogram tag gets a histogram and none of the summary statistics; every other timer gets statistics and no histogram", 5, func(r *Rule) {
		if ft == nil {
			r.Unresolved("Flush timers closure")
			return
		}
		var hcall *ssa.Call
		for _, cl := range callsTo(ft, P+".hasHistogramTag") {
			hcall, _ = cl.(*ssa.Call)
		}
		if hcall == nil {
			r.Fail("histogram:test", ft.Pos(), "hasHistogramTag is not consulted")
			return
		}
		isHist := func(b *ssa.BasicBlock) (val, known bool) {
			for _, cd := range condsFor(b) {
				cd = normCond(cd)
				if cd.V == ssa.Value(hcall) {
					return cd.Sense, true
				}
			}
			return false, false
		}
		statFields := []string{"Min", "Max", "Mean", "Median", "StdDev", "Sum", "SumSquares", "Count", "PerSecond", "SampledCount"}
		nStat := 0
		for _, f := range statFields {
			for _, st := range fieldStores(ft, "Timer", f) {
				nStat++
				v, k := isHist(st.Block())
				r.Check("statistics:"+f+":only-without-histogram-tag", k && !v, st.Pos(), "Timer."+f+" is computed only on the hasHistogramTag == false side (every path into the statistics code passes the false edge of exactly that test)")
			}
		}
		for _, cl := range callsTo(ft, "(*gostatsd.Percentiles).Set") {
			v, k := isHist(cl.Block())
			r.Check("statistics:percentiles:only-without-histogram-tag", k && !v, cl.Pos(), "percentiles only for timers without the histogram tag")
		}
		r.Check("statistics:sites", nStat >= 8, ft.Pos(), fmt.Sprintf("%d statistic stores", nStat))
		nh := 0
		for _, st := range fieldStores(ft, "Timer", "Histogram") {
			nh++
			v, k := isHist(st.Block())
			r.Check("histogram:only-with-histogram-tag", k && v && len(condsFor(st.Block())) == 1, st.Pos(), "Timer.Histogram is stored exactly under hasHistogramTag(timer)")
			cl, isC := st.Val.(*ssa.Call)
			r.Check("histogram:from-latencyHistogram", isC && isCall(cl, P+".latencyHistogram") && strings.HasSuffix(pathOf(cl.Call.Args[1]), ".histogramLimit"), st.Pos(), "Histogram = latencyHistogram(timer, a.histogramLimit)")
		}
		r.Check("histogram:store-site", nh == 1, ft.Pos(), fmt.Sprintf("%d Histogram stores", nh))
		// the flushed timer is written back on every path
		m := countOnPaths(ft, func(in ssa.Instruction) bool {
			mu, ok := in.(*ssa.MapUpdate)
			return ok && paramIndex(ft, mu.Key) == 1
		})
		r.Check("flush:written-back-once", m == 2, ft.Pos(), "the updated timer is stored back exactly once on every path: "+maskString(m))
	})

	c.Rule("C08.R3", "histogram structure: counts values <= bound; total under +Inf; nothing for limit 0; at most `limit` finite buckets; unparsable bounds skipped; buckets come from the gsd_histogram tag split on '_'", 8, func(r *Rule) {
		lh := w.Func(P, "latencyHistogram")
		eh := w.Func(P, "emptyHistogram")
		// (the two threshold helpers may have been written into emptyHistogram, the end of their only call chain)
		rt, _ := w.FuncOrHost(P, "retrieveThresholds")
		mp, _ := w.FuncOrHost(P, "mapToThresholds")
		if lh == nil || eh == nil || rt == nil || mp == nil {
			r.Unresolved("latencyHistogram / emptyHistogram / retrieveThresholds / mapToThresholds")
			return
		}
		c.SawFunc(FuncName(lh))
		c.SawFunc(FuncName(eh))
		c.SawFunc(FuncName(rt))
		c.SawFunc(FuncName(mp))
		// value <= bucket guards the increment
		okLE := false
		eachInstr(lh, func(in ssa.Instruction) {
			if mu, ok := in.(*ssa.MapUpdate); ok {
				if b := asBinOp(mu.Value, token.ADD); b != nil {
					isVal := func(v ssa.Value) bool { return strings.Contains(pathOf(v), "timer.Values") }
					isBound := func(v ssa.Value) bool { return strings.Contains(pathOf(stripConv(v)), "next(range(") }
					if cmpHolds(factsAt(mu.Block()), isVal, isBound, token.LEQ) {
						okLE = true
					}
				}
			}
		})
		r.Check("latencyHistogram:counts-values-not-greater-than-bound", okLE, lh.Pos(), "bucket count is incremented under value <= bound")
		okInf := false
		eachInstr(lh, func(in ssa.Instruction) {
			if mu, ok := in.(*ssa.MapUpdate); ok {
				if cl, isC := mu.Value.(*ssa.Call); isC && isCall(cl, "builtin len") && strings.HasSuffix(pathOf(cl.Call.Args[0]), ".Values") {
					key := mu.Key
					if ld, ok := key.(*ssa.UnOp); ok && ld.Op == token.MUL {
						if g, ok := ld.X.(*ssa.Global); ok {
							if v := globalInitValue(w, g); v != nil {
								key = v
							}
						}
					}
					if strings.Contains(exprString(key, 0), "math.Inf") {
						okInf = true
					}
				}
			}
		})
		r.Check("latencyHistogram:total-under-+Inf", okInf, lh.Pos(), "result[+Inf] = len(timer.Values)")
		// empty result returned as is
		okEmpty := false
		eachInstr(lh, func(in ssa.Instruction) {
			if ret, ok := in.(*ssa.Return); ok {
				if knownEmpty(factsAt(ret.Block()), func(ssa.Value) bool { return true }) {
					okEmpty = true
				}
			}
		})
		if !okEmpty {
			// the same without an early return: every write into the histogram stands where it is known to be non-empty
			nW, guarded := 0, true
			eachInstr(lh, func(in ssa.Instruction) {
				mu, ok := in.(*ssa.MapUpdate)
				if !ok {
					return
				}
				nW++
				isRes := func(v ssa.Value) bool { return ptrOrigin(v) == ptrOrigin(mu.Map) }
				if !knownNonEmpty(factsAt(mu.Block()), isRes) {
					guarded = false
				}
			})
			okEmpty = nW >= 1 && guarded
		}
		r.Check("latencyHistogram:empty-stays-empty", okEmpty, lh.Pos(), "an empty (limit 0) or nil (no tag) histogram is returned unchanged")
		// emptyHistogram: limit 0 -> empty before parsing
		okZero := false
		eachInstr(eh, func(in ssa.Instruction) {
			if ret, ok := in.(*ssa.Return); ok {
				isLimit := func(v ssa.Value) bool {
					p, ok := stripConv(v).(*ssa.Parameter)
					return ok && p.Parent() == eh && isIntType(p.Type())
				}
				isZero := func(v ssa.Value) bool { n, ok := constInt(v); return ok && n == 0 }
				if cmpHolds(factsAt(ret.Block()), isLimit, isZero, token.EQL) {
					if _, isMk := ret.Results[0].(*ssa.MakeMap); isMk {
						parsed := false
						for _, cl := range callsIn(eh) {
							if staticCallee(cl) == rt && (cl.Block() == ret.Block() || cl.Block().Dominates(ret.Block())) {
								parsed = true
							}
						}
						okZero = !parsed
					}
				}
			}
		})
		r.Check("emptyHistogram:nothing-for-limit-0", okZero, eh.Pos(), "bucket limit 0 yields an empty histogram without reading the tag")
		// truncation to min(len, limit)
		okTrunc := false
		eachInstr(rt, func(in ssa.Instruction) {
			if sl, ok := in.(*ssa.Slice); ok && sl.High != nil {
				// High = min(len(<the sliced value>), <the limit parameter>) with the module's or the builtin min
				if mc, ok := stripConv(sl.High).(*ssa.Call); ok && strings.HasSuffix(strings.TrimSuffix(calleeName(mc), ")"), "min") && len(mc.Call.Args) == 2 {
					hasLen, hasLimit := false, false
					for _, a := range mc.Call.Args {
						a = stripConv(a)
						if lc, ok := a.(*ssa.Call); ok && isCall(lc, "builtin len") && lc.Call.Args[0] == sl.X {
							hasLen = true
						}
						if p, ok := a.(*ssa.Parameter); ok && p.Parent() == rt && isIntType(p.Type()) {
							hasLimit = true
						}
					}
					okTrunc = hasLen && hasLimit
				}
			}
		})
		r.Check("retrieveThresholds:at-most-limit-buckets", okTrunc, rt.Pos(), "thresholds are truncated to min(len, limit)")
		// order: split -> parse (skipping unparsable items) -> truncate: the limit counts parsed bounds only
		okOrder := false
		eachInstr(rt, func(in ssa.Instruction) {
			if sl, ok := in.(*ssa.Slice); ok && sl.High != nil && strings.Contains(exprString(sl.High, 0), "min(") {
				if pc, ok := sl.X.(*ssa.Call); ok && staticCallee(pc) == mp {
					if sc, ok := pc.Call.Args[0].(*ssa.Call); ok && isCall(sc, "strings.Split") {
						okOrder = true
					}
				}
				// the parsing written in place: what is truncated is the slice the parsed bounds were appended to
				// (each append adds a ParseFloat result, so unparsable items were skipped before the limit applies)
				seenV := map[ssa.Value]bool{}
				var parsedOnly func(v ssa.Value, d int) (bool, bool)
				parsedOnly = func(v ssa.Value, d int) (all, any bool) {
					if d > 8 || seenV[v] {
						return true, false
					}
					seenV[v] = true
					switch x := v.(type) {
					case *ssa.Phi:
						all = true
						for _, e := range x.Edges {
							a2, n2 := parsedOnly(e, d+1)
							all = all && a2
							any = any || n2
						}
						return all, any
					case *ssa.Const:
						return x.Value == nil, false
					case *ssa.Call:
						if isCall(x, "builtin append") {
							els := varargElems(x.Call.Args[1])
							okEl := len(els) == 1 && strings.Contains(exprString(els[0], 0), "strconv.ParseFloat")
							a2, _ := parsedOnly(x.Call.Args[0], d+1)
							return a2 && okEl, okEl
						}
					}
					return false, false
				}
				if all, any := parsedOnly(sl.X, 0); all && any {
					okOrder = true
				}
			}
		})
		r.Check("retrieveThresholds:truncates-parsed-bounds", okOrder, rt.Pos(), "the limit is applied to mapToThresholds(strings.Split(...)), i.e. after unparsable items were skipped (truncating the raw items lets a malformed item use up a bucket slot)")
		// what is returned is that truncated slice
		okRet := false
		eachInstr(rt, func(in ssa.Instruction) {
			if ret, ok := in.(*ssa.Return); ok {
				if sl, ok := ret.Results[0].(*ssa.Slice); ok && sl.High != nil {
					okRet = true
				}
			}
		})
		if !okRet && rt == eh {
			// written into emptyHistogram: the truncated slice is the one the buckets are made from
			eachInstr(rt, func(in ssa.Instruction) {
				if sl, ok := in.(*ssa.Slice); ok && sl.High != nil && strings.Contains(exprString(sl.High, 0), "min(") {
					for _, ref := range referrers(sl) {
						switch ref.(type) {
						case *ssa.Range, *ssa.IndexAddr, *ssa.Phi:
							okRet = true
						case *ssa.Call:
							okRet = true
						}
					}
				}
			})
		}
		r.Check("retrieveThresholds:returns-truncated", okRet, rt.Pos(), "the truncated slice is what is returned")
		mn := w.Func(P, "min")
		if mn != nil {
			okMin := false
			eachInstr(mn, func(in ssa.Instruction) {
				if ifi, ok := in.(*ssa.If); ok {
					if b := asBinOp(ifi.Cond, token.LSS); b != nil && paramIndex(mn, b.X) == 0 && paramIndex(mn, b.Y) == 1 {
						lt := leafEffects(ifi.Block().Succs[0], 0, nil)
						lf := leafEffects(ifi.Block().Succs[1], 0, nil)
						okMin = strings.Contains(lt, "return a") && strings.Contains(lf, "return b")
					}
				}
			})
			r.Check("min:is-minimum", okMin, mn.Pos(), "min(a,b) returns a when a < b, else b")
		}
		// prefix and separator
		okSplit := false
		for _, cl := range callsTo(rt, "strings.Split") {
			if s, isS := constString(cl.Common().Args[1]); isS && s == "_" {
				okSplit = true
			}
		}
		r.Check("retrieveThresholds:split-on-underscore", okSplit, rt.Pos(), "bucket list is split on '_'")
		okPre := false
		for _, cl := range callsTo(rt, P+".findTag") {
			if s, isS := constString(cl.Common().Args[1]); isS && s == "gsd_histogram:" {
				okPre = true
			}
		}
		r.Check("retrieveThresholds:tag-prefix", okPre, rt.Pos(), "buckets come from the tag with prefix gsd_histogram:")
		// unparsable skipped
		okSkip := false
		for _, cl := range callsTo(mp, "builtin append") {
			isErr := func(v ssa.Value) bool {
				return strings.Contains(pathOf(v), "ParseFloat") && strings.HasSuffix(pathOf(v), "#1")
			}
			if cmpHolds(factsAt(cl.Block()), isErr, isNilConst, token.EQL) {
				okSkip = true
			}
		}
		r.Check("mapToThresholds:skips-unparsable", okSkip, mp.Pos(), "a bound is appended only when ParseFloat succeeded")
		// hasHistogramTag uses the same prefix
		ht := w.Func(P, "hasHistogramTag")
		if ht != nil {
			ok := false
			for _, cl := range callsTo(ht, P+".findTag") {
				if s, isS := constString(cl.Common().Args[1]); isS && s == "gsd_histogram:" {
					ok = true
				}
			}
			// or: some element satisfies a predicate that is HasPrefix(element, "gsd_histogram:")
			for _, cl := range callsIn(ht) {
				n := calleeName(cl)
				if !(strings.HasPrefix(n, "slices.ContainsFunc") || strings.HasPrefix(n, "slices.IndexFunc")) || len(cl.Common().Args) != 2 {
					continue
				}
				var pred *ssa.Function
				switch x := stripConvVal(cl.Common().Args[1]).(type) {
				case *ssa.Function:
					pred = x
				case *ssa.MakeClosure:
					pred, _ = x.Fn.(*ssa.Function)
				}
				if pred != nil && predicateRenders(pred, `strings.HasPrefix(p0,"gsd_histogram:")`) && strings.HasSuffix(pathOf(cl.Common().Args[0]), ".Tags") {
					ok = true
				}
			}
			r.Check("hasHistogramTag:same-prefix", ok, ht.Pos(), "the presence test and the parser look for the same tag")
		}
	})

	c.Rule("C08.R4", "rank/index agreement: the number of values summed for a percentile equals the rank k; the boundary is the k-th lowest (p > 0) or k-th highest value (linear forms over n and k)", 8, func(r *Rule) {
		if ft == nil {
			r.Unresolved("Flush timers closure")
			return
		}
		// atoms: n = len(timer.Values) ; k = int(round(...))
		atoms := map[ssa.Value]string{}
		eachInstr(ft, func(in ssa.Instruction) {
			if cl, ok := in.(*ssa.Call); ok && isCall(cl, "builtin len") && strings.HasSuffix(pathOf(cl.Call.Args[0]), "timer.Values") {
				atoms[cl] = "n"
			}
			if cv, ok := in.(*ssa.Convert); ok {
				if cl, ok := cv.X.(*ssa.Call); ok && isCall(cl, P+".round") {
					atoms[cv] = "k"
				}
			}
		})
		hasK := false
		for _, n := range atoms {
			if n == "k" {
				hasK = true
			}
		}
		// a single value has rank 1 for every percentile: the rounded rank (0 for |p| < 50 when n = 1, which
		// skips the percentile) is computed only where n > 1 (or n != 1) is known
		for v, nm := range atoms {
			if nm != "k" {
				continue
			}
			in := v.(ssa.Instruction)
			// only the rank: the rounded quantity is a share of n (timer.Count = int(round(SampledCount)) is not)
			var mentionsN func(x ssa.Value, d int) bool
			isN := func(x ssa.Value) bool { return false }
			mentionsN = func(x ssa.Value, d int) bool {
				if d > 8 || x == nil {
					return false
				}
				if isN(x) {
					return true
				}
				if ins, ok := ptrOrigin(x).(ssa.Instruction); ok {
					for _, op := range ins.Operands(nil) {
						if *op != nil && mentionsN(*op, d+1) {
							return true
						}
					}
				}
				return false
			}
			isN = func(x ssa.Value) bool {
				x = ptrOrigin(x)
				if cl, ok := x.(*ssa.Call); ok && isCall(cl, "builtin len") {
					p := pathOf(cl.Call.Args[0])
					return strings.HasSuffix(p, ".Values") || strings.HasSuffix(pathOf(ptrOrigin(cl.Call.Args[0])), ".Values")
				}
				return false
			}
			isK := func(k int64) func(ssa.Value) bool {
				return func(x ssa.Value) bool { c, ok := constInt(x); return ok && c == k }
			}
			if !mentionsN(v.(*ssa.Convert).X, 0) {
				continue
			}
			facts := factsAt(in.Block())
			okN := cmpHolds(facts, isN, isK(1), token.GTR, token.NEQ) || cmpHolds(facts, isN, isK(2), token.GEQ)
			r.Check("rank:single-value-has-rank-one", okN, in.Pos(), "the rounded rank is used only for n > 1 (a lone value is the k = 1 lowest and highest value of every percentile)")
		}
		if !r.Check("rank:identified", hasK, ft.Pos(), "the rank k = int(round(...)) was identified") {
			return
		}
		// which arrays: Values, cumulative sums (MakeSlice locals)
		arrName := func(v ssa.Value) string {
			if ms, ok := v.(*ssa.MakeSlice); ok {
				_ = ms
				return "cumulative"
			}
			if strings.HasSuffix(pathOf(v), "timer.Values") {
				return "values"
			}
			return ""
		}
		pctSide := func(b *ssa.BasicBlock) string {
			for _, cd := range condsFor(b) {
				cd = normCond(cd)
				if bo := asBinOp(cd.V, token.GTR); bo != nil {
					if z, isC := constFloatZero(bo.Y); isC && z && strings.Contains(pathOf(bo.X), "#1") {
						if cd.Sense {
							return "pos"
						}
						return "neg"
					}
				}
			}
			return ""
		}
		n := 0
		eachInstr(ft, func(in ssa.Instruction) {
			ia, ok := in.(*ssa.IndexAddr)
			if !ok {
				return
			}
			side := pctSide(ia.Block())
			if side == "" {
				return
			}
			arr := arrName(ia.X)
			if arr == "" {
				return
			}
			lf := linOf(ia.Index, atoms, 0)
			key := fmt.Sprintf("index:%s:%s[%s]", side, arr, lf)
			n++
			switch {
			case side == "pos":
				// the k lowest: prefix sum index k-1 ; boundary values[k-1]
				r.Check(key, lf.isAtomPlus("k", -1), ia.Pos(), "for p > 0 the k lowest values end at index k-1: index is "+lf.String())
			case side == "neg" && arr == "values":
				// k-th highest: n-k
				d := lf.sub(linForm{Coef: map[string]int64{"n": 1, "k": -1}, OK: true})
				r.Check(key, lf.OK && d.Const == 0 && d.Coef["n"] == 0 && d.Coef["k"] == 0, ia.Pos(), "for p <= 0 the boundary is values[n-k]: index is "+lf.String())
			case side == "neg" && arr == "cumulative":
				// either the total (n-1) or the excluded prefix (n-k-1)
				d1 := lf.sub(linForm{Coef: map[string]int64{"n": 1}, Const: -1, OK: true})
				d2 := lf.sub(linForm{Coef: map[string]int64{"n": 1, "k": -1}, Const: -1, OK: true})
				zero := func(l linForm) bool { return l.OK && l.Const == 0 && l.Coef["n"] == 0 && l.Coef["k"] == 0 }
				r.Check(key, zero(d1) || zero(d2), ia.Pos(), "for p <= 0 the sum of the k highest is cumulative[n-1] - cumulative[n-k-1]: index is "+lf.String()+" (a clamped or shifted index sums a different number of values than the reported count)")
			}
		})
		r.Check("index:sites", n >= 6, ft.Pos(), fmt.Sprintf("%d percentile index expressions", n))
		// mean = sum / float64(k)
		okMean := false
		eachInstr(ft, func(in ssa.Instruction) {
			if b, ok := in.(*ssa.BinOp); ok && b.Op == token.QUO {
				if cv, ok := b.Y.(*ssa.Convert); ok && atoms[cv.X] == "k" {
					if ph, ok := b.X.(*ssa.Phi); ok && ph.Comment == "sum" {
						okMean = true
					}
				}
			}
		})
		r.Check("mean:sum-over-rank", okMean, ft.Pos(), "mean_<p> = sum / float64(k)")
		// k == 0 omits the percentile
		okSkip := false
		eachInstr(ft, func(in ssa.Instruction) {
			if ifi, ok := in.(*ssa.If); ok {
				if b := asBinOp(ifi.Cond, token.EQL); b != nil && atoms[b.X] == "k" {
					if z, isC := constInt(b.Y); isC && z == 0 {
						// true edge goes back to the loop head without emitting
						le := leafEffects(ifi.Block().Succs[0], 0, ifi.Block().Succs[0])
						okSkip = !strings.Contains(le, "Percentiles).Set")
					}
				}
			}
		})
		r.Check("rank:zero-omits-percentile", okSkip, ft.Pos(), "k == 0 skips the percentile")
	})

	c.Rule("C08.R6", "standard deviation is computed from the deviations: StdDev = sqrt(sum((x - mean)^2) / count) accumulated over the values (the algebraically equal sum(x^2) - mean*sum(x) cancels catastrophically for values that are large relative to their spread and can turn negative -> NaN)", 3, func(r *Rule) {
		if ft == nil {
			r.Unresolved("Flush")
			return
		}
		n := 0
		for _, st := range fieldStores(ft, "Timer", "StdDev") {
			if k, isC := st.Val.(*ssa.Const); isC && k.Value != nil && k.Value.ExactString() == "0" {
				continue
			}
			n++
			sq, ok := st.Val.(*ssa.Call)
			if !ok || !isCall(sq, "math.Sqrt") {
				r.Fail("stddev:sqrt", st.Pos(), "StdDev is not a square root: "+exprString(st.Val, 0))
				continue
			}
			q := asBinOp(sq.Call.Args[0], token.QUO)
			if q == nil {
				r.Fail("stddev:mean-of-squares", st.Pos(), "the argument of Sqrt is not a quotient")
				continue
			}
			// the dividend: a loop accumulator of (v - mean) * (v - mean) with v an element of the values
			acc, isPhi := q.X.(*ssa.Phi)
			okAcc, why := false, "the dividend is not accumulated in a loop"
			if isPhi {
				// the edges of the accumulator, looking through the exit phi of a bottom-tested loop
				// (for i := range n: the value after the loop is phi(initial, sum) and the running sum is the
				// header's own phi)
				var edges []ssa.Value
				for _, e := range acc.Edges {
					if p2, ok := e.(*ssa.Phi); ok && p2 != acc {
						edges = append(edges, p2.Edges...)
					} else {
						edges = append(edges, e)
					}
				}
				for _, e := range edges {
					add := asBinOp(e, token.ADD)
					if add == nil {
						continue
					}
					carried := add.X == ssa.Value(acc)
					if hp, ok := add.X.(*ssa.Phi); ok && !carried {
						for _, he := range hp.Edges {
							if he == ssa.Value(add) {
								carried = true
							}
						}
					}
					if !carried {
						continue
					}
					mul := asBinOp(add.Y, token.MUL)
					if mul == nil {
						why = "the accumulated term is not a product"
						continue
					}
					dev := func(v ssa.Value) bool {
						d := asBinOp(v, token.SUB)
						if d == nil {
							return false
						}
						ld, ok := d.X.(*ssa.UnOp)
						if !ok || ld.Op != token.MUL {
							return false
						}
						ia, ok := ld.X.(*ssa.IndexAddr)
						if !ok || !(strings.HasSuffix(pathOf(ia.X), ".Values") || strings.HasSuffix(pathOf(ptrOrigin(ia.X)), ".Values")) {
							return false
						}
						// the subtrahend is the mean: the value stored into Timer.Mean, or Timer.Mean read back
						for _, ms := range fieldStores(ft, "Timer", "Mean") {
							if ms.Val == d.Y {
								return true
							}
						}
						if ml, ok := d.Y.(*ssa.UnOp); ok && ml.Op == token.MUL {
							if t, f, _, ok := fieldRef(ml.X); ok && t == "Timer" && f == "Mean" {
								return true
							}
						}
						return false
					}
					if dev(mul.X) && dev(mul.Y) {
						okAcc = true
					} else {
						why = "the accumulated term is not (value - mean) * (value - mean)"
					}
				}
			}
			r.Check("stddev:sum-of-squared-deviations", okAcc, st.Pos(), "Sqrt(sum((x-mean)^2)/count): "+why)
			cnt := stripConv(q.Y)
			okCnt := false
			if lc, isCl := cnt.(*ssa.Call); isCl && isCall(lc, "builtin len") && strings.HasSuffix(pathOf(lc.Call.Args[0]), ".Values") {
				okCnt = true
			}
			r.Check("stddev:divided-by-count", okCnt, st.Pos(), "the sum of squared deviations is divided by the number of values")
		}
		r.Check("stddev:site", n == 1, ft.Pos(), fmt.Sprintf("%d non-constant StdDev stores", n))
	})

	c.Rule("C08.R7", "totals: the reported Sum / SumSquares are the totals over all values (the last prefix sum, or an accumulator over the values) and Mean = Sum / count - not a value carried out of the percentile loop", 3, func(r *Rule) {
		if ft == nil {
			r.Unresolved("Flush")
			return
		}
		isValues := func(v ssa.Value) bool {
			for {
				sl, ok := v.(*ssa.Slice)
				if !ok {
					break
				}
				v = sl.X // a sub-slice of the values still holds values
			}
			return strings.HasSuffix(pathOf(v), ".Values") || strings.HasSuffix(pathOf(ptrOrigin(v)), ".Values")
		}
		// an element of the values: values[i] or the range value over (a sub-slice of) the values
		isElem := func(x ssa.Value) bool {
			x = ptrOrigin(x)
			if l, ok := x.(*ssa.UnOp); ok && l.Op == token.MUL {
				if a, ok := l.X.(*ssa.IndexAddr); ok && isValues(a.X) {
					return true
				}
			}
			if ex, ok := x.(*ssa.Extract); ok {
				if nx, ok := ex.Tuple.(*ssa.Next); ok {
					if rg, ok := nx.Iter.(*ssa.Range); ok && isValues(rg.X) {
						return true
					}
				}
			}
			return false
		}
		isCount := func(v ssa.Value) bool {
			lc, ok := stripConv(ptrOrigin(v)).(*ssa.Call)
			return ok && isCall(lc, "builtin len") && isValues(lc.Call.Args[0])
		}
		// total(v, sq): v is the sum over all values of x (sq=false) or x*x (sq=true)
		total := func(v ssa.Value, sq bool) (bool, string) {
			v = ptrOrigin(v)
			if ld, ok := v.(*ssa.UnOp); ok && ld.Op == token.MUL {
				// S[n-1], or S[n-1].f for a slice of running-total structs
				field := -1
				addr := ld.X
				if fa, isFA := addr.(*ssa.FieldAddr); isFA {
					field = fa.Field
					addr = fa.X
				}
				ia, ok := addr.(*ssa.IndexAddr)
				if !ok {
					return false, "not an element of a prefix-sum slice: " + exprString(v, 0)
				}
				if _, isMk := ptrOrigin(ia.X).(*ssa.MakeSlice); !isMk {
					return false, "the slice is not a local prefix-sum slice: " + pathOf(ia.X)
				}
				idx := asBinOp(ia.Index, token.SUB)
				if idx == nil || !isCount(idx.X) {
					return false, "the index is not len(values)-1: " + exprString(ia.Index, 0)
				}
				if k, isC := constInt(idx.Y); !isC || k != 1 {
					return false, "the index is not len(values)-1: " + exprString(ia.Index, 0)
				}
				// the slice holds prefix sums of x (resp. x*x): some store S[i](.f) = term + S[j](.f) (either order)
				okTerm := false
				sameSlice := func(x ssa.Value) bool { return ptrOrigin(x) == ptrOrigin(ia.X) }
				prevElem := func(prev ssa.Value) bool {
					pl, ok := prev.(*ssa.UnOp)
					if !ok || pl.Op != token.MUL {
						return false
					}
					pa := pl.X
					if field >= 0 {
						fa, isFA := pa.(*ssa.FieldAddr)
						if !isFA || fa.Field != field {
							return false
						}
						pa = fa.X
					}
					pia, ok := pa.(*ssa.IndexAddr)
					return ok && sameSlice(pia.X)
				}
				checkSum := func(val ssa.Value) {
					add := asBinOp(val, token.ADD)
					if add == nil {
						return
					}
					for _, pair := range [][2]ssa.Value{{add.X, add.Y}, {add.Y, add.X}} {
						term, prev := pair[0], pair[1]
						if !prevElem(prev) {
							continue
						}
						if !sq && isElem(term) {
							okTerm = true
						}
						if m := asBinOp(term, token.MUL); sq && m != nil && isElem(m.X) && isElem(m.Y) {
							okTerm = true
						}
					}
				}
				eachInstr(ft, func(in ssa.Instruction) {
					st, ok := in.(*ssa.Store)
					if !ok {
						return
					}
					da := st.Addr
					if fa, isFA := da.(*ssa.FieldAddr); isFA && field >= 0 && fa.Field == field {
						if dia, ok := fa.X.(*ssa.IndexAddr); ok && sameSlice(dia.X) {
							checkSum(st.Val)
						}
						return
					}
					dia, ok := da.(*ssa.IndexAddr)
					if !ok || !sameSlice(dia.X) {
						return
					}
					if field < 0 {
						checkSum(st.Val)
						return
					}
					// a whole running-total struct built in a literal and stored
					if wl, isLd := st.Val.(*ssa.UnOp); isLd && wl.Op == token.MUL {
						if tmp, isAl := wl.X.(*ssa.Alloc); isAl {
							for _, ref := range referrers(tmp) {
								if tf, ok := ref.(*ssa.FieldAddr); ok && tf.Field == field {
									for _, r2 := range referrers(tf) {
										if fs, ok := r2.(*ssa.Store); ok && fs.Addr == ssa.Value(tf) {
											checkSum(fs.Val)
										}
									}
								}
							}
						}
					}
				})
				if !okTerm {
					return false, "the slice is not filled with prefix sums of the values"
				}
				return true, "the last prefix sum"
			}
			if acc, ok := v.(*ssa.Phi); ok {
				for _, e := range acc.Edges {
					add := asBinOp(e, token.ADD)
					if add == nil || add.X != ssa.Value(acc) {
						continue
					}
					elem := isElem
					if !sq && elem(add.Y) {
						return true, "an accumulator over the values"
					}
					if m := asBinOp(add.Y, token.MUL); sq && m != nil && elem(m.X) && elem(m.Y) && m.X == m.Y {
						return true, "an accumulator over the squares"
					}
				}
				return false, "carried around a loop that does not accumulate the values: " + exprString(v, 0)
			}
			return false, "neither the last prefix sum nor an accumulator: " + exprString(v, 0)
		}
		nonConst := func(field string) []*ssa.Store {
			var out []*ssa.Store
			for _, st := range fieldStores(ft, "Timer", field) {
				if k, isC := st.Val.(*ssa.Const); isC && k.Value != nil {
					continue
				}
				out = append(out, st)
			}
			return out
		}
		var sumVals []ssa.Value
		for _, f := range []struct {
			name string
			sq   bool
		}{{"Sum", false}, {"SumSquares", true}} {
			sts := nonConst(f.name)
			r.Check("totals:"+f.name+":site", len(sts) == 1, ft.Pos(), fmt.Sprintf("%d non-constant stores of Timer.%s", len(sts), f.name))
			for _, st := range sts {
				ok, why := total(st.Val, f.sq)
				r.Check("totals:"+f.name, ok, st.Pos(), "Timer."+f.name+" is "+why)
				if !f.sq {
					sumVals = append(sumVals, ptrOrigin(st.Val))
				}
			}
		}
		for _, st := range nonConst("Mean") {
			q := asBinOp(ptrOrigin(st.Val), token.QUO)
			ok := false
			if q != nil && isCount(q.Y) {
				if t, _ := total(q.X, false); t {
					ok = true
				}
				// Timer.Sum read back (its own store is checked above)
				if ld, isLd := ptrOrigin(q.X).(*ssa.UnOp); isLd && ld.Op == token.MUL {
					if t, f, _, isF := fieldRef(ld.X); isF && t == "Timer" && f == "Sum" {
						ok = true
					}
				}
			}
			r.Check("totals:Mean", ok, st.Pos(), "Timer.Mean = (sum of all values) / float64(len(values))")
		}
	})

	c.Rule("C08.R5", "count and rates: count = int(round(sampled count)), per-second = sampled count / interval seconds, counter rate = value / interval seconds; values are sorted before indexing", 6, func(r *Rule) {
		if fl == nil || ft == nil {
			r.Unresolved("Flush")
			return
		}
		for _, st := range fieldStores(ft, "Timer", "Count") {
			if k, isC := st.Val.(*ssa.Const); isC && k.Value.ExactString() == "0" {
				continue
			}
			es := exprString(st.Val, 0)
			r.Check("timer:count", strings.Contains(es, "round(timer.SampledCount)"), st.Pos(), "Count = int(round(timer.SampledCount)): "+es)
		}
		// the divisor: float64(flushInterval) / float64(time.Second), possibly kept in a local
		isIntervalSeconds := func(v ssa.Value) bool {
			b := asBinOp(ptrOrigin(v), token.QUO)
			if b == nil || paramIndex(fl, stripConv(ptrOrigin(b.X))) != 1 {
				return false
			}
			if n, isC := constInt(stripConv(b.Y)); isC && n == 1000000000 {
				return true
			}
			k, isC := b.Y.(*ssa.Const)
			return isC && k.Value != nil && (k.Value.ExactString() == "1000000000" || k.Value.String() == "1e+09")
		}
		for _, st := range fieldStores(ft, "Timer", "PerSecond") {
			if _, isC := st.Val.(*ssa.Const); isC {
				continue
			}
			b := asBinOp(st.Val, token.QUO)
			r.Check("timer:per-second", b != nil && strings.HasSuffix(pathOf(b.X), ".SampledCount") && isIntervalSeconds(b.Y), st.Pos(), "PerSecond = SampledCount / flushInSeconds")
		}
		fc := eachClosures(fl)["Counters"]
		if fc != nil {
			for _, st := range fieldStores(fc, "Counter", "PerSecond") {
				b := asBinOp(st.Val, token.QUO)
				r.Check("counter:per-second", b != nil && strings.HasSuffix(strings.TrimSuffix(pathOf(b.X), ")"), ".Value") && isIntervalSeconds(b.Y), st.Pos(), "PerSecond = float64(Value) / flushInSeconds")
			}
		}
		// flushInSeconds = float64(interval) / float64(time.Second)
		okFS := false
		for _, f := range WithAnon(fl) {
			eachInstr(f, func(in ssa.Instruction) {
				if v, ok := in.(ssa.Value); ok && asBinOp(v, token.QUO) != nil && isIntervalSeconds(v) {
					okFS = true
				}
			})
		}
		r.Check("interval-seconds", okFS, fl.Pos(), "flushInSeconds = float64(flushInterval) / float64(time.Second)")
		// sort before use
		var srt ssa.Instruction
		for _, cl := range callsIn(ft) {
			// sort.Float64s, slices.Sort (what sort.Float64s is implemented with) or sort.Sort(sort.Float64Slice(..)) on the values
			n := calleeName(cl)
			if (n == "sort.Float64s" || strings.HasPrefix(n, "slices.Sort[") || n == "slices.Sort") && len(cl.Common().Args) == 1 && strings.HasSuffix(pathOf(cl.Common().Args[0]), ".Values") {
				srt = cl
			}
		}
		okSort := srt != nil
		if srt != nil {
			eachInstr(ft, func(in ssa.Instruction) {
				if ia, ok := in.(*ssa.IndexAddr); ok && strings.HasSuffix(pathOf(ia.X), ".Values") && strings.Contains(ia.X.Type().String(), "float64") {
					if !instrDominates(srt, ia) {
						okSort = false
					}
				}
			})
		}
		r.Check("values-sorted-before-indexing", okSort, ft.Pos(), "sort.Float64s(timer.Values) dominates every indexed read of the values")
		// idle timers: count 0, no percentiles
		okIdle := false
		for _, st := range fieldStores(ft, "Timer", "Count") {
			if k, isC := st.Val.(*ssa.Const); isC && k.Value.ExactString() == "0" {
				okIdle = knownEmpty(factsAt(st.Block()), func(v ssa.Value) bool { return strings.HasSuffix(pathOf(v), ".Values") })
			}
		}
		r.Check("idle-timer-count-zero", okIdle, ft.Pos(), "a timer without values reports count 0")
	})
}

// percentileValueKind classifies the value handed to Percentiles.Set by what it is computed from, looking
// through the phis of the percentile loop and ignoring the initial values taken from Timer.Min / Timer.Max:
// "count" (a converted integer), "mean" (a quotient), "boundary" (an element of the values), "sum" /
// "sumSquares" (elements or differences of elements of the prefix-sum slice whose entries are sums of the
// values, resp. of their squares).
func percentileValueKind(ft *ssa.Function, v ssa.Value) string {
	isValues := func(x ssa.Value) bool {
		for {
			sl, ok := x.(*ssa.Slice)
			if !ok {
				break
			}
			x = sl.X
		}
		return strings.HasSuffix(pathOf(x), ".Values") || strings.HasSuffix(pathOf(ptrOrigin(x)), ".Values")
	}
	elemOfValues := func(x ssa.Value) bool {
		if l, ok := ptrOrigin(x).(*ssa.UnOp); ok && l.Op == token.MUL {
			if a, ok := l.X.(*ssa.IndexAddr); ok && isValues(a.X) {
				return true
			}
		}
		return false
	}
	// squares[S]: the local slice S is filled with term = x*x (true) or term = x (false)
	prefixKind := func(S ssa.Value, field int) string {
		kind := ""
		eachInstr(ft, func(in ssa.Instruction) {
			st, ok := in.(*ssa.Store)
			if !ok {
				return
			}
			check := func(val ssa.Value) {
				add := asBinOp(val, token.ADD)
				if add == nil {
					return
				}
				for _, t := range []ssa.Value{add.X, add.Y} {
					if m := asBinOp(t, token.MUL); m != nil && elemOfValues(m.X) && elemOfValues(m.Y) {
						kind = "sumSquares"
					} else if elemOfValues(t) && kind == "" {
						kind = "sum"
					}
				}
			}
			da := st.Addr
			if fa, isFA := da.(*ssa.FieldAddr); isFA {
				if field >= 0 && fa.Field == field {
					if ia, ok := fa.X.(*ssa.IndexAddr); ok && ptrOrigin(ia.X) == S {
						check(st.Val)
					}
				}
				return
			}
			ia, ok := da.(*ssa.IndexAddr)
			if !ok || ptrOrigin(ia.X) != S {
				return
			}
			if field < 0 {
				check(st.Val)
				return
			}
			if wl, isLd := st.Val.(*ssa.UnOp); isLd && wl.Op == token.MUL {
				if tmp, isAl := wl.X.(*ssa.Alloc); isAl {
					for _, ref := range referrers(tmp) {
						if tf, ok := ref.(*ssa.FieldAddr); ok && tf.Field == field {
							for _, r2 := range referrers(tf) {
								if fs, ok := r2.(*ssa.Store); ok && fs.Addr == ssa.Value(tf) {
									check(fs.Val)
								}
							}
						}
					}
				}
			}
		})
		return kind
	}
	if cv, ok := v.(*ssa.Convert); ok {
		if isIntType(cv.X.Type()) {
			return "count"
		}
		v = cv.X
	}
	kinds := map[string]bool{}
	seen := map[ssa.Value]bool{}
	var leaf func(x ssa.Value, d int)
	leaf = func(x ssa.Value, d int) {
		if d > 8 || seen[x] {
			return
		}
		seen[x] = true
		x = ptrOrigin(x)
		switch y := x.(type) {
		case *ssa.Phi:
			for _, e := range y.Edges {
				leaf(e, d+1)
			}
			return
		case *ssa.Const:
			return // a constant says nothing about which statistic this is (skipped percentiles, initial values)
		case *ssa.BinOp:
			switch y.Op {
			case token.QUO:
				kinds["mean"] = true
				return
			case token.SUB:
				leaf(y.X, d+1)
				leaf(y.Y, d+1)
				return
			case token.MUL:
				return // Min*Min: an initial value
			}
		case *ssa.UnOp:
			if y.Op == token.MUL {
				addr := y.X
				field := -1
				if fa, ok := addr.(*ssa.FieldAddr); ok {
					if ia, ok := fa.X.(*ssa.IndexAddr); ok {
						field = fa.Field
						addr = ia
					} else {
						return // a field of the timer (Min / Max): an initial value
					}
				}
				if ia, ok := addr.(*ssa.IndexAddr); ok {
					if isValues(ia.X) {
						kinds["boundary"] = true
						return
					}
					if mk, isMk := ptrOrigin(ia.X).(*ssa.MakeSlice); isMk {
						if k := prefixKind(mk, field); k != "" {
							kinds[k] = true
							return
						}
					}
				}
			}
		}
		kinds["?"] = true
	}
	leaf(v, 0)
	if len(kinds) == 1 {
		for k := range kinds {
			return k
		}
	}
	var ks []string
	for k := range kinds {
		ks = append(ks, k)
	}
	sort.Strings(ks)
	return "mixture " + strings.Join(ks, "+")
}
