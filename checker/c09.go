package main

import (
	"fmt"
	"go/token"
	"go/types"
	"os"
	"regexp"
	"sort"
	"strings"

	"golang.org/x/tools/go/ssa"
)

func init() { register("C09", c09) }

var stems = []string{"Counter", "Gauge", "Set", "Timer"}

// exprString renders a value including call arguments (for stem matching).
func exprString(v ssa.Value, d int) string {
	if d > 6 {
		return "…"
	}
	switch x := v.(type) {
	case *ssa.Call:
		var as []string
		for _, a := range x.Call.Args {
			as = append(as, exprString(a, d+1))
		}
		return shortCallee(x) + "(" + strings.Join(as, ",") + ")"
	case *ssa.UnOp:
		if x.Op == token.MUL {
			return exprString(x.X, d+1)
		}
	case *ssa.ChangeType:
		return exprString(x.X, d+1)
	case *ssa.Convert:
		return exprString(x.X, d+1)
	case *ssa.MakeInterface:
		return exprString(x.X, d+1)
	case *ssa.Const:
		// name the constant if it is a declared package-level constant
		return constDeclName(x)
	}
	return pathOf(v)
}

// constDeclName: for string constants, return the literal; stems are matched on the literal
// with dashes removed ("expiry-interval-counter").
func constDeclName(c *ssa.Const) string {
	if c.Value == nil {
		return "nil"
	}
	return c.Value.ExactString()
}

func normStem(s string) string {
	s = strings.ToLower(s)
	s = strings.NewReplacer("-", "", "_", "", " ", "").Replace(s)
	return s
}

// stemOf returns the metric-type stem contained in an expiry-interval name, or "".
func stemOf(name string) string {
	n := normStem(name)
	i := strings.Index(n, "expiryinterval")
	if i < 0 {
		return ""
	}
	rest := n[i+len("expiryinterval"):]
	for _, s := range stems {
		if strings.HasPrefix(rest, strings.ToLower(s)) {
			return s
		}
	}
	return ""
}

// allStemsIn lists every expiry stem mentioned in an expression string.
func allStemsIn(expr string) []string {
	n := normStem(expr)
	var out []string
	for {
		i := strings.Index(n, "expiryinterval")
		if i < 0 {
			break
		}
		n = n[i+len("expiryinterval"):]
		for _, s := range stems {
			if strings.HasPrefix(n, strings.ToLower(s)) {
				out = append(out, s)
			}
		}
	}
	return out
}

// retCase is one (path condition, result) pair of a boolean function.
type retCase struct {
	Conds []Cond
	Val   ssa.Value
}

func returnCases(fn *ssa.Function) []retCase {
	var out []retCase
	var expand func(v ssa.Value, conds []Cond, blk *ssa.BasicBlock, depth int)
	expand = func(v ssa.Value, conds []Cond, blk *ssa.BasicBlock, depth int) {
		if ph, ok := v.(*ssa.Phi); ok && depth < 6 {
			for i, e := range ph.Edges {
				pred := ph.Block().Preds[i]
				cs := append([]Cond{}, condsFor(pred)...)
				// the edge itself may carry a condition
				if len(pred.Instrs) > 0 {
					if ifi, ok := pred.Instrs[len(pred.Instrs)-1].(*ssa.If); ok {
						cs = append(cs, Cond{ifi.Cond, pred.Succs[0] == ph.Block(), ifi})
					}
				}
				expand(e, cs, pred, depth+1)
			}
			return
		}
		out = append(out, retCase{conds, v})
	}
	eachInstr(fn, func(in ssa.Instruction) {
		if rt, ok := in.(*ssa.Return); ok && len(rt.Results) == 1 {
			expand(rt.Results[0], condsFor(rt.Block()), rt.Block(), 0)
		}
	})
	return out
}

// deleteMetricRoles: which parameter of deleteMetric is the metric name (first argument of
// DeleteChild), which the tags key (second argument) and which the collection (the receiver of
// DeleteChild); -1 when the body does not tell.
func deleteMetricRoles(w *World) (key, tags, coll int) {
	key, tags, coll = -1, -1, -1
	dm := w.Func("pkg/statsd", "deleteMetric")
	if dm == nil {
		return
	}
	for _, call := range callsIn(dm) {
		cc := call.Common()
		if cc.IsInvoke() && cc.Method.Name() == "DeleteChild" && len(cc.Args) == 2 {
			key, tags, coll = paramIndex(dm, cc.Args[0]), paramIndex(dm, cc.Args[1]), paramIndex(dm, cc.Value)
		}
	}
	if key < 0 || tags < 0 || coll < 0 {
		return -1, -1, -1
	}
	return
}

func c09(c *Ctx) {
	w := c.W
	c.Explanation = "C09 (series persist until their type's expiry interval elapses): the wiring of each metric type to its own expiry interval from configuration to Reset, the shape of isExpired (interval != 0 && now - ts > interval, strict), deletion only on the expired edge inside Reset, Reset keeping identity incl. Timestamp and leaving gauges untouched, timestamps only raised by merges, and agreement of the four AggregatedMetrics implementations."
	c.NotDecided = []string{"behaviour over multi-flush histories as such (follows from R1-R6 plus C01.R2 by the argument in DESIGN.md section 5 C09)", "clock behaviour"}

	c.Rule("C09.R1", "type <-> interval wiring: every expiry-interval field, parameter and config key is connected to the same metric-type stem", 20, func(r *Rule) {
		// parameters that are stored directly into an expiry-interval field take that field's stem
		// (whatever the parameter is called); their call sites are checked in (2)
		paramStem := map[*ssa.Parameter]string{}
		for _, fn := range w.ModuleFuncs() {
			for _, st := range storesIn(fn) {
				if _, f, _, ok := fieldRef(st.Addr); ok && stemOf(f) != "" {
					if p, isP := stripConvVal(st.Val).(*ssa.Parameter); isP && p.Parent() == fn {
						if old, dup := paramStem[p]; dup && old != stemOf(f) {
							paramStem[p] = "?"
						} else {
							paramStem[p] = stemOf(f)
						}
					}
				}
			}
		}
		for _, fn := range w.ModuleFuncs() {
			pp := fnPkgPath(fn)
			if strings.Contains(pp, "/internal/fixtures") || strings.HasSuffix(pp, "/cmd/tester") || strings.HasSuffix(pp, "/cmd/loader") {
				continue
			}
			// (1) field stores
			for _, st := range storesIn(fn) {
				_, f, _, ok := fieldRef(st.Addr)
				if !ok {
					continue
				}
				stem := stemOf(f)
				if stem == "" {
					continue
				}
				c.SawFunc(FuncName(fn))
				es := exprString(st.Val, 0)
				got := allStemsIn(es)
				if p, isP := stripConvVal(st.Val).(*ssa.Parameter); isP && paramStem[p] == stem {
					// wired through the parameter: what is passed for it is checked at the call sites
					r.Check(FuncName(fn)+":store:"+f, true, st.Pos(), fmt.Sprintf("field %s <- parameter %s", f, p.Name()))
					continue
				}
				r.Check(FuncName(fn)+":store:"+f, len(got) >= 1 && allEq(got, stem), st.Pos(), fmt.Sprintf("field %s <- %s (stems %v)", f, es, got))
			}
			// (2) call arguments bound to parameters named *ExpiryInterval<Stem>
			for _, call := range callsIn(fn) {
				cal := staticCallee(call)
				if cal == nil || !IsModule(cal) {
					continue
				}
				args := call.Common().Args
				for i, p := range cal.Params {
					stem := paramStem[p]
					if stem == "" {
						stem = stemOf(p.Name())
					}
					if stem == "" || i >= len(args) {
						continue
					}
					c.SawFunc(FuncName(fn))
					es := exprString(args[i], 0)
					got := allStemsIn(es)
					r.Check(FuncName(fn)+":arg:"+cal.Name()+"."+p.Name(), len(got) >= 1 && allEq(got, stem), call.Pos(), fmt.Sprintf("parameter %s <- %s (stems %v)", p.Name(), es, got))
				}
				// SetDefault(ParamExpiryIntervalX, ...) style: first arg names a stem; nothing to compare against
			}
		}
		// (3) Reset closures: isExpired(a.expiryInterval<T>, nowNano, elem.Timestamp); deleteMetric(..., a.metricMap.<T>s)
		fn := w.Func("pkg/statsd", "(*MetricAggregator).Reset")
		if fn == nil {
			r.Unresolved("(*MetricAggregator).Reset")
			return
		}
		cls := eachClosures(fn)
		for _, F := range mmFields {
			cl := cls[F]
			T := strings.TrimSuffix(F, "s")
			if cl == nil {
				r.Fail("Reset:"+F, fn.Pos(), "no closure over "+F)
				continue
			}
			calls := callsTo(cl, "pkg/statsd.isExpired")
			r.Check("Reset:"+F+":isExpired-once", len(calls) == 1, cl.Pos(), fmt.Sprintf("%d isExpired calls", len(calls)))
			for _, call := range calls {
				a := call.Common().Args
				p0 := pathOf(a[0])
				r.Check("Reset:"+F+":interval", stemOf(p0) == T && strings.HasPrefix(p0, "a."), call.Pos(), "interval argument "+p0+" for "+F)
				nowES := exprString(ptrOrigin(a[1]), 0)
				r.Check("Reset:"+F+":now", strings.Contains(nowES, "UnixNano") && strings.Contains(nowES, ".now"), call.Pos(), "now argument "+pathOf(a[1])+" = "+nowES)
				okTs := false
				if u, ok := a[2].(*ssa.UnOp); ok {
					if _, f, base, ok := fieldRef(u.X); ok && f == "Timestamp" {
						if al, ok := base.(*ssa.Alloc); ok && isParamSpill(cl, al, 2) {
							okTs = true
						}
					}
				}
				r.Check("Reset:"+F+":ts", okTs, call.Pos(), "timestamp argument "+pathOf(a[2])+" must be the iterated element's Timestamp")
			}
			for _, call := range callsTo(cl, "pkg/statsd.deleteMetric") {
				a := call.Common().Args
				kI, tI, cI := deleteMetricRoles(w)
				if kI < 0 || kI >= len(a) || tI >= len(a) || cI >= len(a) {
					r.Fail("Reset:"+F+":delete-keys", call.Pos(), "the roles of deleteMetric's parameters cannot be told from its body")
					continue
				}
				ls := loadsOf(a[cI])
				r.Check("Reset:"+F+":delete-collection", len(ls) == 1 && ls[0].F == F && strings.HasSuffix(ls[0].Base, "metricMap"), call.Pos(), "deleteMetric on "+pathOf(a[cI]))
				r.Check("Reset:"+F+":delete-keys", paramIndex(cl, a[kI]) == 0 && paramIndex(cl, a[tI]) == 1, call.Pos(), "deleteMetric(key="+pathOf(a[kI])+", tagsKey="+pathOf(a[tI])+")")
			}
		}
		// nowNano derives from a.now()
		// the clock is read once, in Reset itself (not per series)
		nNow := 0
		eachInstr(fn, func(in ssa.Instruction) {
			if cl, ok := in.(*ssa.Call); ok {
				es := exprString(cl, 0)
				if strings.Contains(shortCallee(cl), "UnixNano") && strings.Contains(es, ".now") {
					nNow++
				}
			}
		})
		okNow := nNow == 1
		r.Check("Reset:now-source", okNow, fn.Pos(), "nowNano = a.now().UnixNano()")
	})

	c.Rule("C09.R2", "isExpired == (interval != 0 && now - ts > interval), strict, in any mirrored form", 3, func(r *Rule) {
		fn := w.Func("pkg/statsd", "isExpired")
		if fn == nil {
			r.Unresolved("pkg/statsd.isExpired")
			return
		}
		c.SawFunc(FuncName(fn))
		if len(fn.Params) != 3 {
			r.Fail("isExpired:signature", fn.Pos(), "expected (interval, now, ts)")
			return
		}
		// which parameter is which is read off the call sites in Reset: the interval is the aggregator's
		// expiryInterval<T> field, the timestamp the visited element's Timestamp, the third one the clock
		reset := w.Func("pkg/statsd", "(*MetricAggregator).Reset")
		iI, iT, iN := -1, -1, -1
		if reset != nil {
			for _, f := range WithAnon(reset) {
				for _, call := range callsIn(f) {
					if staticCallee(call) != fn {
						continue
					}
					for k, arg := range call.Common().Args {
						p := pathOf(arg)
						switch {
						case stemOf(p) != "":
							iI = k
						case strings.HasSuffix(p, ".Timestamp"):
							iT = k
						}
					}
				}
			}
		}
		if iI < 0 || iT < 0 || iI == iT {
			r.Fail("isExpired:roles", fn.Pos(), "cannot tell the interval and timestamp arguments of isExpired from its call sites in Reset")
			return
		}
		iN = 3 - iI - iT
		pi, pn, pt := fmt.Sprintf("p%d", iI), fmt.Sprintf("p%d", iN), fmt.Sprintf("p%d", iT)
		aZero := atomKey(pi, "0")
		aLate := pi + "<(" + pn + "-" + pt + ")" // interval < now - ts
		bad, unknown, impure := boolTable(fn, []string{aZero, aLate}, func(a map[string]bool) bool { return !a[aZero] && a[aLate] })
		r.Check("isExpired:pure", impure == "", fn.Pos(), "no side effects "+impure)
		r.Check("isExpired:only-known-conditions", len(unknown) == 0, fn.Pos(), "conditions consulted: interval == 0 and interval < now - ts (strict); others: "+strings.Join(unknown, "; "))
		r.Check("isExpired:decision-table", len(bad) == 0, fn.Pos(), "expired <=> interval != 0 && now - ts > interval (strict: a series is still reported at the first flush more than the interval after T, not at exactly the interval) "+strings.Join(bad, "; "))
	})

	c.Rule("C09.R3", "deletion only on expiry: series are removed from the aggregator only in Reset, on the true edge of isExpired", 6, func(r *Rule) {
		reset := w.Func("pkg/statsd", "(*MetricAggregator).Reset")
		dm := w.Func("pkg/statsd", "deleteMetric")
		if reset == nil || dm == nil {
			r.Unresolved("Reset / deleteMetric")
			return
		}
		inReset := map[*ssa.Function]bool{}
		for _, f := range WithAnon(reset) {
			inReset[f] = true
		}
		for _, fn := range w.ModuleFuncs() {
			if strings.Contains(fnPkgPath(fn), "/internal/fixtures") {
				continue
			}
			for _, call := range callsIn(fn) {
				if cal := staticCallee(call); cal != nil && (cal == dm || (dm != nil && cal.Origin() == dm)) {
					ok := inReset[fn]
					guarded := false
					for _, cd := range condsFor(call.Block()) {
						cd = normCond(cd)
						if cl, isCall := cd.V.(*ssa.Call); isCall && isCall2(cl, "pkg/statsd.isExpired") && cd.Sense {
							guarded = true
						}
					}
					r.Check("deleteMetric-caller:"+FuncName(fn), ok && guarded, call.Pos(), fmt.Sprintf("deleteMetric called in Reset=%v under isExpired()==true=%v", ok, guarded))
				}
				// interface deletes
				cc := call.Common()
				if cc.IsInvoke() && typeIs(cc.Value.Type(), "", "AggregatedMetrics") && (cc.Method.Name() == "Delete" || cc.Method.Name() == "DeleteChild") {
					r.Check("AggregatedMetrics."+cc.Method.Name()+"-caller:"+FuncName(fn), fn == dm, call.Pos(), "only deleteMetric removes through AggregatedMetrics")
				}
				// builtin delete on maps of aggregated types
				if b, isB := cc.Value.(*ssa.Builtin); isB && b.Name() == "delete" && len(cc.Args) > 0 {
					if mt, ok := cc.Args[0].Type().Underlying().(*types.Map); ok {
						isAgg := isAggType(mt.Elem()) != ""
						if im, ok := mt.Elem().Underlying().(*types.Map); ok && isAggType(im.Elem()) != "" {
							isAgg = true
						}
						if isAgg {
							okSite := fn.Signature.Recv() != nil && (fn.Name() == "Delete" || fn.Name() == "DeleteChild") && fnPkgPath(fn) == Mod
							// ... or inside deleteMetric itself (written over the maps directly, e.g. as a generic function):
							// its callers are held to "only in Reset, under isExpired" above
							if dm != nil && (fn == dm || fn.Origin() == dm) {
								okSite = true
							}
							r.Check("builtin-delete:"+FuncName(fn), okSite, call.Pos(), "delete() on an aggregate map only inside the Delete/DeleteChild methods of the collection types")
						}
					}
				}
			}
		}
		// deleteMetric: DeleteChild(key,tagsKey); if !HasChildren(key) { Delete(key) }
		var dc, hc, dl ssa.CallInstruction
		for _, call := range callsIn(dm) {
			if call.Common().IsInvoke() {
				switch call.Common().Method.Name() {
				case "DeleteChild":
					dc = call
				case "HasChildren":
					hc = call
				case "Delete":
					dl = call
				}
			}
		}
		if dc == nil || hc == nil || dl == nil {
			// the same written over the maps directly: byTags := m[key]; delete(byTags, tagsKey); if len(byTags) == 0 { delete(m, key) }
			var inner, outer ssa.CallInstruction
			for _, call := range callsTo(dm, "builtin delete") {
				a := call.Common().Args
				if lk, ok := a[0].(*ssa.Lookup); ok && paramIndex(dm, lk.X) == 2 && paramIndex(dm, lk.Index) == 0 && paramIndex(dm, a[1]) == 1 {
					inner = call
				} else if paramIndex(dm, a[0]) == 2 && paramIndex(dm, a[1]) == 0 {
					outer = call
				}
			}
			okDirect := inner != nil && outer != nil && len(callsTo(dm, "builtin delete")) == 2 && instrDominates(inner, outer)
			if okDirect {
				isLenOfChildren := func(v ssa.Value) bool {
					cl, ok := v.(*ssa.Call)
					if !ok || !isCall(cl, "builtin len") {
						return false
					}
					lk, ok := cl.Call.Args[0].(*ssa.Lookup)
					return ok && paramIndex(dm, lk.X) == 2 && paramIndex(dm, lk.Index) == 0
				}
				okDirect = cmpHolds(factsAt(outer.Block()), isLenOfChildren, func(v ssa.Value) bool { k, ok := constInt(v); return ok && k == 0 }, token.EQL)
			}
			if !okDirect {
				r.Fail("deleteMetric:shape", dm.Pos(), "deleteMetric must call DeleteChild, HasChildren and Delete (or delete the series from m[key] and then m[key] itself only when it has become empty)")
				return
			}
			r.Check("deleteMetric:child-keys", true, inner.Pos(), "delete(m[key], tagsKey) with the function's own key parameters")
			r.Check("deleteMetric:order", true, outer.Pos(), "the series is removed before the name is tested for being empty")
			r.Check("deleteMetric:parent-only-when-empty", true, outer.Pos(), "delete(m, key) only under len(m[key]) == 0")
			return
		}
		kI, tI, _ := deleteMetricRoles(w)
		r.Check("deleteMetric:child-keys", kI >= 0 && tI >= 0 && kI != tI, dc.Pos(), "DeleteChild(key, tagsKey) with two distinct string parameters")
		r.Check("deleteMetric:order", instrDominates(dc, hc), hc.Pos(), "DeleteChild precedes HasChildren")
		guardOK := false
		for _, cd := range condsFor(dl.Block()) {
			cd = normCond(cd)
			if cd.V == hc.(ssa.Value) && !cd.Sense {
				guardOK = true
			}
		}
		r.Check("deleteMetric:delete-only-when-empty", guardOK && kI >= 0 && paramIndex(dm, dl.Common().Args[0]) == kI && paramIndex(dm, hc.Common().Args[0]) == kI, dl.Pos(), "Delete(key) only when !HasChildren(key)")
	})

	c.Rule("C09.R3b", "expiry is tested for every series: in each Reset closure the isExpired call dominates every return and every write into the map (no series skips the test)", 4, func(r *Rule) {
		reset := w.Func("pkg/statsd", "(*MetricAggregator).Reset")
		if reset == nil {
			r.Unresolved("(*MetricAggregator).Reset")
			return
		}
		cls := eachClosures(reset)
		for _, F := range mmFields {
			cl := cls[F]
			if cl == nil {
				r.Fail("Reset:"+F+":tested", reset.Pos(), "no closure over "+F)
				continue
			}
			calls := callsTo(cl, "pkg/statsd.isExpired")
			if len(calls) != 1 {
				r.Fail("Reset:"+F+":tested", cl.Pos(), fmt.Sprintf("%d isExpired calls", len(calls)))
				continue
			}
			ic := calls[0].(ssa.Instruction)
			bad := ""
			eachInstr(cl, func(in ssa.Instruction) {
				switch in.(type) {
				case *ssa.Return, *ssa.MapUpdate:
					if !instrDominates(ic, in) {
						bad = w.Prog.Fset.Position(in.Pos()).String()
						if bad == "-" || bad == "" {
							bad = fmt.Sprintf("block %d", in.Block().Index)
						}
					}
				}
			})
			r.Check("Reset:"+F+":tested", bad == "", cl.Pos(), "isExpired is evaluated before every return / map write of the "+F+" closure"+map[bool]string{true: "", false: " (not before " + bad + ")"}[bad == ""])
		}
	})

	c.Rule("C09.R8", "T is the arrival time: the timestamp that starts a series' expiry interval is read after the datagram was received, not before the receiver started waiting for it (C05.R4's receive-time obligations, shared)", 2, func(r *Rule) {
		importObligations(c, r, c05, "C05.R4", func(k string) bool { return strings.HasPrefix(k, "Receive:timestamp") || strings.HasPrefix(k, "timestamp:") })
	})

	c.Rule("C09.R7", "the per-type expiry defaults are taken from expiry-interval only after every configuration source was loaded (no config-file read / flag parse can follow the SetDefault(expiry-interval-<type>, GetDuration(expiry-interval)) calls)", 5, func(r *Rule) {
		var fns []*ssa.Function
		for _, fn := range w.ModuleFuncs() {
			if fnPkgPath(fn) == Mod+"/cmd/gostatsd" {
				fns = append(fns, fn)
			}
		}
		// defaultKeys: the expiry-interval-<type> keys a SetDefault call sets (one constant key, or every
		// entry of a constant table when the call stands in a loop over it)
		defaultKeys := func(call ssa.CallInstruction) []string {
			if !strings.HasSuffix(calleeName(call), "Viper).SetDefault") {
				return nil
			}
			a := callArgs(call)
			if len(a) < 2 {
				return nil
			}
			var keys []string
			if k, ok := constString(a[0]); ok {
				keys = []string{k}
			} else if tab, ok := stringTableElems(w, a[0]); ok {
				keys = tab
			} else if os.Getenv("GSD_DEBUG") != "" {
				fmt.Printf("DEBUG SetDefault key %T %s\n", a[0], pathOf(a[0]))
			}
			var out []string
			for _, k := range keys {
				if strings.HasPrefix(k, "expiry-interval-") {
					out = append(out, k)
				}
			}
			return out
		}
		isDefault := func(call ssa.CallInstruction) (string, bool) {
			ks := defaultKeys(call)
			if len(ks) == 0 {
				return "", false
			}
			return strings.Join(ks, "+"), true
		}
		isLoader := func(call ssa.CallInstruction) bool {
			n := calleeName(call)
			for _, l := range []string{"Viper).ReadInConfig", "Viper).MergeInConfig", "Viper).ReadConfig", "Viper).MergeConfig", "FlagSet).Parse", "Viper).ReadRemoteConfig"} {
				if strings.HasSuffix(n, l) {
					return true
				}
			}
			return false
		}
		// per function: does it (transitively, through static module calls) reach a default / a loader?
		type reach struct{ def, load bool }
		memo := map[*ssa.Function]*reach{}
		var visit func(fn *ssa.Function) *reach
		visit = func(fn *ssa.Function) *reach {
			if m, ok := memo[fn]; ok {
				return m
			}
			m := &reach{}
			memo[fn] = m
			for _, f := range WithAnon(fn) {
				for _, call := range callsIn(f) {
					if _, ok := isDefault(call); ok {
						m.def = true
					}
					if isLoader(call) {
						m.load = true
					}
					if cal := staticCallee(call); cal != nil && IsModule(cal) {
						x := visit(cal)
						m.def = m.def || x.def
						m.load = m.load || x.load
					}
				}
			}
			return m
		}
		nDef, nLoad := 0, 0
		for _, fn := range fns {
			type site struct {
				in        ssa.Instruction
				def, load bool
			}
			var sites []site
			for _, call := range callsIn(fn) {
				st := site{in: call.(ssa.Instruction)}
				if _, ok := isDefault(call); ok {
					st.def = true
					nDef += len(defaultKeys(call))
					// the value is GetDuration("expiry-interval")
					es := exprString(callArgs(call)[1], 0)
					for _, k := range defaultKeys(call) {
						r.Check("default:"+k+":from-expiry-interval", strings.Contains(es, "GetDuration") && strings.Contains(es, "\"expiry-interval\""), call.Pos(), k+" defaults to "+es)
					}
				}
				if isLoader(call) {
					st.load = true
					nLoad++
				}
				if cal := staticCallee(call); cal != nil && IsModule(cal) {
					x := visit(cal)
					st.def = st.def || x.def
					st.load = st.load || x.load
				}
				if st.def || st.load {
					sites = append(sites, st)
				}
			}
			for _, d := range sites {
				if !d.def {
					continue
				}
				for _, l := range sites {
					if !l.load || l.in == d.in {
						continue
					}
					if instrReaches(d.in, l.in) {
						r.Fail(FuncName(fn)+":defaults-before-load", d.in.Pos(), "a configuration source is loaded at "+w.Prog.Fset.Position(l.in.Pos()).String()+" after the per-type expiry defaults were captured: an expiry-interval set there is ignored for every type")
					}
				}
			}
		}
		r.Check("defaults:four-types", nDef == 4, token.NoPos, fmt.Sprintf("%d SetDefault(expiry-interval-<type>) calls", nDef))
		r.Check("loaders:found", nLoad >= 1, token.NoPos, fmt.Sprintf("%d configuration loading calls (ReadInConfig / flag parse) in cmd/gostatsd", nLoad))
	})

	c.Rule("C09.R4", "Reset keeps identity fields incl. Timestamp, zeroes data, leaves gauges untouched (C01.R3)", 20, func(r *Rule) {
		resetRule(c, r)
	})

	c.Rule("C09.R5", "sibling agreement: Delete / DeleteChild / HasChildren / Each of Counters, Gauges, Timers, Sets are the same code modulo the element type", 16, func(r *Rule) {
		for _, m := range []string{"Delete", "DeleteChild", "HasChildren", "Each", "MetricsName"} {
			bodies := map[string]string{}
			for _, T := range mmFields {
				fn := w.Func("", T+"."+m)
				if fn == nil {
					r.Unresolved(T + "." + m)
					continue
				}
				c.SawFunc(FuncName(fn))
				bodies[T] = normBody(fn)
			}
			// majority body is the reference
			cnt := map[string]int{}
			for _, b := range bodies {
				cnt[b]++
			}
			ref, best := "", 0
			for b, n := range cnt {
				if n > best {
					ref, best = b, n
				}
			}
			var ts []string
			for T := range bodies {
				ts = append(ts, T)
			}
			sort.Strings(ts)
			for _, T := range ts {
				fn := w.Func("", T+"."+m)
				if m == "MetricsName" {
					// must return its own collection name
					ok := false
					eachInstr(fn, func(in ssa.Instruction) {
						if rt, isR := in.(*ssa.Return); isR && len(rt.Results) == 1 {
							if s, isS := constString(rt.Results[0]); isS && s == T {
								ok = true
							}
						}
					})
					r.Check(T+"."+m, ok, fn.Pos(), "MetricsName returns the collection's own name")
					continue
				}
				r.Check(T+"."+m, bodies[T] == ref && best >= 3, fn.Pos(), fmt.Sprintf("normalised body differs from the majority of its siblings:\n%s\n-- majority --\n%s", bodies[T], ref))
			}
		}
	})

	c.Rule("C09.R6", "a series' timestamp is the newest datapoint time: merges only raise it, and no datapoint is skipped (C07.R1-R4 timestamp obligations, C07.R5c)", 12, func(r *Rule) {
		sub := &Ctx{W: w, Prop: c.Prop, Tier: c.Tier, known: c.known}
		c07(sub)
		for _, sr := range sub.Rules {
			for _, o := range sr.Obls {
				// R5c: every datapoint is stored (one that is skipped neither creates its series nor moves its time)
				if strings.Contains(o.Key, "Timestamp") || sr.ID == "C07.R5c" {
					o2 := *o
					o2.Rule = "C09.R6"
					o2.Key = sr.ID + "/" + o.Key
					r.Obls = append(r.Obls, &o2)
				}
			}
		}
	})
}

func isCall2(c *ssa.Call, names ...string) bool { return isCall(c, names...) }

func allEq(xs []string, s string) bool {
	for _, x := range xs {
		if x != s {
			return false
		}
	}
	return true
}

var reTypeNames = regexp.MustCompile(`\b(Counter|Gauge|Timer|Set)(s?)\b`)
var rePkg = regexp.MustCompile(`github\.com/atlassian/gostatsd\.`)

// normBody renders a function's SSA with element/collection type names and parameter
// names abstracted, for sibling comparison.
func normBody(fn *ssa.Function) string {
	var sb strings.Builder
	ren := map[string]string{}
	for i, p := range fn.Params {
		ren[p.Name()] = fmt.Sprintf("p%d", i)
	}
	for _, b := range fn.Blocks {
		fmt.Fprintf(&sb, "b%d:\n", b.Index)
		for _, in := range b.Instrs {
			s := in.String()
			if v, ok := in.(ssa.Value); ok {
				s = v.Name() + " = " + s + " : " + v.Type().String()
			}
			s = rePkg.ReplaceAllString(s, "")
			s = reTypeNames.ReplaceAllString(s, "T$2")
			for from, to := range ren {
				s = regexp.MustCompile(`\b`+regexp.QuoteMeta(from)+`\b`).ReplaceAllString(s, to)
			}
			sb.WriteString("  " + s + "\n")
		}
	}
	return sb.String()
}
