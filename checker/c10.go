package main

import (
	"fmt"
	"go/token"
	"go/types"
	"strings"

	"golang.org/x/tools/go/ssa"
)

func init() { register("C10", c10) }

func c10(c *Ctx) {
	w := c.W
	const P = "pkg/statsd"
	c.Explanation = "C10 (static tags, de-duplication and filters): the pattern matcher applies the negation uniformly to exact / prefix / regex matches and parses '!', 'regex:' and trailing '*' as documented; a metric is dropped only after passing the three gates of a filter that has drop-metric; dropped tags and the host reset are recorded only for satisfied filters; every surviving metric goes through the unique-tags union with the static tags using a fresh per-metric scratch set; the tag stage always forwards the rebuilt map (never the input) and merges colliding series with the C07 merge rules."
	c.NotDecided = []string{"regular-expression semantics (package regexp)", "the full filter semantics over all pattern lists as an input/output relation"}

	c.Rule("C10.R1", "matcher: '!' inverts, 'regex:' selects a regex, trailing '*' a prefix with the star cut; every Match result is (match) != invert", 8, func(r *Rule) {
		ns := w.Func("", "NewStringMatch")
		mt := w.Func("", "StringMatch.Match")
		if ns == nil || mt == nil {
			r.Unresolved("gostatsd.NewStringMatch / StringMatch.Match")
			return
		}
		c.SawFunc(FuncName(ns))
		c.SawFunc(FuncName(mt))
		// Match: every return is BinOp NEQ (X, sm.invertMatch)
		n := 0
		kinds := map[string]bool{}
		isInv := func(v ssa.Value) bool { return strings.HasSuffix(pathOf(v), ".invertMatch") }
		classify := func(x ssa.Value) string {
			switch {
			case strings.Contains(exprString(x, 0), "MatchString"):
				return "regex"
			case strings.Contains(exprString(x, 0), "strings.HasPrefix"):
				return "prefix"
			case asBinOp(x, token.EQL) != nil:
				return "exact"
			}
			return "?"
		}
		var walkMatch func(x ssa.Value, pos token.Pos, d int)
		walkMatch = func(x ssa.Value, pos token.Pos, d int) {
			if ph, ok := x.(*ssa.Phi); ok && d < 6 {
				for _, e := range ph.Edges {
					walkMatch(e, pos, d+1)
				}
				return
			}
			n++
			what := classify(x)
			kinds[what] = true
			r.Check("Match:"+what+":inverted-uniformly", true, pos, "result is (<"+what+" match>) != sm.invertMatch")
		}
		var walkRet func(v ssa.Value, blk *ssa.BasicBlock)
		walkRet = func(v ssa.Value, blk *ssa.BasicBlock) {
			if ph, ok := v.(*ssa.Phi); ok {
				for i, e := range ph.Edges {
					walkRet(e, ph.Block().Preds[i])
				}
				return
			}
			b := asBinOp(v, token.NEQ)
			if b == nil || !(isInv(b.X) || isInv(b.Y)) {
				n++
				kinds["?"] = true
				r.Check("Match:?:inverted-uniformly", false, v.Pos(), "result "+pathOf(v)+" is not (<match>) != sm.invertMatch")
				return
			}
			x := b.X
			if isInv(b.X) {
				x = b.Y
			}
			walkMatch(x, v.Pos(), 0)
		}
		eachInstr(mt, func(in ssa.Instruction) {
			if rt, ok := in.(*ssa.Return); ok {
				walkRet(rt.Results[0], rt.Block())
			}
		})
		r.Check("Match:three-kinds", kinds["regex"] && kinds["prefix"] && kinds["exact"] && n == 3, mt.Pos(), fmt.Sprintf("match kinds %v", kinds))
		// selection: regex when sm.regex != nil, prefix when sm.prefixMatch, else exact
		for _, in := range callsIn(mt) {
			cs := strings.Join(condStrings(in.Block()), " && ")
			es := shortCallee(in)
			if strings.Contains(es, "MatchString") {
				r.Check("Match:regex-when-compiled", knownNonNil(factsAt(in.Block()), func(v ssa.Value) bool { return strings.HasSuffix(pathOf(v), ".regex") }), in.Pos(), cs)
			}
			if strings.Contains(es, "strings.HasPrefix") {
				fs := factsAt(in.Block())
				r.Check("Match:prefix-when-flagged", boolKnown(fs, func(v ssa.Value) bool { return strings.HasSuffix(pathOf(v), ".prefixMatch") }, true) && knownNil(fs, func(v ssa.Value) bool { return strings.HasSuffix(pathOf(v), ".regex") }), in.Pos(), cs)
				a := in.Common().Args
				r.Check("Match:prefix-args", paramIndex(mt, a[0]) == 1 && strings.HasSuffix(pathOf(a[1]), ".test"), in.Pos(), "strings.HasPrefix(s, sm.test)")
			}
		}
		// NewStringMatch: fields of the returned literal
		var lit map[string]ssa.Value
		var twoLits []*ssa.Alloc // the regex literal and the other one, when the regex case returns early
		if cs := complitsOf(ns, "StringMatch"); len(cs) == 1 {
			lit = cs[0]
		} else if len(cs) == 2 {
			var als []*ssa.Alloc
			eachInstr(ns, func(in ssa.Instruction) {
				if al, ok := in.(*ssa.Alloc); ok && al.Comment == "complit" && structName(al.Type()) == "StringMatch" {
					als = append(als, al)
				}
			})
			if len(als) == 2 {
				isCompile := func(v ssa.Value) bool {
					cl, ok := v.(*ssa.Call)
					return ok && isCall(cl, "regexp.MustCompile", "regexp.Compile")
				}
				f0, f1 := complitFields(als[0]), complitFields(als[1])
				if isCompile(f1["regex"]) {
					als[0], als[1], f0, f1 = als[1], als[0], f1, f0
				}
				// f0: the regex matcher; f1: the prefix / exact matcher (no regex)
				_, hasRe := f1["regex"]
				pm, hasPm := f0["prefixMatch"]
				pmFalse := !hasPm
				if k, isK := pm.(*ssa.Const); hasPm && isK && k.Value != nil && k.Value.ExactString() == "false" {
					pmFalse = true
				}
				if isCompile(f0["regex"]) && (!hasRe || isNilConst(f1["regex"])) && pmFalse && f0["invertMatch"] == f1["invertMatch"] && f0["invertMatch"] != nil {
					lit = map[string]ssa.Value{}
					for k, v := range f1 {
						lit[k] = v
					}
					lit["regex"] = f0["regex"]
					twoLits = als
				}
			}
		}
		if lit == nil {
			r.Fail("NewStringMatch:literal", ns.Pos(), "returned StringMatch literal not found")
			return
		}
		// fields assigned after the literal (sm := StringMatch{...}; sm.test = ...) belong to the same construction
		eachInstr(ns, func(in ssa.Instruction) {
			st, ok := in.(*ssa.Store)
			if !ok {
				return
			}
			if t, f, base, ok := fieldRef(st.Addr); ok && t == "StringMatch" {
				if al, isAl := base.(*ssa.Alloc); isAl && al.Comment != "complit" {
					if _, have := lit[f]; !have || isNilConst(lit[f]) {
						lit[f] = st.Val
					} else if cl, isCall := st.Val.(*ssa.Call); isCall && isCall2(cl, "regexp.MustCompile") {
						lit[f] = st.Val
					}
				}
			}
		})
		// idioms for "S has prefix/suffix lit" and "S without it" (HasPrefix+slice, CutPrefix, TrimPrefix, ...)
		litIs := func(v ssa.Value, lit string) bool { c, ok := constString(v); return ok && c == lit }
		prefixTest := func(v ssa.Value, lit string, suffix bool) (ssa.Value, bool) {
			has, cut := "strings.HasPrefix", "strings.CutPrefix"
			if suffix {
				has, cut = "strings.HasSuffix", "strings.CutSuffix"
			}
			switch x := v.(type) {
			case *ssa.Call:
				if isCall(x, has) && litIs(x.Call.Args[1], lit) {
					return x.Call.Args[0], true
				}
			case *ssa.Extract:
				if c, ok := x.Tuple.(*ssa.Call); ok && x.Index == 1 && isCall(c, cut) && litIs(c.Call.Args[1], lit) {
					return c.Call.Args[0], true
				}
			}
			return nil, false
		}
		// stripped: v is S with the prefix/suffix lit removed; guarded says whether that needs the test to have succeeded
		stripped := func(v ssa.Value, lit string, suffix bool) (src ssa.Value, needsGuard, ok bool) {
			cut, trim := "strings.CutPrefix", "strings.TrimPrefix"
			if suffix {
				cut, trim = "strings.CutSuffix", "strings.TrimSuffix"
			}
			switch x := v.(type) {
			case *ssa.Extract:
				if c, isC := x.Tuple.(*ssa.Call); isC && x.Index == 0 && isCall(c, cut) && litIs(c.Call.Args[1], lit) {
					return c.Call.Args[0], false, true
				}
			case *ssa.Call:
				if isCall(x, trim) && litIs(x.Call.Args[1], lit) {
					return x.Call.Args[0], false, true
				}
			case *ssa.Slice:
				if !suffix {
					if lo, isC := constInt(x.Low); isC && lo == int64(len(lit)) && x.High == nil {
						return x.X, true, true
					}
				} else if x.High != nil {
					if b := asBinOp(x.High, token.SUB); b != nil {
						if k, isC := constInt(b.Y); isC && k == int64(len(lit)) && strings.Contains(pathOf(b.X), "builtin len") {
							if lo, isL := constInt(x.Low); x.Low == nil || (isL && lo == 0) {
								return x.X, true, true
							}
						}
					}
				}
			}
			return nil, false, false
		}
		// testKnown: a fact at block b says the prefix/suffix test of lit is (want)
		testKnown := func(b *ssa.BasicBlock, lit string, suffix, want bool) bool {
			for _, f := range factsAt(b) {
				if f.Op == token.ILLEGAL {
					if _, ok := prefixTest(f.V, lit, suffix); ok && f.True == want {
						return true
					}
				}
			}
			return false
		}
		_, okInv := prefixTest(lit["invertMatch"], "!", false)
		r.Check("NewStringMatch:invert", okInv && func() bool { src, _ := prefixTest(lit["invertMatch"], "!", false); return paramIndex(ns, src) == 0 }(), ns.Pos(), "invertMatch = (the pattern starts with '!'): "+exprString(lit["invertMatch"], 0))
		// '!' is cut before the other prefixes are examined
		okCut := false
		eachInstr(ns, func(in ssa.Instruction) {
			v, isV := in.(ssa.Value)
			if !isV {
				return
			}
			if src, guard, ok := stripped(v, "!", false); ok && paramIndex(ns, src) == 0 {
				if !guard || testKnown(in.Block(), "!", false, true) {
					okCut = true
				}
			}
		})
		r.Check("NewStringMatch:cuts-bang", okCut, ns.Pos(), "the leading '!' is removed from the pattern")
		// regex: compiled from the text after "regex:"
		okRe := false
		for _, cl := range callsTo(ns, "regexp.MustCompile", "regexp.Compile") {
			if _, guard, ok := stripped(cl.Common().Args[0], "regex:", false); ok {
				if testKnown(cl.Block(), "regex:", false, true) || !guard && testKnown(cl.Block(), "regex:", false, true) {
					okRe = true
				}
			}
		}
		r.Check("NewStringMatch:regex-prefix", okRe, ns.Pos(), "patterns starting with 'regex:' compile the remainder")
		// prefix: trailing '*' cut, only when not a regex
		okPre := false
		eachInstr(ns, func(in ssa.Instruction) {
			v, isV := in.(ssa.Value)
			if !isV {
				return
			}
			if _, guard, ok := stripped(v, "*", true); ok {
				// the stripped pattern is computed (slice form) or used (Cut / Trim forms) where the pattern is known
				// to end in '*' and not to be a regex
				blocks := []*ssa.BasicBlock{in.Block()}
				if !guard {
					for _, ref := range referrers(v) {
						blocks = append(blocks, ref.Block())
						if ph, isPhi := ref.(*ssa.Phi); isPhi {
							for i, e := range ph.Edges {
								if e == v {
									blocks = append(blocks, ph.Block().Preds[i])
								}
							}
						}
					}
				}
				for _, b := range blocks {
					if testKnown(b, "*", true, true) && testKnown(b, "regex:", false, false) {
						okPre = true
					}
				}
				// Cut form: the pattern without a trailing '*' is taken unconditionally (it is the pattern itself
				// when there is none) and the "found" result of the same call is the prefix flag
				if ex, isEx := v.(*ssa.Extract); isEx && !guard && testKnown(in.Block(), "regex:", false, false) {
					if pf, isPf := lit["prefixMatch"].(*ssa.Extract); isPf && pf.Tuple == ex.Tuple && pf.Index == 1 {
						okPre = true
					}
				}
			}
		})
		r.Check("NewStringMatch:prefix-star", okPre, ns.Pos(), "a trailing '*' (on a non-regex pattern) selects prefix matching and is cut")
		// the fields are wired to the right locals
		derivesFrom := func(v ssa.Value, pred func(ssa.Value) bool) bool {
			seen := map[ssa.Value]bool{}
			var walk func(v ssa.Value, d int) bool
			walk = func(v ssa.Value, d int) bool {
				if v == nil || d > 8 || seen[v] {
					return false
				}
				seen[v] = true
				if pred(v) {
					return true
				}
				if ph, ok := v.(*ssa.Phi); ok {
					for _, e := range ph.Edges {
						if walk(e, d+1) {
							return true
						}
					}
				}
				return false
			}
			return walk(v, 0)
		}
		okFields := derivesFrom(lit["regex"], func(v ssa.Value) bool {
			cl, ok := v.(*ssa.Call)
			return ok && isCall(cl, "regexp.MustCompile", "regexp.Compile")
		}) && derivesFrom(lit["prefixMatch"], func(v ssa.Value) bool {
			if _, isTest := prefixTest(v, "*", true); isTest {
				return true
			}
			k, ok := v.(*ssa.Const)
			return ok && k.Value != nil && k.Value.String() == "true"
		}) && lit["test"] != nil
		// universally: whenever the pattern has the regex: prefix the regex field is the compiled pattern, otherwise nil
		okRegexField, whyRF := true, ""
		for _, vc := range valueCases(lit["regex"], nil) {
			isRegex, known := false, false
			for _, cd := range vc.Conds {
				f := canonOf(cd)
				if f.Op == token.ILLEGAL {
					if _, ok := prefixTest(f.V, "regex:", false); ok {
						isRegex, known = f.True, true
					}
				}
			}
			cl, isCompile := vc.V.(*ssa.Call)
			isCompile = isCompile && isCall(cl, "regexp.MustCompile", "regexp.Compile")
			switch {
			case known && isRegex && !isCompile:
				okRegexField, whyRF = false, "a pattern with the regex: prefix can end up with regex = "+pathOf(vc.V)
			case known && !isRegex && !isNilConst(vc.V):
				okRegexField, whyRF = false, "a pattern without the regex: prefix gets regex = "+pathOf(vc.V)
			case !known && !isCompile && !isNilConst(vc.V):
				okRegexField, whyRF = false, "regex = "+pathOf(vc.V)+" under conditions that do not mention the regex: prefix"
			case !known && isCompile:
				// the compile call itself is checked to be under the prefix test (regex-prefix above)
			}
		}
		if twoLits != nil {
			// two literals: the one with the compiled expression is built exactly where the pattern is known to
			// start with regex:, the one without exactly where it is known not to; the regex matcher's text is
			// what was compiled
			reFields := complitFields(twoLits[0])
			okSplit := testKnown(twoLits[0].Block(), "regex:", false, true) && testKnown(twoLits[1].Block(), "regex:", false, false)
			if cl, ok := reFields["regex"].(*ssa.Call); !ok || len(cl.Call.Args) != 1 || reFields["test"] != cl.Call.Args[0] {
				okSplit = false
			}
			if !okSplit {
				okRegexField, whyRF = false, "the two StringMatch literals are not separated by the regex: prefix test"
			}
		}
		r.Check("NewStringMatch:regex-field-iff-prefix", okRegexField, ns.Pos(), "regex is the compiled remainder exactly when the pattern starts with regex: "+whyRF)
		r.Check("NewStringMatch:fields", okFields, ns.Pos(), fmt.Sprintf("prefixMatch<-%s regex<-%s test<-%s", pathOf(lit["prefixMatch"]), pathOf(lit["regex"]), pathOf(lit["test"])))
		// MatchAny / MatchAnyMultiple: true iff some element matches, false for empty
		for _, nm := range []string{"StringMatchList.MatchAny", "StringMatchList.MatchAnyMultiple"} {
			fn := w.Func("", nm)
			if fn == nil {
				r.Unresolved(nm)
				continue
			}
			okT, okF := false, false
			eachInstr(fn, func(in ssa.Instruction) {
				if rt, ok := in.(*ssa.Return); ok {
					if k, ok := rt.Results[0].(*ssa.Const); ok {
						cs := strings.Join(condStrings(rt.Block()), " && ")
						if k.Value.ExactString() == "true" && callKnown(factsAt(rt.Block()), func(cl *ssa.Call) bool {
							cal := staticCallee(cl)
							return cal != nil && (cal.Name() == "Match" || cal.Name() == "MatchAny")
						}, true) {
							okT = true
						}
						if k.Value.ExactString() == "false" && strings.Contains(cs, "rangeindex") {
							okF = true
						}
					}
				}
			})
			// the same spelled slices.ContainsFunc(list, func(e) bool { return e.Match(..) / list.MatchAny(e) })
			eachInstr(fn, func(in ssa.Instruction) {
				rt, ok := in.(*ssa.Return)
				if !ok {
					return
				}
				cl, ok := rt.Results[0].(*ssa.Call)
				if !ok || !strings.HasPrefix(calleeName(cl), "slices.ContainsFunc") {
					return
				}
				var pred *ssa.Function
				switch f := cl.Call.Args[1].(type) {
				case *ssa.MakeClosure:
					pred, _ = f.Fn.(*ssa.Function)
				case *ssa.Function:
					pred = f
				}
				if pred == nil || len(pred.Blocks) != 1 {
					return
				}
				if pr, ok := pred.Blocks[0].Instrs[len(pred.Blocks[0].Instrs)-1].(*ssa.Return); ok {
					if mc, ok := pr.Results[0].(*ssa.Call); ok {
						if cal := staticCallee(mc); cal != nil && (cal.Name() == "Match" || cal.Name() == "MatchAny") {
							okT, okF = true, true
						}
					}
				}
			})
			// the same with a result variable: every way the returned value becomes true is a true Match / MatchAny
			// result (the constant true under such a fact, or the call's result itself, assigned only while the
			// variable is still false), and it starts out false
			if !(okT && okF) {
				isMatch := func(cl *ssa.Call) bool {
					cal := staticCallee(cl)
					return cal != nil && (cal.Name() == "Match" || cal.Name() == "MatchAny")
				}
				good, sawFalse, sawTrue := true, false, false
				eachInstr(fn, func(in ssa.Instruction) {
					rt, ok := in.(*ssa.Return)
					if !ok || len(rt.Results) != 1 {
						return
					}
					for _, vc := range valueCases(rt.Results[0], rt.Block()) {
						var cf []canonCond
						for _, cd := range vc.Conds {
							cf = append(cf, canonOf(cd))
						}
						switch x := vc.V.(type) {
						case *ssa.Const:
							if x.Value != nil && x.Value.ExactString() == "true" {
								if callKnown(cf, isMatch, true) {
									sawTrue = true
								} else {
									good = false
								}
							} else {
								sawFalse = true
							}
						case *ssa.Call:
							stillFalse := boolKnown(cf, func(v ssa.Value) bool { _, isPhi := v.(*ssa.Phi); return isPhi && isBoolType(v.Type()) }, false)
							if isMatch(x) && stillFalse {
								sawTrue = true
							} else {
								good = false
							}
						default:
							good = false
						}
					}
				})
				if good && sawFalse && sawTrue {
					okT, okF = true, true
				}
			}
			r.Check(nm+":any-semantics", okT && okF, fn.Pos(), "returns true on the first matching element, false after the loop (hence false for an empty list)")
		}
	})

	uf := w.Func(P, "(*TagHandler).uniqueFilterAndAddTags")

	c.Rule("C10.R2", "gates: drop-metric, drop-tags and drop-host act only for a filter whose match-metrics / exclude-metrics / match-tags conditions are satisfied", 6, func(r *Rule) {
		if uf == nil {
			r.Unresolved("(*TagHandler).uniqueFilterAndAddTags")
			return
		}
		c.SawFunc(FuncName(uf))
		// gate facts that must hold at an action: for each of the three lists: (len==0 or matched as required)
		gateOK := func(b *ssa.BasicBlock) (bool, string) {
			cs := condStrings(b)
			js := strings.Join(cs, " && ")
			// A block after the gates satisfies: NOT(len(MatchMetrics)>0 && !MatchAny) , NOT(ExcludeMetrics.MatchAny), NOT(len(MatchTags)>0 && !MatchAnyMultiple)
			// In dominator facts this appears either as the MatchAny call being true or the len test being false; because the
			// three `continue`s merge, dominance only guarantees the last gate's facts; so instead check reachability:
			return true, js
		}
		_ = gateOK
		// structural check: the three gate tests precede the actions in the loop body and each failing gate jumps to the loop head
		var next *ssa.BasicBlock
		eachInstr(uf, func(in ssa.Instruction) {
			if ph, ok := in.(*ssa.Phi); ok && ph.Comment == "rangeindex" && next == nil {
				// the outer loop over th.filters is the first rangeindex phi
				next = ph.Block()
			}
		})
		if next == nil {
			r.Fail("gates:loop", uf.Pos(), "loop over th.filters not found")
			return
		}
		type gate struct {
			name   string
			call   ssa.CallInstruction
			passOn bool // the sense of the call result that lets the metric pass the gate
		}
		var gates []gate
		for _, cl := range callsIn(uf) {
			cal := staticCallee(cl)
			if cal == nil {
				continue
			}
			recv := ""
			if len(cl.Common().Args) > 0 {
				recv = pathOf(cl.Common().Args[0])
			}
			switch {
			case cal.Name() == "MatchAny" && strings.HasSuffix(recv, ".MatchMetrics"):
				gates = append(gates, gate{"match-metrics", cl, true})
			case cal.Name() == "MatchAny" && strings.HasSuffix(recv, ".ExcludeMetrics"):
				gates = append(gates, gate{"exclude-metrics", cl, false})
			case cal.Name() == "MatchAnyMultiple" && strings.HasSuffix(recv, ".MatchTags"):
				gates = append(gates, gate{"match-tags", cl, true})
			}
		}
		r.Check("gates:three", len(gates) == 3, uf.Pos(), fmt.Sprintf("%d gate tests found", len(gates)))
		// for each gate: the failing edge leads straight back to the loop head (continue) without passing an action
		isAction := func(in ssa.Instruction) bool {
			switch x := in.(type) {
			case *ssa.Return:
				if k, ok := x.Results[0].(*ssa.Const); ok && k.Value.ExactString() == "false" {
					return true
				}
			case *ssa.MapUpdate:
				return valueName(x.Map) == "dropTags" || strings.Contains(pathOf(x.Map), "dropTags") || true
			case *ssa.Store:
				if paramIndex(uf, x.Addr) == 2 {
					return true
				}
			}
			return false
		}
		var actions []ssa.Instruction
		eachInstr(uf, func(in ssa.Instruction) {
			if in.Block() != next && next.Dominates(in.Block()) && isAction(in) {
				if _, isMU := in.(*ssa.MapUpdate); isMU {
					actions = append(actions, in)
				} else if isAction(in) {
					actions = append(actions, in)
				}
			}
		})
		r.Check("actions:found", len(actions) >= 3, uf.Pos(), fmt.Sprintf("%d filter actions (drop metric, record dropped tag, clear host)", len(actions)))
		for _, g := range gates {
			// find the If testing this call's result
			var ifi *ssa.If
			for _, rf := range referrers(g.call.(ssa.Value)) {
				if i, ok := rf.(*ssa.If); ok {
					ifi = i
				}
			}
			if ifi == nil {
				r.Fail("gate:"+g.name, g.call.Pos(), "gate result is not branched on")
				continue
			}
			failSucc := ifi.Block().Succs[1]
			if !g.passOn {
				failSucc = ifi.Block().Succs[0]
			}
			isAct := func(in ssa.Instruction) bool {
				for _, a := range actions {
					if a == in {
						return true
					}
				}
				return false
			}
			stopAt := map[*ssa.BasicBlock]bool{next: true}
			r.Check("gate:"+g.name+":failing-skips-filter", failSucc == next || !feasiblyReaches(ifi.Block(), failSucc, nil, stopAt, isAct), g.call.Pos(), "a metric failing "+g.name+" reaches no action of this filter (it continues with the next filter)")
			// the gate is entered on every path to an action: either its call's branch dominates the
			// action, or (optional gate) the list-length test guarding the call does
			entry := ssa.Instruction(ifi)
			if d := g.call.Block().Idom(); d != nil && g.name != "exclude-metrics" {
				if li, ok := d.Instrs[len(d.Instrs)-1].(*ssa.If); ok && strings.Contains(condExpr(li.Cond), "builtin len") && (d.Succs[0] == g.call.Block() || d.Succs[1] == g.call.Block()) {
					entry = li
				}
			}
			for _, a := range actions {
				a := a
				bypass := false
				if !instrDominates(entry, a) {
					// not a dominator in the plain CFG: is the action feasibly reachable from the loop head around the gate?
					for _, body := range next.Succs {
						if next.Dominates(body) && body != next && feasiblyReaches(next, body, map[*ssa.BasicBlock]bool{entry.Block(): true}, stopAt, func(in ssa.Instruction) bool { return in == a }) {
							bypass = true
						}
					}
				}
				r.Check("gate:"+g.name+":before:"+actionName(a), !bypass, a.Pos(), "the "+g.name+" gate is passed before "+actionName(a)+" in the same filter iteration (no feasible path from the loop head reaches the action around the gate)")
			}
			// the argument: metric name / tags of this metric
			a := g.call.Common().Args
			if g.name == "match-tags" {
				r.Check("gate:"+g.name+":arg", paramIndex(uf, stripLoad(stripConvVal(a[1]))) == 3, g.call.Pos(), "tested against the metric's tags: "+pathOf(a[1])+fmt.Sprintf(" (%T)", a[1]))
			} else {
				r.Check("gate:"+g.name+":arg", paramIndex(uf, a[1]) == 1, g.call.Pos(), "tested against the metric's name")
			}
		}
		// the filters are consulted for every metric: a return that accepts the metric (anything but `return
		// false`) without having entered the loop over th.filters lies where th.filters is known to be empty
		reach := reachableFrom(next)
		eachInstr(uf, func(in ssa.Instruction) {
			rt, ok := in.(*ssa.Return)
			if !ok || len(rt.Results) != 1 || reach[rt.Block()] {
				return
			}
			if k, isC := rt.Results[0].(*ssa.Const); isC && k.Value != nil && k.Value.ExactString() == "false" {
				return
			}
			okNone := knownEmpty(factsAt(rt.Block()), func(v ssa.Value) bool { return strings.HasSuffix(pathOf(v), ".filters") })
			r.Check("filters:bypassed-only-when-none-configured", okNone, rt.Pos(), "a metric is accepted without consulting the filters only where len(th.filters) == 0 is known: "+strings.Join(condStrings(rt.Block()), " && "))
		})
		// optional gates: match-metrics and match-tags are skipped when their list is empty
		for _, g := range gates {
			if g.name == "exclude-metrics" {
				continue
			}
			cs := strings.Join(condStrings(g.call.Block()), " && ")
			fld := map[string]string{"match-metrics": "MatchMetrics", "match-tags": "MatchTags"}[g.name]
			r.Check("gate:"+g.name+":only-when-configured", knownNonEmpty(factsAt(g.call.Block()), func(v ssa.Value) bool { return strings.HasSuffix(pathOf(v), "."+fld) }), g.call.Pos(), "evaluated only when the list is non-empty: "+cs)
		}
		// actions are guarded by their flags / matchers
		for _, a := range actions {
			cs := strings.Join(condStrings(a.Block()), " && ")
			switch x := a.(type) {
			case *ssa.Return:
				r.Check("action:drop-metric:flag", boolKnown(factsAt(a.Block()), func(v ssa.Value) bool { return strings.HasSuffix(pathOf(v), ".DropMetric") }, true), a.Pos(), cs)
			case *ssa.MapUpdate:
				// the key is an element of the metric's tags, and a true test of a drop-tags pattern (or of the
				// whole drop-tags list) against that very element is known here
				okKey := false
				if ld, ok := x.Key.(*ssa.UnOp); ok && ld.Op == token.MUL {
					if ia, ok := ld.X.(*ssa.IndexAddr); ok && paramIndex(uf, stripLoad(stripConvVal(ia.X))) == 3 {
						okKey = true
					}
				}
				okTest := false
				for _, f := range factsAt(a.Block()) {
					if f.Op != token.ILLEGAL || !f.True {
						continue
					}
					cl, ok := f.V.(*ssa.Call)
					if !ok || staticCallee(cl) == nil {
						continue
					}
					nm := staticCallee(cl).Name()
					if (nm == "Match" || nm == "MatchAny") && len(cl.Call.Args) == 2 && strings.Contains(pathOf(cl.Call.Args[0]), ".DropTags") && cl.Call.Args[1] == x.Key {
						okTest = true
					}
				}
				r.Check("action:drop-tag:matched", okKey && okTest, a.Pos(), "the tag recorded as dropped is the tag that matched a drop-tags pattern: "+cs)
			case *ssa.Store:
				s, isS := constString(x.Val)
				r.Check("action:drop-host:flag", boolKnown(factsAt(a.Block()), func(v ssa.Value) bool { return strings.HasSuffix(pathOf(v), ".DropHost") }, true) && isS && s == "", a.Pos(), cs)
			}
		}
	})

	c.Rule("C10.R2b", "exhaustive matching: every tag is tested against every drop-tags pattern of every satisfied filter - the loops over the filters, over a filter's drop-tags and over the metric's tags are left only on exhaustion (or by the drop-metric return)", 3, func(r *Rule) {
		if uf == nil {
			r.Unresolved("(*TagHandler).uniqueFilterAndAddTags")
			return
		}
		n := 0
		for _, b := range uf.Blocks {
			if b.Comment != "rangeindex.loop" && b.Comment != "rangeiter.loop" && b.Comment != "for.loop" {
				continue
			}
			if loopBody(b) == nil {
				continue
			}
			n++
			var bad []string
			for _, e := range earlyExits(b) {
				// accepted: the drop-metric exit, an edge to a block that returns the constant false
				if ret, ok := e[1].Instrs[len(e[1].Instrs)-1].(*ssa.Return); ok && len(e[1].Instrs) == 1 && len(ret.Results) == 1 {
					if cst, ok := ret.Results[0].(*ssa.Const); ok && cst.Value != nil && cst.Value.String() == "false" {
						continue
					}
				}
				bad = append(bad, fmt.Sprintf("block %d -> block %d", e[0].Index, e[1].Index))
			}
			r.Check(fmt.Sprintf("uniqueFilterAndAddTags:loop#%d:exhaustive", n), len(bad) == 0, loopPos(b), "loop is left only on exhaustion or through 'return false' (drop-metric)"+map[bool]string{true: "", false: "; early exits: " + strings.Join(bad, ", ")}[len(bad) == 0])
		}
		// the drop-tags patterns are covered by a loop of their own or by StringMatchList.MatchAny (C10.R1)
		listTest := false
		for _, cl := range callsIn(uf) {
			if cal := staticCallee(cl); cal != nil && cal.Name() == "MatchAny" && len(cl.Common().Args) == 2 && strings.Contains(pathOf(cl.Common().Args[0]), ".DropTags") {
				listTest = true
			}
		}
		r.Check("uniqueFilterAndAddTags:three-loops", n == 3 || (n == 2 && listTest), uf.Pos(), fmt.Sprintf("%d loops (filters, drop-tags patterns, tags); drop-tags tested as a list: %v", n, listTest))
	})

	c.Rule("C10.R3", "static tags and de-duplication: every surviving metric's tags are the unique union of its tags and the static tags minus the dropped ones, computed with a fresh scratch set", 5, func(r *Rule) {
		if uf == nil {
			r.Unresolved("uniqueFilterAndAddTags")
			return
		}
		eachInstr(uf, func(in ssa.Instruction) {
			rt, ok := in.(*ssa.Return)
			if !ok {
				return
			}
			k, isK := rt.Results[0].(*ssa.Const)
			if !isK || k.Value.ExactString() != "true" {
				return
			}
			// a store to *mTags of uniqueTags*(…, *mTags, th.tags) in the same block
			okSt := false
			for _, in2 := range rt.Block().Instrs {
				st, ok := in2.(*ssa.Store)
				if !ok || paramIndex(uf, st.Addr) != 3 {
					continue
				}
				cl, isC := st.Val.(*ssa.Call)
				if !isC || staticCallee(cl) == nil || !strings.HasPrefix(staticCallee(cl).Name(), "uniqueTags") {
					continue
				}
				a := cl.Call.Args
				if paramIndex(uf, stripLoad(a[len(a)-2])) == 3 && pathOf(a[len(a)-1]) == "th.tags" {
					okSt = true
					if len(a) == 3 {
						_, fresh := a[0].(*ssa.MakeMap)
						r.Check("unique:fresh-scratch-set", fresh, cl.Pos(), "the seen/dropped set given to uniqueTagsWithSeen is a map made in this call ("+pathOf(a[0])+"); a reused map would carry tags over from another metric")
					}
				}
			}
			r.Check("unique:on-every-kept-metric", okSt, rt.Pos(), "*mTags = uniqueTags...(…, *mTags, th.tags) before returning true")
		})
		// uniqueTags delegates with a fresh map
		ut := w.Func(P, "uniqueTags")
		if ut != nil {
			for _, cl := range callsIn(ut) {
				if cal := staticCallee(cl); cal != nil && cal.Name() == "uniqueTagsWithSeen" {
					_, fresh := cl.Common().Args[0].(*ssa.MakeMap)
					r.Check("uniqueTags:fresh-set", fresh, cl.Pos(), "uniqueTags starts from an empty seen set")
				}
			}
		}
		// uniqueTagsWithSeen: removes t1 elements already seen, appends unseen t2 elements
		us := w.Func(P, "uniqueTagsWithSeen")
		if us == nil {
			r.Unresolved("uniqueTagsWithSeen")
			return
		}
		c.SawFunc(FuncName(us))
		okMark, okApp := false, false
		// missKnown: at block b it is known that key is not in the seen set (comma-ok lookup was false)
		missKnown := func(b *ssa.BasicBlock, key ssa.Value) bool {
			for _, f := range factsAt(b) {
				if f.Op != token.ILLEGAL || f.True {
					continue
				}
				ex, ok := f.V.(*ssa.Extract)
				if !ok || ex.Index != 1 {
					continue
				}
				lk, ok := ex.Tuple.(*ssa.Lookup)
				if ok && lk.CommaOk && paramIndex(us, stripConvVal(lk.X)) == 0 && (key == nil || lk.Index == key) {
					return true
				}
			}
			return false
		}
		// derives from parameter i through re-slicing, appends and phis
		var fromParam func(v ssa.Value, i int, seen map[ssa.Value]bool) bool
		fromParam = func(v ssa.Value, i int, seen map[ssa.Value]bool) bool {
			if v == nil || seen[v] {
				return false
			}
			seen[v] = true
			if paramIndex(us, v) == i {
				return true
			}
			switch x := v.(type) {
			case *ssa.Phi:
				for _, e := range x.Edges {
					if fromParam(e, i, seen) {
						return true
					}
				}
			case *ssa.Slice:
				return fromParam(x.X, i, seen)
			case *ssa.ChangeType:
				return fromParam(x.X, i, seen)
			case *ssa.Call:
				if isCall(x, "builtin append") {
					return fromParam(x.Call.Args[0], i, seen)
				}
			}
			return false
		}
		eachInstr(us, func(in ssa.Instruction) {
			if mu, ok := in.(*ssa.MapUpdate); ok && paramIndex(us, stripConvVal(mu.Map)) == 0 {
				if missKnown(mu.Block(), mu.Key) {
					okMark = true
				}
			}
			if cl, ok := in.(*ssa.Call); ok && isCall(cl, "builtin append") {
				els := varargElems(cl.Call.Args[1])
				if len(els) == 1 && missKnown(cl.Block(), els[0]) && fromParam(cl.Call.Args[0], 1, map[ssa.Value]bool{}) {
					okApp = true
				}
			}
		})
		// ... and nothing else is ever appended: every append in the function adds one tag under a "not seen" test
		eachInstr(us, func(in ssa.Instruction) {
			cl, ok := in.(*ssa.Call)
			if !ok || !isCall(cl, "builtin append") {
				return
			}
			els := varargElems(cl.Call.Args[1])
			okOne := len(els) == 1 && missKnown(cl.Block(), els[0])
			r.Check("uniqueTagsWithSeen:every-append-guarded", okOne, cl.Pos(), "tags are added one at a time, each only when it is not in the seen set (a wholesale append skips the duplicate / dropped-tag test): append("+exprString(cl.Call.Args[0], 0)+", "+exprString(cl.Call.Args[1], 0)+")")
		})
		r.Check("uniqueTagsWithSeen:marks-kept-tags", okMark, us.Pos(), "a tag of the metric that is kept is recorded as seen (so later duplicates are removed)")
		r.Check("uniqueTagsWithSeen:adds-unseen-static-tags", okApp, us.Pos(), "a static tag is appended only when it was not seen (neither present nor dropped)")
		// NewTagHandler de-duplicates the static tags
		nt := w.Func(P, "NewTagHandler")
		if nt != nil {
			ok := false
			for _, cl := range callsIn(nt) {
				if staticCallee(cl) == ut {
					ok = true
				}
			}
			r.Check("NewTagHandler:dedupes-static-tags", ok, nt.Pos(), "static tags are de-duplicated at construction")
		}
	})

	c.Rule("C10.R4", "the tag stage forwards the rebuilt map (never the input), merges colliding series without loss (C07 rules on this function), and forwards iff non-empty", 10, func(r *Rule) {
		dm := w.Func(P, "(*TagHandler).DispatchMetricMap")
		if dm == nil {
			r.Unresolved("(*TagHandler).DispatchMetricMap")
			return
		}
		c.SawFunc(FuncName(dm))
		n := 0
		for _, cl := range callsIn(dm) {
			if cl.Common().IsInvoke() && cl.Common().Method.Name() == "DispatchMetricMap" {
				n++
				arg := cl.Common().Args[1]
				r.Check("forward:rebuilt-map", func() bool {
					c2, ok := ptrOrigin(arg).(*ssa.Call)
					return ok && isCall(c2, "gostatsd.NewMetricMap")
				}(), cl.Pos(), "the map forwarded is "+pathOf(arg)+" (the input map must never be forwarded: its tags were not de-duplicated, filtered or re-keyed)")
				cs := strings.Join(condStrings(cl.Block()), " && ")
				fs := factsAt(cl.Block())
				okNE := len(fs) == 1 && fs[0].Op == token.ILLEGAL && !fs[0].True
				if okNE {
					ic, isC := fs[0].V.(*ssa.Call)
					okNE = isC && isCall(ic, "(*gostatsd.MetricMap).IsEmpty") && ptrOrigin(ic.Call.Args[0]) == ptrOrigin(arg)
				}
				r.Check("forward:iff-non-empty", okNE, cl.Pos(), "forwarded exactly when the rebuilt map is not empty: "+cs)
			}
		}
		r.Check("forward:one-site", n == 1, dm.Pos(), fmt.Sprintf("%d forward sites", n))
		// every element goes through uniqueFilterAndAddTags and is stored only when it returned true
		cls := eachClosures(dm)
		for _, F := range mmFields {
			cl := cls[F]
			if cl == nil {
				r.Fail("elements:"+F, dm.Pos(), "no traversal of mm."+F)
				continue
			}
			var uc ssa.CallInstruction
			for _, cc := range callsIn(cl) {
				if staticCallee(cc) == uf {
					uc = cc
				}
			}
			if uc == nil {
				r.Fail("elements:"+F+":filtered", cl.Pos(), "elements are not passed through uniqueFilterAndAddTags")
				continue
			}
			r.Check("elements:"+F+":filter-on-every-path", uc.Block() == cl.Blocks[0], uc.Pos(), "uniqueFilterAndAddTags is applied to every element")
			a := uc.Common().Args
			// the filter's verdict on source and tags must reach the element that is stored: either it works
			// in place (&elem.Source, &elem.Tags) or its results are assigned to both fields of the element
			// before the element is stored
			applied := func(field string, arg ssa.Value) (bool, string) {
				if _, isPtr := arg.Type().Underlying().(*types.Pointer); isPtr {
					if t, f, _, ok := fieldRef(arg); ok && f == field && isAggType2(t) {
						return true, "&elem." + field
					}
					return false, "pointer argument is not &elem." + field
				}
				// by value: some result of the call must be stored into elem.<field> on the way to every store of the element
				if !strings.HasSuffix(pathOf(arg), "."+field) {
					return false, "argument is not elem." + field
				}
				var st *ssa.Store
				for _, ref := range referrers(uc.(ssa.Value)) {
					ex, ok := ref.(*ssa.Extract)
					if !ok {
						continue
					}
					for _, r2 := range referrers(ex) {
						if s2, ok := r2.(*ssa.Store); ok && s2.Val == ssa.Value(ex) {
							if t, f, _, ok := fieldRef(s2.Addr); ok && f == field && isAggType2(t) {
								st = s2
							}
						}
					}
				}
				if st == nil {
					return false, "the filter's " + field + " result is not assigned to elem." + field
				}
				okDom := true
				eachInstr(cl, func(in ssa.Instruction) {
					if mu, ok := in.(*ssa.MapUpdate); ok && !instrDominates(st, mu) {
						okDom = false
					}
				})
				if !okDom {
					return false, "elem." + field + " is assigned the filter's result only on some paths to the store"
				}
				return true, "elem." + field + " = result"
			}
			okS, whyS := applied("Source", a[2])
			okT, whyT := applied("Tags", a[3])
			r.Check("elements:"+F+":filter-args", paramIndex(cl, a[1]) == 0 && okS && okT, uc.Pos(), "(name, &elem.Source, &elem.Tags) or results assigned back: "+whyS+"; "+whyT)
			bad := false
			eachInstr(cl, func(in ssa.Instruction) {
				isStore := false
				if _, ok := in.(*ssa.MapUpdate); ok {
					isStore = true
				}
				if cx, ok := in.(*ssa.Call); ok {
					if cal := staticCallee(cx); cal != nil && strings.HasPrefix(cal.Name(), "Merge") && isAggType2(strings.TrimPrefix(cal.Name(), "Merge")) {
						isStore = true
					}
				}
				if isStore {
					okc := false
					for _, cd := range condsFor(in.Block()) {
						cd = normCond(cd)
						if cd.V == uc.(ssa.Value) && cd.Sense {
							okc = true
						}
					}
					if !okc {
						bad = true
					}
				}
			})
			r.Check("elements:"+F+":stored-only-when-kept", !bad, cl.Pos(), "elements are stored only when the filter kept them")
			// re-keyed after filtering
			// every key under which a series is looked up or stored in the rebuilt map is, on every
			// path, FormatTagsKey(...) computed after the filter ran
			okKey, nKeys := true, 0
			whyKey := ""
			var keyLeaves func(v ssa.Value, d int)
			seenKP := map[*ssa.Phi]bool{}
			keyLeaves = func(v ssa.Value, d int) {
				switch x := v.(type) {
				case *ssa.Phi:
					if seenKP[x] || d > 8 {
						return
					}
					seenKP[x] = true
					for _, e := range x.Edges {
						keyLeaves(e, d+1)
					}
				case *ssa.Call:
					if !(isCall(x, "gostatsd.FormatTagsKey") && instrDominates(uc, x)) {
						okKey = false
						whyKey = "key computed by " + shortCallee(x)
					} else {
						a := x.Call.Args
						if !(strings.HasSuffix(pathOf(a[0]), ".Source") && strings.HasSuffix(pathOf(a[1]), ".Tags")) {
							okKey = false
							whyKey = "FormatTagsKey(" + pathOf(a[0]) + ", " + pathOf(a[1]) + ")"
						}
					}
				default:
					okKey = false
					whyKey = "key " + pathOf(v) + " is not a recomputed tags key"
				}
			}
			eachInstr(cl, func(in ssa.Instruction) {
				var m, k ssa.Value
				switch x := in.(type) {
				case *ssa.MapUpdate:
					m, k = x.Map, x.Key
				case *ssa.Lookup:
					m, k = x.X, x.Index
				case *ssa.Call:
					// merged through MetricMap.Merge<T>(name, tagsKey, element): the key is the second argument
					if cal := staticCallee(x); cal != nil && strings.HasPrefix(cal.Name(), "Merge") && isAggType2(strings.TrimPrefix(cal.Name(), "Merge")) && len(x.Call.Args) == 4 {
						nKeys++
						keyLeaves(x.Call.Args[2], 0)
					}
					return
				default:
					return
				}
				mt, ok := m.Type().Underlying().(*types.Map)
				if !ok || isAggType(mt.Elem()) == "" {
					return
				}
				nKeys++
				keyLeaves(k, 0)
			})
			r.Check("elements:"+F+":rekeyed", okKey && nKeys >= 1, cl.Pos(), "the tags key of every lookup / store in the rebuilt map is recomputed from the filtered source and tags"+map[bool]string{true: "", false: ": " + whyKey}[okKey])
		}
		// collision merge = C07 rules restricted to this function
		sub := &Ctx{W: w, Prop: c.Prop, Tier: c.Tier, known: c.known, Sub: true}
		c07(sub)
		for _, sr := range sub.Rules {
			if sr.ID == "C07.R6" {
				continue
			}
			for _, o := range sr.Obls {
				if strings.Contains(o.Key, "TagHandler") {
					o2 := *o
					o2.Rule = "C10.R4"
					o2.Key = sr.ID + "/" + o.Key
					r.Obls = append(r.Obls, &o2)
				}
			}
		}
	})
}

func actionName(in ssa.Instruction) string {
	switch in.(type) {
	case *ssa.Return:
		return "drop-metric"
	case *ssa.MapUpdate:
		return "drop-tag"
	case *ssa.Store:
		return "drop-host"
	}
	return "action"
}

func isAggType2(name string) bool {
	return name == "Counter" || name == "Gauge" || name == "Timer" || name == "Set"
}

func stripLoad(v ssa.Value) ssa.Value {
	if u, ok := v.(*ssa.UnOp); ok && u.Op == token.MUL {
		return u.X
	}
	return v
}

// reachesOnlyVia: every path from `from` to `to` that does not pass `head` ... (conservative: false)
func reachesOnlyVia(from, to, head *ssa.BasicBlock) bool { return false }

func loopPos(b *ssa.BasicBlock) token.Pos {
	for _, in := range b.Instrs {
		if in.Pos() != token.NoPos {
			return in.Pos()
		}
	}
	for _, s := range b.Succs {
		for _, in := range s.Instrs {
			if in.Pos() != token.NoPos {
				return in.Pos()
			}
		}
	}
	return b.Parent().Pos()
}
