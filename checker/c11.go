package main

import (
	"fmt"
	"go/token"
	"go/types"
	"sort"
	"strings"

	"golang.org/x/tools/go/ssa"
)

func init() {
	register("C11", c11)
	register("C19", c19)
}

// ownedBy computes the set of functions that run only on the goroutine executing `root`:
// root itself, functions all of whose call sites are plain calls inside owned functions, and
// closures created in owned functions that are not started with go nor stored/escaped
// (they are passed to synchronous traversals such as Each).
func ownedBy(w *World, root *ssa.Function, pkgRel string) map[*ssa.Function]bool {
	owned := map[*ssa.Function]bool{root: true}
	funcs := pkgFuncs(w, pkgRel)
	// call sites index
	type site struct {
		in    *ssa.Function
		plain bool
	}
	sites := map[*ssa.Function][]site{}
	boundOK := map[*ssa.Function]bool{}
	for _, fn := range w.ModuleFuncs() {
		if strings.HasSuffix(fn.Name(), "$bound") {
			continue // judged where the method value is taken
		}
		for _, cl := range callsIn(fn) {
			if cal := staticCallee(cl); cal != nil {
				_, isCall := cl.(*ssa.Call)
				_, isDefer := cl.(*ssa.Defer)
				sites[cal] = append(sites[cal], site{fn, isCall || isDefer})
			}
		}
		// method values / function values taken (escape): treat as non-plain site - except a bound
		// method value that is only ever called from the function that takes it (and its literals): that is
		// an ordinary synchronous call of the method
		eachInstr(fn, func(in ssa.Instruction) {
			for _, op := range in.Operands(nil) {
				if f, ok := (*op).(*ssa.Function); ok {
					if cl, isCl := in.(ssa.CallInstruction); isCl && cl.Common().Value == ssa.Value(f) {
						continue
					}
					if mc, isMC := in.(*ssa.MakeClosure); isMC && mc.Fn == ssa.Value(f) && strings.HasSuffix(f.Name(), "$bound") && closureOnlyCalled(mc) {
						// the wrapper forwards to the method: record a plain call of the method from fn
						for _, cc := range callsIn(f) {
							if cal := staticCallee(cc); cal != nil {
								root := fn
								for root.Parent() != nil {
									root = root.Parent()
								}
								sites[cal] = append(sites[cal], site{root, true})
							}
						}
						boundOK[f] = true
						continue
					}
					if f.Parent() == nil {
						sites[f] = append(sites[f], site{fn, false})
					}
				}
			}
		})
	}
	changed := true
	for changed {
		changed = false
		for _, fn := range funcs {
			if owned[fn] {
				continue
			}
			if fn.Parent() != nil {
				// closure: parent owned, not a go operand
				if owned[fn.Parent()] && !startedWithGo(fn.Parent(), fn) {
					owned[fn] = true
					changed = true
				}
				continue
			}
			ss := sites[fn]
			if len(ss) == 0 {
				continue
			}
			ok := true
			for _, s := range ss {
				if !s.plain || !owned[s.in] {
					ok = false
				}
			}
			if ok {
				owned[fn] = true
				changed = true
			}
		}
	}
	return owned
}

// fieldTouchers lists functions (of the module) that access struct.field.
func fieldTouchers(w *World, st, field string) []*ssa.Function {
	var out []*ssa.Function
	for _, fn := range w.ModuleFuncs() {
		if len(fieldAccesses(fn, st, field)) > 0 {
			out = append(out, fn)
		}
	}
	return out
}

// condPaths returns the normalised branch facts at a block as strings "path==true".
func condStrings(b *ssa.BasicBlock) []string {
	var out []string
	for _, cd := range condsFor(b) {
		cd = normCond(cd)
		out = append(out, fmt.Sprintf("%s=%v", condExpr(cd.V), cd.Sense))
	}
	sort.Strings(out)
	return out
}

func condExpr(v ssa.Value) string {
	switch x := v.(type) {
	case *ssa.BinOp:
		return "(" + condExpr(x.X) + x.Op.String() + condExpr(x.Y) + ")"
	case *ssa.Call:
		var as []string
		for _, a := range x.Call.Args {
			as = append(as, condExpr(a))
		}
		return shortCallee(x) + "(" + strings.Join(as, ",") + ")"
	}
	return pathOf(v)
}

// controlEquivalent: two instructions execute on exactly the same paths.
func controlEquivalent(fn *ssa.Function, a, b ssa.Instruction) bool {
	if a.Block() == b.Block() {
		return true
	}
	pd := newPostDom(fn)
	x, y := a.Block(), b.Block()
	return (x.Dominates(y) && pd.PostDominates(y, x)) || (y.Dominates(x) && pd.PostDominates(x, y))
}

// incDecStores classifies stores to CloudHandler.<field> as +1 / -1 / -len / other.
type cntStore struct {
	St   *ssa.Store
	Kind string
}

func counterStores(fn *ssa.Function, st, field string) []cntStore {
	var out []cntStore
	for _, s := range fieldStores(fn, st, field) {
		k := "other:" + pathOf(s.Val)
		if b := asBinOp(s.Val, token.ADD, token.SUB); b != nil {
			if one, isC := constInt(b.Y); isC && one == 1 {
				if b.Op == token.ADD {
					k = "+1"
				} else {
					k = "-1"
				}
			} else if b.Op == token.SUB && strings.Contains(pathOf(b.Y), "builtin len") {
				k = "-len"
			}
		}
		out = append(out, cntStore{s, k})
	}
	return out
}

func c11(c *Ctx) {
	w := c.W
	const P = "pkg/statsd"
	c.Explanation = "C11 (cloud enrichment forwards every item exactly once): the parked state is touched only on the Run goroutine; each datapoint entering DispatchMetricMap is merged into exactly one of the forward-now / park maps on every path, with the re-keyed or original key; a lookup result releases parked metrics and parked events independently, each through exactly one goroutine that forwards once; lookups are requested only when nothing is parked for the source; the queue gauges move together with the map inserts and deletes; instance data is applied whenever a lookup found an instance."
	c.NotDecided = []string{"exactly-once over interleavings as a history property (relies on Go channel semantics plus R1-R6)", "behaviour of the CachedInstances implementation (C12)"}

	run := w.Func(P, "(*CloudHandler).Run")
	parked := []string{"awaitingMetrics", "awaitingEvents", "toLookupIPs", "statsMetricHostsQueued", "statsEventItemsQueued", "statsEventHostsQueued"}

	c.Rule("C11.R1", "single owner: parked state and its gauges are accessed only by code that runs on the Run goroutine (and the constructor)", 6, func(r *Rule) {
		if run == nil {
			r.Unresolved("(*CloudHandler).Run")
			return
		}
		owned := ownedBy(w, run, P)
		for _, f := range parked {
			ts := fieldTouchers(w, "CloudHandler", f)
			r.Check("touched:"+f, len(ts) >= 1, run.Pos(), fmt.Sprintf("%d functions access %s", len(ts), f))
			for _, fn := range ts {
				c.SawFunc(FuncName(fn))
				ok := owned[fn] || fn.Name() == "NewCloudHandler"
				r.Check("owner:"+f+":"+FuncName(fn), ok, fn.Pos(), FuncName(fn)+" accesses CloudHandler."+f+"; it must only run on the Run goroutine")
			}
		}
		// Run is a Runnable started once (not called from handler methods)
		n := 0
		for _, fn := range w.ModuleFuncs() {
			if strings.Contains(fnPkgPath(fn), "/cmd/") {
				continue
			}
			for _, cl := range callsIn(fn) {
				if staticCallee(cl) == run {
					n++
				}
			}
		}
		r.Check("Run:not-called-internally", n == 0, run.Pos(), fmt.Sprintf("%d static call sites of CloudHandler.Run inside the module (it is started once as a Runnable)", n))
	})

	c.Rule("C11.R2", "routing: every datapoint is merged into exactly one of (forward now, re-keyed) / (park, original key); non-empty maps are forwarded / parked; events likewise", 20, func(r *Rule) {
		dm := w.Func(P, "(*CloudHandler).DispatchMetricMap")
		if dm == nil {
			r.Unresolved("(*CloudHandler).DispatchMetricMap")
			return
		}
		c.SawFunc(FuncName(dm))
		// a parked series goes into the queue that is registered for its source: what prepareMetricQueue returns is
		// the map found in awaitingMetrics under the source, or a new map that is stored there on the same path
		// (a queue remembered elsewhere may already have been released: what is merged into it never leaves)
		if pq := w.Func(P, "(*CloudHandler).prepareMetricQueue"); pq == nil {
			r.Unresolved("(*CloudHandler).prepareMetricQueue")
		} else if len(pq.Params) >= 2 {
			c.SawFunc(FuncName(pq))
			isReg := func(v ssa.Value) bool { return strings.HasSuffix(pathOf(v), ".awaitingMetrics") }
			eachInstr(pq, func(in ssa.Instruction) {
				rt, ok := in.(*ssa.Return)
				if !ok || len(rt.Results) != 1 {
					return
				}
				for _, vc := range valueCases(rt.Results[0], rt.Block()) {
					okv, why := false, exprString(vc.V, 0)
					switch x := ptrOrigin(vc.V).(type) {
					case *ssa.Extract:
						if lk, isLk := x.Tuple.(*ssa.Lookup); isLk && x.Index == 0 && isReg(lk.X) && ptrOrigin(lk.Index) == ssa.Value(pq.Params[1]) {
							okv, why = true, "the registered queue"
						}
					case *ssa.Lookup:
						if isReg(x.X) && ptrOrigin(x.Index) == ssa.Value(pq.Params[1]) {
							okv, why = true, "the registered queue"
						}
					case *ssa.Call:
						if isCall(x, "gostatsd.NewMetricMap") {
							// stored under the source
							for _, ref := range referrers(x) {
								if mu, isMU := ref.(*ssa.MapUpdate); isMU && mu.Value == ssa.Value(x) && isReg(mu.Map) && ptrOrigin(mu.Key) == ssa.Value(pq.Params[1]) {
									okv, why = true, "a new queue registered under the source"
								}
							}
							// (through a local variable)
							if !okv {
								eachInstr(pq, func(in2 ssa.Instruction) {
									if mu, isMU := in2.(*ssa.MapUpdate); isMU && isReg(mu.Map) && ptrOrigin(mu.Value) == ssa.Value(x) && ptrOrigin(mu.Key) == ssa.Value(pq.Params[1]) {
										okv, why = true, "a new queue registered under the source"
									}
								})
							}
						}
					}
					r.Check("prepareMetricQueue:returns-the-registered-queue", okv, rt.Pos(), "the queue a series is parked in is "+why)
				}
			})
		}
		// ... and it is asked for with the source of the very series being parked, for every series anew
		if him := w.Func(P, "(*CloudHandler).handleIncomingMetrics"); him == nil {
			r.Unresolved("(*CloudHandler).handleIncomingMetrics")
		} else {
			c.SawFunc(FuncName(him))
			nm := 0
			for _, g := range WithAnon(him) {
				for _, cl := range callsIn(g) {
					cal := staticCallee(cl)
					if cal == nil || !strings.HasPrefix(cal.Name(), "Merge") || len(cl.Common().Args) != 4 || !strings.HasSuffix(cal.Signature.Recv().Type().String(), "gostatsd.MetricMap") {
						continue
					}
					nm++
					a := cl.Common().Args
					okq, why := false, "the queue is "+exprString(a[0], 0)
					if pc, isCall := a[0].(*ssa.Call); isCall && staticCallee(pc) != nil && staticCallee(pc).Name() == "prepareMetricQueue" && len(pc.Call.Args) == 2 {
						if pathOf(pc.Call.Args[1]) == pathOf(a[3])+".Source" {
							okq = true
						} else {
							why = "the queue is asked for with " + pathOf(pc.Call.Args[1]) + ", the series parked is " + pathOf(a[3])
						}
					}
					r.Check("handleIncomingMetrics:"+cal.Name()+":parks-under-own-source", okq, cl.Pos(), "each series is merged into prepareMetricQueue(<its own source>), resolved for this series: "+why)
				}
			}
			r.Check("handleIncomingMetrics:merge-sites", nm == 4, him.Pos(), fmt.Sprintf("%d Merge<T> calls", nm))
		}
		// the two maps built by DispatchMetricMap, identified by what is done with them: the one handed to
		// the next handler and the one sent to the Run goroutine
		var fwdMap, parkMap ssa.Value
		for _, cl := range callsIn(dm) {
			if cl.Common().IsInvoke() && cl.Common().Method.Name() == "DispatchMetricMap" {
				fwdMap = ptrOrigin(cl.Common().Args[1])
			}
		}
		eachInstr(dm, func(in ssa.Instruction) {
			if sel, ok := in.(*ssa.Select); ok {
				for _, st := range sel.States {
					if st.Dir == types.SendOnly && strings.HasSuffix(pathOf(st.Chan), ".incomingMetrics") {
						parkMap = ptrOrigin(st.Send)
					}
				}
			}
		})
		isNew := func(v ssa.Value) bool {
			cl, ok := v.(*ssa.Call)
			return ok && isCall(cl, "gostatsd.NewMetricMap")
		}
		if !r.Check("route:two-maps", fwdMap != nil && parkMap != nil && fwdMap != parkMap && isNew(fwdMap) && isNew(parkMap), dm.Pos(), "the forwarded map and the parked map are two new MetricMaps") {
			return
		}
		is := func(v, m ssa.Value) bool { return ptrOrigin(v) == m }
		cls := eachClosures(dm)
		for _, F := range mmFields {
			cl := cls[F]
			T := strings.TrimSuffix(F, "s")
			if cl == nil {
				r.Fail("route:"+F, dm.Pos(), "no traversal of mm."+F)
				continue
			}
			isMerge := func(in ssa.Instruction) bool {
				cc, ok := in.(ssa.CallInstruction)
				return ok && staticCallee(cc) != nil && strings.HasPrefix(staticCallee(cc).Name(), "Merge")
			}
			m := countOnPaths(cl, isMerge)
			r.Check("route:"+F+":exactly-one-merge", m == 2, cl.Pos(), "merges per datapoint over all paths = "+maskString(m))
			for _, cc := range callsIn(cl) {
				if !isMerge(cc) {
					continue
				}
				cal := staticCallee(cc)
				a := cc.Common().Args
				r.Check("route:"+F+":same-type", cal.Name() == "Merge"+T, cc.Pos(), "element of "+F+" merged with "+cal.Name())
				hit, known := false, false
				for _, cd := range condsFor(cc.Block()) {
					cd = normCond(cd)
					if uc, ok := cd.V.(*ssa.Call); ok && staticCallee(uc) != nil && staticCallee(uc).Name() == "updateTagsAndHostname" {
						hit, known = cd.Sense, true
					}
				}
				dest := valueName(a[0])
				if tp, isPhi := a[0].(*ssa.Phi); isPhi && !known {
					// target map and key chosen first, one merge call afterwards: two phis of one block, paired edge by edge
					kp, isKP := a[2].(*ssa.Phi)
					okPairs := isKP && kp.Block() == tp.Block()
					nHit, nMiss := 0, 0
					for i := range tp.Edges {
						if !okPairs {
							break
						}
						pred := tp.Block().Preds[i]
						facts := factsAt(pred)
						if ifi, isIf := pred.Instrs[len(pred.Instrs)-1].(*ssa.If); isIf && len(pred.Succs) == 2 && pred.Succs[0] != pred.Succs[1] {
							facts = append(facts, canonOf(Cond{ifi.Cond, pred.Succs[0] == tp.Block(), ifi}))
						}
						isUpd := func(c2 *ssa.Call) bool {
							return staticCallee(c2) != nil && staticCallee(c2).Name() == "updateTagsAndHostname"
						}
						switch {
						case callKnown(facts, isUpd, true):
							nHit++
							kc, isC := kp.Edges[i].(*ssa.Call)
							if !(is(tp.Edges[i], fwdMap) && isC && isCall(kc, "gostatsd.FormatTagsKey")) {
								okPairs = false
							}
						case callKnown(facts, isUpd, false):
							nMiss++
							if !(is(tp.Edges[i], parkMap) && paramIndex(cl, kp.Edges[i]) == 1) {
								okPairs = false
							}
						default:
							okPairs = false
						}
					}
					r.Check("route:"+F+":hit", okPairs && nHit >= 1, cc.Pos(), "cache hit: into the forwarded map under the re-formatted key (target and key selected together)")
					r.Check("route:"+F+":miss", okPairs && nMiss >= 1, cc.Pos(), "cache miss: into the parked map under the unchanged key (target and key selected together)")
					r.Check("route:"+F+":name", paramIndex(cl, a[1]) == 0, cc.Pos(), "metric name unchanged")
					continue
				}
				if !known {
					r.Fail("route:"+F+":controlled-by-cache", cc.Pos(), "merge is not controlled by the cache lookup result")
					continue
				}
				if hit {
					kc, isC := a[2].(*ssa.Call)
					r.Check("route:"+F+":hit", is(a[0], fwdMap) && isC && isCall(kc, "gostatsd.FormatTagsKey"), cc.Pos(), fmt.Sprintf("cache hit: into %s under %s", dest, pathOf(a[2])))
				} else {
					r.Check("route:"+F+":miss", is(a[0], parkMap) && paramIndex(cl, a[2]) == 1, cc.Pos(), fmt.Sprintf("cache miss: into %s under %s", dest, pathOf(a[2])))
				}
				r.Check("route:"+F+":name", paramIndex(cl, a[1]) == 0, cc.Pos(), "metric name unchanged")
			}
		}
		// forwarded iff non-empty, parked iff non-empty
		for _, cl := range callsIn(dm) {
			if cl.Common().IsInvoke() && cl.Common().Method.Name() == "DispatchMetricMap" {
				ok := true
				g := false
				for _, cd := range condsFor(cl.Block()) {
					cd = normCond(cd)
					if ic, isC := cd.V.(*ssa.Call); isC && isCall(ic, "(*gostatsd.MetricMap).IsEmpty") && !cd.Sense && is(ic.Call.Args[0], fwdMap) {
						g = true
					}
				}
				r.Check("forward:non-empty", ok && g, cl.Pos(), "mmToDispatch is forwarded when it is not empty")
			}
		}
		nSend := 0
		eachInstr(dm, func(in ssa.Instruction) {
			if sel, ok := in.(*ssa.Select); ok {
				for _, st := range sel.States {
					if st.Dir == types.SendOnly {
						nSend++
						g := false
						for _, cd := range condsFor(sel.Block()) {
							cd = normCond(cd)
							if ic, isC := cd.V.(*ssa.Call); isC && isCall(ic, "(*gostatsd.MetricMap).IsEmpty") && !cd.Sense && is(ic.Call.Args[0], parkMap) {
								g = true
							}
						}
						r.Check("park:non-empty", g && is(st.Send, parkMap) && strings.HasSuffix(pathOf(st.Chan), ".incomingMetrics"), sel.Pos(), "mmToHandle is sent to the Run goroutine when it is not empty")
					}
				}
			}
		})
		r.Check("park:one-send", nSend == 1, dm.Pos(), fmt.Sprintf("%d sends", nSend))
		// post-dominance: both tests are reached on every path
		// DispatchEvent
		de := w.Func(P, "(*CloudHandler).DispatchEvent")
		if de == nil {
			r.Unresolved("(*CloudHandler).DispatchEvent")
			return
		}
		c.SawFunc(FuncName(de))
		nf, nAdd, nDone, nPark := 0, 0, 0, 0
		for _, cl := range callsIn(de) {
			hit, known := false, false
			for _, cd := range condsFor(cl.Block()) {
				cd = normCond(cd)
				if uc, ok := cd.V.(*ssa.Call); ok && staticCallee(uc) != nil && staticCallee(uc).Name() == "updateTagsAndHostname" {
					hit, known = cd.Sense, true
				}
			}
			if cl.Common().IsInvoke() && cl.Common().Method.Name() == "DispatchEvent" {
				nf++
				r.Check("event:forward-on-hit", known && hit, cl.Pos(), "events with a known source are forwarded immediately")
			}
			if isCall(cl, "(*sync.WaitGroup).Add") {
				nAdd++
				one, isC := constInt(cl.Common().Args[1])
				r.Check("event:add-on-miss", known && !hit && isC && one == 1, cl.Pos(), "wg.Add(1) before parking")
			}
			if isCall(cl, "(*sync.WaitGroup).Done") {
				nDone++
			}
		}
		eachInstr(de, func(in ssa.Instruction) {
			if sel, ok := in.(*ssa.Select); ok {
				for k, st := range sel.States {
					if st.Dir == types.SendOnly && strings.HasSuffix(pathOf(st.Chan), ".incomingEvents") {
						nPark++
						r.Check("event:park-the-event", paramIndex(de, st.Send) == 2, sel.Pos(), "the event itself is parked")
					}
					if st.Dir == types.RecvOnly {
						// cancellation branch must undo the Add
						_, to := selectCaseEdge(sel, k)
						ok := false
						if to != nil {
							for _, in2 := range to.Instrs {
								if cl, isC := in2.(ssa.CallInstruction); isC && isCall(cl, "(*sync.WaitGroup).Done") {
									ok = true
								}
							}
						}
						r.Check("event:cancel-undoes-add", ok, sel.Pos(), "on cancellation the WaitGroup count is given back")
					}
				}
			}
		})
		r.Check("event:sites", nf == 1 && nAdd == 1 && nDone == 1 && nPark == 1, de.Pos(), fmt.Sprintf("forward=%d add=%d done=%d park=%d", nf, nAdd, nDone, nPark))
		// hit path returns without parking: the forward's block leads to return only
		for _, cl := range callsIn(de) {
			if cl.Common().IsInvoke() && cl.Common().Method.Name() == "DispatchEvent" {
				reach := reachableFrom(cl.Block())
				bad := false
				for b := range reach {
					for _, in := range b.Instrs {
						if _, ok := in.(*ssa.Select); ok {
							bad = true
						}
					}
				}
				r.Check("event:hit-is-not-parked", !bad, cl.Pos(), "a forwarded event is not parked as well")
			}
		}
	})

	c.Rule("C11.R3", "release: a lookup result releases parked metrics and parked events independently, each by delete + exactly one goroutine that forwards once; instance data applied whenever an instance was found", 12, func(r *Rule) {
		hi, _ := w.FuncOrHost(P, "(*CloudHandler).handleInstanceInfo")
		um := w.Func(P, "(*CloudHandler).updateAndDispatchMetrics")
		ue := w.Func(P, "(*CloudHandler).updateAndDispatchEvents")
		ui := w.Func(P, "updateInplace")
		if hi == nil || um == nil || ue == nil || ui == nil {
			r.Unresolved("handleInstanceInfo / updateAndDispatch* / updateInplace")
			return
		}
		c.SawFunc(FuncName(hi))
		c.SawFunc(FuncName(um))
		c.SawFunc(FuncName(ue))
		cloudReleaseRule(c, r, hi, map[string]*ssa.Function{"awaitingMetrics": um, "awaitingEvents": ue}, "awaitingMetrics", "awaitingEvents")
		// updateAndDispatchMetrics forwards exactly once
		m := countOnPaths(um, func(in ssa.Instruction) bool {
			cl, ok := in.(ssa.CallInstruction)
			return ok && cl.Common().IsInvoke() && cl.Common().Method.Name() == "DispatchMetricMap"
		})
		r.Check("updateAndDispatchMetrics:forwards-once", m == 2, um.Pos(), "forwards over all paths = "+maskString(m))
		var rebuilt ssa.Value
		for _, cl := range callsIn(um) {
			if cl.Common().IsInvoke() && cl.Common().Method.Name() == "DispatchMetricMap" {
				rebuilt = ptrOrigin(cl.Common().Args[1])
				nc, isNew := rebuilt.(*ssa.Call)
				r.Check("updateAndDispatchMetrics:forwards-mmOut", isNew && isCall(nc, "gostatsd.NewMetricMap"), cl.Pos(), "the rebuilt map (a new MetricMap) is forwarded")
			}
		}
		// each closure: updateInplace then Merge<T> into mmOut under the re-formatted key, exactly once
		cls := eachClosures(um)
		for _, F := range mmFields {
			cl := cls[F]
			T := strings.TrimSuffix(F, "s")
			if cl == nil {
				r.Fail("updateAndDispatchMetrics:"+F, um.Pos(), "no traversal of mmIn."+F)
				continue
			}
			m := countOnPaths(cl, func(in ssa.Instruction) bool {
				cc, ok := in.(ssa.CallInstruction)
				return ok && staticCallee(cc) != nil && staticCallee(cc).Name() == "Merge"+T && rebuilt != nil && ptrOrigin(cc.Common().Args[0]) == rebuilt
			})
			r.Check("updateAndDispatchMetrics:"+F+":merged-once", m == 2, cl.Pos(), "Merge"+T+" into mmOut over all paths = "+maskString(m))
			var upd, mrg ssa.CallInstruction
			for _, cc := range callsIn(cl) {
				if staticCallee(cc) == ui {
					upd = cc
				}
				if cal := staticCallee(cc); cal != nil && cal.Name() == "Merge"+T {
					mrg = cc
					kc, isC := cc.Common().Args[2].(*ssa.Call)
					r.Check("updateAndDispatchMetrics:"+F+":rekeyed", isC && isCall(kc, "gostatsd.FormatTagsKey"), cc.Pos(), "merged under FormatTagsKey(source, tags) computed after the update")
				}
			}
			r.Check("updateAndDispatchMetrics:"+F+":update-before-merge", upd != nil && mrg != nil && instrDominates(upd, mrg), cl.Pos(), "updateInplace precedes the merge")
		}
		// updateAndDispatchEvents: every event forwarded once; the count given back equals the number forwarded
		var fwd ssa.CallInstruction
		nf := 0
		for _, cl := range callsIn(ue) {
			if cl.Common().IsInvoke() && cl.Common().Method.Name() == "DispatchEvent" {
				fwd = cl
				nf++
			}
		}
		if r.Check("updateAndDispatchEvents:one-forward-site", nf == 1, ue.Pos(), fmt.Sprintf("%d forward sites", nf)) {
			r.Check("updateAndDispatchEvents:in-loop-over-events", reachableFrom(fwd.Block())[fwd.Block()] && strings.Contains(pathOf(fwd.Common().Args[1]), "events["), fwd.Pos(), "each element of the parked slice is forwarded")
			okUpd := false
			for _, cc := range callsIn(ue) {
				if staticCallee(cc) == ui && instrDominates(cc, fwd) && cc.Block() == fwd.Block() {
					okUpd = true
				}
			}
			r.Check("updateAndDispatchEvents:update-before-forward", okUpd, fwd.Pos(), "updateInplace precedes the forward of the same event")
		}
		// updateInplace applies whenever instance != nil
		for _, cl := range callsIn(ui) {
			if cl.Common().IsInvoke() && cl.Common().Method.Name() == "AddTagsSetSource" {
				cs := condStrings(cl.Block())
				ok := len(cs) == 1 && strings.Contains(cs[0], "instance") && strings.Contains(cs[0], "nil")
				r.Check("updateInplace:whenever-found", ok, cl.Pos(), "tags and id are applied under exactly `instance != nil`: "+strings.Join(cs, " && "))
				a := cl.Common().Args
				r.Check("updateInplace:tags-and-id", strings.HasSuffix(pathOf(a[0]), ".Tags") && strings.HasSuffix(pathOf(a[1]), ".ID"), cl.Pos(), "AddTagsSetSource(instance.Tags, instance.ID)")
			}
		}
		// AddTagsSetSource implementations agree: Tags = Concat, Source = newSource
		for _, T := range append(append([]string{}, aggTypes...), "Event") {
			fn := w.Func("", "(*"+T+").AddTagsSetSource")
			if fn == nil {
				r.Unresolved(T + ".AddTagsSetSource")
				continue
			}
			okT, okS := false, false
			for _, st := range fieldStores(fn, T, "Tags") {
				if cl, ok := st.Val.(*ssa.Call); ok && isCall(cl, "(gostatsd.Tags).Concat") && paramIndex(fn, cl.Call.Args[1]) == 1 {
					okT = true
				}
			}
			for _, st := range fieldStores(fn, T, "Source") {
				if paramIndex(fn, st.Val) == 2 {
					okS = true
				}
			}
			r.Check("AddTagsSetSource:"+T, okT && okS, fn.Pos(), "adds the instance tags and sets the source to the instance id")
			// on every path: the source is set whatever the tags are (an instance without tags still has an id)
			T2 := T
			mS := countOnPaths(fn, func(in ssa.Instruction) bool {
				st, ok := in.(*ssa.Store)
				if !ok {
					return false
				}
				t, f, _, ok := fieldRef(st.Addr)
				return ok && t == T2 && f == "Source" && paramIndex(fn, st.Val) == 2
			})
			r.Check("AddTagsSetSource:"+T+":source-on-every-path", mS == 2, fn.Pos(), "Source = newSource on every path: "+maskString(mS))
		}
	})

	c.Rule("C11.R4", "one lookup per source: a source is queued for lookup only when neither metrics nor events are parked for it", 2, func(r *Rule) {
		n := 0
		for _, fn := range pkgFuncs(w, P) {
			for _, st := range fieldStores(fn, "CloudHandler", "toLookupIPs") {
				cl, ok := st.Val.(*ssa.Call)
				if !ok || !isCall(cl, "builtin append") {
					continue
				}
				n++
				c.SawFunc(FuncName(fn))
				cs := strings.Join(condStrings(cl.Block()), " && ")
				// events empty
				okE := knownEmpty(factsAt(cl.Block()), func(v ssa.Value) bool { return strings.Contains(exprString(v, 0), "awaitingEvents") }) || strings.Contains(cs, "(call(builtin len)==0:int)=true")
				// metrics absent: either an explicit nil test, or a dominating comma-ok early return
				okM := knownNil(factsAt(cl.Block()), func(v ssa.Value) bool { return strings.Contains(pathOf(v), "awaitingMetrics[") })
				if !okM {
					for _, cd := range condsFor(cl.Block()) {
						cd = normCond(cd)
						if ex, ok := cd.V.(*ssa.Extract); ok && ex.Index == 1 && !cd.Sense {
							if lk, ok := ex.Tuple.(*ssa.Lookup); ok && strings.HasSuffix(pathOf(lk.X), ".awaitingMetrics") {
								okM = true
							}
						}
					}
				}
				// the len() must be of awaitingEvents[src] (possibly via the local queue)
				okE = knownEmpty(factsAt(cl.Block()), func(v ssa.Value) bool { return strings.Contains(pathOf(v), "awaitingEvents[") })
				// and nothing else suppresses the lookup: every condition the request depends on is a test of the two
				// parking maps (an item parked without an outstanding lookup for its source is never released)
				var mentions func(v ssa.Value, d int) bool
				mentions = func(v ssa.Value, d int) bool {
					if v == nil || d > 5 {
						return false
					}
					if lk, ok := v.(*ssa.Lookup); ok {
						p := pathOf(lk.X)
						if strings.HasSuffix(p, ".awaitingMetrics") || strings.HasSuffix(p, ".awaitingEvents") {
							return true
						}
					}
					if in, ok := v.(ssa.Instruction); ok {
						for _, op := range in.Operands(nil) {
							if *op != nil && mentions(*op, d+1) {
								return true
							}
						}
					}
					return false
				}
				for _, cd := range condsFor(cl.Block()) {
					r.Check("lookup:"+FuncName(fn)+":suppressed-only-by-parked-items", mentions(cd.V, 0), cl.Pos(), "the lookup request depends on "+condExpr(cd.V)+" (only the presence of parked metrics / events for the source may suppress it)")
				}
				r.Check("lookup:"+FuncName(fn)+":no-events-parked", okE, cl.Pos(), "guard: "+cs)
				r.Check("lookup:"+FuncName(fn)+":no-metrics-parked", okM, cl.Pos(), "guard: "+cs)
			}
		}
		r.Check("lookup:sites", n == 2, token.NoPos, fmt.Sprintf("%d sites queue a lookup", n))
		// every queued source is submitted exactly once: the element handed to the lookup is the element removed
		pendingPopRule(r, w, P, "CloudHandler", "toLookupIPs")
	})

	c.Rule("C11.R5", "queue gauges move with the maps: hosts++ with each new map entry, hosts-- with each delete, items++ per parked event, items -= len on release", 8, func(r *Rule) {
		pq := w.Func(P, "(*CloudHandler).prepareMetricQueue")
		he := w.Func(P, "(*CloudHandler).handleIncomingEvent")
		hi, _ := w.FuncOrHost(P, "(*CloudHandler).handleInstanceInfo")
		if pq == nil || he == nil || hi == nil {
			r.Unresolved("prepareMetricQueue / handleIncomingEvent / handleInstanceInfo")
			return
		}
		// all stores to the gauges, module wide
		all := map[string][]cntStore{}
		where := map[*ssa.Store]*ssa.Function{}
		for _, fn := range pkgFuncs(w, P) {
			for _, f := range []string{"statsMetricHostsQueued", "statsEventItemsQueued", "statsEventHostsQueued"} {
				for _, cs := range counterStores(fn, "CloudHandler", f) {
					all[f] = append(all[f], cs)
					where[cs.St] = fn
				}
			}
		}
		// metric hosts
		for _, cs := range all["statsMetricHostsQueued"] {
			fn := where[cs.St]
			switch cs.Kind {
			case "+1":
				var ins ssa.Instruction
				eachInstr(fn, func(in ssa.Instruction) {
					if mu, ok := in.(*ssa.MapUpdate); ok && strings.HasSuffix(pathOf(mu.Map), ".awaitingMetrics") {
						ins = in
					}
				})
				r.Check("metric-hosts:++with-insert", ins != nil && controlEquivalent(fn, cs.St, ins), cs.St.Pos(), "hosts_queued{type:metric}++ exactly when a new entry is put into awaitingMetrics (not only when a lookup is queued)")
			case "-1":
				var del ssa.Instruction
				for _, cl := range callsTo(fn, "builtin delete") {
					if strings.HasSuffix(pathOf(cl.Common().Args[0]), ".awaitingMetrics") {
						del = cl
					}
				}
				r.Check("metric-hosts:--with-delete", del != nil && controlEquivalent(fn, cs.St, del), cs.St.Pos(), "hosts_queued{type:metric}-- exactly when the entry is deleted")
			default:
				r.Fail("metric-hosts:unexpected-store", cs.St.Pos(), "statsMetricHostsQueued <- "+cs.Kind)
			}
		}
		// event hosts: ++ when the queue for the source was empty; -- with delete
		for _, cs := range all["statsEventHostsQueued"] {
			fn := where[cs.St]
			switch cs.Kind {
			case "+1":
				conds := condStrings(cs.St.Block())
				fsE := factsAt(cs.St.Block())
				ok := len(fsE) == 1 && knownEmpty(fsE, func(v ssa.Value) bool { return true })
				r.Check("event-hosts:++on-first-event", ok, cs.St.Pos(), "hosts_queued{type:event}++ under exactly 'the source had no parked events': "+strings.Join(conds, " && "))
			case "-1":
				var del ssa.Instruction
				for _, cl := range callsTo(fn, "builtin delete") {
					if strings.HasSuffix(pathOf(cl.Common().Args[0]), ".awaitingEvents") {
						del = cl
					}
				}
				r.Check("event-hosts:--with-delete", del != nil && controlEquivalent(fn, cs.St, del), cs.St.Pos(), "hosts_queued{type:event}-- exactly when the entry is deleted")
			default:
				r.Fail("event-hosts:unexpected-store", cs.St.Pos(), "statsEventHostsQueued <- "+cs.Kind)
			}
		}
		for _, cs := range all["statsEventItemsQueued"] {
			fn := where[cs.St]
			switch cs.Kind {
			case "+1":
				pd := newPostDom(fn)
				r.Check("event-items:++per-event", cs.St.Block() == fn.Blocks[0] || pd.PostDominates(cs.St.Block(), fn.Blocks[0]), cs.St.Pos(), "items_queued++ for every parked event")
				// and the event is appended on every path as well
				okApp := false
				eachInstr(fn, func(in ssa.Instruction) {
					if mu, ok := in.(*ssa.MapUpdate); ok && strings.HasSuffix(pathOf(mu.Map), ".awaitingEvents") {
						if cl, ok := mu.Value.(*ssa.Call); ok && isCall(cl, "builtin append") && (mu.Block() == fn.Blocks[0] || pd.PostDominates(mu.Block(), fn.Blocks[0])) {
							okApp = true
						}
					}
				})
				r.Check("event-items:appended-per-event", okApp, cs.St.Pos(), "every incoming event is appended to its source's queue")
			case "-len":
				var del ssa.Instruction
				for _, cl := range callsTo(fn, "builtin delete") {
					if strings.HasSuffix(pathOf(cl.Common().Args[0]), ".awaitingEvents") {
						del = cl
					}
				}
				r.Check("event-items:-=len-with-delete", del != nil && controlEquivalent(fn, cs.St, del), cs.St.Pos(), "items_queued -= len(events) exactly when the queue is released")
			default:
				r.Fail("event-items:unexpected-store", cs.St.Pos(), "statsEventItemsQueued <- "+cs.Kind)
			}
		}
		for f, want := range map[string]int{"statsMetricHostsQueued": 2, "statsEventHostsQueued": 2, "statsEventItemsQueued": 2} {
			r.Check("gauge-store-sites:"+f, len(all[f]) == want, token.NoPos, fmt.Sprintf("%d stores to %s (one up, one down)", len(all[f]), f))
		}
		// emit reports these fields under the documented names
		em := w.Func(P, "(*CloudHandler).emit")
		if em != nil {
			got := map[string]string{}
			for _, cl := range callsIn(em) {
				if cl.Common().IsInvoke() && cl.Common().Method.Name() == "Gauge" {
					name, _ := constString(cl.Common().Args[0])
					for _, f := range []string{"statsMetricHostsQueued", "statsEventItemsQueued", "statsEventHostsQueued"} {
						if strings.Contains(exprString(cl.Common().Args[1], 0), f) {
							got[f] = name
						}
					}
				}
			}
			if len(got) < 3 {
				// the gauges listed in a table of (name, value, tags) rows that one loop reports
				loopGauge := false
				for _, cl := range callsIn(em) {
					if cl.Common().IsInvoke() && cl.Common().Method.Name() == "Gauge" {
						if _, isC := constString(cl.Common().Args[0]); !isC {
							loopGauge = true
						}
					}
				}
				if loopGauge {
					for _, row := range structTableRows(em) {
						name := ""
						for _, v := range row {
							if s2, isS := constString(v); isS && strings.HasPrefix(s2, "cloudprovider.") {
								name = s2
							}
						}
						for _, v := range row {
							for _, f := range []string{"statsMetricHostsQueued", "statsEventItemsQueued", "statsEventHostsQueued"} {
								if name != "" && strings.Contains(exprString(v, 0), f) {
									got[f] = name
								}
							}
						}
					}
				}
			}
			r.Check("emit:names", got["statsMetricHostsQueued"] == "cloudprovider.hosts_queued" && got["statsEventHostsQueued"] == "cloudprovider.hosts_queued" && got["statsEventItemsQueued"] == "cloudprovider.items_queued", em.Pos(), fmt.Sprintf("%v", got))
		}
	})

	if c.Tier == "thorough" {
		c.Rule("C11.R7", "thorough: per the VTA call graph the functions touching the parked state are called only from code owned by the Run goroutine", 4, func(r *Rule) {
			if run == nil {
				r.Unresolved("(*CloudHandler).Run")
				return
			}
			owned := ownedBy(w, run, P)
			touch := map[*ssa.Function]bool{}
			for _, f := range parked {
				for _, fn := range fieldTouchers(w, "CloudHandler", f) {
					touch[fn] = true
				}
			}
			for fn := range touch {
				if fn == run || fn.Name() == "NewCloudHandler" || fn.Parent() != nil {
					continue
				}
				for _, caller := range vtaCallersOf(w, fn) {
					r.Check("vta-caller:"+fn.Name()+":"+FuncName(caller), owned[caller] || caller.Synthetic != "", caller.Pos(), FuncName(caller)+" may call "+fn.Name()+" per VTA; it must run on the Run goroutine")
				}
			}
		})
	}

	c.Rule("C11.R6", "four-type exhaustiveness in the cloud stage (C07.R6)", 3, func(r *Rule) {
		fourTypeRule(c, r, func(fn *ssa.Function) bool {
			return fn.Signature.Recv() != nil && typeIs(fn.Signature.Recv().Type(), P, "CloudHandler")
		})
	})
}

func c19(c *Ctx) {
	w := c.W
	const P = "pkg/statsd"
	c.Explanation = "C19 (every event delivered once to every backend): each pipeline stage forwards an event exactly once on every non-cancelled path; WaitGroup adds and dones balance (one goroutine per backend, compensation on cancellation, Done deferred); the event semaphore is released on every path; parked events keep their WaitGroup count until they have been handed on; every WaitForEvents waits for its own group and then the next stage; static and cloud tags are applied before forwarding; the stage order is parser -> cloud -> tags -> sink; event field tables agree along the chain (C14.R2/R3, C02.R2)."
	c.NotDecided = []string{"end-to-end delivery under concurrency as a history property", "backend SendEvent implementations' wire formats"}

	impls := pipelineImpls(w)

	c.Rule("C19.R1", "stage forwarding: each wrapping stage forwards once; the backend stage starts one goroutine per backend with balanced WaitGroup and semaphore", 14, func(r *Rule) {
		th := w.Func(P, "(*TagHandler).DispatchEvent")
		if th == nil {
			r.Unresolved("(*TagHandler).DispatchEvent")
		} else {
			c.SawFunc(FuncName(th))
			m := countOnPaths(th, func(in ssa.Instruction) bool {
				cl, ok := in.(ssa.CallInstruction)
				return ok && cl.Common().IsInvoke() && cl.Common().Method.Name() == "DispatchEvent"
			})
			r.Check("TagHandler:forwards-once", m == 2, th.Pos(), "forwards over all paths = "+maskString(m))
		}
		bh := w.Func(P, "(*BackendHandler).DispatchEvent")
		ide := w.Func(P, "(*BackendHandler).internalDispatchEvent")
		ideInline := false
		if bh != nil && ide == nil {
			// the per-backend delivery may be written directly in the goroutine literal of DispatchEvent
			for _, g := range WithAnon(bh)[1:] {
				for _, cl := range callsIn(g) {
					if cl.Common().IsInvoke() && cl.Common().Method.Name() == "SendEvent" {
						ide, ideInline = g, true
					}
				}
			}
		}
		if bh == nil || ide == nil {
			r.Unresolved("(*BackendHandler).DispatchEvent / internalDispatchEvent")
			return
		}
		c.SawFunc(FuncName(bh))
		c.SawFunc(FuncName(ide))
		// Add(len(bh.backends)) at entry
		var adds []ssa.CallInstruction
		for _, cl := range callsTo(bh, "(*sync.WaitGroup).Add") {
			adds = append(adds, cl)
		}
		okAdd := false
		for _, a := range adds {
			if lc, ok := a.Common().Args[1].(*ssa.Call); ok && isCall(lc, "builtin len") && pathOf(lc.Call.Args[0]) == "bh.backends" && a.Block() == bh.Blocks[0] {
				okAdd = true
			}
		}
		r.Check("BackendHandler:add-len-backends", okAdd, bh.Pos(), "eventWg.Add(len(bh.backends)) before the loop")
		// one goroutine per backend, in a range over bh.backends, on the semaphore-acquired branch
		var gos []*ssa.Go
		var dispatchedPhi *ssa.Phi
		var indexAsCount ssa.Value
		eachInstr(bh, func(in ssa.Instruction) {
			if g, ok := in.(*ssa.Go); ok {
				gos = append(gos, g)
			}
		})
		if r.Check("BackendHandler:one-go-site", len(gos) == 1, bh.Pos(), fmt.Sprintf("%d go statements", len(gos))) {
			g := gos[0]
			// the goroutine calls internalDispatchEvent(ctx, b, e) with this iteration's backend (handed over
			// as an argument or captured per iteration) and the event
			isLoopBackend := func(v ssa.Value) bool {
				ld, ok := v.(*ssa.UnOp)
				if !ok || ld.Op != token.MUL {
					return false
				}
				ia, ok := ld.X.(*ssa.IndexAddr)
				if !ok || pathOf(ia.X) != "bh.backends" {
					return false
				}
				idx := ia.Index
				if b := asBinOp(idx, token.ADD); b != nil {
					idx = b.X
				}
				ph, ok := idx.(*ssa.Phi)
				return ok && isLoopHead(ph.Block())
			}
			if mc, ok := g.Call.Value.(*ssa.MakeClosure); ok {
				cl := mc.Fn.(*ssa.Function)
				n := 0
				if ideInline && cl == ide {
					// the literal sends by itself: its backend is this iteration's, its event the handler's argument
					for _, cc := range callsIn(cl) {
						if cc.Common().IsInvoke() && cc.Common().Method.Name() == "SendEvent" {
							n++
							org := goValueOrigin(g, cl, cc.Common().Value)
							r.Check("BackendHandler:goroutine-gets-this-backend", org != nil && isLoopBackend(org), g.Pos(), "the goroutine's backend is "+pathOf(org))
							r.Check("BackendHandler:dispatches-to-own-backend", org != nil && valueName(cc.Common().Args[1]) == "e", cc.Pos(), "backend.SendEvent(ctx, e)")
						}
					}
					m := countOnPaths(cl, func(in ssa.Instruction) bool {
						cc, ok := in.(ssa.CallInstruction)
						return ok && cc.Common().IsInvoke() && cc.Common().Method.Name() == "SendEvent"
					})
					r.Check("BackendHandler:goroutine-dispatches-once", n == 1 && m == 2, cl.Pos(), "SendEvent over all paths = "+maskString(m))
				}
				for _, cc := range callsIn(cl) {
					if ideInline {
						break
					}
					if staticCallee(cc) == ide {
						n++
						aa := cc.Common().Args
						org := goValueOrigin(g, cl, aa[2])
						r.Check("BackendHandler:goroutine-gets-this-backend", org != nil && isLoopBackend(org), g.Pos(), "the goroutine's backend is "+pathOf(org))
						r.Check("BackendHandler:dispatches-to-own-backend", org != nil && valueName(aa[3]) == "e", cc.Pos(), "internalDispatchEvent(ctx, b, e)")
					}
				}
				if !ideInline {
					m := countOnPaths(cl, func(in ssa.Instruction) bool {
						cc, ok := in.(ssa.CallInstruction)
						return ok && staticCallee(cc) == ide
					})
					r.Check("BackendHandler:goroutine-dispatches-once", n == 1 && m == 2, cl.Pos(), "internalDispatchEvent over all paths = "+maskString(m))
				}
			}
			// byType: the argument of the given named type
			byType := func(args []ssa.Value, tname string) ssa.Value {
				var out ssa.Value
				for _, a := range args {
					if strings.HasSuffix(strings.TrimPrefix(a.Type().String(), "*"), "gostatsd."+tname) {
						out = a
					}
				}
				return out
			}
			if !ideInline && staticCallee(g) == ide {
				// go bh.internalDispatchEvent(..., backend, e): the arguments are evaluated in the handler itself
				bArg, eArg := byType(g.Call.Args, "Backend"), byType(g.Call.Args, "Event")
				r.Check("BackendHandler:goroutine-gets-this-backend", bArg != nil && isLoopBackend(bArg), g.Pos(), "the goroutine's backend is "+pathOf(bArg))
				evParam := false
				if p, ok := eArg.(*ssa.Parameter); ok && p.Parent() == bh {
					evParam = true
				}
				r.Check("BackendHandler:dispatches-to-own-backend", evParam, g.Pos(), "internalDispatchEvent(..., b, e) with the handler's event")
				r.Check("BackendHandler:goroutine-dispatches-once", true, g.Pos(), "the goroutine is internalDispatchEvent itself")
			}
			// dispatched counter incremented with the go
			okInc := false
			for _, in := range g.Block().Instrs {
				if b, ok := in.(*ssa.BinOp); ok && b.Op == token.ADD {
					if ph, ok := b.X.(*ssa.Phi); ok && isLoopHead(ph.Block()) {
						if one, isC := constInt(b.Y); isC && one == 1 {
							dispatchedPhi = ph
							okInc = true
						}
					}
				}
			}
			if !okInc {
				// no separate counter: the index of the range over bh.backends is the number of goroutines started in
				// the earlier iterations when every completed iteration starts exactly one (the go statement is in the
				// loop body, and the only other way out of an iteration is the cancellation return)
				for _, a := range adds {
					b := asBinOp(a.Common().Args[1], token.SUB)
					if b == nil || !strings.Contains(pathOf(b.Y), "builtin len") {
						continue
					}
					var ph *ssa.Phi
					if p, ok := b.X.(*ssa.Phi); ok {
						ph = p
					} else if ib := asBinOp(b.X, token.ADD); ib != nil {
						ph, _ = ib.X.(*ssa.Phi)
					}
					if ph == nil || !isLoopHead(ph.Block()) || !loopBody(ph.Block())[g.Block()] {
						continue
					}
					covers := false
					eachInstr(bh, func(in ssa.Instruction) {
						if ia, ok := in.(*ssa.IndexAddr); ok && pathOf(ia.X) == "bh.backends" && ia.Index == b.X {
							if ld, ok := ia.X.(*ssa.UnOp); ok && loopCoversSlice(ph, ld) {
								covers = true
							}
						}
					})
					// exactly one go statement on every path through an iteration that reaches the next one
					nExit := 0
					for _, e := range earlyExits(ph.Block()) {
						if _, isPanic := e[1].Instrs[len(e[1].Instrs)-1].(*ssa.Panic); !isPanic {
							nExit++ // (the compiler's "blocking select matched no case" panic is not an exit)
						}
					}
					if covers && nExit <= 1 {
						okInc = true
						indexAsCount = b.X
					}
				}
			}
			r.Check("BackendHandler:counts-dispatched", okInc, g.Pos(), "the count of started goroutines is incremented with each goroutine (or is the index of the range over the backends)")
			// acquired the semaphore on this branch
			okSem := false
			eachInstr(bh, func(in ssa.Instruction) {
				if sel, ok := in.(*ssa.Select); ok {
					for k, st := range sel.States {
						if st.Dir == types.SendOnly && strings.HasSuffix(pathOf(st.Chan), ".concurrentEvents") {
							_, to := selectCaseEdge(sel, k)
							if to == g.Block() || (to != nil && to.Dominates(g.Block())) {
								okSem = true
							}
						}
					}
				}
			})
			r.Check("BackendHandler:semaphore-acquired-before-go", okSem, g.Pos(), "the goroutine is started on the branch that acquired a concurrentEvents slot")
		}
		// compensation on cancellation: Add(eventsDispatched - len(backends)) and return
		okComp := false
		for _, a := range adds {
			if b := asBinOp(a.Common().Args[1], token.SUB); b != nil {
				if ph, ok := b.X.(*ssa.Phi); ((ok && ph == dispatchedPhi && dispatchedPhi != nil) || (indexAsCount != nil && b.X == indexAsCount)) && strings.Contains(pathOf(b.Y), "builtin len") {
					// followed by return
					if _, isRet := a.Block().Instrs[len(a.Block().Instrs)-1].(*ssa.Return); isRet {
						okComp = true
					}
				}
			}
		}
		r.Check("BackendHandler:cancel-compensates", okComp, bh.Pos(), "on cancellation the WaitGroup is reduced by the number of backends not reached")
		// internalDispatchEvent: Done deferred, semaphore release deferred, both before SendEvent
		var send ssa.CallInstruction
		for _, cl := range callsIn(ide) {
			if cl.Common().IsInvoke() && cl.Common().Method.Name() == "SendEvent" {
				send = cl
			}
		}
		if send == nil {
			r.Fail("internalDispatchEvent:send", ide.Pos(), "no SendEvent call")
			return
		}
		okDone, okRel := false, false
		eachInstr(ide, func(in ssa.Instruction) {
			d, ok := in.(*ssa.Defer)
			if !ok || !instrDominates(d, send) {
				return
			}
			if isCall(d, "(*sync.WaitGroup).Done") && strings.HasSuffix(pathOf(d.Call.Args[0]), ".eventWg") {
				okDone = true
			}
			if mc, ok := d.Call.Value.(*ssa.MakeClosure); ok {
				_, rc := chanFieldOps(mc.Fn.(*ssa.Function), "concurrentEvents")
				cf := mc.Fn.(*ssa.Function)
				// eventWg.Done() inside the deferred function, on each of its paths
				if m := countOnPaths(cf, func(in ssa.Instruction) bool {
					cc, ok := in.(ssa.CallInstruction)
					return ok && isCall(cc, "(*sync.WaitGroup).Done") && strings.HasSuffix(pathOf(cc.Common().Args[0]), ".eventWg")
				}); m == 2 {
					okDone = true
				}
				if len(rc) == 1 && countOnPaths(cf, func(in ssa.Instruction) bool { return in == rc[0] }) == 2 {
					okRel = true
				}
			}
		})
		r.Check("internalDispatchEvent:done-deferred", okDone, ide.Pos(), "eventWg.Done() is deferred before the send, so it runs on every path")
		r.Check("internalDispatchEvent:slot-released-on-every-path", okRel, ide.Pos(), "the concurrentEvents slot is released by a defer registered before SendEvent (a failed send must not keep the slot)")
		if !ideInline {
			isParamOf := func(v ssa.Value, tname string) bool {
				i := paramIndex(ide, v)
				return i >= 0 && strings.HasSuffix(strings.TrimPrefix(ide.Params[i].Type().String(), "*"), "gostatsd."+tname)
			}
			r.Check("internalDispatchEvent:sends-to-its-backend", isParamOf(send.Common().Value, "Backend") && isParamOf(send.Common().Args[1], "Event"), send.Pos(), "backend.SendEvent(ctx, e) with the function's own backend and event parameters")
		}
		// forwarder
		fd := w.Func(P, "(*HttpForwarderHandlerV2).DispatchEvent")
		fde := w.Func(P, "(*HttpForwarderHandlerV2).dispatchEvent")
		if fd == nil || fde == nil {
			r.Unresolved("(*HttpForwarderHandlerV2).DispatchEvent / dispatchEvent")
			return
		}
		var add, gof ssa.Instruction
		for _, cl := range callsIn(fd) {
			if isCall(cl, "(*sync.WaitGroup).Add") {
				add = cl
			}
			if g, ok := cl.(*ssa.Go); ok && staticCallee(g) == fde {
				gof = g
			}
		}
		r.Check("forwarder:add-then-go", add != nil && gof != nil && instrDominates(add, gof), fd.Pos(), "eventWg.Add(1) precedes go dispatchEvent")
		m := countOnPaths(fde, func(in ssa.Instruction) bool {
			cl, ok := in.(ssa.CallInstruction)
			return ok && isCall(cl, "(*sync.WaitGroup).Done")
		})
		r.Check("forwarder:done-once", m == 2, fde.Pos(), "eventWg.Done() over all paths of dispatchEvent = "+maskString(m))
		mp := countOnPaths(fde, func(in ssa.Instruction) bool {
			cl, ok := in.(ssa.CallInstruction)
			return ok && staticCallee(cl) != nil && staticCallee(cl).Name() == "post"
		})
		r.Check("forwarder:posts-once", mp == 2, fde.Pos(), "post over all paths = "+maskString(mp))
	})

	c.Rule("C19.R6", "a delivery outlives its dispatcher: the context a delivery goroutine works under is not one that the function starting the goroutine cancels when it returns (a context whose cancel function is deferred or called by the starter is dead before the backend's SendEvent has sent anything)", 1, func(r *Rule) {
		bh := w.Func("pkg/statsd", "(*BackendHandler).DispatchEvent")
		if bh == nil {
			r.Unresolved("(*BackendHandler).DispatchEvent")
			return
		}
		c.SawFunc(FuncName(bh))
		isCtx := func(t types.Type) bool { return strings.HasSuffix(t.String(), "context.Context") }
		// contexts the starter cancels itself: ctx, cancel := context.WithX(...) with cancel deferred / called in bh
		cancelled := map[ssa.Value]bool{}
		for _, cl := range callsIn(bh) {
			nm := calleeName(cl)
			if !strings.HasPrefix(nm, "context.With") {
				continue
			}
			call, ok := cl.(*ssa.Call)
			if !ok {
				continue
			}
			var cctx, cfn ssa.Value
			for _, ref := range referrers(call) {
				if ex, ok := ref.(*ssa.Extract); ok {
					if ex.Index == 0 {
						cctx = ex
					} else {
						cfn = ex
					}
				}
			}
			if cctx == nil || cfn == nil {
				continue
			}
			for _, ref := range referrers(cfn) {
				if ci, ok := ref.(ssa.CallInstruction); ok && ci.Common().Value == cfn {
					if _, isGo := ci.(*ssa.Go); !isGo {
						cancelled[cctx] = true
					}
				}
			}
		}
		n := 0
		for _, f := range WithAnon(bh) {
			eachInstr(f, func(in ssa.Instruction) {
				g, ok := in.(*ssa.Go)
				if !ok {
					return
				}
				n++
				var given []ssa.Value
				for _, a := range g.Call.Args {
					if isCtx(a.Type()) {
						given = append(given, a)
					}
				}
				if mc, ok := g.Call.Value.(*ssa.MakeClosure); ok {
					for _, b := range mc.Bindings {
						// a captured variable holding a context
						if isCtx(derefType(b.Type())) {
							if cell, isCell := b.(*ssa.Alloc); isCell {
								for _, ref := range referrers(cell) {
									if st, ok := ref.(*ssa.Store); ok && st.Addr == ssa.Value(cell) {
										given = append(given, st.Val)
									}
								}
							} else {
								given = append(given, b)
							}
						}
					}
				}
				bad := ""
				for _, v := range given {
					if cancelled[ptrOrigin(v)] || cancelled[v] {
						bad = pathOf(v)
					}
				}
				r.Check("DispatchEvent:goroutine-context-outlives-dispatch", bad == "", g.Pos(), "the delivery goroutine is not given a context that DispatchEvent itself cancels "+bad)
			})
		}
		r.Check("DispatchEvent:delivery-goroutines", n >= 1, bh.Pos(), fmt.Sprintf("%d go statements", n))
	})

	c.Rule("C19.R2", "wait chain: each stage's WaitForEvents waits for its own group and then for the next stage; parked events keep their count until handed on", 6, func(r *Rule) {
		for _, t := range impls {
			fn := w.Prog.LookupMethod(t, nil, "WaitForEvents")
			if fn == nil || fn.Blocks == nil {
				continue
			}
			c.SawFunc(FuncName(fn))
			st, _ := derefType(t).Underlying().(*types.Struct)
			hasNext, hasWg := false, false
			if st != nil {
				for i := 0; i < st.NumFields(); i++ {
					if typeIs(st.Field(i).Type(), "", "PipelineHandler") {
						hasNext = true
					}
					if st.Field(i).Type().String() == "sync.WaitGroup" {
						hasWg = true
					}
				}
			}
			var wgWait, nextWait ssa.Instruction
			for _, cl := range callsIn(fn) {
				if isCall(cl, "(*sync.WaitGroup).Wait") {
					wgWait = cl
				}
				if cl.Common().IsInvoke() && cl.Common().Method.Name() == "WaitForEvents" {
					nextWait = cl
				}
			}
			key := FuncName(fn)
			if hasWg {
				r.Check(key+":waits-own-group", wgWait != nil, fn.Pos(), "waits for its own WaitGroup")
			}
			if hasNext {
				r.Check(key+":waits-next-stage", nextWait != nil, fn.Pos(), "then waits for the wrapped handler")
			}
			if hasWg && hasNext && wgWait != nil && nextWait != nil {
				r.Check(key+":order", instrDominates(wgWait, nextWait), fn.Pos(), "own events first, then downstream")
			}
		}
		// parked events: in updateAndDispatchEvents no WaitGroup decrement may precede a forward
		ue := w.Func(P, "(*CloudHandler).updateAndDispatchEvents")
		if ue == nil {
			r.Unresolved("updateAndDispatchEvents")
			return
		}
		res := runAutomaton(ue, 0, func(in ssa.Instruction) int {
			cl, ok := in.(ssa.CallInstruction)
			if !ok {
				return -1
			}
			if _, isDefer := in.(*ssa.Defer); isDefer {
				return -1
			}
			if isCall(cl, "(*sync.WaitGroup).Done", "(*sync.WaitGroup).Add") {
				return 0
			}
			if cl.Common().IsInvoke() && cl.Common().Method.Name() == "DispatchEvent" {
				return 1
			}
			return -1
		}, func(s, e int) int {
			if e == 0 {
				return 1
			}
			if s == 1 {
				return -1
			}
			return s
		})
		r.Check("parked-events:count-kept-until-forwarded", len(res.Errors) == 0, ue.Pos(), "the WaitGroup count of a parked event is released only after it has been handed to the next stage (a decrement before DispatchEvent lets WaitForEvents return early)")
		// the release is deferred and subtracts exactly the number forwarded
		okDef := false
		var counter *ssa.Alloc // the local that counts the forwarded events: what the deferred Add subtracts
		eachInstr(ue, func(in ssa.Instruction) {
			if d, ok := in.(*ssa.Defer); ok {
				if mc, ok := d.Call.Value.(*ssa.MakeClosure); ok {
					for _, cl := range callsTo(mc.Fn.(*ssa.Function), "(*sync.WaitGroup).Add") {
						arg := cl.Common().Args[1]
						var inner ssa.Value
						if u, ok := arg.(*ssa.UnOp); ok && u.Op == token.SUB {
							inner = u.X
						} else if b := asBinOp(arg, token.SUB); b != nil {
							if z, isC := constInt(b.X); isC && z == 0 {
								inner = b.Y
							}
						}
						if ld, ok := inner.(*ssa.UnOp); ok && ld.Op == token.MUL {
							if cell := cellOf(ld.X); cell != nil && cell.Parent() == ue {
								counter = cell
								okDef = true
							}
						}
					}
				}
			}
		})
		r.Check("parked-events:deferred-release-of-dispatched", okDef, ue.Pos(), "defer wg.Add(-dispatched)")
		// dispatched++ precedes each forward (so a panic downstream still releases it)
		okInc := false
		for _, cl := range callsIn(ue) {
			if cl.Common().IsInvoke() && cl.Common().Method.Name() == "DispatchEvent" {
				for _, in := range cl.Block().Instrs[:instrIndex(cl)] {
					st, ok := in.(*ssa.Store)
					if !ok || counter == nil || cellOf(st.Addr) != counter {
						continue
					}
					b := asBinOp(st.Val, token.ADD)
					if b == nil {
						continue
					}
					if one, isC := constInt(b.Y); !isC || one != 1 {
						continue
					}
					// counter = counter + 1, or counter = i + 1 with i the index of the event being forwarded
					if ld, ok := b.X.(*ssa.UnOp); ok && ld.Op == token.MUL && cellOf(ld.X) == counter {
						okInc = true
					}
					if ev, ok := cl.Common().Args[1].(*ssa.UnOp); ok && ev.Op == token.MUL {
						if ia, ok := ev.X.(*ssa.IndexAddr); ok && ia.Index == b.X {
							okInc = true
						}
						if ia, ok := ev.X.(*ssa.IndexAddr); ok {
							if ib := asBinOp(ia.Index, token.ADD); ib != nil && ib == b {
								okInc = true
							}
						}
					}
				}
			}
		}
		r.Check("parked-events:counted-per-forward", okInc, ue.Pos(), "dispatched++ for each forwarded event")
	})

	c.Rule("C19.R7", "an event line reaches the lexer as it was sent: what the parser hands to the lexer for a line is exactly the bytes between the newlines (title and text are delimited by byte counts, so trimming or rewriting the line makes a valid event a bad line or cuts its last field) - C05.R3's line-splitting obligations, shared", 3, func(r *Rule) {
		importObligations(c, r, c05, "C05.R3", func(k string) bool { return strings.HasPrefix(k, "split:") })
	})

	c.Rule("C19.R3", "field tables along the chain: lexer (C02.R2) -> forwarder/receiver (C14.R2, C14.R3); the parser fills source and time only as documented", 20, func(r *Rule) {
		for _, pr := range []struct {
			run  func(*Ctx)
			only string
		}{{c02, "C02.R2"}, {c14, "C14.R2"}, {c14, "C14.R3"}} {
			sub := &Ctx{W: w, Prop: c.Prop, Tier: c.Tier, known: c.known, Only: pr.only}
			pr.run(sub)
			for _, sr := range sub.Rules {
				for _, o := range sr.Obls {
					if pr.only == "C14.R2" && !strings.Contains(o.Key, "vent") {
						continue
					}
					o2 := *o
					o2.Rule = "C19.R3"
					o2.Key = sr.ID + "/" + o.Key
					r.Obls = append(r.Obls, &o2)
				}
			}
		}
		// title and text: the declared byte ranges of the line; in the text every escaped newline is restored
		// (all occurrences, by the library routine - a hand-written in-place loop has to get its bounds right
		// for an escape at the very end)
		if leb := w.Func("internal/lexer", "lexEventBody"); leb != nil {
			nText := 0
			for _, st := range fieldStores(leb, "Event", "Text") {
				nText++
				okText, why := false, "Text is not string(bytes.Replace(<text bytes>, \"\\n\", \"\n\", -1))"
				if cv, ok := st.Val.(*ssa.Convert); ok {
					if rc, ok := cv.X.(*ssa.Call); ok && (isCall(rc, "bytes.Replace") || isCall(rc, "bytes.ReplaceAll")) {
						a := rc.Call.Args
						from, ok1 := byteSliceConst(w, a[1], 0)
						to, ok2 := byteSliceConst(w, a[2], 0)
						all := isCall(rc, "bytes.ReplaceAll")
						if !all && len(a) == 4 {
							if n, isC := constInt(a[3]); isC && n < 0 {
								all = true
							}
						}
						_, isSlice := a[0].(*ssa.Slice)
						switch {
						case !ok1 || !ok2 || from != "\\n" || to != "\n":
							why = fmt.Sprintf("replaces %q by %q", from, to)
						case !all:
							why = "not every occurrence is replaced"
						case !isSlice || !strings.Contains(pathOf(a[0]), "eventTextLen"):
							why = "the bytes are not the declared text range: " + pathOf(a[0])
						default:
							okText, why = true, ""
						}
					}
				}
				r.Check("lexer:event-text-unescaped", okText, st.Pos(), "Event.Text is the declared text with every escaped newline restored "+why)
			}
			r.Check("lexer:event-text-site", nText == 1, leb.Pos(), fmt.Sprintf("%d stores of Event.Text in lexEventBody", nText))
		} else {
			r.Unresolved("lexer.lexEventBody")
		}
		hd := w.Func(P, "(*DatagramParser).handleDatagram")
		if hd == nil {
			r.Unresolved("handleDatagram")
			return
		}
		srcBlocks := map[*ssa.BasicBlock]bool{}
		var srcStores []*ssa.Store
		for _, st := range fieldStores(hd, "Event", "Source") {
			r.Check("parser:event-source-is-sender", paramIndex(hd, st.Val) == 4, st.Pos(), "event.Source <- ip")
			if paramIndex(hd, st.Val) == 4 {
				srcBlocks[st.Block()] = true
				srcStores = append(srcStores, st)
			}
		}
		// ... for every event: each path to the event's dispatch passes that store (a client-supplied h: field
		// never stands in for the sender's address)
		nDisp := 0
		for _, cl := range callsIn(hd) {
			if !cl.Common().IsInvoke() || cl.Common().Method.Name() != "DispatchEvent" {
				continue
			}
			nDisp++
			ok := false
			for _, st := range srcStores {
				if st.Block() == cl.Block() && instrDominates(st, cl) {
					ok = true
				}
			}
			if !ok && len(srcBlocks) > 0 {
				ok = !srcBlocks[cl.Block()] && !pathsAvoiding(hd.Blocks[0], cl.Block(), func(b *ssa.BasicBlock) bool { return srcBlocks[b] })
			}
			r.Check("parser:event-source-always-set", ok, cl.Pos(), "every path to DispatchEvent passes event.Source <- ip")
		}
		r.Check("parser:event-dispatch-site", nDisp >= 1, hd.Pos(), fmt.Sprintf("%d DispatchEvent calls in handleDatagram", nDisp))
		for _, st := range fieldStores(hd, "Event", "DateHappened") {
			cs := strings.Join(condStrings(st.Block()), " && ")
			r.Check("parser:event-time-only-when-absent", cmpHolds(factsAt(st.Block()), func(v ssa.Value) bool { return strings.HasSuffix(pathOf(v), ".DateHappened") }, func(v ssa.Value) bool { n, ok := constInt(v); return ok && n == 0 }, token.EQL) && strings.Contains(exprString(st.Val, 0), "time.Now"), st.Pos(), "DateHappened <- now only when the line carried none: "+cs)
		}
	})

	c.Rule("C19.R5", "no event is left behind or altered on the way: parked events are released by every lookup result for their source whatever else is parked (C11.R3 on the event queue); the lexer's tag slice handed to an event is never a re-used buffer (C05.R6)", 10, func(r *Rule) {
		hi, _ := w.FuncOrHost(P, "(*CloudHandler).handleInstanceInfo")
		ue := w.Func(P, "(*CloudHandler).updateAndDispatchEvents")
		if hi == nil || ue == nil {
			r.Unresolved("handleInstanceInfo / updateAndDispatchEvents")
			return
		}
		c.SawFunc(FuncName(hi))
		cloudReleaseRule(c, r, hi, map[string]*ssa.Function{"awaitingEvents": ue}, "awaitingEvents")
		lexerTagsProvenance(c, r)
		// an event that has to wait is parked on every path: the queue with the event appended is stored under its source
		if hie := w.Func(P, "(*CloudHandler).handleIncomingEvent"); hie != nil {
			c.SawFunc(FuncName(hie))
			isPark := func(in ssa.Instruction) bool {
				mu, ok := in.(*ssa.MapUpdate)
				if !ok || !strings.HasSuffix(pathOf(mu.Map), ".awaitingEvents") {
					return false
				}
				// the stored slice is append(<queue>, e) with e the event parameter
				cl, ok := mu.Value.(*ssa.Call)
				if !ok || !isCall(cl, "builtin append") {
					return false
				}
				for _, el := range varargElems(cl.Call.Args[1]) {
					if paramIndex(hie, el) == 1 {
						return true
					}
				}
				return false
			}
			m := countOnPaths(hie, isPark)
			r.Check("handleIncomingEvent:parks-on-every-path", m == 2, hie.Pos(), "awaitingEvents[source] = append(queue, e) exactly once on every path: "+maskString(m))
		} else {
			r.Unresolved("(*CloudHandler).handleIncomingEvent")
		}
		// the HTTP ingestion endpoint hands every decoded event to the pipeline, synchronously, before answering
		if eh := w.Func("pkg/web", "(*rawHttpHandlerV2).EventHandler"); eh != nil {
			httpHandlerRule(c, r, eh, "DispatchEvent")
		} else {
			r.Unresolved("(*rawHttpHandlerV2).EventHandler")
		}
	})

	c.Rule("C19.R4", "tags and order: static tags applied before forwarding; cloud tags applied before forwarding; stage order parser -> cloud -> tags -> sink", 4, func(r *Rule) {
		// what "cloud tags applied" means for an event: tags appended and the source set to the instance id, on every path
		if fn := w.Func("", "(*Event).AddTagsSetSource"); fn != nil {
			okT := false
			for _, st := range fieldStores(fn, "Event", "Tags") {
				if cl, ok := st.Val.(*ssa.Call); ok && isCall(cl, "(gostatsd.Tags).Concat") && paramIndex(fn, cl.Call.Args[1]) == 1 {
					okT = true
				}
			}
			mS := countOnPaths(fn, func(in ssa.Instruction) bool {
				st, ok := in.(*ssa.Store)
				if !ok {
					return false
				}
				t, f, _, ok := fieldRef(st.Addr)
				return ok && t == "Event" && f == "Source" && paramIndex(fn, st.Val) == 2
			})
			r.Check("Event.AddTagsSetSource", okT && mS == 2, fn.Pos(), "adds the instance tags and, on every path, sets the source to the instance id (an instance without tags still has an id): source stores over all paths = "+maskString(mS))
		} else {
			r.Unresolved("(*Event).AddTagsSetSource")
		}
		th := w.Func(P, "(*TagHandler).DispatchEvent")
		if th != nil {
			var st *ssa.Store
			for _, s := range fieldStores(th, "Event", "Tags") {
				st = s
			}
			var fwd ssa.Instruction
			for _, cl := range callsIn(th) {
				if cl.Common().IsInvoke() && cl.Common().Method.Name() == "DispatchEvent" {
					fwd = cl
				}
			}
			ok := false
			if st != nil && fwd != nil {
				if cl, isC := st.Val.(*ssa.Call); isC && staticCallee(cl) != nil && strings.HasPrefix(staticCallee(cl).Name(), "uniqueTags") {
					a := cl.Call.Args
					ok = strings.HasSuffix(pathOf(a[len(a)-2]), ".Tags") && pathOf(a[len(a)-1]) == "th.tags" && instrDominates(st, fwd)
				}
			}
			r.Check("TagHandler:static-tags-before-forward", ok, th.Pos(), "e.Tags = uniqueTags(e.Tags, th.tags) precedes the forward")
		}
		// stage order
		rw := w.Func(P, "(*Server).RunWithCustomSocket")
		if rw == nil {
			r.Unresolved("(*Server).RunWithCustomSocket")
			return
		}
		c.SawFunc(FuncName(rw))
		var sink, tag, cloud, parser *ssa.Call
		for _, cl := range callsIn(rw) {
			cal := staticCallee(cl)
			if cal == nil {
				continue
			}
			switch cal.Name() {
			case "createFinalSink":
				sink, _ = cl.(*ssa.Call)
			case "NewTagHandlerFromViper":
				tag, _ = cl.(*ssa.Call)
			case "NewCloudHandler":
				cloud, _ = cl.(*ssa.Call)
			case "NewDatagramParser":
				parser, _ = cl.(*ssa.Call)
			}
		}
		if sink == nil || tag == nil || cloud == nil || parser == nil {
			r.Fail("order:stages-found", rw.Pos(), "createFinalSink / NewTagHandlerFromViper / NewCloudHandler / NewDatagramParser not all found")
			return
		}
		derives := func(v ssa.Value, from ssa.Value) bool {
			seen := map[ssa.Value]bool{}
			var walk func(v ssa.Value) bool
			walk = func(v ssa.Value) bool {
				if v == from {
					return true
				}
				if seen[v] {
					return false
				}
				seen[v] = true
				switch x := v.(type) {
				case *ssa.MakeInterface:
					return walk(x.X)
				case *ssa.ChangeInterface:
					return walk(x.X)
				case *ssa.Extract:
					return walk(x.Tuple)
				case *ssa.Phi:
					for _, e := range x.Edges {
						if walk(e) {
							return true
						}
					}
				}
				return false
			}
			return walk(v)
		}
		r.Check("order:tags-wrap-sink", derives(tag.Call.Args[1], sink), tag.Pos(), "the tag stage forwards to the final sink")
		r.Check("order:cloud-wraps-tags", derives(cloud.Call.Args[1], tag), cloud.Pos(), "the cloud stage forwards to the tag stage")
		r.Check("order:parser-feeds-cloud-or-tags", derives(parser.Call.Args[4], cloud) && derives(parser.Call.Args[4], tag), parser.Pos(), "the parser feeds the cloud stage when configured, else the tag stage")
	})
}

// pipelineImpls returns module pointer types implementing gostatsd.PipelineHandler.
func pipelineImpls(w *World) []types.Type {
	ph := w.Named("", "PipelineHandler")
	if ph == nil {
		return nil
	}
	iface := ph.Underlying().(*types.Interface)
	var out []types.Type
	for path, sp := range w.SSAPkgs {
		if !isModPath(path) || strings.Contains(path, "/internal/fixtures") || strings.Contains(path, "/cmd/") {
			continue
		}
		for _, mem := range sp.Members {
			t, ok := mem.(*ssa.Type)
			if !ok {
				continue
			}
			pt := types.NewPointer(t.Type())
			if _, isI := t.Type().Underlying().(*types.Interface); !isI && types.Implements(pt, iface) {
				out = append(out, pt)
			}
		}
	}
	sort.Slice(out, func(i, j int) bool { return out[i].String() < out[j].String() })
	return out
}

// cloudReleaseRule (C11.R3, C19.R5): a lookup result releases what is parked under each of the given queues.
// pendingPopRule: where a pending-work slice <st>.<field> is shrunk by re-slicing to [:k] (or [k:]), every
// element read from it in that step is the one at the removed position (index k for a pop from the end, 0
// for a pop from the front); otherwise one element is handed on again and again while another is dropped
// without ever being processed.
func pendingPopRule(r *Rule, w *World, pkgRel, st, field string) {
	n := 0
	for _, fn := range pkgFuncs(w, pkgRel) {
		for _, s := range fieldStores(fn, st, field) {
			var removed ssa.Value // index of the removed element
			front := false
			if sl, ok := s.Val.(*ssa.Slice); ok && strings.HasSuffix(pathOf(sl.X), "."+field) {
				switch {
				case sl.High != nil && sl.Low == nil:
					removed = sl.High
				case sl.Low != nil && sl.High == nil:
					if k, isC := constInt(sl.Low); isC && k == 1 {
						front = true
					}
				}
			} else if dc, ok := s.Val.(*ssa.Call); ok && strings.HasPrefix(calleeName(dc), "slices.Delete") && len(dc.Call.Args) == 3 && strings.HasSuffix(pathOf(dc.Call.Args[0]), "."+field) {
				// slices.Delete(list, i, i+1) removes element i
				if b := asBinOp(dc.Call.Args[2], token.ADD); b != nil && b.X == dc.Call.Args[1] {
					if one, isC := constInt(b.Y); isC && one == 1 {
						removed = dc.Call.Args[1]
					}
				}
				if removed == nil {
					continue
				}
			} else {
				continue
			}
			n++
			bad := ""
			reads := 0
			for _, in := range s.Block().Instrs {
				ld, ok := in.(*ssa.UnOp)
				if !ok || ld.Op != token.MUL {
					continue
				}
				ia, ok := ld.X.(*ssa.IndexAddr)
				if !ok || !strings.HasSuffix(pathOf(ia.X), "."+field) {
					continue
				}
				reads++
				switch {
				case front:
					if k, isC := constInt(ia.Index); !isC || k != 0 {
						bad = "the slice is advanced by one from the front but element " + pathOf(ia.Index) + " is taken"
					}
				case removed != nil:
					if ia.Index != removed && pathOf(ia.Index) != pathOf(removed) {
						bad = "element " + pathOf(ia.Index) + " is taken but element " + pathOf(removed) + " is removed"
					}
				default:
					bad = "unrecognised shrinking of the pending list"
				}
			}
			r.Check("pending:"+fn.Name()+":takes-the-removed-element", bad == "" && reads >= 1, s.Pos(), "the pending source handed on is the one removed from "+field+" "+bad)
		}
	}
	r.Check("pending:"+st+":pop-sites", n >= 1, token.NoPos, fmt.Sprintf("%d places shrink %s.%s", n, st, field))
}

func cloudReleaseRule(c *Ctx, r *Rule, hi *ssa.Function, fns map[string]*ssa.Function, fields ...string) {
	pd := newPostDom(hi)
	for _, kf := range fields {
		kind := struct {
			field string
			fn    *ssa.Function
		}{kf, fns[kf]}
		// the lookup of this map by info.IP happens on every path
		var lk *ssa.Lookup
		eachInstr(hi, func(in ssa.Instruction) {
			if l, ok := in.(*ssa.Lookup); ok && strings.HasSuffix(pathOf(l.X), "."+kind.field) && strings.HasSuffix(pathOf(l.Index), ".IP") {
				lk = l
			}
		})
		if lk == nil {
			r.Fail("release:"+kind.field+":lookup", hi.Pos(), "no lookup of "+kind.field+"[info.IP]")
			continue
		}
		entry := hi.Blocks[0]
		base := 0
		// when the handling of a lookup result is written into the loop that receives it, the region starts at the
		// select case that received the result: conditions established before that point do not count
		hosted := false
		eachInstr(hi, func(in ssa.Instruction) {
			sel, ok := in.(*ssa.Select)
			if !ok {
				return
			}
			for k, st := range sel.States {
				if st.Dir != types.RecvOnly || !strings.HasSuffix(strings.TrimPrefix(st.Chan.Type().String(), "<-"), "gostatsd.InstanceInfo") {
					continue
				}
				if _, to := selectCaseEdge(sel, k); to != nil && (to == lk.Block() || to.Dominates(lk.Block())) {
					entry, base, hosted = to, len(condsFor(to)), true
				}
			}
		})
		okEvery := lk.Block() == entry || pd.PostDominates(lk.Block(), entry)
		if hosted {
			okEvery = lk.Block() == entry || (entry.Dominates(lk.Block()) && len(condsFor(lk.Block())) == base)
		}
		r.Check("release:"+kind.field+":checked-on-every-result", okEvery, lk.Pos(), kind.field+" is examined for every lookup result (not only when the other queue was empty)")
		// go <fn>(ctx, info.Instance, <parked value>) together with delete
		var gos []*ssa.Go
		eachInstr(hi, func(in ssa.Instruction) {
			if g, ok := in.(*ssa.Go); ok && staticCallee(g) == kind.fn {
				gos = append(gos, g)
			}
		})
		if !r.Check("release:"+kind.field+":one-goroutine", len(gos) == 1, hi.Pos(), fmt.Sprintf("%d go %s sites", len(gos), kind.fn.Name())) {
			continue
		}
		g := gos[0]
		a := g.Call.Args
		// "take" form: the parked value travels through a variable that is nil when nothing was parked
		takeForm := false
		if ph, isPhi := a[3].(*ssa.Phi); isPhi {
			takeForm = true
			for _, e := range ph.Edges {
				if !isNilConst(e) && e != ssa.Value(lk) {
					takeForm = false
				}
			}
		}
		r.Check("release:"+kind.field+":passes-parked", a[3] == ssa.Value(lk) || takeForm, g.Pos(), "the goroutine receives the parked value that was looked up")
		r.Check("release:"+kind.field+":passes-instance", strings.HasSuffix(pathOf(a[2]), ".Instance"), g.Pos(), "the goroutine receives info.Instance")
		var del ssa.CallInstruction
		for _, cl := range callsTo(hi, "builtin delete") {
			if strings.HasSuffix(pathOf(cl.Common().Args[0]), "."+kind.field) && strings.HasSuffix(pathOf(cl.Common().Args[1]), ".IP") {
				del = cl
			}
		}
		guard := strings.Join(condStrings(g.Block()), " && ")
		fs := factsAt(g.Block())
		isParked := func(v ssa.Value) bool { return v == ssa.Value(lk) }
		if takeForm && del != nil && del.Block() != g.Block() {
			// the delete and the go statement stand under two tests of the same fact; decided on paths
			// (a branch on the carried value is followed only in the direction its origin allows):
			// every path performs neither, or the delete and then the go statement, and the delete
			// itself happens exactly when something is parked
			res := runAutomaton(hi, 0, func(in ssa.Instruction) int {
				if in == del.(ssa.Instruction) {
					return 0
				}
				if in == ssa.Instruction(g) {
					return 1
				}
				return -1
			}, func(st, ev int) int {
				switch {
				case ev == 0 && st == 0:
					return 1
				case ev == 1 && st == 1:
					return 2
				}
				return -1
			})
			var m uint32
			for _, st := range res.ExitStates {
				m |= st
			}
			r.Check("release:"+kind.field+":deleted-with-release", len(res.Errors) == 0 && m&2 == 0, g.Pos(), fmt.Sprintf("on every path the entry is deleted and then exactly one goroutine started, or neither (exit states %b)", m))
			dfs := factsAt(del.Block())
			r.Check("release:"+kind.field+":guard", len(dfs)-base == 1 && (knownNonNil(dfs, isParked) || knownNonEmpty(dfs, isParked)), del.Pos(), "released under exactly one condition (something is parked): "+strings.Join(condStrings(del.Block()), " && "))
			continue
		}
		r.Check("release:"+kind.field+":deleted-with-release", del != nil && del.Block() == g.Block(), g.Pos(), "the entry is deleted in the same branch that starts the goroutine")
		// guard: non-nil / non-empty
		r.Check("release:"+kind.field+":guard", len(fs)-base == 1 && (knownNonNil(fs, isParked) || knownNonEmpty(fs, isParked)), g.Pos(), "released under exactly one condition (something is parked): "+guard)
	}
}

// goValueOrigin: v is used inside the function literal cl started by the go statement g; returns the
// value in the enclosing function it stands for - the actual argument for a parameter, or the value
// assigned to the captured variable (which must be assigned exactly once) - or nil.
func goValueOrigin(g *ssa.Go, cl *ssa.Function, v ssa.Value) ssa.Value {
	mc, _ := g.Call.Value.(*ssa.MakeClosure)
	switch x := v.(type) {
	case *ssa.Parameter:
		for i, p := range cl.Params {
			if p == x && i < len(g.Call.Args) {
				return g.Call.Args[i]
			}
		}
	case *ssa.UnOp:
		if x.Op != token.MUL {
			return nil
		}
		// a parameter spilled to the stack inside the closure
		if al, ok := x.X.(*ssa.Alloc); ok {
			for _, ref := range referrers(al) {
				if st, ok := ref.(*ssa.Store); ok && st.Addr == ssa.Value(al) {
					if p, isP := st.Val.(*ssa.Parameter); isP {
						return goValueOrigin(g, cl, p)
					}
				}
			}
		}
		fv, ok := x.X.(*ssa.FreeVar)
		if !ok || mc == nil {
			return nil
		}
		for i, f := range cl.FreeVars {
			if f == fv && i < len(mc.Bindings) {
				cell, ok := mc.Bindings[i].(*ssa.Alloc)
				if !ok {
					return nil
				}
				var val ssa.Value
				n := 0
				for _, ref := range referrers(cell) {
					if st, ok := ref.(*ssa.Store); ok && st.Addr == ssa.Value(cell) {
						n++
						val = st.Val
					}
				}
				if n == 1 {
					return val
				}
			}
		}
	}
	return nil
}

// closureOnlyCalled: the function value created by mc is only ever called (directly, or through
// a local variable that is itself only loaded in order to be called, possibly from nested function
// literals); it is never started with go, stored elsewhere or passed on.
func closureOnlyCalled(mc *ssa.MakeClosure) bool {
	onlyCalls := func(v ssa.Value) bool {
		for _, ref := range referrers(v) {
			switch x := ref.(type) {
			case *ssa.Call:
				if x.Call.Value != v {
					return false
				}
			case *ssa.Defer:
				if x.Call.Value != v {
					return false
				}
			case *ssa.DebugRef:
			default:
				return false
			}
		}
		return true
	}
	for _, ref := range referrers(mc) {
		switch x := ref.(type) {
		case *ssa.Call:
			if x.Call.Value != ssa.Value(mc) {
				return false
			}
		case *ssa.Defer:
			if x.Call.Value != ssa.Value(mc) {
				return false
			}
		case *ssa.DebugRef:
		case *ssa.Store:
			cell, ok := x.Addr.(*ssa.Alloc)
			if !ok || x.Val != ssa.Value(mc) {
				return false
			}
			// every use of the cell: loads that are only called, or bindings into nested literals that do the same
			for _, cr := range referrers(cell) {
				switch y := cr.(type) {
				case *ssa.Store:
					if y.Addr != ssa.Value(cell) {
						return false
					}
				case *ssa.UnOp:
					if !onlyCalls(y) {
						return false
					}
				case *ssa.MakeClosure:
					fn, _ := y.Fn.(*ssa.Function)
					if fn == nil {
						return false
					}
					for i, b := range y.Bindings {
						if b != ssa.Value(cell) {
							continue
						}
						fv := fn.FreeVars[i]
						for _, fr := range referrers(fv) {
							ld, ok := fr.(*ssa.UnOp)
							if !ok || !onlyCalls(ld) {
								return false
							}
						}
					}
				case *ssa.DebugRef:
				default:
					return false
				}
			}
		default:
			return false
		}
	}
	return true
}
