package main

import (
	"fmt"
	"go/token"
	"go/types"
	"strings"

	"golang.org/x/tools/go/ssa"
)

func init() { register("C12", c12) }

// ---------- a small abstract evaluator over nil-ness / boolean cases ----------
//
// absWalk follows the single path of fn selected by an abstract environment: every branch
// condition must be decidable from the environment (nil tests of named access paths, or whole
// conditions named by a substring).  Stores to tracked memory cells update the environment.
// The walk records counter updates (x.f = x.f +/- 1) and other events of interest.  If a
// condition cannot be decided the walk reports it and the rule fails closed.  No gostatsd code
// is executed: this is abstract interpretation of the SSA over a finite domain with one case
// split per input class.

type absVal int

const (
	absUnknown absVal = iota
	absNil
	absNonNil
	absTrue
	absFalse
)

type absEnv struct {
	vals  map[string]absVal          // access path -> nil-ness / truth
	conds map[string]absVal          // substring of a condition expression -> truth
	atoms []func(v ssa.Value) absVal // semantic atoms: evaluate a condition from the case assumptions, or absUnknown
}

type absTrace struct {
	Deltas    map[string]int // counter field -> net delta
	Events    []string       // calls / appends / map updates seen, in order
	Undecided string
	Loops     bool
}

func (e *absEnv) nilness(v ssa.Value) absVal {
	if isNilConst(v) {
		return absNil
	}
	switch x := v.(type) {
	case *ssa.Alloc:
		return absNonNil
	case *ssa.MakeMap, *ssa.MakeSlice, *ssa.MakeClosure, *ssa.MakeInterface, *ssa.MakeChan:
		return absNonNil
	case *ssa.Phi:
		_ = x
	}
	if a, ok := e.vals[pathOf(v)]; ok {
		return a
	}
	return absUnknown
}

func (e *absEnv) evalCond(v ssa.Value) absVal {
	if u, ok := v.(*ssa.UnOp); ok && u.Op == token.NOT {
		switch e.evalCond(u.X) {
		case absTrue:
			return absFalse
		case absFalse:
			return absTrue
		}
		return absUnknown
	}
	if b, ok := v.(*ssa.BinOp); ok && (b.Op == token.EQL || b.Op == token.NEQ) {
		var other ssa.Value
		if isNilConst(b.Y) {
			other = b.X
		} else if isNilConst(b.X) {
			other = b.Y
		}
		if other != nil {
			n := e.nilness(other)
			if n == absNil || n == absNonNil {
				isNil := n == absNil
				if (b.Op == token.EQL) == isNil {
					return absTrue
				}
				return absFalse
			}
		}
	}
	for _, at := range e.atoms {
		if r := at(v); r != absUnknown {
			return r
		}
	}
	ce := condExpr(v)
	found := absUnknown
	nmatch := 0
	for sub, a := range e.conds {
		if strings.Contains(ce, sub) {
			found = a
			nmatch++
		}
	}
	if nmatch == 1 {
		return found
	}
	if a, ok := e.vals[pathOf(v)]; ok && (a == absTrue || a == absFalse) {
		return a
	}
	return absUnknown
}

// absWalk walks fn from its entry.  cells lists access paths that are memory cells whose
// stores should update the environment (e.g. "complit.instance").
func absWalk(fn *ssa.Function, env *absEnv, counterStruct string, maxSteps int) absTrace {
	tr := absTrace{Deltas: map[string]int{}}
	blk := fn.Blocks[0]
	visited := map[*ssa.BasicBlock]int{}
	var prev *ssa.BasicBlock
	phiVals := map[ssa.Value]absVal{}
	choice := map[*ssa.Phi]ssa.Value{}
	for steps := 0; steps < maxSteps; steps++ {
		visited[blk]++
		if visited[blk] > 2 {
			tr.Loops = true
			return tr
		}
		for _, in := range blk.Instrs {
			switch x := in.(type) {
			case *ssa.Phi:
				for i, p := range blk.Preds {
					if p == prev {
						phiVals[x] = env.nilness(x.Edges[i])
						env.vals[pathOf(x)] = phiVals[x]
						choice[x] = x.Edges[i]
					}
				}
			case *ssa.Store:
				if _, f, _, ok := fieldRef(x.Addr); ok && f == "lastAccessNano" {
					tr.Events = append(tr.Events, "lastAccess<-"+condExpr(x.Val))
				}
				if _, f, _, ok := fieldRef(x.Addr); ok && f == "expires" {
					// which TTL the entry gets on this path
					v := x.Val
					if cl, isC := v.(*ssa.Call); isC && len(cl.Call.Args) == 2 {
						arg := cl.Call.Args[1]
						for i := 0; i < 6; i++ {
							ph, isPhi := arg.(*ssa.Phi)
							if !isPhi {
								break
							}
							nv, has := choice[ph]
							if !has {
								break
							}
							arg = nv
						}
						tr.Events = append(tr.Events, "expires<-"+pathOf(arg))
					}
				}
				if t, f, _, ok := fieldRef(x.Addr); ok && t == counterStruct {
					if b := asBinOp(x.Val, token.ADD, token.SUB); b != nil {
						if one, isC := constInt(b.Y); isC && one == 1 {
							if b.Op == token.ADD {
								tr.Deltas[f]++
							} else {
								tr.Deltas[f]--
							}
							continue
						}
					}
					if cl, isC := x.Val.(*ssa.Call); isC && isCall(cl, "builtin append") {
						tr.Events = append(tr.Events, "append "+f)
						continue
					}
				}
				// memory cell update
				p := pathOf(x.Addr)
				env.vals[p] = env.nilness(x.Val)
			case *ssa.MapUpdate:
				tr.Events = append(tr.Events, "mapupdate "+pathOf(x.Map))
			case ssa.CallInstruction:
				if cl, ok := in.(*ssa.Call); ok && isCall(cl, "builtin append") {
					tr.Events = append(tr.Events, "append "+pathOf(cl.Call.Args[0]))
				} else {
					tr.Events = append(tr.Events, "call "+shortCallee(x))
				}
			}
		}
		term := blk.Instrs[len(blk.Instrs)-1]
		switch t := term.(type) {
		case *ssa.If:
			switch env.evalCond(t.Cond) {
			case absTrue:
				prev, blk = blk, blk.Succs[0]
			case absFalse:
				prev, blk = blk, blk.Succs[1]
			default:
				tr.Undecided = "condition not decidable from the case assumptions: " + condExpr(t.Cond)
				return tr
			}
		case *ssa.Jump:
			prev, blk = blk, blk.Succs[0]
		default:
			return tr
		}
	}
	tr.Undecided = "walk too long"
	return tr
}

func c12(c *Ctx) {
	w := c.W
	const P = "pkg/cachedinstances/cloudprovider"
	c.Explanation = "C12 (instance cache answers every lookup once and never forgets good data on error): the lookup dispatcher answers every source of a batch (loop shape), keeps every submitted source until the lookup and charges the rate limiter once per provider call; handleInstanceInfo always stores an entry, keeps the old instance when the new result is nil and passes every answer on; the positive/negative gauges change by exactly class(new entry) - class(old entry) in each of the six nil-ness cases (abstract evaluation), and by -1 of the right gauge for each idle eviction; cache writes happen only on the Run goroutine under the write lock and foreign reads under the read lock; the refresh checks idle before TTL."
	c.NotDecided = []string{"clock-dependent refresh / TTL / idle behaviour over histories", "the provider's own behaviour"}

	// (doLookup may have been written into run, its only caller: the same facts are then looked for there)
	ld, ldHosted := w.FuncOrHost(P, "(*cloudProviderLookupDispatcher).doLookup")
	lr := w.Func(P, "(*cloudProviderLookupDispatcher).run")
	hi := w.Func(P, "(*CachedCloudProvider).handleInstanceInfo")
	dr := w.Func(P, "(*CachedCloudProvider).doRefresh")
	pk := w.Func(P, "(*CachedCloudProvider).Peek")
	run := w.Func(P, "(*CachedCloudProvider).Run")

	c.Rule("C12.R1", "one answer per source: the dispatcher keeps every submitted source, looks the batch up once per limiter token, and answers each source of the batch", 8, func(r *Rule) {
		if ld == nil || lr == nil {
			r.Unresolved("cloudProviderLookupDispatcher.doLookup / run")
			return
		}
		c.SawFunc(FuncName(ld))
		c.SawFunc(FuncName(lr))
		// doLookup: provider called once with the whole batch
		var inst *ssa.Call
		n := 0
		for _, cl := range callsIn(ld) {
			if cl.Common().IsInvoke() && cl.Common().Method.Name() == "Instance" {
				inst, _ = cl.(*ssa.Call)
				n++
			}
		}
		if !r.Check("doLookup:one-provider-call", n == 1 && inst != nil, ld.Pos(), fmt.Sprintf("%d provider calls", n)) {
			return
		}
		// "the batch": doLookup's slice parameter, or - in run - the slice the received sources are appended to
		var batchRoot ssa.Value // the append that grows the batch (hosted form)
		if ldHosted {
			eachInstr(ld, func(in ssa.Instruction) {
				if cl, ok := in.(*ssa.Call); ok && isCall(cl, "builtin append") {
					for _, el := range varargElems(cl.Call.Args[1]) {
						if ex, ok := el.(*ssa.Extract); ok {
							if _, isSel := ex.Tuple.(*ssa.Select); isSel {
								batchRoot = cl
							}
						}
					}
				}
			})
		}
		var isBatch func(v ssa.Value, d int) bool
		isBatch = func(v ssa.Value, d int) bool {
			if !ldHosted {
				return paramIndex(ld, v) == 2
			}
			if d > 6 || v == nil || batchRoot == nil {
				return false
			}
			if v == batchRoot {
				return true
			}
			switch x := v.(type) {
			case *ssa.Phi:
				for _, e := range x.Edges {
					if isBatch(e, d+1) {
						return true
					}
				}
			case *ssa.Slice:
				return isBatch(x.X, d+1)
			}
			return false
		}
		r.Check("doLookup:whole-batch", isBatch(inst.Call.Args[1], 0), inst.Pos(), "the provider is asked for exactly the batch")
		// loop over ips; one send per iteration or return on cancel
		var sel *ssa.Select
		eachInstr(ld, func(in ssa.Instruction) {
			if s, ok := in.(*ssa.Select); ok {
				for _, st := range s.States {
					if st.Send != nil && strings.HasSuffix(pathOf(st.Chan), ".infoSink") {
						sel = s
					}
				}
			}
		})
		if sel == nil {
			r.Fail("doLookup:answer-send", ld.Pos(), "no select sending the answer")
			return
		}
		r.Check("doLookup:in-loop-over-batch", reachableFrom(sel.Block())[sel.Block()], sel.Pos(), "the answer is sent inside the loop over the batch")
		// the only way out of the answer loop other than answering is the cancellation of the dispatcher's own
		// context: the receive cases wait on Done() of doLookup's context parameter, not of a context derived
		// inside (whose deadline would end the loop with sources unanswered)
		okDone, nRecv := true, 0
		for _, st := range sel.States {
			if st.Send != nil {
				continue
			}
			nRecv++
			dc, isCall := st.Chan.(*ssa.Call)
			if !isCall || !dc.Call.IsInvoke() || dc.Call.Method.Name() != "Done" {
				okDone = false
				continue
			}
			if _, isParam := ptrOrigin(dc.Call.Value).(*ssa.Parameter); !isParam {
				okDone = false
			}
		}
		r.Check("doLookup:only-cancellation-ends-the-answers", okDone && nRecv <= 1, sel.Pos(), "the answer loop is left early only on Done() of the context doLookup was given")
		okSend := false
		for _, st := range sel.States {
			if st.Send != nil && strings.HasSuffix(pathOf(st.Chan), ".infoSink") {
				// value: load of complit InstanceInfo with IP = ips[i], Instance = instances[ips[i]]
				if u, ok := st.Send.(*ssa.UnOp); ok {
					if al, ok := u.X.(*ssa.Alloc); ok {
						fs := complitFields(al)
						ip, okIP := fs["IP"]
						ins, okIn := fs["Instance"]
						if okIP && okIn {
							ipp := pathOf(ip)
							lk, isLk := ins.(*ssa.Lookup)
							_ = ipp
							// ip is an element of the batch parameter selected by the loop counter
							okElem := false
							if ld2, isLd := ip.(*ssa.UnOp); isLd && ld2.Op == token.MUL {
								if ia, isIA := ld2.X.(*ssa.IndexAddr); isIA && isBatch(ia.X, 0) {
									if ph, isPhi := ia.Index.(*ssa.Phi); isPhi && isLoopHead(ph.Block()) {
										okElem = true
									} else if b := asBinOp(ia.Index, token.ADD); b != nil {
										if ph, isPhi := b.X.(*ssa.Phi); isPhi && isLoopHead(ph.Block()) {
											okElem = true
										}
									}
								}
							}
							okSend = okElem && isLk && lk.Index == ip
							if isLk {
								if ex, ok := lk.X.(*ssa.Extract); !ok || ex.Tuple != ssa.Value(inst) || ex.Index != 0 {
									okSend = false
								}
							}
						}
					}
				}
			}
		}
		r.Check("doLookup:answer-is-for-this-source", okSend, sel.Pos(), "InstanceInfo{IP: ip, Instance: instances[ip]} with ip the loop element and instances the provider's result (a missing entry yields nil: 'nothing found')")
		// the provider's result is only read while the answers are built (a source can be in the batch twice:
		// both occurrences get the instance)
		changed := ""
		eachInstr(ld, func(in ssa.Instruction) {
			isRes := func(v ssa.Value) bool {
				ex, ok := v.(*ssa.Extract)
				return ok && ex.Tuple == ssa.Value(inst) && ex.Index == 0
			}
			switch x := in.(type) {
			case *ssa.MapUpdate:
				if isRes(x.Map) {
					changed = "an entry is written"
				}
			case ssa.CallInstruction:
				if isCall(x, "builtin delete", "builtin clear") && len(x.Common().Args) > 0 && isRes(x.Common().Args[0]) {
					changed = "an entry is removed"
				}
			}
		})
		r.Check("doLookup:result-only-read", changed == "", ld.Pos(), "the provider's result map is not modified while the batch is answered "+changed)
		// results are processed even when the provider returned an error: no return between the call and the loop
		okErr := true
		eachInstr(ld, func(in ssa.Instruction) {
			if rt, ok := in.(*ssa.Return); ok {
				for _, cd := range condsFor(rt.Block()) {
					cd = normCond(cd)
					if b := asBinOp(cd.V, token.NEQ); b != nil && cd.Sense {
						if ex, ok := b.X.(*ssa.Extract); ok && ex.Tuple == ssa.Value(inst) && ex.Index == 1 && len(condsFor(rt.Block())) == 1 {
							okErr = false
						}
					}
				}
			}
		})
		r.Check("doLookup:answers-despite-provider-error", okErr, ld.Pos(), "a provider error does not skip the answers (partial results are still reported, the rest as nil)")
		// run: every received ip appended
		var recvSel *ssa.Select
		eachInstr(lr, func(in ssa.Instruction) {
			if s, ok := in.(*ssa.Select); ok {
				for _, st := range s.States {
					if st.Send == nil && strings.HasSuffix(pathOf(st.Chan), ".ipSource") {
						recvSel = s
					}
				}
			}
		})
		okApp := false
		var batchApp *ssa.Call
		if recvSel != nil {
			for k, st := range recvSel.States {
				if st.Send == nil && strings.HasSuffix(pathOf(st.Chan), ".ipSource") {
					_, to := selectCaseEdge(recvSel, k)
					if to != nil {
						for _, in := range to.Instrs {
							if cl, ok := in.(*ssa.Call); ok && isCall(cl, "builtin append") {
								for _, el := range varargElems(cl.Call.Args[1]) {
									if ex, ok := el.(*ssa.Extract); ok && ex.Tuple == ssa.Value(recvSel) {
										okApp = true
										batchApp = cl
									}
								}
							}
						}
					}
				}
			}
		}
		r.Check("run:keeps-every-source", okApp, lr.Pos(), "every source received is appended to the batch")
		// the batch is reset only after doLookup
		var look ssa.Instruction
		for _, cl := range callsIn(lr) {
			if staticCallee(cl) == ld {
				look = cl
			}
		}
		if ldHosted {
			look = inst // the lookup itself stands in run
		}
		okReset := look != nil
		eachInstr(lr, func(in ssa.Instruction) {
			if sl, ok := in.(*ssa.Slice); ok {
				if hi, isC := constInt(sl.High); isC && hi == 0 && sl.Low == nil {
					if look == nil || !instrDominates(look, sl) {
						okReset = false
					}
				}
			}
		})
		r.Check("run:batch-reset-only-after-lookup", okReset, lr.Pos(), "ips = ips[:0] only after doLookup(ctx, ips)")
		if look != nil {
			// the slice handed to doLookup is the variable the received sources are appended to
			okBatch := false
			if batchApp != nil {
				arg := look.(ssa.CallInstruction).Common().Args[len(look.(ssa.CallInstruction).Common().Args)-1]
				if !ldHosted {
					arg = look.(ssa.CallInstruction).Common().Args[2]
				}
				var derives func(v ssa.Value, d int) bool
				seenB := map[ssa.Value]bool{}
				derives = func(v ssa.Value, d int) bool {
					if d > 6 || seenB[v] {
						return false
					}
					seenB[v] = true
					if v == ssa.Value(batchApp) {
						return true
					}
					if ph, ok := v.(*ssa.Phi); ok {
						for _, e := range ph.Edges {
							if derives(e, d+1) {
								return true
							}
						}
					}
					return false
				}
				okBatch = derives(arg, 0)
				seenB = map[ssa.Value]bool{}
				okBatch = okBatch && derives(batchApp.Call.Args[0], 0)
			}
			r.Check("run:looks-up-the-batch", okBatch, look.Pos(), "doLookup receives the accumulated batch (the slice the received sources are appended to)")
		}
		// the limiter is charged once per provider call
		nw := 0
		for _, cl := range callsIn(lr) {
			cal := staticCallee(cl)
			if cal == nil || cal.Signature.Recv() == nil || !strings.HasSuffix(cal.Signature.Recv().Type().String(), "rate.Limiter") {
				continue
			}
			nw++
			r.Check("run:limiter-one-token-per-call", cal.Name() == "Wait", cl.Pos(), "rate limiter call is "+cal.Name()+" (WaitN/ReserveN with a batch-dependent n fails outright when n exceeds the burst, and the dispatcher treats that as shutdown)")
		}
		r.Check("run:limiter-sites", nw == 1, lr.Pos(), fmt.Sprintf("%d limiter calls", nw))
		// returns of run: only on cancellation or limiter error
		eachInstr(lr, func(in ssa.Instruction) {
			if rt, ok := in.(*ssa.Return); ok {
				cs := strings.Join(condStrings(rt.Block()), " && ")
				ok := strings.Contains(cs, "select#0==0)=true") || strings.Contains(cs, "Limiter).Wait") || strings.Contains(cs, "#0==0)=true")
				if !ok {
					// "ok = false" carried out of a batching helper written in place: the flag is false only where the
					// Done() case of a select was taken
					isDoneCase := func(cd Cond) bool {
						cd = normCond(cd)
						b := asBinOp(cd.V, token.EQL)
						if b == nil || !cd.Sense {
							return false
						}
						ex, isEx := b.X.(*ssa.Extract)
						k, isC := constInt(b.Y)
						if !isEx || !isC || ex.Index != 0 {
							return false
						}
						sel, isSel := ex.Tuple.(*ssa.Select)
						if !isSel || int(k) >= len(sel.States) {
							return false
						}
						dc, isCall := sel.States[k].Chan.(*ssa.Call)
						return isCall && dc.Call.IsInvoke() && dc.Call.Method.Name() == "Done"
					}
					for _, f := range factsAt(rt.Block()) {
						ph, isPhi := f.V.(*ssa.Phi)
						if f.Op != token.ILLEGAL || !isPhi || !isBoolType(ph.Type()) {
							continue
						}
						all, any := true, false
						for _, vc := range valueCases(ph, nil) {
							k, isC := vc.V.(*ssa.Const)
							if !isC || k.Value == nil {
								all = false
								continue
							}
							if (k.Value.ExactString() == "true") != f.True {
								continue
							}
							any = true
							done := false
							for _, cd := range vc.Conds {
								if isDoneCase(cd) {
									done = true
								}
							}
							if !done {
								all = false
							}
						}
						if all && any {
							ok = true
						}
					}
				}
				r.Check("run:stops-only-on-cancel", ok, rt.Pos(), "return under: "+cs)
			}
		})
	})

	c.Rule("C12.R2", "never forget: the entry is always stored, keeps the old instance when the new result is nil, inherits the access time, and every answer is passed on", 5, func(r *Rule) {
		if hi == nil {
			r.Unresolved("(*CachedCloudProvider).handleInstanceInfo")
			return
		}
		c.SawFunc(FuncName(hi))
		pd := newPostDom(hi)
		entry := hi.Blocks[0]
		all := func(b *ssa.BasicBlock) bool { return b == entry || pd.PostDominates(b, entry) }
		var mu *ssa.MapUpdate
		eachInstr(hi, func(in ssa.Instruction) {
			if m, ok := in.(*ssa.MapUpdate); ok && strings.HasSuffix(pathOf(m.Map), ".cache") {
				mu = m
			}
		})
		if mu == nil {
			r.Fail("store:unconditional", hi.Pos(), "no cache write")
			return
		}
		r.Check("store:unconditional", all(mu.Block()), mu.Pos(), "cache[info.IP] = newHolder on every path")
		r.Check("store:key", strings.HasSuffix(pathOf(mu.Key), ".IP"), mu.Pos(), "keyed by info.IP")
		// the stored holder: one fresh entry, or one fresh entry per branch joined by phis (a holder built
		// where no entry exists has nothing to inherit; every other one must inherit)
		var holders []*ssa.Alloc
		okHolders := true
		var walkHolder func(v ssa.Value, seen map[ssa.Value]bool)
		walkHolder = func(v ssa.Value, seen map[ssa.Value]bool) {
			if seen[v] {
				return
			}
			seen[v] = true
			switch x := v.(type) {
			case *ssa.Alloc:
				holders = append(holders, x)
			case *ssa.Phi:
				for _, e := range x.Edges {
					walkHolder(e, seen)
				}
			default:
				okHolders = false
			}
		}
		walkHolder(mu.Value, map[ssa.Value]bool{})
		isCur := func(v ssa.Value) bool { return strings.HasSuffix(pathOf(v), "cache[info.IP]") }
		var inheriting []*ssa.Alloc
		for _, h := range holders {
			if len(holders) > 1 && knownNil(factsAt(h.Block()), isCur) {
				continue
			}
			inheriting = append(inheriting, h)
		}
		if !okHolders || len(inheriting) != 1 {
			r.Fail("store:value", mu.Pos(), "stored value is "+pathOf(mu.Value))
			return
		}
		holder := inheriting[0]
		// carry-over of the old instance
		okCarry := false
		for _, st := range storesIn(hi) {
			t, f, base, ok := fieldRef(st.Addr)
			if !ok || t != "instanceHolder" || f != "instance" || base != ssa.Value(holder) {
				continue
			}
			if strings.HasSuffix(pathOf(st.Val), "cache[info.IP].instance") || strings.Contains(pathOf(st.Val), "].instance") {
				fs := factsAt(st.Block())
				if knownNil(fs, func(v ssa.Value) bool { return strings.HasSuffix(pathOf(v), "info.Instance") }) &&
					knownNonNil(fs, func(v ssa.Value) bool { return strings.HasSuffix(pathOf(v), "cache[info.IP]") }) {
					okCarry = true
				}
			}
		}
		r.Check("carry-over:old-instance-on-nil-result", okCarry, hi.Pos(), "newHolder.instance = currentHolder.instance when an entry exists and the new result is nil")
		// lastAccess inherited
		okAcc := false
		for _, st := range storesIn(hi) {
			if _, f, base, ok := fieldRef(st.Addr); ok && f == "lastAccessNano" && base == ssa.Value(holder) {
				if cl, isC := st.Val.(*ssa.Call); isC && staticCallee(cl) != nil && staticCallee(cl).Name() == "lastAccess" {
					okAcc = true
				}
			}
		}
		r.Check("carry-over:last-access", okAcc, hi.Pos(), "lastAccess is inherited from the existing entry (a refresh is not a use)")
		// answer passed on
		okRet := false
		for _, st := range fieldStores(hi, "CachedCloudProvider", "toReturnInfo") {
			if cl, ok := st.Val.(*ssa.Call); ok && isCall(cl, "builtin append") && all(st.Block()) {
				okRet = true
			}
		}
		r.Check("answer:always-passed-on", okRet, hi.Pos(), "every InstanceInfo is queued for the client on every path")
		// TTL by result kind: checked per nil-ness case in R3 (handleInstanceInfo:<case>:ttl)
	})

	c.Rule("C12.R3", "gauge polarity: cache_positive / cache_negative change by exactly class(new entry) - class(old entry) in every nil-ness case; each idle eviction decrements the gauge of the evicted entry's class", 10, func(r *Rule) {
		if hi == nil || dr == nil {
			r.Unresolved("handleInstanceInfo / doRefresh")
			return
		}
		type cse struct {
			name        string
			cur, curIns absVal // existing holder, its instance
			res         absVal // info.Instance
		}
		cases := []cse{
			{"absent,result=nil", absNil, absUnknown, absNil},
			{"absent,result=instance", absNil, absUnknown, absNonNil},
			{"negative,result=nil", absNonNil, absNil, absNil},
			{"negative,result=instance", absNonNil, absNil, absNonNil},
			{"positive,result=nil", absNonNil, absNonNil, absNil},
			{"positive,result=instance", absNonNil, absNonNil, absNonNil},
		}
		for _, cs := range cases {
			env := &absEnv{vals: map[string]absVal{}, conds: map[string]absVal{}}
			env.vals["info.Instance"] = cs.res
			env.vals["ccp.cache[info.IP]"] = cs.cur
			env.vals["ccp.cache[info.IP].instance"] = cs.curIns
			tr := absWalk(hi, env, "CachedCloudProvider", 200)
			if tr.Undecided != "" || tr.Loops {
				r.Fail("handleInstanceInfo:"+cs.name, hi.Pos(), "abstract evaluation undecided: "+tr.Undecided)
				continue
			}
			// class of the stored entry: its instance field at the end of the walk
			cell := ""
			for _, st := range storesIn(hi) {
				if t, f, base, ok := fieldRef(st.Addr); ok && t == "instanceHolder" && f == "instance" {
					if _, isAl := base.(*ssa.Alloc); isAl {
						cell = pathOf(st.Addr)
					}
				}
			}
			newIns := env.vals[cell]
			if newIns == absUnknown {
				r.Fail("handleInstanceInfo:"+cs.name, hi.Pos(), "cannot determine the stored entry's instance")
				continue
			}
			wantPos, wantNeg := 0, 0
			// old class
			if cs.cur == absNonNil {
				if cs.curIns == absNil {
					wantNeg--
				} else {
					wantPos--
				}
			}
			if newIns == absNil {
				wantNeg++
			} else {
				wantPos++
			}
			gp, gn := tr.Deltas["statsCachePositive"], tr.Deltas["statsCacheNegative"]
			r.Check("handleInstanceInfo:"+cs.name, gp == wantPos && gn == wantNeg, hi.Pos(), fmt.Sprintf("case %s: stored entry is %s; cache_positive %+d (expected %+d), cache_negative %+d (expected %+d)", cs.name, map[absVal]string{absNil: "negative", absNonNil: "positive"}[newIns], gp, wantPos, gn, wantNeg))
			// the entry's lifetime follows the kind of the result: negative TTL for "nothing found", positive otherwise
			ttl := ""
			for _, ev := range tr.Events {
				if strings.HasPrefix(ev, "expires<-") {
					ttl = strings.TrimPrefix(ev, "expires<-")
				}
			}
			wantTTL := ".CacheTTL"
			if cs.res == absNil {
				wantTTL = ".CacheNegativeTTL"
			}
			r.Check("handleInstanceInfo:"+cs.name+":ttl", strings.HasSuffix(ttl, wantTTL), hi.Pos(), "case "+cs.name+": entry expires after "+ttl+" (required "+wantTTL+")")
			// a refresh is not a use: an existing entry keeps its access time, a new entry starts at "now"
			acc := ""
			for _, ev := range tr.Events {
				if strings.HasPrefix(ev, "lastAccess<-") {
					acc = strings.TrimPrefix(ev, "lastAccess<-")
				}
			}
			if cs.cur == absNonNil {
				r.Check("handleInstanceInfo:"+cs.name+":access-time", strings.Contains(acc, ".lastAccess(") || strings.Contains(acc, ".lastAccessNano"), hi.Pos(), "case "+cs.name+": the stored entry's access time is "+acc+" (required: inherited from the existing entry)")
			} else {
				r.Check("handleInstanceInfo:"+cs.name+":access-time", strings.Contains(acc, "UnixNano"), hi.Pos(), "case "+cs.name+": the stored entry's access time is "+acc+" (required: now)")
			}
			// never forget, as a case check too
			if cs.cur == absNonNil && cs.curIns == absNonNil {
				r.Check("handleInstanceInfo:"+cs.name+":keeps-instance", newIns == absNonNil, hi.Pos(), "a resolved source keeps serving an instance whatever the refresh returned")
			}
		}
		// doRefresh: per entry: idle x instance
		// evaluate the loop body once by walking from the range body with assumptions
		for _, idle := range []bool{true, false} {
			for _, ins := range []absVal{absNil, absNonNil} {
				for _, exp := range []bool{true, false} {
					name := fmt.Sprintf("idle=%v,instance=%v,expired=%v", idle, ins == absNonNil, exp)
					env := &absEnv{vals: map[string]absVal{}, conds: map[string]absVal{}}
					tv := func(b bool) absVal {
						if b {
							return absTrue
						}
						return absFalse
					}
					neg := func(a absVal) absVal {
						if a == absTrue {
							return absFalse
						}
						return absTrue
					}
					// idle  <=>  (now - lastAccess()) > idle period, in any mirrored / negated spelling with the same boundary
					env.atoms = append(env.atoms, func(v ssa.Value) absVal {
						b, ok := v.(*ssa.BinOp)
						if !ok {
							return absUnknown
						}
						isAge := func(x ssa.Value) bool { return strings.Contains(condExpr(x), "lastAccess") }
						op := b.Op
						switch {
						case isAge(b.X) && !isAge(b.Y):
						case isAge(b.Y) && !isAge(b.X):
							op = mirrorOp(op)
						default:
							return absUnknown
						}
						switch op {
						case token.GTR: // age > limit
							return tv(idle)
						case token.LEQ: // age <= limit
							return neg(tv(idle))
						}
						return absUnknown // >= / < move the boundary: not the documented test
					})
					// expired  <=>  t.After(entry.expires)  <=>  entry.expires.Before(t)
					env.atoms = append(env.atoms, func(v ssa.Value) absVal {
						cl, ok := v.(*ssa.Call)
						if !ok || len(cl.Call.Args) != 2 {
							return absUnknown
						}
						isExp := func(x ssa.Value) bool { return strings.HasSuffix(pathOf(x), ".expires") }
						a0, a1 := cl.Call.Args[0], cl.Call.Args[1]
						switch {
						case isCall(cl, "(time.Time).After") && !isExp(a0) && isExp(a1):
							return tv(exp)
						case isCall(cl, "(time.Time).Before") && isExp(a0) && !isExp(a1):
							return tv(exp)
						}
						return absUnknown
					})
					tr := walkLoopBodyOnce(dr, env, "CachedCloudProvider", ins)
					if tr.Undecided != "" {
						r.Fail("doRefresh:"+name, dr.Pos(), "abstract evaluation undecided: "+tr.Undecided)
						continue
					}
					wantPos, wantNeg := 0, 0
					if idle {
						if ins == absNil {
							wantNeg = -1
						} else {
							wantPos = -1
						}
					}
					evs := strings.Join(tr.Events, ";") + ";"
					okEv := true
					evict := evictionList(dr)
					if evict == "" {
						okEv = false
					} else if idle {
						okEv = strings.Contains(evs, "append "+evict+";")
					} else if exp {
						okEv = strings.Contains(evs, "append toLookupIPs;") && !strings.Contains(evs, "append "+evict+";")
					} else {
						okEv = !strings.Contains(evs, "append")
					}
					r.Check("doRefresh:"+name, tr.Deltas["statsCachePositive"] == wantPos && tr.Deltas["statsCacheNegative"] == wantNeg && okEv, dr.Pos(), fmt.Sprintf("positive %+d (expected %+d), negative %+d (expected %+d); events %s", tr.Deltas["statsCachePositive"], wantPos, tr.Deltas["statsCacheNegative"], wantNeg, evs))
				}
			}
		}
		// no other function changes the gauges
		for _, f := range []string{"statsCachePositive", "statsCacheNegative"} {
			for _, fn := range pkgFuncs(w, P) {
				if len(fieldStores(fn, "CachedCloudProvider", f)) > 0 {
					r.Check("gauge-writers:"+f+":"+fn.Name(), fn == hi || fn == dr, fn.Pos(), f+" is only changed by handleInstanceInfo and doRefresh")
				}
			}
		}
	})

	c.Rule("C12.R4", "lock discipline: the cache map is written only by handleInstanceInfo and doRefresh (Run goroutine) under rw.Lock; Peek reads under rw.RLock", 6, func(r *Rule) {
		if hi == nil || dr == nil || pk == nil || run == nil {
			r.Unresolved("handleInstanceInfo / doRefresh / Peek / Run")
			return
		}
		owned := ownedBy(w, run, P)
		for _, fn := range pkgFuncs(w, P) {
			writes := 0
			eachInstr(fn, func(in ssa.Instruction) {
				switch x := in.(type) {
				case *ssa.MapUpdate:
					if strings.HasSuffix(pathOf(x.Map), "ccp.cache") {
						writes++
					}
				case ssa.CallInstruction:
					if isCall(x, "builtin delete") && strings.HasSuffix(pathOf(x.Common().Args[0]), "ccp.cache") {
						writes++
					}
				}
			})
			if writes == 0 {
				continue
			}
			c.SawFunc(FuncName(fn))
			r.Check("writer:"+fn.Name()+":on-run-goroutine", owned[fn], fn.Pos(), fn.Name()+" writes the cache; it must run on the Run goroutine only")
			// automaton: Lock ... write ... Unlock
			res := runAutomaton(fn, 0, func(in ssa.Instruction) int {
				switch x := in.(type) {
				case *ssa.MapUpdate:
					if strings.HasSuffix(pathOf(x.Map), "ccp.cache") {
						return 2
					}
				case ssa.CallInstruction:
					if isCall(x, "(*sync.RWMutex).Lock") {
						return 0
					}
					if isCall(x, "(*sync.RWMutex).Unlock") {
						if _, isDefer := in.(*ssa.Defer); isDefer {
							return 3 // unlock at exit: stays locked until return
						}
						return 1
					}
					if isCall(x, "builtin delete") && strings.HasSuffix(pathOf(x.Common().Args[0]), "ccp.cache") {
						return 2
					}
				}
				return -1
			}, func(s, e int) int {
				switch e {
				case 0:
					return 1
				case 1:
					if s == 0 {
						return -1
					}
					return 0
				case 2:
					if s == 0 {
						return -1
					}
					return s
				case 3:
					if s == 0 {
						return -1
					}
					return 2 // locked, unlock deferred
				}
				return s
			})
			var m uint32
			for _, s := range res.ExitStates {
				m |= s
			}
			r.Check("writer:"+fn.Name()+":under-write-lock", len(res.Errors) == 0 && m&2 == 0, fn.Pos(), fmt.Sprintf("every cache write is between rw.Lock and rw.Unlock; exit states %b", m))
		}
		// Peek
		c.SawFunc(FuncName(pk))
		res := runAutomaton(pk, 0, func(in ssa.Instruction) int {
			switch x := in.(type) {
			case *ssa.Lookup:
				if strings.HasSuffix(pathOf(x.X), "ccp.cache") {
					return 2
				}
			case ssa.CallInstruction:
				if isCall(x, "(*sync.RWMutex).RLock") {
					return 0
				}
				if isCall(x, "(*sync.RWMutex).RUnlock") {
					return 1
				}
			}
			return -1
		}, func(s, e int) int {
			switch e {
			case 0:
				return 1
			case 1:
				if s != 1 {
					return -1
				}
				return 0
			case 2:
				if s != 1 {
					return -1
				}
				return 1
			}
			return s
		})
		var m uint32
		for _, s := range res.ExitStates {
			m |= s
		}
		r.Check("Peek:under-read-lock", len(res.Errors) == 0 && m == 1, pk.Pos(), "the foreign read of the cache map is bracketed by RLock/RUnlock")
		// foreign readers of the map: only Peek
		for _, fn := range pkgFuncs(w, P) {
			reads := false
			eachInstr(fn, func(in ssa.Instruction) {
				switch x := in.(type) {
				case *ssa.Lookup:
					if strings.HasSuffix(pathOf(x.X), "ccp.cache") {
						reads = true
					}
				case *ssa.Range:
					if strings.HasSuffix(pathOf(x.X), "ccp.cache") {
						reads = true
					}
				}
			})
			if reads {
				r.Check("reader:"+fn.Name(), owned[fn] || fn == pk, fn.Pos(), fn.Name()+" reads the cache map: Run goroutine or Peek only")
			}
		}
	})

	if c.Tier == "thorough" {
		c.Rule("C12.R6", "thorough: per the VTA call graph the cache writers are called only on the Run goroutine", 2, func(r *Rule) {
			if run == nil || hi == nil || dr == nil {
				r.Unresolved("Run / handleInstanceInfo / doRefresh")
				return
			}
			owned := ownedBy(w, run, P)
			for _, fn := range []*ssa.Function{hi, dr} {
				for _, caller := range vtaCallersOf(w, fn) {
					r.Check("vta-caller:"+fn.Name()+":"+FuncName(caller), owned[caller] || caller.Synthetic != "", caller.Pos(), FuncName(caller)+" may call "+fn.Name()+" per VTA")
				}
			}
		})
	}

	c.Rule("C12.R7", "an entry that is used is not idle: every Peek that finds an entry records the current time as its last access, unconditionally (a throttled or skipped update lets an entry in use be evicted as idle, and the good instance is forgotten)", 3, func(r *Rule) {
		ua := w.Func(P, "(*instanceHolder).updateAccess")
		if pk == nil {
			r.Unresolved("(*CachedCloudProvider).Peek")
			return
		}
		c.SawFunc(FuncName(pk))
		isAccessStore := func(in ssa.Instruction) bool {
			cl, ok := in.(ssa.CallInstruction)
			if !ok || !isCall(cl, "sync/atomic.StoreInt64") {
				if st, isSt := in.(*ssa.Store); isSt {
					_, f, _, okF := fieldRef(st.Addr)
					return okF && f == "lastAccessNano"
				}
				return false
			}
			_, f, _, okF := fieldRef(cl.Common().Args[0])
			return okF && f == "lastAccessNano"
		}
		fromClock := func(in ssa.Instruction) bool {
			var v ssa.Value
			switch x := in.(type) {
			case ssa.CallInstruction:
				v = x.Common().Args[1]
			case *ssa.Store:
				v = x.Val
			}
			return v != nil && strings.Contains(exprString(ptrOrigin(v), 0), "time.Now")
		}
		host := ua
		if host == nil {
			host = pk // written in place
		}
		c.SawFunc(FuncName(host))
		n := 0
		eachInstr(host, func(in ssa.Instruction) {
			if isAccessStore(in) {
				n++
				r.Check("updateAccess:stores-the-clock", fromClock(in), in.Pos(), "the last access time recorded is time.Now()")
			}
		})
		if ua != nil {
			m := countOnPaths(ua, isAccessStore)
			r.Check("updateAccess:unconditional", n >= 1 && m == 2, ua.Pos(), "updateAccess records the time exactly once on every path: "+maskString(m))
			// Peek calls it on every hit
			okHit := false
			for _, cl := range callsIn(pk) {
				if staticCallee(cl) == ua {
					okHit = true
					for _, f := range factsAt(cl.Block()) {
						_ = f
					}
				}
			}
			r.Check("Peek:records-access", okHit, pk.Pos(), "Peek calls updateAccess for the entry it found")
		} else {
			r.Check("updateAccess:unconditional", n >= 1, pk.Pos(), "Peek records the access time")
		}
	})

	c.Rule("C12.R5", "refresh: idle entries are scheduled for eviction (idle tested before TTL), other expired entries are re-queried, evictions are applied", 3, func(r *Rule) {
		pendingPopRule(r, w, P, "CachedCloudProvider", "toLookupIPs")
		if dr == nil || run == nil {
			r.Unresolved("doRefresh / Run")
			return
		}
		c.SawFunc(FuncName(dr))
		// (case table of R3 already pins idle-before-TTL); here: every toDelete element is deleted
		okDel := evictionList(dr) != ""
		r.Check("doRefresh:applies-evictions", okDel, dr.Pos(), "every source scheduled for eviction is deleted from the cache")
		// idle period and TTL come from the options
		okIdle := false
		eachInstr(dr, func(in ssa.Instruction) {
			if cl, ok := in.(*ssa.Call); ok && strings.Contains(exprString(cl, 0), "CacheEvictAfterIdlePeriod") {
				okIdle = true
			}
		})
		r.Check("doRefresh:idle-period-option", okIdle, dr.Pos(), "idle threshold is cacheOpts.CacheEvictAfterIdlePeriod")
		// Run: refresh ticker with CacheRefreshPeriod; queued lookups are sent to the dispatcher
		okTick, okSend := false, false
		for _, cl := range callsIn(run) {
			if cl.Common().IsInvoke() && cl.Common().Method.Name() == "NewTicker" && strings.HasSuffix(pathOf(cl.Common().Args[0]), ".CacheRefreshPeriod") {
				okTick = true
			}
		}
		for _, st := range storesIn(run) {
			_ = st
		}
		eachInstr(run, func(in ssa.Instruction) {
			if ph, ok := in.(*ssa.Phi); ok && ph.Comment == "toLookupC" {
				for _, e := range ph.Edges {
					if strings.HasSuffix(pathOf(e), ".ipSinkSource") {
						okSend = true
					}
				}
			}
		})
		r.Check("Run:refresh-ticker", okTick, run.Pos(), "refresh ticker period is CacheRefreshPeriod")
		// every tick refreshes: the call of doRefresh stands directly in the tick's select case (idle eviction and
		// re-lookup must not depend on the state of the pending lists)
		nRef := 0
		for _, cl := range callsIn(run) {
			if staticCallee(cl) != dr {
				continue
			}
			nRef++
			extra := ""
			for _, f := range factsAt(cl.Block()) {
				isSel := false
				for _, v := range []ssa.Value{f.X, f.V} {
					if ex, ok := v.(*ssa.Extract); ok {
						if _, isS := ex.Tuple.(*ssa.Select); isS && ex.Index == 0 {
							isSel = true
						}
					}
				}
				if !isSel {
					extra = "an additional condition guards the refresh"
				}
			}
			r.Check("Run:refresh-on-every-tick", extra == "", cl.Pos(), "doRefresh runs on every tick of the refresh ticker "+extra)
		}
		r.Check("Run:refresh-site", nRef == 1, run.Pos(), fmt.Sprintf("%d doRefresh calls in Run", nRef))
		r.Check("Run:queued-lookups-are-submitted", okSend, run.Pos(), "sources queued by the refresh are sent to the lookup dispatcher")
	})
}

// evictionList: the rendering of the slice whose every element is deleted from the cache by
// doRefresh (the list the scan loop must append idle sources to), or "".
func evictionList(dr *ssa.Function) string {
	out := ""
	for _, cl := range callsTo(dr, "builtin delete") {
		a := cl.Common().Args
		if !strings.HasSuffix(pathOf(a[0]), "ccp.cache") {
			continue
		}
		// the key is an element of a slice that a loop covers completely
		key := a[1]
		for {
			if ct, ok := key.(*ssa.ChangeType); ok {
				key = ct.X
				continue
			}
			break
		}
		u, ok := key.(*ssa.UnOp)
		if !ok || u.Op != token.MUL {
			continue
		}
		ia, ok := u.X.(*ssa.IndexAddr)
		if !ok {
			continue
		}
		if _, isSlice := ia.X.Type().Underlying().(*types.Slice); !isSlice {
			continue
		}
		var ph *ssa.Phi
		if p, ok := ia.Index.(*ssa.Phi); ok {
			ph = p
		} else if b := asBinOp(ia.Index, token.ADD); b != nil {
			ph, _ = b.X.(*ssa.Phi)
		}
		if ph == nil || !loopCoversSlice(ph, ia.X) {
			continue
		}
		// the slice covered is the whole list that was collected: nil, grown by append, never cut down
		whole := true
		seen := map[ssa.Value]bool{}
		var leaf func(v ssa.Value)
		leaf = func(v ssa.Value) {
			if seen[v] {
				return
			}
			seen[v] = true
			switch x := v.(type) {
			case *ssa.Phi:
				for _, e := range x.Edges {
					leaf(e)
				}
			case *ssa.Const:
				whole = whole && x.Value == nil
			case *ssa.Call:
				if isCall(x, "builtin append") {
					leaf(x.Call.Args[0])
				} else {
					whole = false
				}
			case *ssa.MakeSlice:
			default:
				whole = false
			}
		}
		leaf(ia.X)
		if !whole {
			continue
		}
		out = pathOf(ia.X)
	}
	return out
}

// walkLoopBodyOnce evaluates one iteration of the (single) map range loop of fn under env,
// with the ranged element's `.instance` nil-ness given.
func walkLoopBodyOnce(fn *ssa.Function, env *absEnv, counterStruct string, instance absVal) absTrace {
	tr := absTrace{Deltas: map[string]int{}}
	var next *ssa.Next
	eachInstr(fn, func(in ssa.Instruction) {
		if n, ok := in.(*ssa.Next); ok && next == nil {
			next = n
		}
	})
	if next == nil {
		tr.Undecided = "no range loop"
		return tr
	}
	head := next.Block()
	blk := head.Succs[0]
	// the element's instance: any path ending in ".instance" that derives from the range value
	for steps := 0; steps < 100; steps++ {
		if blk == head {
			return tr
		}
		for _, in := range blk.Instrs {
			switch x := in.(type) {
			case *ssa.Store:
				if t, f, _, ok := fieldRef(x.Addr); ok && t == counterStruct {
					if b := asBinOp(x.Val, token.ADD, token.SUB); b != nil {
						if one, isC := constInt(b.Y); isC && one == 1 {
							if b.Op == token.ADD {
								tr.Deltas[f]++
							} else {
								tr.Deltas[f]--
							}
							continue
						}
					}
					if cl, isC := x.Val.(*ssa.Call); isC && isCall(cl, "builtin append") {
						tr.Events = append(tr.Events, "append "+f)
					}
				}
			case *ssa.Call:
				if isCall(x, "builtin append") {
					tr.Events = append(tr.Events, "append "+pathOf(x.Call.Args[0]))
				}
			}
		}
		term := blk.Instrs[len(blk.Instrs)-1]
		switch t := term.(type) {
		case *ssa.If:
			v := env.evalCond(t.Cond)
			if v == absUnknown {
				// nil test of the element's instance
				if b := asBinOp(t.Cond, token.EQL, token.NEQ); b != nil && isNilConst(b.Y) && strings.HasSuffix(pathOf(b.X), ".instance") && strings.Contains(pathOf(b.X), "next(range(") {
					isNil := instance == absNil
					if (b.Op == token.EQL) == isNil {
						v = absTrue
					} else {
						v = absFalse
					}
				}
			}
			switch v {
			case absTrue:
				blk = blk.Succs[0]
			case absFalse:
				blk = blk.Succs[1]
			default:
				tr.Undecided = "condition not decidable: " + condExpr(t.Cond)
				return tr
			}
		case *ssa.Jump:
			blk = blk.Succs[0]
		default:
			tr.Undecided = "loop body leaves the function"
			return tr
		}
	}
	tr.Undecided = "loop body too long"
	return tr
}
