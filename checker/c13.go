package main

import (
	"fmt"
	"go/token"
	"go/types"
	"sort"
	"strings"

	"golang.org/x/tools/go/ssa"
)

func init() { register("C13", c13) }

func c13(c *Ctx) {
	w := c.W
	const P = "pkg/cachedinstances/k8s"
	c.Explanation = "C13 (Kubernetes lookups reflect the current pod holding an IP): the cache-invalidation handler is registered on the same informer that lookups query, with the PodByIP indexer; updates invalidate with the old object and deletions with the deleted object or the tombstone in the form client-go actually delivers it; index function and invalidation use the same indexability predicate and the same key field; the memo cache is written under the write lock, read under the read lock and never memoises 'nothing'; tag names come from the non-empty 'tag' capture group, else the whole key, only for matching keys; identity is namespace/name."
	c.NotDecided = []string{"freshness over event histories (depends on client-go's informer ordering, trusted)", "the race between a lookup computing from the informer and a concurrent invalidation (a schedule question)"}

	np := w.Func(P, "NewProvider")
	ifi := w.Func(P, "(*Provider).instanceFromInformer")
	ifc := w.Func(P, "(*Provider).instanceFromCache")
	inv := w.Func(P, "cacheInvalidationHandler.maybeInvalidateCacheForPod")
	onU := w.Func(P, "cacheInvalidationHandler.OnUpdate")
	onD := w.Func(P, "cacheInvalidationHandler.OnDelete")
	idx := w.Func(P, "podByIpIndexFunc")
	iip := w.Func(P, "isIndexablePod")
	tn := w.Func(P, "getTagNameFromRegex")

	c.Rule("C13.R1", "wiring: the invalidation handler and the PodByIP indexer are installed on the informer that lookups query", 5, func(r *Rule) {
		if np == nil || ifi == nil {
			r.Unresolved("NewProvider / instanceFromInformer")
			return
		}
		c.SawFunc(FuncName(np))
		c.SawFunc(FuncName(ifi))
		var inf ssa.Value
		for _, st := range fieldStores(np, "Provider", "podsInf") {
			inf = st.Val
		}
		okH, okI := false, false
		var prov ssa.Value
		for _, st := range fieldStores(np, "Provider", "podsInf") {
			_, _, prov, _ = fieldRef(st.Addr)
		}
		for _, cl := range callsIn(np) {
			if !cl.Common().IsInvoke() {
				continue
			}
			switch cl.Common().Method.Name() {
			case "AddEventHandler":
				if cl.Common().Value == inf {
					if mi, ok := cl.Common().Args[0].(*ssa.MakeInterface); ok && typeIs(mi.X.Type(), P, "cacheInvalidationHandler") {
						// its p field is the provider being built
						if u, ok := mi.X.(*ssa.UnOp); ok {
							if al, ok := u.X.(*ssa.Alloc); ok {
								if v, ok := complitFields(al)["p"]; ok && v == prov {
									okH = true
								}
							}
						}
					}
				}
			case "AddIndexers":
				if cl.Common().Value == inf {
					// the indexers map contains PodsByIPIndexName -> podByIpIndexFunc
					eachInstr(np, func(in ssa.Instruction) {
						if mu, ok := in.(*ssa.MapUpdate); ok {
							k, isS := constString(mu.Key)
							f := stripConv(mu.Value)
							if fn, isF := f.(*ssa.Function); isS && isF && fn == idx && k == indexNameConst(w) {
								okI = true
							}
						}
					})
				}
			}
		}
		r.Check("NewProvider:handler-on-same-informer", okH && inf != nil, np.Pos(), "cacheInvalidationHandler{p: p} is added to the informer stored in p.podsInf")
		r.Check("NewProvider:indexer-installed", okI, np.Pos(), "AddIndexers({PodByIP: podByIpIndexFunc}) on the same informer")
		// the error of AddIndexers is not ignored
		okErr := false
		for _, cl := range callsIn(np) {
			if cl.Common().IsInvoke() && cl.Common().Method.Name() == "AddIndexers" {
				for _, rf := range referrers(cl.(ssa.Value)) {
					if b, ok := rf.(*ssa.BinOp); ok && b.Op == token.NEQ {
						okErr = true
					}
				}
			}
		}
		r.Check("NewProvider:indexer-error-checked", okErr, np.Pos(), "a failure to install the index aborts construction")
		// lookups query that informer's index by the same name with the ip
		okQ := false
		for _, cl := range callsIn(ifi) {
			if cl.Common().IsInvoke() && cl.Common().Method.Name() == "ByIndex" {
				k, isS := constString(cl.Common().Args[0])
				gi, isC := cl.Common().Value.(*ssa.Call)
				if isS && k == indexNameConst(w) && isC && gi.Call.IsInvoke() && gi.Call.Method.Name() == "GetIndexer" && pathOf(gi.Call.Value) == "p.podsInf" {
					okQ = paramIndex(ifi, stripConv(cl.Common().Args[1])) == 1
				}
			}
		}
		r.Check("lookup:queries-same-index", okQ, ifi.Pos(), "p.podsInf.GetIndexer().ByIndex(PodByIP, string(ip))")
		// the informer factory is started by Run
		run := w.Func(P, "(*Provider).Run")
		okS := false
		if run != nil {
			for _, cl := range callsIn(run) {
				if cl.Common().IsInvoke() && cl.Common().Method.Name() == "Start" && pathOf(cl.Common().Value) == "p.factory" {
					okS = true
				}
			}
		}
		r.Check("Run:starts-informers", okS, np.Pos(), "Run starts the informer factory")
	})

	c.Rule("C13.R2", "invalidation: updates invalidate with the old object, deletions with the deleted pod or the tombstone (in the concrete form client-go delivers); indexable pods always reach the delete", 6, func(r *Rule) {
		if onU == nil || onD == nil || inv == nil {
			r.Unresolved("cacheInvalidationHandler.OnUpdate / OnDelete / maybeInvalidateCacheForPod")
			return
		}
		c.SawFunc(FuncName(onU))
		c.SawFunc(FuncName(onD))
		c.SawFunc(FuncName(inv))
		// OnUpdate
		n := 0
		for _, cl := range callsIn(onU) {
			if staticCallee(cl) == inv {
				n++
				ta, ok := cl.Common().Args[1].(*ssa.TypeAssert)
				r.Check("OnUpdate:old-object", ok && paramIndex(onU, ta.X) == 1, cl.Pos(), "invalidation uses the OLD object (the version the cache may hold)")
			}
		}
		m := countOnPaths(onU, func(in ssa.Instruction) bool {
			cl, ok := in.(ssa.CallInstruction)
			return ok && staticCallee(cl) == inv
		})
		r.Check("OnUpdate:always-invalidates", n == 1 && m == 2, onU.Pos(), "one invalidation on every path: "+maskString(m))
		// OnDelete: type assertions
		deliv := tombstoneDeliveredTypes(w)
		var asserts []*ssa.TypeAssert
		eachInstr(onD, func(in ssa.Instruction) {
			if ta, ok := in.(*ssa.TypeAssert); ok {
				asserts = append(asserts, ta)
			}
		})
		okTomb := false
		for _, ta := range asserts {
			ts := ta.AssertedType.String()
			if strings.Contains(ts, "DeletedFinalStateUnknown") {
				okTomb = deliv[ts]
				var ds []string
				for k := range deliv {
					ds = append(ds, k)
				}
				r.Check("OnDelete:tombstone-type", okTomb, ta.Pos(), fmt.Sprintf("asserts %s; client-go places tombstones into interfaces as %v", ts, ds))
				r.Check("OnDelete:tombstone-from-argument", paramIndex(onD, ta.X) == 1, ta.Pos(), "the tombstone is the handler's argument")
			}
		}
		r.Check("OnDelete:handles-tombstone", okTomb, onD.Pos(), "deletions learned from a re-list (DeletedFinalStateUnknown) are handled")
		// the pod(s) passed to invalidation: the deleted object asserted to *Pod, and the tombstone's Obj asserted to *Pod
		direct, viaTomb, otherSrc := false, false, ""
		var podLeaves func(v ssa.Value, d int)
		seenPL := map[ssa.Value]bool{}
		podLeaves = func(v ssa.Value, d int) {
			if d > 8 || seenPL[v] {
				return
			}
			seenPL[v] = true
			switch x := v.(type) {
			case *ssa.Phi:
				for _, e := range x.Edges {
					podLeaves(e, d+1)
				}
				return
			case *ssa.Extract:
				if ta, ok := x.Tuple.(*ssa.TypeAssert); ok && x.Index == 0 {
					podLeaves(ta, d+1)
					return
				}
			case *ssa.TypeAssert:
				if paramIndex(onD, x.X) == 1 {
					direct = true
					return
				}
				if strings.HasSuffix(pathOf(x.X), ".Obj") {
					viaTomb = true
					return
				}
			case *ssa.Const:
				if x.Value == nil {
					return // the zero value of a failed assertion on an edge that does not reach the call feasibly
				}
			}
			otherSrc = pathOf(v)
		}
		nInv := 0
		for _, cl := range callsIn(onD) {
			if staticCallee(cl) == inv {
				nInv++
				podLeaves(cl.Common().Args[1], 0)
			}
		}
		r.Check("OnDelete:invalidates-with-deleted-pod", nInv >= 1 && direct && viaTomb && otherSrc == "", onD.Pos(), "the invalidated pod is the deleted object itself or the tombstone's Obj"+map[bool]string{true: "", false: " (also: " + otherSrc + ")"}[otherSrc == ""])
		// a return without invalidation is reached only through a failed type assertion
		const (
			evInv = iota
			evFail
		)
		ares := runAutomatonE(onD, 0, func(in ssa.Instruction) int {
			if cl, ok := in.(ssa.CallInstruction); ok && staticCallee(cl) == inv {
				return evInv
			}
			return -1
		}, func(from, to *ssa.BasicBlock) int {
			cd, ok := edgeCondResolved(from, to)
			if !ok {
				return -1
			}
			if ex, ok := cd.V.(*ssa.Extract); ok && ex.Index == 1 {
				if _, isTA := ex.Tuple.(*ssa.TypeAssert); isTA && !cd.Sense {
					return evFail
				}
			}
			return -1
		}, func(st, ev int) int {
			switch ev {
			case evInv:
				return 1
			case evFail:
				if st == 0 {
					return 2
				}
			}
			return st
		})
		okSkip := true
		for _, st := range ares.ExitStates {
			if st&1 != 0 {
				okSkip = false
			}
		}
		r.Check("OnDelete:skips-only-unknown-objects", okSkip, onD.Pos(), "every path that returns without invalidating passed a failed type assertion (an object that is neither a pod nor a tombstone holding one)")
		// maybeInvalidate: delete reached whenever indexable
		var del ssa.CallInstruction
		for _, cl := range callsTo(inv, "builtin delete") {
			del = cl
		}
		if del == nil {
			r.Fail("invalidate:delete", inv.Pos(), "no delete of the cache entry")
			return
		}
		cs := condStrings(del.Block())
		fs := factsAt(del.Block())
		r.Check("invalidate:exactly-when-indexable", len(fs) == 1 && fs[0].Op == token.ILLEGAL && fs[0].True && strings.Contains(condExpr(fs[0].V), "isIndexablePod"), del.Pos(), "delete under exactly isIndexablePod(pod): "+strings.Join(cs, " && "))
		a := del.Common().Args
		r.Check("invalidate:key", strings.HasSuffix(pathOf(a[0]), ".cache") && strings.HasSuffix(strings.TrimSuffix(pathOf(a[1]), ")"), "pod.Status.PodIP"), del.Pos(), "delete(p.cache, Source(pod.Status.PodIP))")
	})

	c.Rule("C13.R3", "sibling agreement: index function and invalidation use the same predicate and key; the predicate is 'has IP, not finished, not host network'", 6, func(r *Rule) {
		if idx == nil || inv == nil || iip == nil {
			r.Unresolved("podByIpIndexFunc / maybeInvalidateCacheForPod / isIndexablePod")
			return
		}
		c.SawFunc(FuncName(idx))
		c.SawFunc(FuncName(iip))
		for _, fn := range []*ssa.Function{idx, inv} {
			n := 0
			for _, cl := range callsIn(fn) {
				if staticCallee(cl) == iip {
					n++
				}
			}
			r.Check(fn.Name()+":uses-isIndexablePod", n == 1, fn.Pos(), fmt.Sprintf("%d calls of isIndexablePod", n))
		}
		// index key
		okKey := false
		eachInstr(idx, func(in ssa.Instruction) {
			if rt, ok := in.(*ssa.Return); ok {
				for _, el := range sliceLitElems(rt.Results[0]) {
					if strings.HasSuffix(pathOf(el), ".Status.PodIP") {
						okKey = callKnown(factsAt(rt.Block()), func(cl *ssa.Call) bool { return staticCallee(cl) == iip }, true)
					}
				}
			}
		})
		r.Check("index:key-is-PodIP-when-indexable", okKey, idx.Pos(), "indexable pods are indexed under pod.Status.PodIP (the key the invalidation deletes)")
		// predicate: a decision table over its six atoms (helpers evaluated through their bodies, so
		// an if-chain, one boolean expression and helpers written in place are all the same table)
		ip, host := "p0.Status.PodIP", "p0.Status.HostIP"
		phase := "p0.Status.Phase"
		aEmpty := atomKey(ip, `""`)
		aSucc := atomKey(phase, `"Succeeded"`)
		aFail := atomKey(phase, `"Failed"`)
		aNotDel := atomKey("p0.ObjectMeta.DeletionTimestamp", "nil") // true: not being deleted
		aHN := "p0.Spec.HostNetwork"
		aSame := atomKey(ip, host)
		atoms := []string{aEmpty, aSucc, aFail, aNotDel, aHN, aSame}
		bad, unknown, impure := boolTable(iip, atoms, func(a map[string]bool) bool {
			return !a[aEmpty] && !(a[aSucc] || a[aFail] || !a[aNotDel]) && !(a[aHN] || a[aSame])
		})
		r.Check("isIndexablePod:pure", impure == "", iip.Pos(), "the predicate has no side effects "+impure)
		r.Check("isIndexablePod:only-known-conditions", len(unknown) == 0, iip.Pos(), "conditions consulted: PodIP empty, phase Succeeded/Failed, deletion timestamp, host network, PodIP==HostIP "+strings.Join(unknown, "; "))
		r.Check("isIndexablePod:decision-table", len(bad) == 0, iip.Pos(), fmt.Sprintf("indexable <=> has IP && !(Succeeded||Failed||deleting) && !(HostNetwork||PodIP==HostIP), over all %d assignments %s", 1<<len(atoms), strings.Join(bad, "; ")))
	})

	c.Rule("C13.R4", "memo cache: written under the write lock, read under the read lock, only real instances short-circuit the informer", 5, func(r *Rule) {
		if ifc == nil || inv == nil {
			r.Unresolved("instanceFromCache")
			return
		}
		c.SawFunc(FuncName(ifc))
		// writers
		for _, fn := range pkgFuncs(w, P) {
			writes := false
			eachInstr(fn, func(in ssa.Instruction) {
				switch x := in.(type) {
				case *ssa.MapUpdate:
					if strings.HasSuffix(pathOf(x.Map), "p.cache") {
						writes = true
					}
				case ssa.CallInstruction:
					if isCall(x, "builtin delete") && strings.HasSuffix(pathOf(x.Common().Args[0]), "p.cache") {
						writes = true
					}
				}
			})
			if !writes {
				continue
			}
			res := runAutomaton(fn, 0, func(in ssa.Instruction) int {
				switch x := in.(type) {
				case *ssa.MapUpdate:
					if strings.HasSuffix(pathOf(x.Map), "p.cache") {
						return 2
					}
				case ssa.CallInstruction:
					if isCall(x, "(*sync.RWMutex).Lock") {
						return 0
					}
					if isCall(x, "(*sync.RWMutex).Unlock") {
						if _, isDefer := in.(*ssa.Defer); isDefer {
							return 3
						}
						return 1
					}
					if isCall(x, "builtin delete") && strings.HasSuffix(pathOf(x.Common().Args[0]), "p.cache") {
						return 2
					}
				}
				return -1
			}, func(s, e int) int {
				// states: 0 unlocked, 1 locked, 2 locked with the unlock deferred to the function's exit
				switch e {
				case 0:
					if s != 0 {
						return -1
					}
					return 1
				case 1:
					if s != 1 {
						return -1
					}
					return 0
				case 3:
					if s != 1 {
						return -1
					}
					return 2
				case 2:
					if s != 1 && s != 2 {
						return -1
					}
				}
				return s
			})
			var m uint32
			for _, s := range res.ExitStates {
				m |= s
			}
			r.Check("writer:"+fn.Name(), len(res.Errors) == 0 && m&^(1|1<<2) == 0 && m != 0, fn.Pos(), "cache writes are bracketed by rw.Lock / rw.Unlock (explicit or deferred)")
		}
		// read under RLock
		res := runAutomaton(ifc, 0, func(in ssa.Instruction) int {
			switch x := in.(type) {
			case *ssa.Lookup:
				if strings.HasSuffix(pathOf(x.X), "p.cache") {
					return 2
				}
			case ssa.CallInstruction:
				if isCall(x, "(*sync.RWMutex).RLock") {
					return 0
				}
				if isCall(x, "(*sync.RWMutex).RUnlock") {
					return 1
				}
			}
			return -1
		}, func(s, e int) int {
			switch e {
			case 0:
				return 1
			case 1:
				if s != 1 {
					return -1
				}
				return 0
			case 2:
				if s != 1 {
					return -1
				}
			}
			return s
		})
		r.Check("reader:under-read-lock", len(res.Errors) == 0, ifc.Pos(), "the cache read is bracketed by RLock / RUnlock")
		// short-circuit only for non-nil
		var inf ssa.CallInstruction
		for _, cl := range callsIn(ifc) {
			if staticCallee(cl) == ifi {
				inf = cl
			}
		}
		okSC := false
		if inf != nil {
			for _, cd := range condsFor(inf.Block()) {
				cd = normCond(cd)
				if b := asBinOp(cd.V, token.NEQ, token.EQL); b != nil && isNilConst(b.Y) {
					if lk, ok := b.X.(*ssa.Lookup); ok && strings.HasSuffix(pathOf(lk.X), "p.cache") {
						if (b.Op == token.NEQ && !cd.Sense) || (b.Op == token.EQL && cd.Sense) {
							okSC = true
						}
					}
				}
			}
		}
		r.Check("memo:nothing-is-not-memoised", okSC, ifc.Pos(), "the informer is consulted whenever the memo holds nil, so 'no such pod' is never served from the memo")
		// the result of the informer is what is stored and returned
		okSt := false
		eachInstr(ifc, func(in ssa.Instruction) {
			if mu, ok := in.(*ssa.MapUpdate); ok && inf != nil && mu.Value == inf.(ssa.Value) && paramIndex(ifc, mu.Key) == 1 {
				okSt = true
			}
		})
		r.Check("memo:stores-informer-result-under-ip", okSt, ifc.Pos(), "p.cache[ip] = instanceFromInformer(ip)")
		// an answer is the memo's entry for this ip or what the informer just said: there is no other store of
		// answers (one that invalidation does not reach would keep serving a pod version that is gone)
		badSrc := ""
		nRet := 0
		eachInstr(ifc, func(in ssa.Instruction) {
			rt, ok := in.(*ssa.Return)
			if !ok || len(rt.Results) != 1 {
				return
			}
			nRet++
			seen := map[ssa.Value]bool{}
			var leaf func(v ssa.Value)
			leaf = func(v ssa.Value) {
				if seen[v] {
					return
				}
				seen[v] = true
				switch x := v.(type) {
				case *ssa.Phi:
					for _, e := range x.Edges {
						leaf(e)
					}
				case *ssa.Lookup:
					if !(strings.HasSuffix(pathOf(x.X), "p.cache") && paramIndex(ifc, x.Index) == 1) {
						badSrc = exprString(x, 0)
					}
				case *ssa.Extract:
					leaf(x.Tuple)
				case *ssa.Const:
					if x.Value != nil {
						badSrc = exprString(x, 0)
					}
				default:
					if inf == nil || v != inf.(ssa.Value) {
						badSrc = exprString(v, 0)
					}
				}
			}
			leaf(rt.Results[0])
		})
		r.Check("memo:answers-from-memo-or-informer", nRet >= 1 && badSrc == "", ifc.Pos(), "every answer is p.cache[ip] or instanceFromInformer(ip) "+badSrc)
	})

	c.Rule("C13.R6", "the informer's store holds what the lookups read: if a transform is installed on the pod informer, every pod field read by the index function, the eligibility predicate, the invalidation handler and the instance builder is carried over by it", 1, func(r *Rule) {
		isPodStruct := func(t string) bool {
			switch t {
			case "Pod", "PodSpec", "PodStatus", "ObjectMeta":
				return true
			}
			return false
		}
		var transforms []*ssa.Function
		for _, fn := range pkgFuncs(w, P) {
			for _, cl := range callsIn(fn) {
				if cl.Common().IsInvoke() && cl.Common().Method.Name() == "SetTransform" || strings.HasSuffix(calleeName(cl), ".SetTransform") {
					a := cl.Common().Args
					switch f := a[len(a)-1].(type) {
					case *ssa.Function:
						transforms = append(transforms, f)
					case *ssa.MakeClosure:
						if g, ok := f.Fn.(*ssa.Function); ok {
							transforms = append(transforms, g)
						}
					case *ssa.ChangeType:
						if g, ok := f.X.(*ssa.Function); ok {
							transforms = append(transforms, g)
						}
					default:
						r.Fail("transform:resolvable", cl.Pos(), "a transform is installed but its function cannot be resolved: "+pathOf(a[len(a)-1]))
					}
				}
			}
		}
		if len(transforms) == 0 {
			r.Pass("transform:none", token.NoPos, "no transform is installed on the informer: pods are stored as delivered")
			return
		}
		isT := map[*ssa.Function]bool{}
		for _, t := range transforms {
			for _, g := range WithAnon(t) {
				isT[g] = true
			}
		}
		read := map[string]token.Pos{}
		for _, fn := range pkgFuncs(w, P) {
			if isT[fn] {
				continue
			}
			eachInstr(fn, func(in ssa.Instruction) {
				var st, f string
				var ok bool
				switch x := in.(type) {
				case *ssa.FieldAddr:
					st, f, _, ok = fieldRef(x)
					// a field address that is only stored to is a write, not a read
				case *ssa.Field:
					st, f, _, ok = fieldRef(x)
				}
				if ok && isPodStruct(st) && !isPodStruct(f) && f != "Spec" && f != "Status" {
					read[st+"."+f] = in.Pos()
				}
			})
		}
		for _, t := range transforms {
			c.SawFunc(FuncName(t))
			written := map[string]bool{}
			whole := map[string]bool{}
			for _, g := range WithAnon(t) {
				eachInstr(g, func(in ssa.Instruction) {
					st, ok := in.(*ssa.Store)
					if !ok {
						return
					}
					if s, f, _, okf := fieldRef(st.Addr); okf && isPodStruct(s) {
						written[s+"."+f] = true
						// copying a whole embedded struct carries all of its fields
						if n := structName(st.Val.Type()); isPodStruct(n) {
							if _, isLoad := st.Val.(*ssa.UnOp); isLoad {
								whole[n] = true
							}
						}
					}
				})
			}
			var keys []string
			for k := range read {
				keys = append(keys, k)
			}
			sort.Strings(keys)
			for _, k := range keys {
				s := k[:strings.Index(k, ".")]
				r.Check("transform:"+t.Name()+":keeps:"+k, written[k] || whole[s], read[k], "field "+k+" is read by the lookup code and must survive the informer transform "+t.Name())
			}
		}
	})

	c.Rule("C13.R5", "tags and identity: tag name is the non-empty 'tag' group, else the whole key when the regex matched, else nothing; labels use the label regex, annotations the annotation regex; id = namespace/name", 8, func(r *Rule) {
		if tn == nil || ifi == nil {
			r.Unresolved("getTagNameFromRegex / instanceFromInformer")
			return
		}
		c.SawFunc(FuncName(tn))
		var fs *ssa.Call
		for _, cl := range callsTo(tn, "(*regexp.Regexp).FindStringSubmatch") {
			fs, _ = cl.(*ssa.Call)
		}
		if fs == nil {
			r.Fail("tagname:uses-submatch", tn.Pos(), "FindStringSubmatch not used")
			return
		}
		r.Check("tagname:matches-the-key", paramIndex(tn, fs.Call.Args[1]) == 1 && paramIndex(tn, fs.Call.Args[0]) == 0, fs.Pos(), "re.FindStringSubmatch(s)")
		kinds := map[string]int{}
		elemIdx := func(v ssa.Value) ssa.Value {
			switch x := v.(type) {
			case *ssa.UnOp:
				if ia, ok := x.X.(*ssa.IndexAddr); ok {
					return ia.Index
				}
			case *ssa.Index:
				return x.Index
			}
			return nil
		}
		isEmptyStr := func(v ssa.Value) bool { s, ok := constString(v); return ok && s == "" }
		isTagConst := func(v ssa.Value) bool { s, ok := constString(v); return ok && s == tagGroupName(w) }
		// the names of the capture groups: elements of re.SubexpNames()
		isNameAt := func(v ssa.Value, idx ssa.Value) bool {
			var names ssa.Value
			switch x := v.(type) {
			case *ssa.UnOp:
				if ia, ok := x.X.(*ssa.IndexAddr); ok && ia.Index == idx {
					names = ia.X
				}
			case *ssa.Index:
				if x.Index == idx {
					names = x.X
				}
			}
			if names == nil {
				return false
			}
			c, ok := names.(*ssa.Call)
			return ok && isCall(c, "(*regexp.Regexp).SubexpNames") && paramIndex(tn, c.Call.Args[0]) == 0
		}
		eachInstr(tn, func(in ssa.Instruction) {
			rt, ok := in.(*ssa.Return)
			if !ok {
				return
			}
			cs := strings.Join(condStrings(rt.Block()), " && ")
			// a named result assigned on several paths arrives as a phi: judge every incoming value with the
			// conditions of its own path
			for _, vc := range valueCases(rt.Results[0], rt.Block()) {
				var facts []canonCond
				for _, cd := range vc.Conds {
					facts = append(facts, canonOf(cd))
				}
				v := vc.V
				switch {
				case isElemOf(v, fs):
					kinds["group"]++
					idx := elemIdx(v)
					sameElem := func(x ssa.Value) bool { return isElemOf(x, fs) && elemIdx(x) == idx }
					okNE := cmpHolds(facts, sameElem, isEmptyStr, token.NEQ)
					okName := cmpHolds(facts, func(x ssa.Value) bool { return isNameAt(x, idx) }, isTagConst, token.EQL)
					r.Check("tagname:group-non-empty", okNE, rt.Pos(), "the capture group's text is used only when it is non-empty (otherwise fall back to the whole key): "+cs)
					r.Check("tagname:group-named-tag", okName, rt.Pos(), "the capture group used is the one named '"+tagGroupName(w)+"'")
				case paramIndex(tn, v) == 1:
					kinds["whole-key"]++
					whole := func(x ssa.Value) bool {
						if !isElemOf(x, fs) {
							return false
						}
						k, isC := constInt(elemIdx(x))
						return isC && k == 0
					}
					r.Check("tagname:whole-key-when-matched", cmpHolds(facts, whole, isEmptyStr, token.NEQ), rt.Pos(), "the whole key is the tag name when the regex matched: "+cs)
				default:
					if s, isS := constString(v); isS && s == "" {
						kinds["none"]++
					} else {
						r.Fail("tagname:unexpected-return", rt.Pos(), "returns "+pathOf(v))
					}
				}
			}
		})
		r.Check("tagname:cases", kinds["group"] == 1 && kinds["whole-key"] == 1 && kinds["none"] >= 1, tn.Pos(), fmt.Sprintf("return kinds %v", kinds))
		// no-match -> ""
		okNil := false
		eachInstr(tn, func(in ssa.Instruction) {
			if rt, ok := in.(*ssa.Return); ok {
				for _, vc := range valueCases(rt.Results[0], rt.Block()) {
					var facts []canonCond
					for _, cd := range vc.Conds {
						facts = append(facts, canonOf(cd))
					}
					if s, isS := constString(vc.V); isS && s == "" && (knownNil(facts, func(x ssa.Value) bool { return x == ssa.Value(fs) }) || knownEmpty(facts, func(x ssa.Value) bool { return x == ssa.Value(fs) })) {
						okNil = true
					}
				}
			}
		})
		r.Check("tagname:no-match-no-tag", okNil, tn.Pos(), "keys the regex does not match yield no tag")
		// configuration wiring: the label regex comes from label-tag-regex, the annotation regex from
		// annotation-tag-regex (field <- constructor parameter <- argument at every call site <- GetString(key))
		for _, fn := range pkgFuncs(w, P) {
			for _, st := range storesIn(fn) {
				t, f, _, ok := fieldRef(st.Addr)
				if !ok || t != "Provider" || (f != "labelRegex" && f != "annotationRegex") {
					continue
				}
				want, other := "label-tag-regex", "annotation-tag-regex"
				if f == "annotationRegex" {
					want, other = other, want
				}
				p, isParam := stripConvVal(st.Val).(*ssa.Parameter)
				if !isParam {
					ks := stringConstsFlowingInto(fn, st.Val)
					r.Check("regex-wiring:"+f, ks[want] && !ks[other], st.Pos(), fmt.Sprintf("%s is built from the %s setting (settings reaching it: %v)", f, want, keysOf(ks)))
					continue
				}
				idx := -1
				for i, q := range fn.Params {
					if q == p {
						idx = i
					}
				}
				nSites := 0
				for _, caller := range w.ModuleFuncs() {
					if strings.Contains(fnPkgPath(caller), "/internal/fixtures") {
						continue
					}
					for _, cl := range callsIn(caller) {
						if staticCallee(cl) != fn || idx < 0 || idx >= len(cl.Common().Args) {
							continue
						}
						ks := stringConstsFlowingInto(caller, cl.Common().Args[idx])
						if len(ks) == 0 {
							continue // a caller that passes a ready-made regex (tests, embedding code)
						}
						nSites++
						r.Check("regex-wiring:"+f+":"+caller.Name(), ks[want] && !ks[other], cl.Pos(), fmt.Sprintf("the argument stored as %s derives from the %s setting (settings reaching it: %v)", f, want, keysOf(ks)))
					}
				}
				r.Check("regex-wiring:"+f+":configured-somewhere", nSites >= 1, st.Pos(), fmt.Sprintf("%d call sites build %s from configuration", nSites, f))
			}
		}
		// instanceFromInformer
		c.SawFunc(FuncName(ifi))
		for _, cl := range callsIn(ifi) {
			if staticCallee(cl) != tn {
				continue
			}
			re := pathOf(cl.Common().Args[0])
			key := pathOf(cl.Common().Args[1])
			switch {
			case strings.Contains(key, ".Labels"):
				r.Check("tags:labels-use-label-regex", re == "p.labelRegex", cl.Pos(), "labels matched with "+re)
			case strings.Contains(key, ".Annotations"):
				r.Check("tags:annotations-use-annotation-regex", re == "p.annotationRegex", cl.Pos(), "annotations matched with "+re)
			default:
				r.Fail("tags:source", cl.Pos(), "tag name computed from "+key)
			}
			// every key of the map is put to the regex: inside the range loop nothing comes between taking a
			// key and matching it (a key that is skipped loses a tag the regex would have given it)
			if ex, isEx := cl.Common().Args[1].(*ssa.Extract); isEx {
				if nx, isNx := ex.Tuple.(*ssa.Next); isNx && len(nx.Block().Succs) == 2 {
					head, body := nx.Block(), nx.Block().Succs[0]
					skipped := body != cl.Block() && pathsAvoiding(body, head, func(b *ssa.BasicBlock) bool { return b == cl.Block() })
					r.Check("tags:every-key-is-matched:"+re, !skipped, cl.Pos(), "every iteration over the keys reaches getTagNameFromRegex")
				}
			}
			// appended only when non-empty, as name + ":" + value of the same entry
			okApp := false
			for _, ap := range callsTo(ifi, "builtin append") {
				for _, el := range varargElems(ap.Common().Args[1]) {
					es := pathOf(el)
					if strings.Contains(es, "call("+P+".getTagNameFromRegex)") || strings.Contains(es, "getTagNameFromRegex") {
						if !(ap.Block() == cl.Block() || cl.Block().Dominates(ap.Block())) {
							continue
						}
						isName := func(x ssa.Value) bool { return x == cl.(ssa.Value) }
						isEmpty := func(x ssa.Value) bool { s, ok := constString(x); return ok && s == "" }
						if cmpHolds(factsAt(ap.Block()), isName, isEmpty, token.NEQ) && strings.Contains(es, "+\":\")+") {
							okApp = true
							// ... and whenever it is non-empty: between computing the name and appending the tag nothing but
							// the emptiness test decides (a key the regex matches always yields its tag)
							for _, cd := range condsFor(ap.Block()) {
								if cd.If == nil || !(cd.If.Block() == cl.Block() || cl.Block().Dominates(cd.If.Block())) {
									continue // conditions established before the name was computed (regex set, loop)
								}
								if !instrDominates(cl.(ssa.Instruction), cd.If) {
									continue
								}
								f := canonOf(cd)
								isTest := (f.Op == token.NEQ || f.Op == token.EQL) && ((isName(f.X) && isEmpty(f.Y)) || (isName(f.Y) && isEmpty(f.X)))
								r.Check("tags:appended-for-every-named-key:"+re, isTest, ap.Pos(), "the tag is appended whenever the name is non-empty; it also depends on "+condExpr(cd.V))
							}
						}
					}
				}
			}
			r.Check("tags:appended-when-named:"+re, okApp, cl.Pos(), "tag appended as name+\":\"+value only when the name is non-empty")
		}
		// identity
		okID := false
		for _, al := range complitsOf(ifi, "Instance") {
			if v, ok := al["ID"]; ok {
				es := exprString(v, 0)
				okID = strings.Contains(es, ".Namespace+\"/\")+") && strings.HasSuffix(strings.TrimSuffix(es, ")"), ".Name")
			}
			if v, ok := al["Tags"]; ok {
				// the tags are accumulated: walking back from Instance.Tags through phis, re-slices and appends, the
				// only other origin is nil, and nil may only arrive over an edge that no tag-appending step reaches
				// (the initial value) - a nil arriving later throws the tags collected so far away
				var appendBlocks []*ssa.BasicBlock
				eachInstr(ifi, func(in ssa.Instruction) {
					if cl, ok := in.(*ssa.Call); ok && isCall(cl, "builtin append") && strings.Contains(cl.Type().String(), "Tags") {
						appendBlocks = append(appendBlocks, cl.Block())
					}
				})
				okAcc, whyAcc := true, ""
				seen := map[ssa.Value]bool{}
				var walk func(x ssa.Value, from *ssa.BasicBlock, d int)
				walk = func(x ssa.Value, from *ssa.BasicBlock, d int) {
					if x == nil || seen[x] || d > 30 {
						return
					}
					seen[x] = true
					switch y := x.(type) {
					case *ssa.Phi:
						for i, e := range y.Edges {
							walk(e, y.Block().Preds[i], d+1)
						}
					case *ssa.Call:
						if isCall(y, "builtin append") {
							walk(y.Call.Args[0], y.Block(), d+1)
							return
						}
						okAcc, whyAcc = false, "tags come from "+shortCallee(y)
					case *ssa.ChangeType:
						walk(y.X, from, d+1)
					case *ssa.Slice:
						walk(y.X, from, d+1)
					case *ssa.Const:
						if !isNilConst(y) {
							okAcc, whyAcc = false, "constant tags"
							return
						}
						for _, ab := range appendBlocks {
							if from != nil && (ab == from || reachableFrom(ab)[from]) {
								okAcc, whyAcc = false, fmt.Sprintf("nil replaces the tags collected so far (arrives from block %d, after tags were appended)", from.Index)
							}
						}
					default:
						okAcc, whyAcc = false, "tags come from "+pathOf(x)
					}
				}
				walk(v, nil, 0)
				r.Check("instance:tags", okAcc && len(appendBlocks) >= 1, ifi.Pos(), "Instance.Tags is everything that was appended: "+whyAcc)
			}
		}
		r.Check("instance:id-is-namespace/name", okID, ifi.Pos(), "ID = pod.Namespace + \"/\" + pod.Name")
		// nothing when no pod
		okNone := false
		eachInstr(ifi, func(in ssa.Instruction) {
			if rt, ok := in.(*ssa.Return); ok && isNilConst(rt.Results[0]) {
				if knownEmpty(factsAt(rt.Block()), func(v ssa.Value) bool { return strings.Contains(exprString(v, 0), "ByIndex") }) {
					okNone = true
				}
			}
		})
		r.Check("instance:nothing-when-no-pod", okNone, ifi.Pos(), "no indexed pod for the IP yields nil")
	})
}

func indexNameConst(w *World) string {
	p := w.ByPath[pkgPath("pkg/cachedinstances/k8s")]
	if p == nil {
		return ""
	}
	if k, ok := p.Types.Scope().Lookup("PodsByIPIndexName").(*types.Const); ok {
		return strings.Trim(k.Val().ExactString(), "\"")
	}
	return ""
}

func tagGroupName(w *World) string {
	p := w.ByPath[pkgPath("pkg/cachedinstances/k8s")]
	if p == nil {
		return ""
	}
	if k, ok := p.Types.Scope().Lookup("TagNameRegexSubexp").(*types.Const); ok {
		return strings.Trim(k.Val().ExactString(), "\"")
	}
	return ""
}

// tombstoneDeliveredTypes: the concrete types under which client-go converts
// DeletedFinalStateUnknown values to interfaces (what an OnDelete handler can receive).
func tombstoneDeliveredTypes(w *World) map[string]bool {
	out := map[string]bool{}
	sp := w.SSAPkgs["k8s.io/client-go/tools/cache"]
	if sp == nil {
		return out
	}
	for _, mem := range sp.Members {
		var fns []*ssa.Function
		switch m := mem.(type) {
		case *ssa.Function:
			fns = WithAnon(m)
		case *ssa.Type:
			for _, t := range []types.Type{m.Type(), types.NewPointer(m.Type())} {
				ms := w.Prog.MethodSets.MethodSet(t)
				for i := 0; i < ms.Len(); i++ {
					if f := w.Prog.MethodValue(ms.At(i)); f != nil && f.Blocks != nil {
						fns = append(fns, WithAnon(f)...)
					}
				}
			}
		}
		for _, fn := range fns {
			eachInstr(fn, func(in ssa.Instruction) {
				if mi, ok := in.(*ssa.MakeInterface); ok && strings.Contains(mi.X.Type().String(), "DeletedFinalStateUnknown") {
					out[mi.X.Type().String()] = true
				}
			})
		}
	}
	return out
}

// sliceLitElems returns the elements of a slice literal value.
func sliceLitElems(v ssa.Value) []ssa.Value { return varargElems(v) }

// isElemOf: v is an element (index / load of index address) of the slice returned by call.
func isElemOf(v ssa.Value, call *ssa.Call) bool {
	switch x := v.(type) {
	case *ssa.UnOp:
		if ia, ok := x.X.(*ssa.IndexAddr); ok {
			return ia.X == ssa.Value(call)
		}
	case *ssa.Index:
		return x.X == ssa.Value(call)
	}
	return false
}

// stringConstsFlowingInto: the string constants ending in "-tag-regex" (configuration keys) among the values v
// is computed from (backward slice through operands, phis, tuples and local memory cells).
func stringConstsFlowingInto(fn *ssa.Function, v ssa.Value) map[string]bool {
	out := map[string]bool{}
	seen := map[ssa.Value]bool{}
	var walk func(v ssa.Value, d int)
	walk = func(v ssa.Value, d int) {
		if v == nil || seen[v] || d > 40 {
			return
		}
		seen[v] = true
		if sv, ok := constString(v); ok {
			if strings.HasSuffix(sv, "-tag-regex") {
				out[sv] = true
			}
			return
		}
		if u, ok := v.(*ssa.UnOp); ok && u.Op == token.MUL {
			if cell := cellOf(u.X); cell != nil {
				for _, ref := range referrers(cell) {
					if st, ok := ref.(*ssa.Store); ok && st.Addr == ssa.Value(cell) {
						walk(st.Val, d+1)
					}
				}
				return
			}
		}
		if in, ok := v.(ssa.Instruction); ok {
			for _, op := range in.Operands(nil) {
				if *op != nil {
					walk(*op, d+1)
				}
			}
		}
	}
	walk(v, 0)
	return out
}

func keysOf(m map[string]bool) []string {
	var out []string
	for k := range m {
		out = append(out, k)
	}
	sort.Strings(out)
	return out
}
