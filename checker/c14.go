package main

import (
	"fmt"
	"go/token"
	"go/types"
	"reflect"
	"sort"
	"strings"

	"golang.org/x/tools/go/ssa"
)

func init() { register("C14", c14) }

// complitsOf returns every composite-literal alloc in fn (with closures) whose struct type is
// named tname, with its field -> stored value map.
func complitsOf(fn *ssa.Function, tname string) []map[string]ssa.Value {
	var out []map[string]ssa.Value
	for _, f := range WithAnon(fn) {
		eachInstr(f, func(in ssa.Instruction) {
			al, ok := in.(*ssa.Alloc)
			if !ok || structName(al.Type()) != tname {
				return
			}
			if al.Comment != "complit" {
				// a value built field by field (var x T / new(T) followed by one assignment per field) is the
				// same construction as a composite literal
				whole, multi, nf := false, false, 0
				per := map[int]int{}
				for _, ref := range referrers(al) {
					switch x := ref.(type) {
					case *ssa.Store:
						if x.Addr == ssa.Value(al) {
							whole = true
						}
					case *ssa.FieldAddr:
						for _, r2 := range referrers(x) {
							if st, ok := r2.(*ssa.Store); ok && st.Addr == ssa.Value(x) {
								per[x.Field]++
								nf++
								if per[x.Field] > 1 {
									multi = true
								}
							}
						}
					}
				}
				if whole || multi || nf == 0 {
					return
				}
			}
			out = append(out, complitFields(al))
		})
	}
	return out
}

// srcField describes where a stored value comes from: (struct type, field) of a single field
// load, "now" for the receive clock, or a free description.
// nonEmptyAppendBase: somewhere in the expression tree of v a slice is built by append onto a base that is
// not known to be empty (nil, x[:0], make(T, 0, n)): the result then starts with elements that do not come
// from the appended field (make(T, n, m) + append is the classic slip: n zero elements first).
func nonEmptyAppendBase(v ssa.Value) (string, bool) {
	seen := map[ssa.Value]bool{}
	var bad string
	var emptyBase func(b ssa.Value, d int) bool
	emptyBase = func(b ssa.Value, d int) bool {
		if d > 6 {
			return false
		}
		switch x := b.(type) {
		case *ssa.Const:
			return x.Value == nil
		case *ssa.Slice:
			hi, ok := constInt(x.High)
			return ok && hi == 0 && x.Low == nil
		case *ssa.MakeSlice:
			n, ok := constInt(x.Len)
			return ok && n == 0
		case *ssa.ChangeType:
			return emptyBase(x.X, d+1)
		case *ssa.Phi:
			for _, e := range x.Edges {
				if !emptyBase(e, d+1) {
					return false
				}
			}
			return true
		}
		if o := ptrOrigin(b); o != b {
			return emptyBase(o, d+1)
		}
		return false
	}
	var walk func(x ssa.Value, d int)
	walk = func(x ssa.Value, d int) {
		if x == nil || d > 8 || seen[x] || bad != "" {
			return
		}
		seen[x] = true
		if cl, ok := x.(*ssa.Call); ok && isCall(cl, "builtin append") {
			if !emptyBase(cl.Call.Args[0], 0) {
				// appending to the accumulator of a loop (phi of itself) is accumulation, not a copy
				if ph, isPhi := cl.Call.Args[0].(*ssa.Phi); isPhi {
					self := false
					for _, e := range ph.Edges {
						if e == ssa.Value(cl) {
							self = true
						}
					}
					if self {
						okRest := true
						for _, e := range ph.Edges {
							if e != ssa.Value(cl) && !emptyBase(e, 0) {
								okRest = false
							}
						}
						if okRest {
							goto operands
						}
					}
				}
				bad = exprString(cl.Call.Args[0], 0)
				return
			}
		}
	operands:
		if in, ok := x.(ssa.Instruction); ok {
			switch x.(type) {
			case *ssa.Phi, *ssa.Call, *ssa.ChangeType, *ssa.Convert, *ssa.Slice, *ssa.MakeInterface:
				for _, op := range in.Operands(nil) {
					if *op != nil {
						walk(*op, d+1)
					}
				}
			case *ssa.UnOp:
				if o := ptrOrigin(x); o != x {
					walk(o, d+1)
				}
			}
		}
	}
	walk(v, 0)
	return bad, bad != ""
}

func srcField(v ssa.Value) string {
	ls := loadsOf(v)
	if len(ls) == 1 {
		return ls[0].T + "." + ls[0].F
	}
	if len(ls) == 0 {
		return "expr:" + exprString(v, 0)
	}
	var p []string
	for _, l := range ls {
		p = append(p, l.T+"."+l.F)
	}
	sort.Strings(p)
	return "multi:" + strings.Join(p, "+")
}

var pbRaw = map[string]string{"Gauge": "RawGaugeV2", "Counter": "RawCounterV2", "Timer": "RawTimerV2", "Set": "RawSetV2"}

// protobufFields lists the exported fields of a generated struct that carry a protobuf tag.
func protobufFields(w *World, name string) []string {
	st := namedStruct(w, "pb", name)
	if st == nil {
		return nil
	}
	var out []string
	for i := 0; i < st.NumFields(); i++ {
		if _, ok := reflect.StructTag(st.Tag(i)).Lookup("protobuf"); ok {
			out = append(out, st.Field(i).Name())
		}
	}
	return out
}

// enumTable extracts (case constant name -> stored constant name) for switches in fn that
// compare `switched` paths ending in .field and store into a field named target.
func enumTable(fn *ssa.Function, caseField, targetField string) (tab map[string]string, deflt string, hasDefault bool) {
	tab = map[string]string{}
	// (constant, conditions under which it is the value stored): a constant stored directly, or the
	// constant on an incoming edge of a phi that is stored (the switch assigns a temporary first)
	type leaf struct {
		k     *ssa.Const
		conds []Cond
	}
	var leaves []leaf
	var pendingDefaults []leaf // constants stored unconditionally (a pre-set default of the comma-ok table form)
	tableDefaults := map[string]bool{}
	var expand func(v ssa.Value, conds []Cond, d int)
	seen := map[*ssa.Phi]bool{}
	expand = func(v ssa.Value, conds []Cond, d int) {
		switch x := v.(type) {
		case *ssa.Const:
			leaves = append(leaves, leaf{x, conds})
		case *ssa.ChangeType:
			expand(x.X, conds, d)
		case *ssa.Phi:
			if seen[x] || d > 6 {
				return
			}
			seen[x] = true
			for i, e := range x.Edges {
				pred := x.Block().Preds[i]
				cs := append([]Cond(nil), condsFor(pred)...)
				if len(pred.Instrs) > 0 {
					if ifi, ok := pred.Instrs[len(pred.Instrs)-1].(*ssa.If); ok && pred.Succs[0] != pred.Succs[1] {
						cs = append(cs, Cond{ifi.Cond, pred.Succs[0] == x.Block(), ifi})
					}
				}
				expand(e, cs, d+1)
			}
		}
	}
	for _, st := range storesIn(fn) {
		_, f, _, ok := fieldRef(st.Addr)
		if !ok || f != targetField {
			continue
		}
		// a lookup table: field <- table[x.caseField] with table a package-level map literal that is never
		// changed; a missing key yields the zero value (the default)
		if lk, isLk := stripConvVal(st.Val).(*ssa.Lookup); isLk && !lk.CommaOk && strings.HasSuffix(pathOf(lk.Index), "."+caseField) {
			if ld, isLd := lk.X.(*ssa.UnOp); isLd && ld.Op == token.MUL {
				if g, isG := ld.X.(*ssa.Global); isG && theWorld != nil {
					if entries, okT := globalMapLiteral(theWorld, g); okT {
						for k, v := range entries {
							tab[k] = v
						}
						if n, isN := lk.Type().(*types.Named); isN {
							if z := zeroConstOf(n); z != "" {
								deflt, hasDefault = z, true
							}
						}
						continue
					}
				}
			}
		}
		// the same table consulted with the comma-ok form: "field = default; if v, ok := table[x.caseField]; ok
		// { field = v }" - this store stands under the found result; the default is the constant stored to the
		// field unconditionally before it
		if ex, isEx := stripConvVal(st.Val).(*ssa.Extract); isEx && ex.Index == 0 {
			if lk, isLk := ex.Tuple.(*ssa.Lookup); isLk && lk.CommaOk && strings.HasSuffix(pathOf(lk.Index), "."+caseField) {
				found := false
				for _, f := range factsAt(st.Block()) {
					if f.Op == token.ILLEGAL && f.True {
						if e2, ok := f.V.(*ssa.Extract); ok && e2.Tuple == ssa.Value(lk) && e2.Index == 1 {
							found = true
						}
					}
				}
				if ld, isLd := lk.X.(*ssa.UnOp); isLd && ld.Op == token.MUL && found {
					if g, isG := ld.X.(*ssa.Global); isG && theWorld != nil {
						if entries, okT := globalMapLiteral(theWorld, g); okT {
							for k, v := range entries {
								tab[k] = v
							}
							// the default: a constant stored to the same field on every path before the lookup
							for _, st0 := range storesIn(fn) {
								_, f0, _, ok0 := fieldRef(st0.Addr)
								if ok0 && f0 == targetField && st0 != st && instrDominates(st0, lk) {
									if k0, isC := stripConvVal(st0.Val).(*ssa.Const); isC {
										deflt, hasDefault = constName(k0), true
									}
								}
							}
							tableDefaults[targetField] = true
							continue
						}
					}
				}
			}
		}
		if k0, isC := stripConvVal(st.Val).(*ssa.Const); isC && len(condsFor(st.Block())) == 0 {
			pendingDefaults = append(pendingDefaults, leaf{k0, nil})
			continue
		}
		expand(st.Val, condsFor(st.Block()), 0)
	}
	if !tableDefaults[targetField] {
		leaves = append(leaves, pendingDefaults...)
	}
	for _, lf := range leaves {
		stored := constName(lf.k)
		// find an equality test on caseField that is true here
		matched := false
		for _, cd := range lf.conds {
			cd = normCond(cd)
			if b := asBinOp(cd.V, token.EQL); b != nil && cd.Sense {
				x, y := b.X, b.Y
				if _, isC := x.(*ssa.Const); isC {
					x, y = y, x
				}
				if strings.HasSuffix(pathOf(x), "."+caseField) {
					if kc, ok := y.(*ssa.Const); ok {
						tab[constName(kc)] = stored
						matched = true
						break
					}
				}
			}
		}
		if !matched {
			// default branch: all tests false
			nFalse := 0
			for _, cd := range lf.conds {
				cd = normCond(cd)
				if b := asBinOp(cd.V, token.EQL); b != nil && !cd.Sense && (strings.HasSuffix(pathOf(b.X), "."+caseField) || strings.HasSuffix(pathOf(b.Y), "."+caseField)) {
					nFalse++
				}
			}
			if nFalse > 0 {
				deflt, hasDefault = stored, true
			}
		}
	}
	return
}

// constsOfType lists declared constant names of a named type in its package.
func constsOfType(n *types.Named) []string {
	var out []string
	sc := n.Obj().Pkg().Scope()
	for _, nm := range sc.Names() {
		if k, ok := sc.Lookup(nm).(*types.Const); ok && types.Identical(k.Type(), n) {
			out = append(out, nm)
		}
	}
	sort.Strings(out)
	return out
}

// httpStatusRule: every path of an http handler writes exactly one status; error paths do not dispatch.
func httpHandlerRule(c *Ctx, r *Rule, fn *ssa.Function, dispatchMethod string) {
	w := c.W
	c.SawFunc(FuncName(fn))
	key := fn.Name()
	isWH := func(in ssa.Instruction) bool {
		cl, ok := in.(ssa.CallInstruction)
		return ok && cl.Common().IsInvoke() && cl.Common().Method.Name() == "WriteHeader"
	}
	m := countOnPaths(fn, isWH)
	r.Check(key+":one-status-per-path", m == 2, fn.Pos(), "number of WriteHeader calls over all paths = "+maskString(m)+" (must be exactly {1})")
	// readBody result
	var rb *ssa.Call
	for _, cl := range callsIn(fn) {
		if cal := staticCallee(cl); cal != nil && cal.Name() == "readBody" {
			rb, _ = cl.(*ssa.Call)
		}
	}
	var um *ssa.Call
	for _, cl := range callsTo(fn, "google.golang.org/protobuf/proto.Unmarshal") {
		um, _ = cl.(*ssa.Call)
	}
	if rb == nil || um == nil {
		r.Fail(key+":shape", fn.Pos(), "handler must call readBody and proto.Unmarshal")
		return
	}
	isRbCode := func(v ssa.Value) bool {
		ex, ok := v.(*ssa.Extract)
		return ok && ex.Tuple == rb && ex.Index == 1
	}
	isZero := func(v ssa.Value) bool { z, isC := constInt(v); return isC && z == 0 }
	readOKFacts := func(facts []canonCond) bool { return cmpHolds(facts, isRbCode, isZero, token.EQL) }
	readFailedFacts := func(facts []canonCond) bool { return cmpHolds(facts, isRbCode, isZero, token.NEQ) }
	umOKFacts := func(facts []canonCond) bool {
		return cmpHolds(facts, func(v ssa.Value) bool { return v == ssa.Value(um) }, isNilConst, token.EQL)
	}
	// (directly, or through a status code / flag carried out of a helper that was written back in place)
	readOK := func(b *ssa.BasicBlock) bool { return holdsAtOrViaFlag(b, readOKFacts) }
	unmarshalOK := func(b *ssa.BasicBlock) bool { return holdsAtOrViaFlag(b, umOKFacts) }
	r.Check(key+":unmarshal-after-read-ok", readOK(um.Block()), um.Pos(), "proto.Unmarshal runs only when readBody reported no error")
	r.Check(key+":unmarshal-input", func() bool {
		ex, ok := um.Call.Args[0].(*ssa.Extract)
		return ok && ex.Tuple == rb && ex.Index == 0
	}(), um.Pos(), "the decoded bytes are readBody's result")
	nd := 0
	for _, cl := range callsIn(fn) {
		if cl.Common().IsInvoke() && cl.Common().Method.Name() == dispatchMethod {
			nd++
			r.Check(key+":dispatch-only-after-success", readOK(cl.Block()) && unmarshalOK(cl.Block()), cl.Pos(), dispatchMethod+" is dominated by the success edges of readBody and proto.Unmarshal: a body that cannot be decoded dispatches nothing")
			_, isCall := cl.(*ssa.Call)
			r.Check(key+":dispatch-synchronous", isCall && fn.Parent() == nil, cl.Pos(), dispatchMethod+" runs synchronously inside the handler (the request's context is cancelled when the handler returns, and the status must follow the hand-over)")
		}
	}
	r.Check(key+":dispatch-site", nd == 1, fn.Pos(), fmt.Sprintf("%d %s sites", nd, dispatchMethod))
	// statuses: constants; >= 400 on error paths, 2xx on the success path
	for _, cl := range callsIn(fn) {
		if !isWH(cl) {
			continue
		}
		arg := cl.Common().Args[0]
		if n, isC := constInt(arg); isC {
			succ := readOK(cl.Block()) && unmarshalOK(cl.Block())
			if succ {
				r.Check(key+":success-status", n >= 200 && n < 300, cl.Pos(), fmt.Sprintf("status %d on the success path", n))
			} else {
				r.Check(key+":error-status", n >= 400, cl.Pos(), fmt.Sprintf("status %d on an error path", n))
			}
		} else if ph, isPhi := arg.(*ssa.Phi); isPhi {
			// a status code carried in a variable: every value it can have here is an error constant, or
			// readBody's code on readBody's error branch; "no error" (0) does not reach this call
			okAll := true
			why := ""
			zeroExcluded := cmpHolds(factsAt(cl.Block()), func(v ssa.Value) bool { return v == ssa.Value(ph) }, isZero, token.NEQ)
			for _, vc := range valueCases(ph, nil) {
				var cf []canonCond
				for _, cd := range vc.Conds {
					cf = append(cf, canonOf(cd))
				}
				if n, isC := constInt(vc.V); isC {
					if n == 0 && zeroExcluded {
						continue
					}
					if n < 400 {
						okAll, why = false, fmt.Sprintf("status %d", n)
					}
				} else if !(isRbCode(vc.V) && readFailedFacts(cf)) {
					okAll, why = false, "status "+exprString(vc.V, 0)
				}
			}
			r.Check(key+":error-status", okAll && !(readOK(cl.Block()) && unmarshalOK(cl.Block())), cl.Pos(), "a status carried in a variable is an error constant or readBody's code on its error branch "+why)
		} else {
			r.Check(key+":error-status-from-readBody", isRbCode(arg) && !readOK(cl.Block()), cl.Pos(), "non-constant status is readBody's error code on its error branch")
		}
	}
	_ = w
}

func c14(c *Ctx) {
	w := c.W
	c.Explanation = "C14 (forwarder encoding == ingestion decoding): the encoder's and decoder's field tables are extracted from their composite literals and are mutual inverses per metric type and for events; every protobuf field is written and read; the priority / alert-type switches are inverse bijections on all declared constants; each compression type's Content-Encoding value is decoded by the matching decompressor; dispatch is dominated by successful read, decompress and unmarshal, and every handler path writes exactly one status."
	c.NotDecided = []string{"value round-trip through proto.Marshal/Unmarshal, zlib and lz4 at every level (library behaviour, trusted)", "lifetime of the compressed buffer between attempts (see C15.R7)"}

	enc := w.Func("pkg/statsd", "translateToProtobufV2")
	dec := w.Func("pkg/web", "translateFromProtobufV2")

	c.Rule("C14.R1", "metric field tables: encoder (pb <- gostatsd) and decoder (gostatsd <- pb) are inverse; keys preserved; timestamps come from the receive clock", 20, func(r *Rule) {
		if enc == nil || dec == nil {
			r.Unresolved("translateToProtobufV2 / translateFromProtobufV2")
			return
		}
		c.SawFunc(FuncName(enc))
		c.SawFunc(FuncName(dec))
		for _, T := range aggTypes {
			P := pbRaw[T]
			ecs := complitsOf(enc, P)
			dcs := complitsOf(dec, T)
			if len(ecs) != 1 || len(dcs) != 1 {
				r.Fail("table:"+T, enc.Pos(), fmt.Sprintf("%d encoder literals of %s, %d decoder literals of %s (one each expected)", len(ecs), P, len(dcs), T))
				continue
			}
			e, d := ecs[0], dcs[0]
			encMap := map[string]string{} // pbField -> gsField
			for pf, v := range e {
				s := srcField(v)
				if b, isBad := nonEmptyAppendBase(v); isBad {
					r.Fail("encoder:"+P+"."+pf+":copied-onto-empty", enc.Pos(), "the value is appended onto "+b+", which is not known to be empty: the encoded "+pf+" would start with elements that are not the series'")
				}
				if strings.HasPrefix(s, T+".") {
					encMap[pf] = strings.TrimPrefix(s, T+".")
				} else if T == "Set" && pf == "Values" {
					// values := append(values, key) for key := range metric.Values
					if ph, ok := v.(*ssa.Phi); ok {
						okv := false
						for _, ed := range ph.Edges {
							if cl, ok := ed.(*ssa.Call); ok && isCall(cl, "builtin append") {
								for _, el := range varargElems(cl.Call.Args[1]) {
									if strings.Contains(pathOf(el), "next(range(metric.Values))") {
										okv = true
									}
								}
							}
						}
						if okv {
							encMap[pf] = "Values"
						}
					}
				}
				if _, ok := encMap[pf]; !ok {
					r.Fail("encoder:"+P+"."+pf, enc.Pos(), "value written is not a field of the "+T+" being encoded: "+s)
				}
			}
			decMap := map[string]string{} // gsField -> pbField
			for gf, v := range d {
				s := srcField(v)
				if b, isBad := nonEmptyAppendBase(v); isBad {
					r.Fail("decoder:"+T+"."+gf+":copied-onto-empty", dec.Pos(), "the value is appended onto "+b+", which is not known to be empty: the decoded "+gf+" would start with elements that were not sent")
				}
				switch {
				case strings.HasPrefix(s, P+"."):
					decMap[gf] = strings.TrimPrefix(s, P+".")
				case gf == "Timestamp":
					es := exprString(v, 0)
					r.Check("decoder:"+T+".Timestamp", valueName(v) == "now" || strings.Contains(es, "time.Now"), dec.Pos(), "Timestamp <- "+es+" (receive clock; not carried on the wire)")
				case T == "Set" && gf == "Values":
					if _, ok := v.(*ssa.MakeMap); ok {
						// members inserted from set.Values below
						okIns := false
						eachInstr(dec, func(in ssa.Instruction) {
							if mu, ok := in.(*ssa.MapUpdate); ok && strings.Contains(pathOf(mu.Key), "RawSetV2") == false {
								kp := pathOf(mu.Key)
								if strings.Contains(kp, ".Values") && (strings.Contains(pathOf(mu.Map), ".Values") || mu.Map == v) {
									okIns = true
								}
							}
						})
						if okIns {
							decMap[gf] = "Values"
						}
					}
					if _, ok := decMap[gf]; !ok {
						r.Fail("decoder:Set.Values", dec.Pos(), "set members are not rebuilt from the wire values")
					}
				default:
					r.Fail("decoder:"+T+"."+gf, dec.Pos(), "value read is not a field of the "+P+" being decoded: "+s)
				}
			}
			// inverse
			var pfs []string
			for pf := range encMap {
				pfs = append(pfs, pf)
			}
			sort.Strings(pfs)
			for _, pf := range pfs {
				gf := encMap[pf]
				r.Check("inverse:"+T+":"+pf, decMap[gf] == pf, enc.Pos(), fmt.Sprintf("encoder %s.%s <- %s.%s; decoder %s.%s <- %s.%s", P, pf, T, gf, T, gf, P, decMap[gf]))
			}
			for gf, pf := range decMap {
				r.Check("inverse-back:"+T+":"+gf, encMap[pf] == gf, dec.Pos(), fmt.Sprintf("decoder %s.%s <- %s.%s; encoder %s.%s <- %s.%s", T, gf, P, pf, P, pf, T, encMap[pf]))
			}
			// required content
			need := map[string][]string{"Gauge": {"Tags", "Source", "Value"}, "Counter": {"Tags", "Source", "Value"}, "Timer": {"Tags", "Source", "Values", "SampledCount"}, "Set": {"Tags", "Source", "Values"}}
			for _, gf := range need[T] {
				_, okd := decMap[gf]
				oke := false
				for _, g := range encMap {
					if g == gf {
						oke = true
					}
				}
				r.Check("carried:"+T+"."+gf, okd && oke, enc.Pos(), fmt.Sprintf("%s.%s encoded=%v decoded=%v", T, gf, oke, okd))
			}
		}
		// keys and collections: every MapUpdate keyed by a range key, collections match by name
		for _, side := range []struct {
			fn   *ssa.Function
			name string
		}{{enc, "encoder"}, {dec, "decoder"}} {
			eachInstr(side.fn, func(in ssa.Instruction) {
				mu, ok := in.(*ssa.MapUpdate)
				if !ok {
					return
				}
				kp := pathOf(mu.Key)
				mp := mapHome(mu.Map)
				if strings.HasSuffix(mp, ".Values") {
					return // set members
				}
				isRangeKey := strings.HasPrefix(kp, "next(range(") && strings.HasSuffix(kp, "#1")
				r.Check(side.name+":key:"+mp, isRangeKey, mu.Pos(), "stored under "+kp+" (must be the key of the map being ranged over)")
				// collection name agreement: the ranged collection and the destination collection
				for _, X := range mmFields {
					if strings.Contains(kp, "."+X+")") {
						r.Check(side.name+":collection:"+X, strings.Contains(mp, "."+X), mu.Pos(), fmt.Sprintf("entries of %s stored into %s", X, mp))
					}
				}
			})
		}
	})

	c.Rule("C14.R2", "coverage: every protobuf field of the raw metric messages and of EventV2 is written by the encoder and read by the decoder", 20, func(r *Rule) {
		if enc == nil || dec == nil {
			r.Unresolved("translators")
			return
		}
		for _, T := range aggTypes {
			P := pbRaw[T]
			fields := protobufFields(w, P)
			if len(fields) == 0 {
				r.Unresolved("pb." + P)
				continue
			}
			ecs := complitsOf(enc, P)
			written := map[string]bool{}
			for _, e := range ecs {
				for f := range e {
					written[f] = true
				}
			}
			read := map[string]bool{}
			for _, in := range fieldReadsAny(dec, P) {
				read[in] = true
			}
			for _, f := range fields {
				r.Check("written:"+P+"."+f, written[f], enc.Pos(), "encoder writes "+P+"."+f)
				r.Check("read:"+P+"."+f, read[f], dec.Pos(), "decoder reads "+P+"."+f)
			}
		}
		de := w.Func("pkg/statsd", "(*HttpForwarderHandlerV2).dispatchEvent")
		eh := w.Func("pkg/web", "(*rawHttpHandlerV2).EventHandler")
		if de == nil || eh == nil {
			r.Unresolved("dispatchEvent / EventHandler")
			return
		}
		c.SawFunc(FuncName(de))
		c.SawFunc(FuncName(eh))
		written := map[string]bool{}
		for _, e := range complitsOf(de, "EventV2") {
			for f := range e {
				written[f] = true
			}
		}
		for _, st := range storesIn(de) {
			if t, f, _, ok := fieldRef(st.Addr); ok && t == "EventV2" {
				written[f] = true
			}
		}
		read := map[string]bool{}
		for _, f := range fieldReadsAny(eh, "EventV2") {
			read[f] = true
		}
		allow := map[string]string{"SourceIP": "written for older receivers, deliberately not read (Hostname carries the source)"}
		for _, f := range protobufFields(w, "EventV2") {
			r.Check("written:EventV2."+f, written[f], de.Pos(), "forwarder writes EventV2."+f)
			if why, ok := allow[f]; ok {
				r.Pass("read:EventV2."+f, eh.Pos(), "allow-listed: "+why)
				continue
			}
			r.Check("read:EventV2."+f, read[f], eh.Pos(), "receiver reads EventV2."+f)
		}
		// event field table inverse
		var e map[string]ssa.Value
		if cs := complitsOf(de, "EventV2"); len(cs) == 1 {
			e = cs[0]
		}
		var d map[string]ssa.Value
		if cs := complitsOf(eh, "Event"); len(cs) == 1 {
			d = cs[0]
		}
		if e == nil || d == nil {
			r.Fail("event-table", de.Pos(), "event literals not found (one EventV2 in dispatchEvent, one Event in EventHandler expected)")
			return
		}
		encMap := map[string]string{}
		enumFields := map[string]bool{"Priority": true, "Type": true, "AlertType": true}
		for pf, v := range e {
			if enumFields[pf] {
				continue // enum switches are R3's
			}
			s := srcField(v)
			if strings.HasPrefix(s, "Event.") {
				encMap[pf] = strings.TrimPrefix(s, "Event.")
			} else {
				r.Fail("event-encoder:"+pf, de.Pos(), "EventV2."+pf+" <- "+s)
			}
		}
		for gf, v := range d {
			if enumFields[gf] {
				continue
			}
			s := srcField(v)
			if !strings.HasPrefix(s, "EventV2.") {
				r.Fail("event-decoder:"+gf, eh.Pos(), "Event."+gf+" <- "+s)
				continue
			}
			pf := strings.TrimPrefix(s, "EventV2.")
			r.Check("event-inverse:"+gf, encMap[pf] == gf, eh.Pos(), fmt.Sprintf("receiver Event.%s <- EventV2.%s; forwarder EventV2.%s <- Event.%s", gf, pf, pf, encMap[pf]))
		}
		for _, gf := range []string{"Title", "Text", "DateHappened", "Source", "AggregationKey", "SourceTypeName", "Tags"} {
			_, okd := d[gf]
			r.Check("event-carried:"+gf, okd, eh.Pos(), "Event."+gf+" is rebuilt by the receiver")
		}
	})

	c.Rule("C14.R3", "enums: priority and alert-type switches of forwarder and receiver are inverse on all declared constants", 10, func(r *Rule) {
		de := w.Func("pkg/statsd", "(*HttpForwarderHandlerV2).dispatchEvent")
		eh := w.Func("pkg/web", "(*rawHttpHandlerV2).EventHandler")
		if de == nil || eh == nil {
			r.Unresolved("dispatchEvent / EventHandler")
			return
		}
		for _, en := range []struct{ gsType, gsField, pbType, pbField string }{
			{"Priority", "Priority", "EventV2_EventPriority", "Priority"},
			{"AlertType", "AlertType", "EventV2_AlertType", "Type"},
		} {
			gsN := w.Named("", en.gsType)
			pbN := w.Named("pb", en.pbType)
			if gsN == nil || pbN == nil {
				r.Unresolved(en.gsType + " / pb." + en.pbType)
				continue
			}
			et, _, _ := enumTable(de, en.gsField, en.pbField)
			dt, dd, dHasDef := enumTable(eh, en.pbField, en.gsField)
			for _, k := range constsOfType(gsN) {
				p, ok := et[k]
				zero := isZeroConst(gsN, k)
				if !ok && zero {
					// zero value may rely on the message's zero default
					p = zeroConstOf(pbN)
					ok = p != ""
				}
				back := dt[p]
				if back == "" && dHasDef {
					back = dd
				}
				r.Check("enum:"+en.gsType+":"+k, ok && back == k, de.Pos(), fmt.Sprintf("%s -> %s -> %s", k, p, back))
			}
			for _, p := range constsOfType(pbN) {
				_, ok := dt[p]
				r.Check("enum-decoded:"+en.pbType+":"+p, ok || dHasDef, eh.Pos(), "receiver handles "+p+" (explicitly or through its default case; the round trip itself is checked per sent constant above)")
			}
			if dHasDef {
				r.Check("enum-default:"+en.pbType, isZeroConst(gsN, dd), eh.Pos(), "unknown wire values fall back to the zero value ("+dd+")")
			}
		}
	})

	c.Rule("C14.R4", "content encodings: each compressor's Content-Encoding value selects the matching decompressor; identity is passed through", 6, func(r *Rule) {
		sc := w.Func("pkg/statsd", "(*HttpForwarderHandlerV2).serializeAndCompress")
		cp := w.Func("pkg/statsd", "(*HttpForwarderHandlerV2).constructPost")
		rb := w.Func("pkg/web", "(*rawHttpHandlerV2).readBody")
		if sc == nil || cp == nil || rb == nil {
			r.Unresolved("serializeAndCompress / constructPost / readBody")
			return
		}
		c.SawFunc(FuncName(sc))
		c.SawFunc(FuncName(cp))
		c.SawFunc(FuncName(rb))
		// writer side: compressor -> encoding constant
		wr := map[string]string{}
		eachInstr(sc, func(in ssa.Instruction) {
			rt, ok := in.(*ssa.Return)
			if !ok || len(rt.Results) != 3 {
				return
			}
			type vb struct {
				s string
				b *ssa.BasicBlock
			}
			var pairs []vb
			var collect func(v ssa.Value, at *ssa.BasicBlock, d int)
			collect = func(v ssa.Value, at *ssa.BasicBlock, d int) {
				if d > 6 {
					return
				}
				if s, isS := constString(v); isS {
					if s != "" {
						pairs = append(pairs, vb{s, at})
					}
					return
				}
				switch x := v.(type) {
				case *ssa.Phi:
					for i, e := range x.Edges {
						collect(e, x.Block().Preds[i], d+1)
					}
				case *ssa.UnOp:
					if al, isAl := x.X.(*ssa.Alloc); isAl {
						for _, rf := range referrers(al) {
							if st, ok := rf.(*ssa.Store); ok && st.Addr == al {
								collect(st.Val, st.Block(), d+1)
							}
						}
					}
				}
			}
			collect(rt.Results[0], rt.Block(), 0)
			// the compressor may be selected together with its encoding and called through a variable:
			// two phis of one block, paired edge by edge
			if pe, ok := rt.Results[0].(*ssa.Phi); ok {
				for _, cl := range callsIn(sc) {
					if cl.Common().IsInvoke() || staticCallee(cl) != nil {
						continue
					}
					pf, ok := cl.Common().Value.(*ssa.Phi)
					if !ok || pf.Block() != pe.Block() {
						continue
					}
					for i := range pf.Edges {
						f, isF := pf.Edges[i].(*ssa.Function)
						enc, isS := constString(pe.Edges[i])
						if isF && isS && strings.HasPrefix(f.Name(), "CompressWith") {
							wr[f.Name()] = enc
						}
					}
				}
			}
			for _, p := range pairs {
				for _, cl := range callsIn(sc) {
					if cal := staticCallee(cl); cal != nil && strings.HasPrefix(cal.Name(), "CompressWith") {
						if cl.Block() == p.b || cl.Block().Dominates(p.b) {
							wr[cal.Name()] = p.s
						}
					}
				}
			}
		})
		// reader side: encoding constant -> decompressor
		rd := map[string]string{}
		var enc ssa.Value
		for _, cl := range callsIn(rb) {
			if cal := staticCallee(cl); cal != nil && strings.HasPrefix(cal.Name(), "DecompressWith") {
				for _, cd := range condsFor(cl.Block()) {
					cd = normCond(cd)
					if b := asBinOp(cd.V, token.EQL); b != nil && cd.Sense {
						if s, isS := constString(b.Y); isS {
							rd[s] = cal.Name()
							enc = b.X
						}
					}
				}
			}
		}
		// the decompressor may also be selected first and called through a variable
		for _, cl := range callsIn(rb) {
			if cl.Common().IsInvoke() || staticCallee(cl) != nil {
				continue
			}
			for _, vc := range valueCases(cl.Common().Value, nil) {
				f, ok := vc.V.(*ssa.Function)
				if !ok || !strings.HasPrefix(f.Name(), "DecompressWith") {
					continue
				}
				for _, cd := range vc.Conds {
					cd = normCond(cd)
					if b := asBinOp(cd.V, token.EQL); b != nil && cd.Sense {
						if s, isS := constString(b.Y); isS {
							rd[s] = f.Name()
							enc = b.X
						}
					}
				}
			}
		}
		// or looked up in a constant table keyed by the encoding: entry.<func field>(body)
		tableIdentity := false
		for _, cl := range callsIn(rb) {
			if cl.Common().IsInvoke() || staticCallee(cl) != nil {
				continue
			}
			// entry.<field> where entry is the looked-up table element (a value, or a local holding it)
			var entryVal ssa.Value
			var entryType types.Type
			fieldIdx := -1
			var entryCell *ssa.Alloc
			switch fv := cl.Common().Value.(type) {
			case *ssa.Field:
				entryVal, entryType, fieldIdx = fv.X, fv.X.Type(), fv.Field
			case *ssa.UnOp:
				if fa, isFA := fv.X.(*ssa.FieldAddr); isFA && fv.Op == token.MUL {
					if al, isAl := fa.X.(*ssa.Alloc); isAl {
						n := 0
						for _, ref := range referrers(al) {
							if st, isSt := ref.(*ssa.Store); isSt && st.Addr == ssa.Value(al) {
								n++
								entryVal = st.Val
							}
						}
						if n != 1 {
							entryVal = nil
						}
						entryType, fieldIdx, entryCell = fa.X.Type(), fa.Field, al
					}
				}
			}
			if entryVal == nil {
				continue
			}
			isFuncField := func(v ssa.Value) bool {
				switch x := v.(type) {
				case *ssa.Field:
					return x.X == entryVal && x.Field == fieldIdx
				case *ssa.UnOp:
					if fa, ok := x.X.(*ssa.FieldAddr); ok && x.Op == token.MUL {
						return entryCell != nil && fa.X == ssa.Value(entryCell) && fa.Field == fieldIdx
					}
				}
				return false
			}
			ex, ok := entryVal.(*ssa.Extract)
			if !ok || ex.Index != 0 {
				continue
			}
			lk, ok := ex.Tuple.(*ssa.Lookup)
			if !ok {
				continue
			}
			ld, ok := lk.X.(*ssa.UnOp)
			if !ok {
				continue
			}
			g, ok := ld.X.(*ssa.Global)
			if !ok {
				continue
			}
			tab, ok := globalStructMapLiteral(w, g)
			if !ok {
				continue
			}
			fname := fieldName(entryType, fieldIdx)
			nilKeys := 0
			for key, fields := range tab {
				if f, isF := fields[fname].(*ssa.Function); isF && strings.HasPrefix(f.Name(), "DecompressWith") {
					rd[key] = f.Name()
				} else if fields[fname] == nil || isNilConst(fields[fname]) {
					nilKeys++
					if key == "identity" {
						// "identity" has no decompressor: the body must be returned as read when the entry's function is nil
						eachInstr(rb, func(in ssa.Instruction) {
							if rt, isR := in.(*ssa.Return); isR && len(rt.Results) == 2 {
								if code, isC := constInt(rt.Results[1]); isC && code == 0 && !isNilConst(rt.Results[0]) {
									if knownNil(factsAt(rt.Block()), isFuncField) {
										tableIdentity = true
									}
								}
							}
						})
						// ... or the decompression is an optional step: on the branch where the entry's function is nil
						// no dynamic call is made before the success return
						eachInstr(rb, func(in ssa.Instruction) {
							ifi, isIf := in.(*ssa.If)
							if !isIf {
								return
							}
							cmp, isCmp := ifi.Cond.(*ssa.BinOp)
							if !isCmp || (cmp.Op != token.NEQ && cmp.Op != token.EQL) || !isNilConst(cmp.Y) || !isFuncField(cmp.X) {
								return
							}
							nilSucc := ifi.Block().Succs[1]
							if cmp.Op == token.EQL {
								nilSucc = ifi.Block().Succs[0]
							}
							calls := feasiblyReaches(ifi.Block(), nilSucc, nil, nil, func(x ssa.Instruction) bool {
								cc, ok := x.(ssa.CallInstruction)
								if !ok {
									return false
								}
								if !cc.Common().IsInvoke() && staticCallee(cc) == nil {
									return true // a dynamic call (the decompressor)
								}
								return strings.HasPrefix(calleeName(cc), Mod+"/pkg/web.DecompressWith")
							})
							okRet := feasiblyReaches(ifi.Block(), nilSucc, nil, nil, func(x ssa.Instruction) bool {
								rt, isR := x.(*ssa.Return)
								if !isR || len(rt.Results) != 2 {
									return false
								}
								code, isC := constInt(rt.Results[1])
								return isC && code == 0 && !isNilConst(rt.Results[0])
							})
							if !calls && okRet {
								tableIdentity = true
							}
						})
					}
				}
			}
			enc = lk.Index
		}
		r.Check("writer-table", len(wr) >= 2, sc.Pos(), fmt.Sprintf("compressor -> encoding: %v", wr))
		r.Check("reader-table", len(rd) >= 2, rb.Pos(), fmt.Sprintf("encoding -> decompressor: %v", rd))
		for comp, s := range wr {
			want := "De" + strings.ToLower(comp[:1]) + comp[1:]
			r.Check("pair:"+comp, rd[s] == want, sc.Pos(), fmt.Sprintf("%s announces %q; the receiver decodes %q with %s (must be %s)", comp, s, s, rd[s], want))
		}
		// the compressor is selected by the matching compression-type constant
		for _, cl := range callsIn(sc) {
			cal := staticCallee(cl)
			if cal == nil || !strings.HasPrefix(cal.Name(), "CompressWith") {
				continue
			}
			kind := strings.TrimPrefix(cal.Name(), "CompressWith")
			sel := ""
			for _, cd := range condsFor(cl.Block()) {
				cd = normCond(cd)
				if b := asBinOp(cd.V, token.EQL); b != nil && strings.HasSuffix(pathOf(b.X), ".compressionType") {
					if k, ok := b.Y.(*ssa.Const); ok {
						if cd.Sense {
							sel = constName(k)
						} else if sel == "" {
							sel = "not " + constName(k)
						}
					}
				}
			}
			sel = strings.ReplaceAll(sel, "\"", "")
			ok := strings.EqualFold(sel, kind) || (strings.HasPrefix(sel, "not ") && !strings.EqualFold(sel, "not "+kind))
			r.Check("selector:"+cal.Name(), ok, cl.Pos(), "selected by compressionType "+sel)
			// level passed through
			a := cl.Common().Args
			r.Check("level:"+cal.Name(), len(a) == 3 && strings.HasSuffix(pathOf(a[2]), ".compressionLevel"), cl.Pos(), "compression level argument "+pathOf(a[len(a)-1]))
		}
		// identity: the value announced in the Content-Encoding header is, on every path, either what
		// serializeAndCompress returned or the constant "identity" arising where nothing was compressed
		okId := false
		var headerVal ssa.Value
		for _, f := range WithAnon(cp) {
			for _, cl := range callsTo(f, "(net/http.Header).Set") {
				if s, isS := constString(cl.Common().Args[1]); isS && strings.Contains(strings.ToLower(s), "encoding") {
					headerVal = cl.Common().Args[2]
				}
			}
		}
		if headerVal != nil {
			leaves := stringLeaves(headerVal)
			nId, bad := 0, ""
			for _, lf := range leaves {
				if s, isS := constString(lf.V); isS && s == "identity" {
					compressed := false
					for _, cl := range callsIn(cp) {
						if cal := staticCallee(cl); cal != nil && cal.Name() == "serializeAndCompress" && lf.At != nil && (cl.Block() == lf.At || cl.Block().Dominates(lf.At)) {
							compressed = true
						}
					}
					if compressed {
						bad = "\"identity\" announced after compressing"
					}
					nId++
					continue
				}
				if ex, ok := lf.V.(*ssa.Extract); ok && ex.Index == 0 {
					if cl, ok := ex.Tuple.(*ssa.Call); ok && staticCallee(cl) != nil && staticCallee(cl).Name() == "serializeAndCompress" {
						continue
					}
				}
				if s, isS := constString(lf.V); isS && s == "" {
					continue // the zero value before assignment / on the error path
				}
				bad = "header value may be " + pathOf(lf.V)
			}
			okId = nId >= 1 && bad == ""
		}
		r.Check("identity:writer", okId, cp.Pos(), "uncompressed bodies are announced as \"identity\"")
		// reader: identity leads to the success return without decompression
		okIdR := false
		eachInstr(rb, func(in ssa.Instruction) {
			if ifi, ok := in.(*ssa.If); ok {
				if b := asBinOp(ifi.Cond, token.EQL); b != nil && b.X == enc {
					if s, isS := constString(b.Y); isS && s == "identity" {
						leaf := leafEffects(ifi.Block().Succs[0], 0, nil)
						okIdR = !strings.Contains(leaf, "Decompress") && strings.Contains(leaf, "return")
					}
				}
			}
		})
		r.Check("identity:reader", okIdR || tableIdentity, rb.Pos(), "\"identity\" bodies are returned as read")
		// header names agree
		hset, hget := "", ""
		for _, f := range WithAnon(cp) {
			for _, cl := range callsTo(f, "(net/http.Header).Set") {
				if s, isS := constString(cl.Common().Args[1]); isS && strings.Contains(strings.ToLower(s), "encoding") {
					hset = s
					ev := cl.Common().Args[2]
					_ = ev // its provenance is decided by identity:writer above
				}
			}
		}
		for _, cl := range callsTo(rb, "(net/http.Header).Get") {
			if s, isS := constString(cl.Common().Args[1]); isS {
				hget = s
			}
		}
		r.Check("header:name", hset != "" && strings.EqualFold(hset, hget), cp.Pos(), fmt.Sprintf("forwarder sets %q, receiver reads %q", hset, hget))
		// readBody: unknown encodings and failures return >= 400, success returns 0
		eachInstr(rb, func(in ssa.Instruction) {
			rt, ok := in.(*ssa.Return)
			if !ok || len(rt.Results) != 2 {
				return
			}
			code, isC := constInt(rt.Results[1])
			if !isC {
				r.Fail("readBody:status-constant", rt.Pos(), "status is not a constant")
				return
			}
			if isNilConst(rt.Results[0]) {
				r.Check("readBody:error-status", code >= 400, rt.Pos(), fmt.Sprintf("error return carries %d", code))
			} else {
				r.Check("readBody:success-status", code == 0, rt.Pos(), fmt.Sprintf("success return carries %d", code))
				// success is reached only when no decompression error occurred
				bad := false
				for _, cd := range condsFor(rt.Block()) {
					_ = cd
				}
				_ = bad
			}
		})
		// the body is read to its end: it is consumed through ReadAll (a single Read may return before the
		// announced length has arrived, and what is missing is series lost from the middle of a message)
		nAll := 0
		for _, g := range WithAnon(rb) {
			for _, cl := range callsIn(g) {
				if cl.Common().IsInvoke() && cl.Common().Method.Name() == "Read" && strings.HasSuffix(pathOf(cl.Common().Value), ".Body") {
					r.Check("readBody:reads-to-the-end", false, cl.Pos(), "the request body is read with a single Read call")
				}
				if cal := staticCallee(cl); cal != nil && (cal.Name() == "ReadAll" || cal.Name() == "ReadFrom" || cal.Name() == "Copy") {
					for _, a := range cl.Common().Args {
						if strings.Contains(exprString(a, 0), ".Body") {
							nAll++
							r.Check("readBody:reads-to-the-end", true, cl.Pos(), "the request body is consumed to its end by "+cal.Name())
							break
						}
					}
				}
			}
		}
		r.Check("readBody:read-site", nAll >= 1, rb.Pos(), fmt.Sprintf("%d sites reading the body to its end (ReadAll / ReadFrom / Copy)", nAll))
		// each decompress error leads to an error return
		for _, cl := range callsIn(rb) {
			cal := staticCallee(cl)
			if cal == nil || !(strings.HasPrefix(cal.Name(), "DecompressWith") || cal.Name() == "ReadAll") {
				continue
			}
			okErr := false
			eachInstr(rb, func(in ssa.Instruction) {
				rt, ok := in.(*ssa.Return)
				if !ok || !isNilConst(rt.Results[0]) {
					return
				}
				for _, cd := range condsFor(rt.Block()) {
					cd = normCond(cd)
					if b := asBinOp(cd.V, token.NEQ); b != nil && cd.Sense && isNilConst(b.Y) {
						// the tested error is this call's, directly or as one of the origins of a shared variable
						for _, vc := range valueCases(b.X, nil) {
							if ex, ok := vc.V.(*ssa.Extract); ok && ex.Tuple == cl.(ssa.Value) && ex.Index == 1 {
								okErr = true
							}
						}
					}
				}
			})
			r.Check("readBody:error-of-"+cal.Name(), okErr, cl.Pos(), "a failure of "+cal.Name()+" returns an error status")
		}
	})

	c.Rule("C14.R6", "request bodies do not alias pooled buffers: no function returns data derived from a value it puts back into a sync.Pool", 1, func(r *Rule) {
		pooledEscapes(w, r, "pool-escape:")
	})

	c.Rule("C14.R4b", "codec framing on every path and level: a compressor hands its output writer only to the codec's constructor and its input only to the codec's Write, and returns success only after Write and Close; a decompressor reads its input only through the codec's reader", 8, func(r *Rule) {
		type spec struct {
			fn, ctor string
			comp     bool
		}
		for _, sp := range []spec{
			{"CompressWithZlib", "compress/zlib.NewWriterLevel", true},
			{"CompressWithLz4", "github.com/pierrec/lz4/v4.NewWriter", true},
			{"DecompressWithZlib", "compress/zlib.NewReader", false},
			{"DecompressWithLz4", "github.com/pierrec/lz4/v4.NewReader", false},
		} {
			fn := w.Func("pkg/web", sp.fn)
			if fn == nil {
				r.Unresolved("pkg/web." + sp.fn)
				continue
			}
			c.SawFunc(FuncName(fn))
			ctors := callsTo(fn, sp.ctor)
			if !r.Check(sp.fn+":codec-constructor", len(ctors) == 1, fn.Pos(), fmt.Sprintf("%d calls of %s", len(ctors), sp.ctor)) {
				continue
			}
			ctor := ctors[0].(*ssa.Call)
			if !sp.comp {
				// input -> bytes.NewReader -> ctor, and nothing else
				in := fn.Params[0]
				okIn := true
				var why []string
				for _, ref := range referrers(in) {
					switch x := ref.(type) {
					case *ssa.DebugRef:
					case *ssa.Call:
						if !isCall(x, "bytes.NewReader") {
							okIn = false
							why = append(why, exprString(x, 0))
							continue
						}
						// the reader goes to the constructor only
						for _, r2 := range referrers(x) {
							if mi, ok := r2.(*ssa.MakeInterface); ok {
								for _, r3 := range referrers(mi) {
									if r3 != ssa.Instruction(ctor) {
										okIn = false
										why = append(why, "reader used by "+r3.String())
									}
								}
							} else if _, isDbg := r2.(*ssa.DebugRef); !isDbg {
								okIn = false
								why = append(why, "reader used by "+r2.String())
							}
						}
					default:
						okIn = false
						why = append(why, ref.String())
					}
				}
				r.Check(sp.fn+":input-only-through-codec", okIn, fn.Pos(), "the compressed input is read only through the codec's reader"+map[bool]string{true: "", false: ": " + strings.Join(why, "; ")}[okIn])
				continue
			}
			in, out := fn.Params[0], fn.Params[1]
			// out: only the constructor's argument
			okOut := true
			var why []string
			for _, ref := range referrers(out) {
				switch ref.(type) {
				case *ssa.DebugRef:
				default:
					if ref != ssa.Instruction(ctor) {
						okOut = false
						why = append(why, ref.String()+" at "+w.Prog.Fset.Position(ref.Pos()).String())
					}
				}
			}
			r.Check(sp.fn+":output-only-through-codec", okOut, fn.Pos(), "the output writer is handed only to the codec constructor (no raw write)"+map[bool]string{true: "", false: ": " + strings.Join(why, "; ")}[okOut])
			// in: only the codec's Write
			okIn := true
			why = nil
			var writes []ssa.Instruction
			for _, ref := range referrers(in) {
				switch x := ref.(type) {
				case *ssa.DebugRef:
				case ssa.CallInstruction:
					if strings.HasSuffix(calleeName(x), ".Write") && recvOf(x) != nil && derivesFromCall(recvOf(x), ctor) {
						writes = append(writes, ref)
					} else {
						okIn = false
						why = append(why, calleeName(x))
					}
				default:
					okIn = false
					why = append(why, ref.String())
				}
			}
			r.Check(sp.fn+":input-only-to-codec-write", okIn && len(writes) == 1, fn.Pos(), fmt.Sprintf("the payload is written only to the codec (%d writes)", len(writes))+map[bool]string{true: "", false: ": " + strings.Join(why, "; ")}[okIn])
			// success only after Write and Close
			const (
				evWrite = iota
				evClose
			)
			res := runAutomaton(fn, 0, func(i ssa.Instruction) int {
				cl, ok := i.(ssa.CallInstruction)
				if !ok || recvOf(cl) == nil || !derivesFromCall(recvOf(cl), ctor) {
					return -1
				}
				if _, isDefer := i.(*ssa.Defer); isDefer {
					return -1
				}
				switch {
				case strings.HasSuffix(calleeName(cl), ".Write"):
					return evWrite
				case strings.HasSuffix(calleeName(cl), ".Close"):
					return evClose
				}
				return -1
			}, func(st, ev int) int {
				switch {
				case ev == evWrite && st == 0:
					return 1
				case ev == evClose && st == 1:
					return 2
				case ev == evClose:
					return 3 // closed without a write
				}
				return st
			})
			okSucc := true
			for b, states := range res.ExitStates {
				ret := b.Instrs[len(b.Instrs)-1].(*ssa.Return)
				if len(ret.Results) == 1 && isNilConst(ret.Results[0]) && states != 1<<2 {
					okSucc = false
				}
			}
			r.Check(sp.fn+":success-after-write-and-close", okSucc, fn.Pos(), "every path returning nil has written the payload to the codec and closed it")
		}
	})

	c.Rule("C14.R9", "the series of one name share that name's entry: in the encoder the by-name level of the message (map[name]*XTagV2) is written once per name - in the loop over names, not once per series - or only where the name is known to have no entry yet; an entry assigned per series replaces the series stored before it", 4, func(r *Rule) {
		enc := w.Func("pkg/statsd", "translateToProtobufV2")
		if enc == nil {
			r.Unresolved("translateToProtobufV2")
			return
		}
		n := 0
		for _, g := range WithAnon(enc) {
			// loop headers of g
			var heads []*ssa.BasicBlock
			for _, b := range g.Blocks {
				if loopBody(b) != nil {
					heads = append(heads, b)
				}
			}
			perSeriesCallback := false
			if g.Parent() != nil {
				// a callback handed to X.Each runs once per series
				eachInstr(g.Parent(), func(in ssa.Instruction) {
					cl, ok := in.(ssa.CallInstruction)
					if !ok {
						return
					}
					if cal := staticCallee(cl); cal != nil && cal.Name() == "Each" {
						for _, a := range cl.Common().Args {
							if mc, isMC := a.(*ssa.MakeClosure); isMC && mc.Fn == ssa.Value(g) {
								perSeriesCallback = true
							}
						}
					}
				})
			}
			eachInstr(g, func(in ssa.Instruction) {
				mu, ok := in.(*ssa.MapUpdate)
				if !ok {
					return
				}
				mt, ok := mu.Map.Type().Underlying().(*types.Map)
				if !ok {
					return
				}
				nm := namedOf(derefType(mt.Elem()))
				if nm == nil || !strings.HasSuffix(nm.Obj().Name(), "TagV2") {
					return
				}
				n++
				depth := 0
				for _, h := range heads {
					if loopBody(h)[mu.Block()] {
						depth++
					}
				}
				// guarded by "no entry yet" for this name
				isEntry := func(v ssa.Value) bool {
					if ex, isEx := v.(*ssa.Extract); isEx {
						v = ex.Tuple
					}
					lk, isLk := v.(*ssa.Lookup)
					return isLk && pathOf(lk.X) == pathOf(mu.Map) && lk.Index == mu.Key
				}
				fs := factsAt(mu.Block())
				guarded := knownNil(fs, isEntry) || boolKnown(fs, func(v ssa.Value) bool {
					ex, isEx := v.(*ssa.Extract)
					return isEx && ex.Index == 1 && isEntry(ex)
				}, false)
				once := guarded || (!perSeriesCallback && depth <= 1)
				r.Check(fmt.Sprintf("by-name-entry:%s:once-per-name#%d", nm.Obj().Name(), n), once, mu.Pos(), fmt.Sprintf("the entry of a name is assigned once per name (loop depth %d, per-series callback %v, guarded by absence %v)", depth, perSeriesCallback, guarded))
			})
		}
		r.Check("by-name-entry:sites", n >= 4, enc.Pos(), fmt.Sprintf("%d assignments of by-name entries", n))
	})

	c.Rule("C14.R8", "every encoded series owns its slices: no slice stored in a message field is built in a buffer that is re-used (x[:0]) across series", 1, func(r *Rule) {
		if enc == nil {
			r.Unresolved("translateToProtobufV2")
			return
		}
		n := 0
		for _, g := range WithAnon(enc) {
			for _, st := range storesIn(g) {
				t, f, _, ok := fieldRef(st.Addr)
				if !ok || !strings.HasPrefix(t, "Raw") {
					continue
				}
				if _, isSlice := st.Val.Type().Underlying().(*types.Slice); !isSlice {
					continue
				}
				n++
				reused := ""
				seen := map[ssa.Value]bool{}
				var walk func(v ssa.Value, d int)
				walk = func(v ssa.Value, d int) {
					if v == nil || d > 10 || seen[v] {
						return
					}
					seen[v] = true
					switch x := v.(type) {
					case *ssa.Phi:
						for _, e := range x.Edges {
							walk(e, d+1)
						}
					case *ssa.Slice:
						if hi, isC := constInt(x.High); isC && hi == 0 {
							reused = "re-sliced buffer " + pathOf(x.X) + "[:0] at " + w.Pos(x.Pos())
							return
						}
						walk(x.X, d+1)
					case *ssa.Call:
						if isCall(x, "builtin append") || strings.HasPrefix(calleeName(x), "slices.AppendSeq") || strings.HasPrefix(calleeName(x), "slices.Grow") {
							walk(x.Call.Args[0], d+1)
						}
					case *ssa.UnOp:
						if al, ok := x.X.(*ssa.Alloc); ok {
							for _, ref := range referrers(al) {
								if s2, ok := ref.(*ssa.Store); ok && s2.Addr == ssa.Value(al) {
									walk(s2.Val, d+1)
								}
							}
						}
					}
				}
				walk(st.Val, 0)
				r.Check(FuncName(g)+":"+t+"."+f+":fresh-slice", reused == "", st.Pos(), t+"."+f+" is not built in a buffer shared with other series"+map[bool]string{true: "", false: ": " + reused}[reused == ""])
			}
		}
		r.Check("slice-fields-found", n >= 1, enc.Pos(), fmt.Sprintf("%d slice-typed message fields written by the encoder", n))
	})

	c.Rule("C14.R7", "what is encoded once is what every delivery attempt sends: the forwarder's per-attempt closure builds a fresh reader over the encoded body and assigns no captured variable", 2, func(r *Rule) {
		n := 0
		for _, g := range attemptClosures(w) {
			if fnPkgPath(g) != Mod+"/pkg/statsd" {
				continue
			}
			n++
			c.SawFunc(FuncName(g))
			attemptFreshBody(r, g)
			attemptIdempotent(r, g)
		}
		r.Check("forwarder:attempt-closure-found", n >= 1, token.NoPos, fmt.Sprintf("%d per-attempt request closures in pkg/statsd", n))
	})

	c.Rule("C14.R5", "a body that cannot be read, decompressed or decoded is answered with one status and dispatches nothing", 10, func(r *Rule) {
		mh := w.Func("pkg/web", "(*rawHttpHandlerV2).MetricHandler")
		eh := w.Func("pkg/web", "(*rawHttpHandlerV2).EventHandler")
		if mh == nil || eh == nil {
			r.Unresolved("MetricHandler / EventHandler")
			return
		}
		httpHandlerRule(c, r, mh, "DispatchMetricMap")
		httpHandlerRule(c, r, eh, "DispatchEvent")
		// the map dispatched is the translation of the decoded message
		for _, cl := range callsIn(mh) {
			if cl.Common().IsInvoke() && cl.Common().Method.Name() == "DispatchMetricMap" {
				arg := cl.Common().Args[1]
				tc, ok := arg.(*ssa.Call)
				r.Check("MetricHandler:dispatches-translation", ok && staticCallee(tc) == dec, cl.Pos(), "dispatched map is translateFromProtobufV2(&msg)")
			}
		}
	})
}

// pooledEscapes reports functions that return data derived from a value they also hand back
// to a sync.Pool (directly or deferred): the returned data would be overwritten by the next user.
func pooledEscapes(w *World, r *Rule, keyPfx string) {
	root := func(v ssa.Value) ssa.Value {
		for {
			switch x := v.(type) {
			case *ssa.MakeInterface:
				v = x.X
			case *ssa.TypeAssert:
				v = x.X
			case *ssa.ChangeType:
				v = x.X
			case *ssa.ChangeInterface:
				v = x.X
			case *ssa.Extract:
				v = x.Tuple
			default:
				return v
			}
		}
	}
	n := 0
	for _, fn := range w.ModuleFuncs() {
		if strings.Contains(fnPkgPath(fn), "/internal/fixtures") || strings.Contains(fnPkgPath(fn), "/cmd/") {
			continue
		}
		var puts []ssa.Value
		for _, cl := range callsIn(fn) {
			if isCall(cl, "(*sync.Pool).Put") && len(cl.Common().Args) == 2 {
				puts = append(puts, root(cl.Common().Args[1]))
			}
		}
		if len(puts) == 0 {
			continue
		}
		n++
		bad := ""
		var walk func(v ssa.Value, d int) bool
		walk = func(v ssa.Value, d int) bool {
			if d > 8 || v == nil {
				return false
			}
			rv := root(v)
			for _, p := range puts {
				if rv == p {
					return true
				}
			}
			switch x := rv.(type) {
			case *ssa.Call:
				for _, a := range x.Call.Args {
					if walk(a, d+1) {
						return true
					}
				}
				if x.Call.IsInvoke() && walk(x.Call.Value, d+1) {
					return true
				}
			case *ssa.Slice:
				return walk(x.X, d+1)
			case *ssa.UnOp:
				if al, isAl := x.X.(*ssa.Alloc); isAl {
					// named result / local spilled because of defer: look at what was stored
					for _, rf := range referrers(al) {
						if st, ok := rf.(*ssa.Store); ok && st.Addr == al && walk(st.Val, d+1) {
							return true
						}
					}
					return false
				}
				return walk(x.X, d+1)
			case *ssa.Phi:
				for _, e := range x.Edges {
					if walk(e, d+1) {
						return true
					}
				}
			case *ssa.FieldAddr:
				return walk(x.X, d+1)
			}
			return false
		}
		eachInstr(fn, func(in ssa.Instruction) {
			if rt, ok := in.(*ssa.Return); ok {
				for _, res := range rt.Results {
					if bad == "" && walk(res, 0) {
						bad = "returns " + pathOf(res) + " at " + w.Pos(rt.Pos())
					}
				}
			}
		})
		r.Check(keyPfx+FuncName(fn), bad == "", fn.Pos(), "function puts a value back into a sync.Pool and "+bad)
	}
	r.Check(keyPfx+"sites", n >= 1, token.NoPos, fmt.Sprintf("%d functions return values to a sync.Pool", n))
}

// fieldReadsAny lists the field names of struct type st that fn reads (loads or Field extracts).
func fieldReadsAny(fn *ssa.Function, st string) []string {
	set := map[string]bool{}
	for _, f := range WithAnon(fn) {
		eachInstr(f, func(in ssa.Instruction) {
			switch x := in.(type) {
			case *ssa.UnOp:
				if x.Op == token.MUL {
					if t, fl, _, ok := fieldRef(x.X); ok && t == st {
						set[fl] = true
					}
				}
			case *ssa.Field:
				if t, fl, _, ok := fieldRef(x); ok && t == st {
					set[fl] = true
				}
			}
		})
	}
	var out []string
	for k := range set {
		out = append(out, k)
	}
	sort.Strings(out)
	return out
}

func isZeroConst(n *types.Named, name string) bool {
	k, ok := n.Obj().Pkg().Scope().Lookup(name).(*types.Const)
	return ok && k.Val().ExactString() == "0"
}

func zeroConstOf(n *types.Named) string {
	for _, k := range constsOfType(n) {
		if isZeroConst(n, k) {
			return k
		}
	}
	return ""
}

// derivesFromCall: v is the call's result, an extract of it, or a phi/load thereof.
func derivesFromCall(v ssa.Value, call *ssa.Call) bool {
	seen := map[ssa.Value]bool{}
	var walk func(v ssa.Value, d int) bool
	walk = func(v ssa.Value, d int) bool {
		if d > 8 || seen[v] {
			return false
		}
		seen[v] = true
		switch x := v.(type) {
		case *ssa.Call:
			return x == call
		case *ssa.Extract:
			return walk(x.Tuple, d+1)
		case *ssa.Phi:
			for _, e := range x.Edges {
				if walk(e, d+1) {
					return true
				}
			}
		case *ssa.UnOp:
			if al, ok := x.X.(*ssa.Alloc); ok {
				for _, ref := range referrers(al) {
					if st, ok := ref.(*ssa.Store); ok && st.Addr == ssa.Value(al) && walk(st.Val, d+1) {
						return true
					}
				}
			}
		case *ssa.MakeInterface:
			return walk(x.X, d+1)
		case *ssa.ChangeInterface:
			return walk(x.X, d+1)
		}
		return false
	}
	return walk(v, 0)
}

// mapHome names the place a map value lives in: its access path, or for a map created locally the
// map element / struct field it is stored into (m := make(...); outer[k] = m  =>  "outer[k]").
func mapHome(v ssa.Value) string {
	mk, ok := v.(*ssa.MakeMap)
	if !ok {
		return pathOf(v)
	}
	for _, ref := range referrers(mk) {
		switch x := ref.(type) {
		case *ssa.MapUpdate:
			if x.Value == ssa.Value(mk) {
				return pathOf(x.Map) + "[" + pathOf(x.Key) + "]"
			}
		case *ssa.Store:
			if x.Val == ssa.Value(mk) {
				// a field of an object under construction: follow the object to where it is put
				if fa, ok := x.Addr.(*ssa.FieldAddr); ok {
					if al, ok := fa.X.(*ssa.Alloc); ok {
						if h := allocHome(al, 0); h != "" {
							return h + "." + fieldName(fa.X.Type(), fa.Field)
						}
					}
				}
				return pathOf(x.Addr)
			}
		}
	}
	return pathOf(v)
}

// strLeaf is one origin of a value (below phis, local cells and captured variables) and the block
// in which it arises.
type strLeaf struct {
	V  ssa.Value
	At *ssa.BasicBlock
}

func stringLeaves(v ssa.Value) []strLeaf {
	var out []strLeaf
	seen := map[ssa.Value]bool{}
	var walk func(v ssa.Value, at *ssa.BasicBlock, d int)
	cellStores := func(cell ssa.Value, d int) bool {
		n := 0
		for _, ref := range referrers(cell) {
			if st, ok := ref.(*ssa.Store); ok && st.Addr == cell {
				n++
				walk(st.Val, st.Block(), d+1)
			}
		}
		return n > 0
	}
	walk = func(v ssa.Value, at *ssa.BasicBlock, d int) {
		if d > 12 || seen[v] {
			return
		}
		seen[v] = true
		switch x := v.(type) {
		case *ssa.Phi:
			for i, e := range x.Edges {
				walk(e, x.Block().Preds[i], d+1)
			}
			return
		case *ssa.ChangeType:
			walk(x.X, at, d+1)
			return
		case *ssa.UnOp:
			if x.Op == token.MUL {
				switch c := x.X.(type) {
				case *ssa.Alloc:
					if cellStores(c, d) {
						return
					}
				case *ssa.FreeVar:
					if al := cellOf(c); al != nil && cellStores(al, d) {
						return
					}
				}
			}
		}
		out = append(out, strLeaf{v, at})
	}
	walk(v, nil, 0)
	return out
}

// allocHome: where the object built in al ends up (map element or field), "" if unknown.
func allocHome(al *ssa.Alloc, d int) string {
	if d > 3 {
		return ""
	}
	for _, ref := range referrers(al) {
		switch x := ref.(type) {
		case *ssa.MapUpdate:
			if x.Value == ssa.Value(al) {
				return pathOf(x.Map) + "[" + pathOf(x.Key) + "]"
			}
		case *ssa.Store:
			if x.Val == ssa.Value(al) {
				return pathOf(x.Addr)
			}
		}
	}
	return ""
}

// valueCase is one way a value can arise (a leaf below phis) with the branch conditions known there.
type valueCase struct {
	V     ssa.Value
	Conds []Cond
}

// valueCases expands phis into (incoming value, conditions at the incoming edge) pairs.
func valueCases(v ssa.Value, at *ssa.BasicBlock) []valueCase {
	var out []valueCase
	seen := map[*ssa.Phi]bool{}
	var expand func(v ssa.Value, conds []Cond, d int)
	expand = func(v ssa.Value, conds []Cond, d int) {
		if ph, ok := v.(*ssa.Phi); ok && !seen[ph] && d < 6 {
			seen[ph] = true
			for i, e := range ph.Edges {
				pred := ph.Block().Preds[i]
				cs := append([]Cond(nil), condsFor(pred)...)
				if len(pred.Instrs) > 0 {
					if ifi, ok := pred.Instrs[len(pred.Instrs)-1].(*ssa.If); ok && pred.Succs[0] != pred.Succs[1] {
						cs = append(cs, Cond{ifi.Cond, pred.Succs[0] == ph.Block(), ifi})
					}
				}
				expand(e, cs, d+1)
			}
			return
		}
		out = append(out, valueCase{v, conds})
	}
	var cs []Cond
	if at != nil {
		cs = condsFor(at)
	}
	expand(v, cs, 0)
	return out
}

func stripConvVal(v ssa.Value) ssa.Value {
	for {
		switch x := v.(type) {
		case *ssa.ChangeType:
			v = x.X
		case *ssa.Convert:
			v = x.X
		default:
			return v
		}
	}
}

// globalStructMapLiteral: g is a package-level map[string]struct{...} initialised by a literal with
// constant keys and never written afterwards; returns key -> field name -> stored value.
func globalStructMapLiteral(w *World, g *ssa.Global) (map[string]map[string]ssa.Value, bool) {
	init := g.Pkg.Func("init")
	if init == nil {
		return nil, false
	}
	var mk *ssa.MakeMap
	stores := 0
	eachInstr(init, func(in ssa.Instruction) {
		if st, ok := in.(*ssa.Store); ok && st.Addr == ssa.Value(g) {
			stores++
			mk, _ = st.Val.(*ssa.MakeMap)
		}
	})
	if stores != 1 || mk == nil {
		return nil, false
	}
	out := map[string]map[string]ssa.Value{}
	for _, ref := range referrers(mk) {
		switch x := ref.(type) {
		case *ssa.MapUpdate:
			k, okK := constString(x.Key)
			if !okK {
				return nil, false
			}
			fields := map[string]ssa.Value{}
			if ld, ok := x.Value.(*ssa.UnOp); ok && ld.Op == token.MUL {
				if al, ok := ld.X.(*ssa.Alloc); ok {
					fields = complitFields(al)
				}
			}
			out[k] = fields
		case *ssa.Store, *ssa.DebugRef:
		default:
			return nil, false
		}
	}
	for _, fn := range w.ModuleFuncs() {
		bad := false
		eachInstr(fn, func(in ssa.Instruction) {
			switch x := in.(type) {
			case *ssa.Store:
				if x.Addr == ssa.Value(g) && fn.Name() != "init" {
					bad = true
				}
			case *ssa.MapUpdate:
				if ld, ok := x.Map.(*ssa.UnOp); ok && ld.X == ssa.Value(g) {
					bad = true
				}
			case ssa.CallInstruction:
				if isCall(x, "builtin delete", "builtin clear") {
					if ld, ok := x.Common().Args[0].(*ssa.UnOp); ok && ld.X == ssa.Value(g) {
						bad = true
					}
				}
			}
		})
		if bad {
			return nil, false
		}
	}
	return out, true
}

// globalMapLiteral: g is a package-level map initialised by a literal with constant keys and values and
// never written afterwards; returns the table with constants named.
func globalMapLiteral(w *World, g *ssa.Global) (map[string]string, bool) {
	init := g.Pkg.Func("init")
	if init == nil {
		return nil, false
	}
	var mk *ssa.MakeMap
	stores := 0
	eachInstr(init, func(in ssa.Instruction) {
		if st, ok := in.(*ssa.Store); ok && st.Addr == ssa.Value(g) {
			stores++
			mk, _ = st.Val.(*ssa.MakeMap)
		}
	})
	if stores != 1 || mk == nil {
		return nil, false
	}
	out := map[string]string{}
	for _, ref := range referrers(mk) {
		switch x := ref.(type) {
		case *ssa.MapUpdate:
			k, okK := x.Key.(*ssa.Const)
			v, okV := x.Value.(*ssa.Const)
			if !okK || !okV {
				return nil, false
			}
			out[constName(k)] = constName(v)
		case *ssa.Store, *ssa.DebugRef:
		default:
			return nil, false
		}
	}
	// no other function stores into the map or replaces it
	for _, fn := range w.ModuleFuncs() {
		bad := false
		eachInstr(fn, func(in ssa.Instruction) {
			switch x := in.(type) {
			case *ssa.Store:
				if x.Addr == ssa.Value(g) {
					bad = true
				}
			case *ssa.MapUpdate:
				if ld, ok := x.Map.(*ssa.UnOp); ok && ld.X == ssa.Value(g) {
					bad = true
				}
			case ssa.CallInstruction:
				if isCall(x, "builtin delete", "builtin clear") {
					if ld, ok := x.Common().Args[0].(*ssa.UnOp); ok && ld.X == ssa.Value(g) {
						bad = true
					}
				}
			}
		})
		if bad {
			return nil, false
		}
	}
	return out, len(out) > 0
}
