package main

import (
	"fmt"
	"go/token"
	"go/types"
	"strings"

	"golang.org/x/tools/go/ssa"
)

func init() {
	register("C15", c15)
	register("C20", c20)
}

// countBetween counts events on all paths from block `from` (its start) to block `to`
// (exclusive), returning the mask {0,1,>=2}; paths leaving the region through a return are
// included (their count is reported in exitMask).
func countBetween(from, to *ssa.BasicBlock, isEvent func(ssa.Instruction) bool) (loopMask, exitMask uint32) {
	type key struct {
		b *ssa.BasicBlock
		n int
	}
	seen := map[key]bool{}
	var walk func(b *ssa.BasicBlock, n int)
	walk = func(b *ssa.BasicBlock, n int) {
		if b == to {
			loopMask |= 1 << uint(n)
			return
		}
		k := key{b, n}
		if seen[k] {
			return
		}
		seen[k] = true
		for _, in := range b.Instrs {
			if isEvent(in) && n < 2 {
				n++
			}
		}
		if len(b.Succs) == 0 {
			if _, ok := b.Instrs[len(b.Instrs)-1].(*ssa.Return); ok {
				exitMask |= 1 << uint(n)
			}
			return
		}
		for _, s := range b.Succs {
			walk(s, n)
		}
	}
	walk(from, 0)
	return
}

// forwarderRunParts locates the closures of HttpForwarderHandlerV2.Run: the merging goroutine
// (calls MergeMaps) and the posting goroutine (calls postMetrics).
func forwarderRunParts(w *World) (run, merging, posting *ssa.Function) {
	run = w.Func("pkg/statsd", "(*HttpForwarderHandlerV2).Run")
	if run == nil {
		return
	}
	for _, g := range WithAnon(run)[1:] {
		if len(callsTo(g, "gostatsd.MergeMaps")) > 0 {
			merging = g
		}
		if len(callsTo(g, "(*pkg/statsd.HttpForwarderHandlerV2).postMetrics")) > 0 && g.Parent() != run {
			posting = g
		}
	}
	return
}

// fwdEvent names what an instruction of the forwarder's Run goroutines does to the two semaphores and the
// flush coordinator, whether it is written through the one-line wrappers (acquireSem, releaseSem,
// acquireMergingSem, releaseMergingSem, notifyFlush) or in place: a receive from / send on the semaphore
// field, and the test `hfh.flushCoordinator != nil` that guards the NotifyFlush call (the notification point:
// exactly one NotifyFlush follows on its non-nil side, checked separately).
func fwdEvent(in ssa.Instruction) string {
	if cl, ok := in.(ssa.CallInstruction); ok {
		if cal := staticCallee(cl); cal != nil {
			switch cal.Name() {
			case "acquireSem", "releaseSem", "acquireMergingSem", "releaseMergingSem", "notifyFlush", "postMetrics":
				return cal.Name()
			}
		}
	}
	semField := func(v ssa.Value) string {
		p := pathOf(v)
		switch {
		case strings.HasSuffix(p, ".metricsMergingSem"):
			return "MergingSem"
		case strings.HasSuffix(p, ".metricsSem"):
			return "Sem"
		}
		return ""
	}
	switch x := in.(type) {
	case *ssa.Send:
		if f := semField(x.Chan); f != "" {
			return "release" + f
		}
	case *ssa.UnOp:
		if x.Op == token.ARROW {
			if f := semField(x.X); f != "" {
				return "acquire" + f
			}
		}
	case *ssa.If:
		if b, ok := x.Cond.(*ssa.BinOp); ok && (b.Op == token.NEQ || b.Op == token.EQL) && isNilConst(b.Y) && strings.HasSuffix(pathOf(b.X), ".flushCoordinator") {
			return "notifyFlush"
		}
	}
	return ""
}

// perSplitRule: in the merging goroutine every element of the SplitByTags result causes exactly
// one flush notification: directly (empty map) or through exactly one posting goroutine that
// receives this iteration's map and header tags; nothing notifies outside the loop.
func perSplitRule(c *Ctx, r *Rule) {
	w := c.W
	_, merging, posting := forwarderRunParts(w)
	if merging == nil || posting == nil {
		r.Unresolved("HttpForwarderHandlerV2.Run merging/posting closures")
		return
	}
	c.SawFunc(FuncName(merging))
	c.SawFunc(FuncName(posting))
	// range over SplitByTags result
	var split *ssa.Call
	for _, cl := range callsTo(merging, "(*gostatsd.MetricMap).SplitByTags") {
		split = cl.(*ssa.Call)
	}
	if split == nil {
		r.Fail("merging:split", merging.Pos(), "the merging goroutine does not call SplitByTags")
		return
	}
	r.Check("merging:split-of-merged", func() bool {
		cl, ok := split.Call.Args[0].(*ssa.Call)
		return ok && isCall(cl, "gostatsd.MergeMaps")
	}(), split.Pos(), "SplitByTags is applied to MergeMaps(metricMaps)")
	r.Check("merging:split-by-dyn-headers", strings.HasSuffix(pathOf(split.Call.Args[1]), ".dynHeaderNames"), split.Pos(), "split by hfh.dynHeaderNames")
	var rng *ssa.Range
	var next *ssa.Next
	eachInstr(merging, func(in ssa.Instruction) {
		if rg, ok := in.(*ssa.Range); ok && rg.X == ssa.Value(split) {
			rng = rg
		}
	})
	if rng == nil {
		r.Fail("merging:range", merging.Pos(), "no range loop over the split result")
		return
	}
	for _, rf := range referrers(rng) {
		if n, ok := rf.(*ssa.Next); ok {
			next = n
		}
	}
	if next == nil {
		r.Fail("merging:range", merging.Pos(), "range iterator not advanced")
		return
	}
	loopHead := next.Block()
	body := loopHead.Succs[0]
	isNotify := func(in ssa.Instruction) bool {
		if fwdEvent(in) == "notifyFlush" {
			return true
		}
		if g, ok := in.(*ssa.Go); ok {
			if mc, ok := g.Call.Value.(*ssa.MakeClosure); ok && mc.Fn == ssa.Value(posting) {
				return true
			}
			if f, ok := g.Call.Value.(*ssa.Function); ok && f == posting {
				return true
			}
		}
		return false
	}
	lm, em := countBetween(body, loopHead, isNotify)
	r.Check("merging:one-notification-per-split", lm == 2 && em == 0, body.Instrs[0].Pos(), fmt.Sprintf("notifications (direct or via one posting goroutine) per split element: %s; paths leaving the loop early: %s", maskString(lm), maskString(em)))
	// nothing outside the loop
	eachInstr(merging, func(in ssa.Instruction) {
		if isNotify(in) {
			r.Check("merging:notification-inside-loop", in.Block() == body || body.Dominates(in.Block()), in.Pos(), "every flush notification belongs to one split element (a notification outside the per-split loop leaves a surplus token in the coordinator)")
		}
	})
	// direct notification only for the empty map
	eachInstr(merging, func(in ssa.Instruction) {
		if fwdEvent(in) == "notifyFlush" {
			{
				okEmpty := false
				for _, cd := range condsFor(in.Block()) {
					cd = normCond(cd)
					if ic, ok := cd.V.(*ssa.Call); ok && isCall(ic, "(*gostatsd.MetricMap).IsEmpty") && cd.Sense {
						if ex, ok := derefCell(ic.Call.Args[0]).(*ssa.Extract); ok && ex.Tuple == ssa.Value(next) && ex.Index == 2 {
							okEmpty = true
						}
					}
				}
				r.Check("merging:direct-notify-only-when-empty", okEmpty, in.Pos(), "notifyFlush without a request only when this split's map is empty")
			}
		}
	})
	// the posting goroutine posts this iteration's map and tags (handed over as arguments or captured per iteration)
	var postGo *ssa.Go
	eachInstr(merging, func(in ssa.Instruction) {
		if g, ok := in.(*ssa.Go); ok {
			if mc, ok := g.Call.Value.(*ssa.MakeClosure); ok && mc.Fn == ssa.Value(posting) {
				postGo = g
			}
			if f, ok := g.Call.Value.(*ssa.Function); ok && f == posting {
				postGo = g
			}
		}
	})
	if postGo == nil {
		r.Fail("merging:go-args", merging.Pos(), "the go statement starting the posting goroutine was not found")
	} else {
		for _, cl := range callsTo(posting, "(*pkg/statsd.HttpForwarderHandlerV2).postMetrics") {
			a := cl.Common().Args
			o1, o2 := goValueOrigin(postGo, posting, a[2]), goValueOrigin(postGo, posting, a[3])
			e1, ok1 := derefCell(o1).(*ssa.Extract)
			e2, ok2 := derefCell(o2).(*ssa.Extract)
			r.Check("merging:go-gets-this-iterations-map", ok1 && e1.Tuple == ssa.Value(next) && e1.Index == 2, cl.Pos(), "the map posted is "+pathOf(o1))
			r.Check("merging:go-gets-this-iterations-tags", ok2 && e2.Tuple == ssa.Value(next) && e2.Index == 1, cl.Pos(), "the header tags posted are "+pathOf(o2))
		}
	}
	// posting goroutine: postMetrics -> notifyFlush -> releaseSem, each exactly once
	names := []string{"postMetrics", "notifyFlush", "releaseSem"}
	res := runAutomaton(posting, 0, func(in ssa.Instruction) int {
		ev := fwdEvent(in)
		for i, n := range names {
			if ev == n {
				return i
			}
		}
		return -1
	}, func(s, e int) int {
		if s == e {
			return s + 1
		}
		return -1
	})
	for _, e := range res.Errors {
		r.Fail("posting:order", e.At.Pos(), fmt.Sprintf("%s reached in state %d; required order: postMetrics, notifyFlush, releaseSem, each once", names[e.Event], e.State))
	}
	var m uint32
	for _, s := range res.ExitStates {
		m |= s
	}
	r.Check("posting:post-then-notify-then-release", m == 1<<3, posting.Pos(), fmt.Sprintf("states at exit %b (must be: all three done)", m))
	// the posted map and tags are the goroutine's own parameters
	r.Check("posting:posts-own-map", len(callsTo(posting, "(*pkg/statsd.HttpForwarderHandlerV2).postMetrics")) == 1, posting.Pos(), "one postMetrics call per posting goroutine (its map and tags are checked above)")
	// the notification forwards to the coordinator iff one is set: in the wrapper, or where it is written in place
	hosts := []*ssa.Function{}
	if nf := w.Func("pkg/statsd", "(*HttpForwarderHandlerV2).notifyFlush"); nf != nil {
		hosts = append(hosts, nf)
	} else {
		hosts = append(hosts, merging, posting)
	}
	n := 0
	for _, nf := range hosts {
		for _, cl := range callsIn(nf) {
			if cl.Common().IsInvoke() && cl.Common().Method.Name() == "NotifyFlush" {
				n++
				ok := knownNonNil(factsAt(cl.Block()), func(v ssa.Value) bool { return strings.HasSuffix(pathOf(v), ".flushCoordinator") })
				r.Check("notifyFlush:guarded", ok && strings.HasSuffix(pathOf(cl.Common().Value), ".flushCoordinator"), cl.Pos(), "NotifyFlush is sent to hfh.flushCoordinator when it is set")
			}
		}
		// every test of the coordinator is followed by exactly one NotifyFlush on its non-nil side
		eachInstr(nf, func(in ssa.Instruction) {
			ifi, ok := in.(*ssa.If)
			if !ok || fwdEvent(in) != "notifyFlush" {
				return
			}
			b := ifi.Cond.(*ssa.BinOp)
			side := ifi.Block().Succs[0]
			if b.Op == token.EQL {
				side = ifi.Block().Succs[1]
			}
			cnt := 0
			for _, in2 := range side.Instrs {
				if cl, ok := in2.(ssa.CallInstruction); ok && cl.Common().IsInvoke() && cl.Common().Method.Name() == "NotifyFlush" {
					cnt++
				}
			}
			r.Check("notifyFlush:one-notification", cnt == 1, ifi.Pos(), fmt.Sprintf("%d NotifyFlush calls on the branch where the coordinator is set", cnt))
		})
	}
	r.Check("notifyFlush:sites", n >= 1, merging.Pos(), fmt.Sprintf("%d NotifyFlush call sites", n))
	// who may acknowledge: only the per-split code of Run (the goroutine that posted, or the loop for an empty
	// split). An acknowledgement anywhere else - in the retry loop when it gives up, say - is a second one for the
	// same request, and the coordinator then lets the next invocation start one flush early.
	nfw := w.Func("pkg/statsd", "(*HttpForwarderHandlerV2).notifyFlush")
	nScanned := 0
	defer func() {
		r.Check("notifyFlush:only-per-split:scanned", nScanned >= 50, merging.Pos(), fmt.Sprintf("%d other functions of pkg/statsd scanned for acknowledgements", nScanned))
	}()
	for _, fn := range pkgFuncs(w, "pkg/statsd") {
		if fn == merging || fn == posting || fn == nfw {
			continue
		}
		nScanned++
		eachInstr(fn, func(in ssa.Instruction) {
			cl, isCall := in.(ssa.CallInstruction)
			if !isCall {
				return
			}
			isAck := (nfw != nil && staticCallee(cl) == nfw) || (cl.Common().IsInvoke() && cl.Common().Method.Name() == "NotifyFlush" && strings.Contains(cl.Common().Value.Type().String(), "internal/flush"))
			if isAck {
				r.Check("notifyFlush:only-per-split:"+FuncName(fn), false, in.Pos(), "the flush is acknowledged outside the per-split code of Run")
			}
		})
	}
}

func c15(c *Ctx) {
	w := c.W
	c.Explanation = "C15 (forwarder delivers every batch exactly once or reports it dropped): semaphore acquire/release balance around the merging and posting goroutines; one request (or one notification) per split element with this iteration's map and header tags; the retry loop counts sent/dropped/retried/invalid exactly once on the right edges and builds a fresh body reader per attempt; consolidator slots are taken and returned exactly once and a flush hands over the drained maps and refills with fresh ones; SplitByTags is a partition; request bodies do not alias pooled buffers; strings reaching proto3 string fields are not sanitised (known finding)."
	c.NotDecided = []string{"conservation under concurrent dispatch and flush as a history property", "HTTP client behaviour"}

	run, merging, posting := forwarderRunParts(w)

	c.Rule("C15.R1", "semaphores: every acquire is matched by exactly one release on every path of the goroutine it guards", 6, func(r *Rule) {
		if run == nil || merging == nil || posting == nil {
			r.Unresolved("HttpForwarderHandlerV2.Run and its closures")
			return
		}
		c.SawFunc(FuncName(run))
		// wrappers (where they exist; the operations may also be written in place)
		for _, p := range []struct{ fn, field, op string }{
			{"acquireSem", "metricsSem", "recv"}, {"releaseSem", "metricsSem", "send"},
			{"acquireMergingSem", "metricsMergingSem", "recv"}, {"releaseMergingSem", "metricsMergingSem", "send"},
		} {
			fn := w.Func("pkg/statsd", "(*HttpForwarderHandlerV2)."+p.fn)
			if fn == nil {
				// no wrapper: the operation must occur in place somewhere in Run
				found := false
				for _, g := range WithAnon(run) {
					eachInstr(g, func(in ssa.Instruction) {
						if fwdEvent(in) == p.fn {
							found = true
						}
					})
				}
				r.Check("wrapper:"+p.fn, found, run.Pos(), fmt.Sprintf("%s: a %s on %s occurs in Run (no wrapper function)", p.fn, p.op, p.field))
				continue
			}
			s, rc := chanFieldOps(fn, p.field)
			ok := (p.op == "recv" && len(rc) == 1 && len(s) == 0) || (p.op == "send" && len(s) == 1 && len(rc) == 0)
			r.Check("wrapper:"+p.fn, ok, fn.Pos(), fmt.Sprintf("%s performs one %s on %s", p.fn, p.op, p.field))
		}
		// semaphores are pre-filled to capacity in the constructor
		nf := w.Func("pkg/statsd", "NewHttpForwarderHandlerV2")
		if nf != nil {
			for _, f := range []string{"metricsSem", "metricsMergingSem"} {
				okFill := false
				eachInstr(nf, func(in ssa.Instruction) {
					if sd, ok := in.(*ssa.Send); ok {
						if mk, ok := sd.Chan.(*ssa.MakeChan); ok {
							for _, st := range fieldStores(nf, "HttpForwarderHandlerV2", f) {
								if st.Val == ssa.Value(mk) {
									okFill = true
								}
							}
						}
					}
				})
				r.Check("constructor:prefilled:"+f, okFill, nf.Pos(), f+" is filled with tokens at construction")
			}
		}
		callsNamed := func(fn *ssa.Function, name string) []ssa.Instruction {
			var out []ssa.Instruction
			eachInstr(fn, func(in ssa.Instruction) {
				if fwdEvent(in) == name {
					out = append(out, in)
				}
			})
			return out
		}
		// merging: acquired in the consumer loop right before `go merging`; released exactly once in merging
		var consumer *ssa.Function
		for _, g := range WithAnon(run)[1:] {
			if g.Parent() == run && len(callsNamed(g, "acquireMergingSem")) > 0 {
				consumer = g
			}
		}
		if consumer == nil {
			r.Fail("consumer-loop", run.Pos(), "consumer loop over consolidatedMetrics not found")
			return
		}
		okAcq := false
		eachInstr(consumer, func(in ssa.Instruction) {
			if g, ok := in.(*ssa.Go); ok {
				if mc, ok := g.Call.Value.(*ssa.MakeClosure); ok && mc.Fn == ssa.Value(merging) {
					for _, a := range callsNamed(consumer, "acquireMergingSem") {
						if a.Block() == in.Block() && instrIndex(a) < instrIndex(in) {
							okAcq = true
						}
					}
				}
			}
		})
		r.Check("merging:acquired-before-go", okAcq, consumer.Pos(), "acquireMergingSem precedes `go` of the merging goroutine in the same iteration")
		m := countOnPaths(merging, func(in ssa.Instruction) bool { return fwdEvent(in) == "releaseMergingSem" })
		r.Check("merging:released-exactly-once", m == 2, merging.Pos(), "releaseMergingSem executions over all paths = "+maskString(m))
		// posting: acquireSem before go posting; releaseSem exactly once in posting
		okAcq2 := false
		eachInstr(merging, func(in ssa.Instruction) {
			if g, ok := in.(*ssa.Go); ok {
				for _, a := range callsNamed(merging, "acquireSem") {
					if a.Block() == g.Block() && instrIndex(a) < instrIndex(g) {
						okAcq2 = true
					}
				}
			}
		})
		r.Check("posting:acquired-before-go", okAcq2, merging.Pos(), "acquireSem precedes `go` of the posting goroutine")
		m2 := countOnPaths(posting, func(in ssa.Instruction) bool { return fwdEvent(in) == "releaseSem" })
		r.Check("posting:released-exactly-once", m2 == 2, posting.Pos(), "releaseSem executions over all paths = "+maskString(m2))
		// no acquire without a goroutine on the empty-map path
		for _, a := range callsNamed(merging, "acquireSem") {
			hasGo := false
			for _, in := range a.Block().Instrs[instrIndex(a):] {
				if _, ok := in.(*ssa.Go); ok {
					hasGo = true
				}
			}
			r.Check("posting:acquire-always-followed-by-go", hasGo, a.Pos(), "every acquireSem is followed by the goroutine that releases it")
		}
	})

	c.Rule("C15.R2", "one request per split element, carrying this element's map and header tags; post, then notify, then release", 10, func(r *Rule) {
		perSplitRule(c, r)
	})

	c.Rule("C15.R3", "retry loop: sent / dropped / retried / invalid are counted exactly once on the right outcome; success and give-up leave the loop; each attempt reads the body from the start", 10, func(r *Rule) {
		post := w.Func("pkg/statsd", "(*HttpForwarderHandlerV2).post")
		cp := w.Func("pkg/statsd", "(*HttpForwarderHandlerV2).constructPost")
		if post == nil || cp == nil {
			r.Unresolved("(*HttpForwarderHandlerV2).post / constructPost")
			return
		}
		c.SawFunc(FuncName(post))
		c.SawFunc(FuncName(cp))
		var construct *ssa.Call
		for _, cl := range callsIn(post) {
			if staticCallee(cl) == cp {
				construct = cl.(*ssa.Call)
			}
		}
		if construct == nil {
			r.Fail("post:constructs", post.Pos(), "post does not call constructPost")
			return
		}
		// the attempt: dynamic call of the function returned by constructPost
		var attempt *ssa.Call
		na := 0
		eachInstr(post, func(in ssa.Instruction) {
			if cl, ok := in.(*ssa.Call); ok {
				if ex, ok := cl.Call.Value.(*ssa.Extract); ok && ex.Tuple == ssa.Value(construct) && ex.Index == 0 {
					attempt = cl
					na++
				}
			}
		})
		if !r.Check("post:one-attempt-site", na == 1, post.Pos(), fmt.Sprintf("%d call sites of the request function", na)) {
			return
		}
		inLoop := reachableFrom(attempt.Block())[attempt.Block()]
		r.Check("post:attempt-in-loop", inLoop, attempt.Pos(), "the attempt is inside the retry loop")
		var nb *ssa.Call
		for _, cl := range callsIn(post) {
			if cl.Common().IsInvoke() && cl.Common().Method.Name() == "NextBackOff" {
				nb, _ = cl.(*ssa.Call)
			}
		}
		if cl := callsTo(post, "(*github.com/cenkalti/backoff.ExponentialBackOff).NextBackOff"); len(cl) > 0 {
			nb, _ = cl[0].(*ssa.Call)
		}
		if nb == nil {
			r.Fail("post:backoff", post.Pos(), "no NextBackOff call")
			return
		}
		// classify counters
		type ctr struct {
			field  string
			okCond func(b *ssa.BasicBlock) (bool, string)
			loops  bool
		}
		attemptOK := func(b *ssa.BasicBlock) (val, known bool) {
			for _, cd := range condsFor(b) {
				cd = normCond(cd)
				if bo := asBinOp(cd.V, token.EQL, token.NEQ); bo != nil && isNilConst(bo.Y) {
					if bo.X == ssa.Value(attempt) {
						v := cd.Sense
						if bo.Op == token.NEQ {
							v = !v
						}
						return v, true
					}
				}
			}
			return false, false
		}
		stopCond := func(b *ssa.BasicBlock) (val, known bool) {
			for _, cd := range condsFor(b) {
				cd = normCond(cd)
				if bo := asBinOp(cd.V, token.EQL, token.NEQ); bo != nil && (bo.X == ssa.Value(nb) || bo.Y == ssa.Value(nb)) {
					other := bo.Y
					if bo.Y == ssa.Value(nb) {
						other = bo.X
					}
					if k, ok := other.(*ssa.Const); ok && (constName(k) == "Stop" || k.Value.ExactString() == "-1") {
						v := cd.Sense
						if bo.Op == token.NEQ {
							v = !v
						}
						return v, true
					}
				}
			}
			return false, false
		}
		constructFailed := func(b *ssa.BasicBlock) (val, known bool) {
			for _, cd := range condsFor(b) {
				cd = normCond(cd)
				if bo := asBinOp(cd.V, token.EQL, token.NEQ); bo != nil && isNilConst(bo.Y) {
					if ex, ok := bo.X.(*ssa.Extract); ok && ex.Tuple == ssa.Value(construct) && ex.Index == 1 {
						v := cd.Sense
						if bo.Op == token.EQL {
							v = !v
						}
						return v, true
					}
				}
			}
			return false, false
		}
		counters := map[string]int{}
		for _, cl := range callsTo(post, "sync/atomic.AddUint64") {
			a := cl.Common().Args
			p := pathOf(a[0])
			if !strings.HasPrefix(p, "hfh.messages") {
				continue
			}
			f := strings.TrimPrefix(p, "hfh.")
			counters[f]++
			one, isC := constInt(a[1])
			r.Check("post:"+f+":by-one", isC && one == 1, cl.Pos(), "counter incremented by 1")
			back := reachableFrom(cl.Block())[attempt.Block()]
			switch f {
			case "messagesSent":
				v, k := attemptOK(cl.Block())
				r.Check("post:messagesSent:on-success", k && v, cl.Pos(), "counted when the attempt returned nil")
				r.Check("post:messagesSent:leaves-loop", !back, cl.Pos(), "a delivered body is never sent again (no path back to the attempt)")
			case "messagesDropped":
				v, k := attemptOK(cl.Block())
				s, ks := stopCond(cl.Block())
				r.Check("post:messagesDropped:on-give-up", k && !v && ks && s, cl.Pos(), "counted when the attempt failed and the retry window is exhausted (NextBackOff() == Stop)")
				r.Check("post:messagesDropped:leaves-loop", !back, cl.Pos(), "an abandoned body is not retried")
			case "messagesRetried":
				v, k := attemptOK(cl.Block())
				s, ks := stopCond(cl.Block())
				r.Check("post:messagesRetried:on-retry", k && !v && ks && !s, cl.Pos(), "counted when the attempt failed and another one follows")
				r.Check("post:messagesRetried:loops", back, cl.Pos(), "a retry leads back to the attempt")
			case "messagesInvalid":
				v, k := constructFailed(cl.Block())
				r.Check("post:messagesInvalid:on-construct-error", k && v, cl.Pos(), "counted when the request could not be built")
				r.Check("post:messagesInvalid:returns", !reachableFrom(cl.Block())[attempt.Block()], cl.Pos(), "nothing is sent for an invalid message")
			case "messagesCreated":
				v, k := constructFailed(cl.Block())
				r.Check("post:messagesCreated:on-construct-ok", k && !v, cl.Pos(), "counted when the request was built")
			}
		}
		for _, f := range []string{"messagesSent", "messagesDropped", "messagesRetried", "messagesInvalid", "messagesCreated"} {
			r.Check("post:"+f+":one-site", counters[f] == 1, post.Pos(), fmt.Sprintf("%d increment sites of %s", counters[f], f))
		}
		// the attempt is only reached when the request was built
		v, k := constructFailed(attempt.Block())
		r.Check("post:attempt-only-when-built", k && !v, attempt.Pos(), "the attempt is dominated by constructPost's success edge")
		// retry window
		okWin := false
		for _, st := range storesIn(post) {
			if _, f, _, ok := fieldRef(st.Addr); ok && f == "MaxElapsedTime" && strings.HasSuffix(pathOf(st.Val), ".maxRequestElapsedTime") {
				okWin = true
			}
		}
		r.Check("post:retry-window", okWin, post.Pos(), "backoff MaxElapsedTime = hfh.maxRequestElapsedTime")
		// each attempt builds a fresh reader over the body
		var req *ssa.Function
		for _, g := range WithAnon(cp)[1:] {
			if len(callsTo(g, "net/http.NewRequest", "net/http.NewRequestWithContext")) > 0 {
				req = g
			}
		}
		if req == nil {
			r.Fail("constructPost:request-closure", cp.Pos(), "the per-attempt closure that builds the http.Request was not found")
			return
		}
		for _, cl := range callsTo(req, "net/http.NewRequest", "net/http.NewRequestWithContext") {
			a := cl.Common().Args
			body := a[len(a)-1]
			ok := false
			if mi, isMI := body.(*ssa.MakeInterface); isMI {
				if rc, isC := mi.X.(*ssa.Call); isC && isCall(rc, "bytes.NewReader", "bytes.NewBuffer", "strings.NewReader") {
					ok = valueName(rc.Call.Args[0]) == "body"
					// or: a []byte captured from constructPost (built once, outside the closure), whatever it is called
					if ld, isLd := rc.Call.Args[0].(*ssa.UnOp); isLd && ld.Op == token.MUL {
						if _, isFV := ld.X.(*ssa.FreeVar); isFV {
							ok = true
						}
					}
					if _, isFV := rc.Call.Args[0].(*ssa.FreeVar); isFV {
						ok = true
					}
				}
			}
			r.Check("constructPost:fresh-reader-per-attempt", ok, cl.Pos(), "the request body is bytes.NewReader(body) created inside the per-attempt closure (a shared reader is empty on a retry): "+pathOf(body))
		}
		retryWindowRule(r, post)
		// the retry loop is abandoned only through the backoff window or the caller's own context: post
		// creates no deadline / cancellation of its own (such an exit leaves the loop without counting the body as dropped)
		okCtx := true
		why := ""
		for _, cl := range callsIn(post) {
			if strings.HasPrefix(calleeName(cl), "context.With") {
				okCtx = false
				why = "post derives a context with " + shortCallee(cl)
			}
			if cl.Common().IsInvoke() && cl.Common().Method.Name() == "Done" && strings.Contains(cl.Common().Value.Type().String(), "context.Context") {
				if _, isP := cl.Common().Value.(*ssa.Parameter); !isP {
					okCtx = false
					why = "the cancellation watched by the retry loop is not the caller's context: " + pathOf(cl.Common().Value)
				}
			}
		}
		r.Check("post:only-the-callers-context", okCtx, post.Pos(), "the retry loop watches only the caller's context"+map[bool]string{true: "", false: ": " + why}[okCtx])
		attemptIdempotent(r, req)
		attemptResultNotRewritten(r, req)
		respAfterErrCheck(r, req)
		// the closure returned is that closure, and serialisation happens once, outside it
		r.Check("constructPost:serialise-once", len(callsTo(req, "(*pkg/statsd.HttpForwarderHandlerV2).serialize", "(*pkg/statsd.HttpForwarderHandlerV2).serializeAndCompress")) == 0, req.Pos(), "the message is serialised once, not per attempt")
		// non-2xx is an error
		okStatus := false
		eachInstr(req, func(in ssa.Instruction) {
			if b, ok := in.(*ssa.BinOp); ok && (b.Op == token.LSS || b.Op == token.GEQ) && strings.HasSuffix(pathOf(b.X), ".StatusCode") {
				okStatus = true
			}
		})
		r.Check("constructPost:status-checked", okStatus, req.Pos(), "a response outside 2xx is a failed attempt")
	})

	c.Rule("C15.R4", "consolidator slots: a slot taken for merging is put back exactly once; Drain takes every slot or restores what it took; Flush hands the drained maps over and refills with fresh maps", 8, func(r *Rule) {
		for _, name := range []string{"ReceiveMetricMap", "ReceiveMetrics"} {
			fn := w.Func("", "(*MetricConsolidator)."+name)
			if fn == nil {
				r.Unresolved("MetricConsolidator." + name)
				continue
			}
			c.SawFunc(FuncName(fn))
			sends, recvs := chanFieldOps(fn, "maps")
			if !r.Check(name+":one-take", len(recvs) == 1, fn.Pos(), fmt.Sprintf("%d receives from mc.maps", len(recvs))) {
				continue
			}
			taken := recvs[0].(ssa.Value)
			m := countOnPaths(fn, func(in ssa.Instruction) bool {
				sd, ok := in.(*ssa.Send)
				return ok && strings.HasSuffix(pathOf(sd.Chan), ".maps") && sd.X == taken
			})
			r.Check(name+":put-back-exactly-once", m == 2 && len(sends) == 1, fn.Pos(), "the taken slot is sent back over all paths "+maskString(m)+" times")
			// the merge happens between take and put
			okMid := false
			for _, cl := range callsIn(fn) {
				if cal := staticCallee(cl); cal != nil && (cal.Name() == "Merge" || cal.Name() == "Receive") {
					if cl.Common().Args[0] == taken && instrDominates(recvs[0], cl) && len(sends) == 1 && instrReaches(cl, sends[0]) && !instrReaches(sends[0], cl) {
						okMid = true
					}
				}
			}
			r.Check(name+":merge-into-taken-slot", okMid, fn.Pos(), "data is merged into the taken slot before it is put back")
		}
		dr := w.Func("", "(*MetricConsolidator).DrainWithContext")
		fl := w.Func("", "(*MetricConsolidator).Flush")
		fi := w.Func("", "(*MetricConsolidator).Fill")
		if dr == nil || fl == nil || fi == nil {
			r.Unresolved("MetricConsolidator.DrainWithContext / Flush / Fill")
			return
		}
		c.SawFunc(FuncName(dr))
		c.SawFunc(FuncName(fl))
		c.SawFunc(FuncName(fi))
		// Drain: loop bound cap(mc.maps)
		okCap := 0
		for _, fn := range []*ssa.Function{dr, fi} {
			eachInstr(fn, func(in ssa.Instruction) {
				if b, ok := in.(*ssa.BinOp); ok {
					switch b.Op {
					case token.LSS, token.GTR, token.LEQ, token.GEQ, token.NEQ, token.EQL:
					default:
						return
					}
					// a loop bound: the comparison decides a branch of a loop head
					inLoop := false
					for _, ref := range referrers(b) {
						if ifi, ok := ref.(*ssa.If); ok && reachableFrom(ifi.Block())[ifi.Block()] {
							inLoop = true
						}
					}
					for _, side := range []ssa.Value{b.X, b.Y} {
						if cl, ok := side.(*ssa.Call); ok && inLoop && isCall(cl, "builtin cap") && strings.HasSuffix(pathOf(cl.Call.Args[0]), ".maps") {
							okCap++
						}
					}
				}
			})
		}
		r.Check("Drain/Fill:loop-over-all-slots", okCap == 2, dr.Pos(), "both loops run cap(mc.maps) times")
		// Drain: on cancellation everything taken is put back and nil returned
		okRestore := false
		eachInstr(dr, func(in ssa.Instruction) {
			if rt, ok := in.(*ssa.Return); ok && isNilConst(rt.Results[0]) {
				// a send loop over mms dominates this return
				eachInstr(dr, func(in2 ssa.Instruction) {
					if sd, ok := in2.(*ssa.Send); ok && strings.HasSuffix(pathOf(sd.Chan), ".maps") {
						// the value sent back is an element of the slice of taken maps, selected by a loop counter
						if ld, ok := sd.X.(*ssa.UnOp); ok && ld.Op == token.MUL {
							if ia, ok := ld.X.(*ssa.IndexAddr); ok {
								idx := ia.Index
								if b := asBinOp(idx, token.ADD); b != nil {
									idx = b.X
								}
								if ph, ok := idx.(*ssa.Phi); ok && isLoopHead(ph.Block()) && reachableFrom(sd.Block())[rt.Block()] {
									okRestore = true
								}
							}
						}
					}
				})
			}
		})
		r.Check("Drain:restores-on-cancel", okRestore, dr.Pos(), "on cancellation every map already taken is sent back before returning nil")
		// Flush: sink <- Drain(); Fill()
		var sendSink *ssa.Send
		eachInstr(fl, func(in ssa.Instruction) {
			if sd, ok := in.(*ssa.Send); ok && strings.HasSuffix(pathOf(sd.Chan), ".sink") {
				sendSink = sd
			}
		})
		okFlush := false
		var fillCall ssa.CallInstruction
		for _, cl := range callsIn(fl) {
			if staticCallee(cl) == fi {
				fillCall = cl
			}
		}
		if sendSink != nil {
			if cl, ok := sendSink.X.(*ssa.Call); ok && staticCallee(cl) != nil && strings.HasPrefix(staticCallee(cl).Name(), "Drain") {
				okFlush = true
			}
		}
		r.Check("Flush:sends-drained", okFlush, fl.Pos(), "Flush sends Drain()'s result to the sink")
		r.Check("Flush:then-fill", fillCall != nil && sendSink != nil && instrDominates(sendSink, fillCall), fl.Pos(), "Fill() follows the hand-over")
		// only fresh maps are put into slots by Flush/Fill
		for _, fn := range []*ssa.Function{fl, fi} {
			sends, _ := chanFieldOps(fn, "maps")
			for _, s := range sends {
				sd := s.(*ssa.Send)
				cl, ok := sd.X.(*ssa.Call)
				r.Check(fn.Name()+":slots-get-fresh-maps", ok && isCall(cl, "gostatsd.NewMetricMap"), sd.Pos(), "value put into a slot after a flush: "+pathOf(sd.X)+" (a map already handed to the forwarder must not stay live in the consolidator)")
			}
		}
		sendsFi, _ := chanFieldOps(fi, "maps")
		r.Check("Fill:fills", len(sendsFi) == 1, fi.Pos(), "Fill puts a new map into each slot")
		// the forwarder dispatches into the consolidator
		dm := w.Func("pkg/statsd", "(*HttpForwarderHandlerV2).DispatchMetricMap")
		if dm != nil {
			ok := false
			for _, cl := range callsTo(dm, "(*gostatsd.MetricConsolidator).ReceiveMetricMap") {
				ok = paramIndex(dm, cl.Common().Args[1]) == 2
			}
			r.Check("DispatchMetricMap:into-consolidator", ok, dm.Pos(), "DispatchMetricMap merges the batch into the consolidator")
		}
	})

	c.Rule("C15.R5", "serialisability: strings reaching proto3 string fields are valid UTF-8 by construction (sanitised or rejected earlier)", 1, func(r *Rule) {
		enc := w.Func("pkg/statsd", "translateToProtobufV2")
		if enc == nil {
			r.Unresolved("translateToProtobufV2")
			return
		}
		san := false
		for _, fn := range append(WithAnon(enc), pkgFuncs(w, lexPkg)...) {
			for _, cl := range callsIn(fn) {
				if isCall(cl, "strings.ToValidUTF8", "unicode/utf8.Valid", "unicode/utf8.ValidString", "bytes.ToValidUTF8") {
					san = true
				}
			}
		}
		r.Check("translateToProtobufV2:utf8-unsanitised", san, enc.Pos(), "neither the lexer nor the encoder validates or sanitises UTF-8; a tag such as a:\\xff makes proto.Marshal fail for the whole merged batch")
	})

	c.Rule("C15.R6", "SplitByTags puts each series in exactly one request (C06.R2b)", 20, func(r *Rule) {
		sub := &Ctx{W: w, Prop: c.Prop, Tier: c.Tier, known: c.known, Only: "C06.R2b"}
		c06rules(sub, w, "C06")
		for _, sr := range sub.Rules {
			for _, o := range sr.Obls {
				o2 := *o
				o2.Rule = "C15.R6"
				r.Obls = append(r.Obls, &o2)
			}
		}
		// the dynamic header is derived from this request's tags key
		cp := w.Func("pkg/statsd", "(*HttpForwarderHandlerV2).constructPost")
		if cp != nil {
			ok := false
			for _, g := range WithAnon(cp) {
				for _, cl := range callsTo(g, "strings.Split") {
					// constructPost's own dynamic-header parameter (the last string parameter), under whatever name it
					// reaches the split (a captured copy, a field of a request struct taken apart by NORM)
					if valueName(cl.Common().Args[0]) == "dynHeaderTags" {
						ok = true
					}
					if p, isP := ptrOrigin(cl.Common().Args[0]).(*ssa.Parameter); isP && p.Parent() == cp && p == cp.Params[len(cp.Params)-1] {
						ok = true
					}
				}
			}
			r.Check("constructPost:header-from-split-key", ok, cp.Pos(), "dynamic headers are parsed from this request's dynHeaderTags")
		}
	})

	c.Rule("C15.R8", "matching header: a dynamic-header tag 'name:value' is split at its first ':' only, so the request of a split carries the tag's whole value", 2, func(r *Rule) {
		cp := w.Func("pkg/statsd", "(*HttpForwarderHandlerV2).constructPost")
		if cp == nil {
			r.Unresolved("(*HttpForwarderHandlerV2).constructPost")
			return
		}
		c.SawFunc(FuncName(cp))
		n := 0
		for _, g := range WithAnon(cp) {
			for _, cl := range callsIn(g) {
				name := calleeName(cl)
				if name != "strings.Split" && name != "strings.SplitN" && name != "strings.Cut" {
					continue
				}
				sep, ok := constString(cl.Common().Args[1])
				if !ok || sep != ":" {
					continue
				}
				n++
				switch name {
				case "strings.Cut":
					r.Pass("header:split-at-first-colon", cl.Pos(), "strings.Cut(tag, \":\")")
				case "strings.SplitN":
					k, isC := constInt(cl.Common().Args[2])
					r.Check("header:split-at-first-colon", isC && k == 2, cl.Pos(), "strings.SplitN(tag, \":\", 2)")
				default:
					r.Fail("header:split-at-first-colon", cl.Pos(), "strings.Split(tag, \":\") cuts a value that contains ':' into pieces: the header is lost or truncated")
				}
			}
			// the header value set on the request is the part after the separator
			for _, cl := range callsTo(g, "(net/http.Header).Set") {
				if s, isS := constString(cl.Common().Args[1]); isS && strings.Contains(strings.ToLower(s), "encoding") {
					continue
				}
				if _, isS := constString(cl.Common().Args[1]); isS {
					continue // fixed headers
				}
				v := cl.Common().Args[2]
				okV := false
				switch x := v.(type) {
				case *ssa.Extract:
					if cc, ok := x.Tuple.(*ssa.Call); ok && isCall(cc, "strings.Cut") && x.Index == 1 {
						okV = true
					}
					if _, ok := x.Tuple.(*ssa.Next); ok {
						okV = true // ranging over a prepared header map: its construction is covered by the split check
					}
				case *ssa.UnOp:
					if ia, ok := x.X.(*ssa.IndexAddr); ok {
						if k, isC := constInt(ia.Index); isC && k == 1 {
							okV = true
						}
					}
				}
				r.Check("header:value-is-remainder", okV, cl.Pos(), "dynamic header value is the part after the first ':' : "+pathOf(v))
			}
		}
		r.Check("header:split-sites", n >= 1, cp.Pos(), fmt.Sprintf("%d ':' split sites in constructPost", n))
		// a request's dynamic headers are its own: the handler-wide static header map is only read after
		// construction (a value written into it by one request is carried by every later request)
		nw := 0
		for _, fn := range pkgFuncs(w, "pkg/statsd") {
			if strings.HasPrefix(fn.Name(), "NewHttpForwarderHandlerV2") {
				continue
			}
			eachInstr(fn, func(in ssa.Instruction) {
				var m ssa.Value
				switch x := in.(type) {
				case *ssa.MapUpdate:
					m = x.Map
				case ssa.CallInstruction:
					if isCall(x, "builtin delete") || isCall(x, "builtin clear") {
						m = x.Common().Args[0]
					} else if strings.HasPrefix(calleeName(x), "maps.Copy") {
						m = x.Common().Args[0]
					}
				}
				if m == nil {
					return
				}
				if t, f, _, ok := fieldRefThroughLoad(ptrOrigin(m)); ok && t == "HttpForwarderHandlerV2" && f == "headers" {
					nw++
					r.Fail("headers:static-map-not-written", in.Pos(), "the handler's static header map is modified in "+FuncName(fn)+": headers set for one request leak into all later ones (and concurrent posts race on the map)")
				}
			})
		}
		if nw == 0 {
			r.Pass("headers:static-map-not-written", cp.Pos(), "hfh.headers is written only by the constructor")
		}
	})

	c.Rule("C15.R9", "dynamic-header selection is anchored at tag boundaries: every 'name:value' that tagsMatch selects is a whole element of the tags key split at ',' and begins with a configured header name (a name found in the middle of another tag, or inside a value, must not select the series' request)", 3, func(r *Rule) {
		tm := w.Func("", "tagsMatch")
		if tm == nil || len(tm.Params) != 2 {
			r.Unresolved("tagsMatch")
			return
		}
		c.SawFunc(FuncName(tm))
		isKeySplit := func(v ssa.Value) bool {
			cl, ok := ptrOrigin(v).(*ssa.Call)
			if !ok || !isCall(cl, "strings.Split") {
				return false
			}
			sep, isS := constString(cl.Call.Args[1])
			return isS && sep == "," && ptrOrigin(cl.Call.Args[0]) == ssa.Value(tm.Params[1])
		}
		// a whole element of the split key: split[i], the range value over the split, or the part before the next
		// ',' cut off the (rest of the) key
		var wholeTag func(v ssa.Value, d int) bool
		wholeTag = func(v ssa.Value, d int) bool {
			if d > 4 {
				return false
			}
			switch x := ptrOrigin(v).(type) {
			case *ssa.UnOp:
				if ia, ok := x.X.(*ssa.IndexAddr); ok && x.Op == token.MUL {
					return isKeySplit(ia.X)
				}
			case *ssa.Extract:
				if nx, ok := x.Tuple.(*ssa.Next); ok {
					if rg, ok := nx.Iter.(*ssa.Range); ok {
						return x.Index == 2 && isKeySplit(rg.X)
					}
				}
				if cc, ok := x.Tuple.(*ssa.Call); ok && isCall(cc, "strings.Cut") && x.Index == 0 {
					sep, isS := constString(cc.Call.Args[1])
					if !isS || sep != "," {
						return false
					}
					// cut off the key itself or off the remainder of an earlier cut
					var rest func(y ssa.Value, d2 int) bool
					seen := map[ssa.Value]bool{}
					rest = func(y ssa.Value, d2 int) bool {
						if d2 > 4 || seen[y] {
							return true
						}
						seen[y] = true
						y = ptrOrigin(y)
						if y == ssa.Value(tm.Params[1]) {
							return true
						}
						if ph, ok := y.(*ssa.Phi); ok {
							for _, e := range ph.Edges {
								if !rest(e, d2+1) {
									return false
								}
							}
							return true
						}
						if ex, ok := y.(*ssa.Extract); ok && ex.Index == 1 {
							if c2, ok := ex.Tuple.(*ssa.Call); ok && isCall(c2, "strings.Cut") {
								s2, isS2 := constString(c2.Call.Args[1])
								return isS2 && s2 == "," && rest(c2.Call.Args[0], d2+1)
							}
						}
						return false
					}
					return rest(cc.Call.Args[0], 0)
				}
			}
			return false
		}
		isName := func(v ssa.Value) bool {
			switch x := ptrOrigin(v).(type) {
			case *ssa.UnOp:
				if ia, ok := x.X.(*ssa.IndexAddr); ok && x.Op == token.MUL {
					return ptrOrigin(ia.X) == ssa.Value(tm.Params[0])
				}
			case *ssa.Extract:
				if nx, ok := x.Tuple.(*ssa.Next); ok {
					if rg, ok := nx.Iter.(*ssa.Range); ok {
						return ptrOrigin(rg.X) == ssa.Value(tm.Params[0])
					}
				}
			}
			return false
		}
		n := 0
		for _, cl := range callsTo(tm, "builtin append") {
			call, ok := cl.(*ssa.Call)
			if !ok || len(call.Call.Args) != 2 {
				continue
			}
			if _, isStr := call.Type().Underlying().(*types.Slice).Elem().Underlying().(*types.Basic); !isStr {
				continue
			}
			for _, el := range varargElems(call.Call.Args[1]) {
				n++
				r.Check("tagsMatch:selects-whole-tags", wholeTag(el, 0), call.Pos(), "the selected text "+exprString(el, 0)+" is a whole element of the tags key split at ','")
				okP := holdsAtOrViaFlag(call.Block(), func(facts []canonCond) bool {
					return callKnown(facts, func(pc *ssa.Call) bool {
						return isCall(pc, "strings.HasPrefix") && ptrOrigin(pc.Call.Args[0]) == ptrOrigin(el) && isName(pc.Call.Args[1])
					}, true)
				})
				r.Check("tagsMatch:selected-by-name-prefix", okP, call.Pos(), "selected only where strings.HasPrefix(tag, name) holds for a configured header name")
			}
		}
		r.Check("tagsMatch:selection-sites", n >= 1, tm.Pos(), fmt.Sprintf("%d selection sites", n))
	})

	c.Rule("C15.R7", "request bodies do not alias pooled buffers (C14.R6)", 1, func(r *Rule) {
		pooledEscapes(w, r, "pool-escape:")
	})

	c.Rule("C15.R10", "every datapoint is in the body as it was dispatched: a series' slices in the outgoing message are its own, not a buffer re-used for the next series (C14.R8, shared)", 1, func(r *Rule) {
		importObligations(c, r, c14, "C14.R8", nil)
	})
}

func c20(c *Ctx) {
	w := c.W
	c.Explanation = "C20 (Lambda extension asks for the next invocation only after flushing): the heartbeat flushes once, then on every loop iteration waits for the flush notification before GET /next; the forwarder posts before notifying, exactly one notification per request (or per empty split), none outside the per-split loop; the coordinator's wait is a plain blocking receive; the telemetry handler invokes the flush hook exactly for runtimeDone records; the same coordinator is wired into the server, the manager and the forwarder, which then does not run the timer-driven consolidator loop; a start-up failure reaches the init-error endpoint."
	c.NotDecided = []string{"that the upstream POST has finished on the wire (HTTP client)", "that one runtimeDone per invocation arrives (AWS)", "configurations with dynamic headers (several requests per flush) are outside the property's quantifier"}

	c.Rule("C20.R1", "heartbeat: Flush first, then on every path WaitForFlush precedes each GET /next", 4, func(r *Rule) {
		hb := w.Func("internal/awslambda/extension", "(*manager).heartbeat")
		if hb == nil {
			r.Unresolved("(*manager).heartbeat")
			return
		}
		c.SawFunc(FuncName(hb))
		names := []string{"Flush", "WaitForFlush", "nextEvent"}
		cnt := map[int]int{}
		ev := func(in ssa.Instruction) int {
			cl, ok := in.(ssa.CallInstruction)
			if !ok {
				return -1
			}
			cc := cl.Common()
			if cc.IsInvoke() && typeIs(cc.Value.Type(), "internal/flush", "Coordinator") {
				switch cc.Method.Name() {
				case "Flush":
					return 0
				case "WaitForFlush":
					return 1
				}
			}
			if cal := staticCallee(cl); cal != nil && cal.Name() == "nextEvent" {
				return 2
			}
			return -1
		}
		eachInstr(hb, func(in ssa.Instruction) {
			if e := ev(in); e >= 0 {
				cnt[e]++
				if e < 2 {
					r.Check("heartbeat:"+names[e]+"-on-m.fc", pathOf(in.(ssa.CallInstruction).Common().Value) == "m.fc", in.Pos(), names[e]+" is called on the manager's coordinator")
					_, isCall := in.(*ssa.Call)
					r.Check("heartbeat:"+names[e]+"-synchronous", isCall, in.Pos(), names[e]+" is a plain call")
				}
			}
		})
		// states: 0 = nothing yet, 1 = flush requested, not yet confirmed, 2 = confirmed (may ask for next)
		res := runAutomaton(hb, 0, ev, func(s, e int) int {
			switch e {
			case 0:
				return 1
			case 1:
				if s == 0 {
					return -1
				}
				return 2
			case 2:
				if s != 2 {
					return -1
				}
				return 1
			}
			return s
		})
		for _, e := range res.Errors {
			why := "GET /next requested without a preceding WaitForFlush on this path"
			if e.Event == 1 {
				why = "WaitForFlush before the initial Flush"
			}
			r.Fail("heartbeat:order", e.At.Pos(), why)
		}
		r.Check("heartbeat:wait-before-every-next", len(res.Errors) == 0 && cnt[1] >= 1 && cnt[2] >= 1, hb.Pos(), fmt.Sprintf("%d WaitForFlush, %d nextEvent call sites; no path reaches nextEvent unconfirmed", cnt[1], cnt[2]))
		r.Check("heartbeat:initial-flush", cnt[0] >= 1, hb.Pos(), "an initial Flush precedes the first request")
	})

	c.Rule("C20.R2", "forwarder: post before notify, exactly one notification per request or empty split, none outside the per-split loop", 10, func(r *Rule) {
		perSplitRule(c, r)
	})

	c.Rule("C20.R3", "wiring: coordinator wait/notify are plain channel operations; runtimeDone triggers the flush hook; one coordinator is shared by server, manager and forwarder; manual mode disables the timer-driven flush loop", 10, func(r *Rule) {
		// coordinator
		wf := w.Func("internal/flush", "(*coordinator).WaitForFlush")
		nf := w.Func("internal/flush", "(*coordinator).NotifyFlush")
		cf := w.Func("internal/flush", "(*coordinator).Flush")
		if wf == nil || nf == nil || cf == nil {
			r.Unresolved("flush.(*coordinator).WaitForFlush / NotifyFlush / Flush")
			return
		}
		c.SawFunc(FuncName(wf))
		ninstr := 0
		okRecv := false
		eachInstr(wf, func(in ssa.Instruction) {
			switch x := in.(type) {
			case *ssa.UnOp:
				if x.Op == token.ARROW && strings.HasSuffix(pathOf(x.X), ".flushChan") {
					if ld, ok := x.X.(*ssa.UnOp); ok {
						if _, _, base, ok := fieldRef(ld.X); ok && len(wf.Params) > 0 && base == ssa.Value(wf.Params[0]) {
							okRecv = true
						}
					}
				}
			case *ssa.Select, ssa.CallInstruction:
				ninstr++
			}
		})
		r.Check("coordinator:wait-is-blocking-receive", okRecv && ninstr == 0, wf.Pos(), "WaitForFlush is exactly `<-fm.flushChan` (no select, timer or other call that could return early)")
		sends, _ := chanFieldOps(nf, "flushChan")
		r.Check("coordinator:notify-is-send", len(sends) == 1, nf.Pos(), "NotifyFlush sends one token")
		okT := false
		for _, cl := range callsIn(cf) {
			if cl.Common().IsInvoke() && cl.Common().Method.Name() == "Flush" {
				okT = true
			}
		}
		if !okT {
			// the Flushable's bound Flush method kept in a field: Flush calls that field, and everything ever stored
			// in the field is a bound Flush method (or nil)
			for _, cl := range callsIn(cf) {
				if cl.Common().IsInvoke() || staticCallee(cl) != nil {
					continue
				}
				_, field, _, isField := fieldRefThroughLoad(ptrOrigin(cl.Common().Value))
				if !isField {
					// through a getter
					if gc, isCall := ptrOrigin(cl.Common().Value).(*ssa.Call); isCall {
						if g := staticCallee(gc); g != nil {
							eachInstr(g, func(in ssa.Instruction) {
								if rt, ok := in.(*ssa.Return); ok && len(rt.Results) == 1 {
									if _, f2, _, ok2 := fieldRefThroughLoad(rt.Results[0]); ok2 {
										field, isField = f2, true
									}
								}
							})
						}
					}
				}
				if !isField {
					continue
				}
				nSt, allBound := 0, true
				for _, fn := range pkgFuncs(w, "internal/flush") {
					for _, st := range fieldStores(fn, "coordinator", field) {
						nSt++
						for _, vc := range valueCases(st.Val, nil) {
							switch x := vc.V.(type) {
							case *ssa.Const:
								if x.Value != nil {
									allBound = false
								}
							case *ssa.MakeClosure:
								if f, ok := x.Fn.(*ssa.Function); !ok || !strings.HasPrefix(f.Name(), "Flush$bound") {
									allBound = false
								}
							default:
								allBound = false
							}
						}
					}
				}
				if nSt >= 1 && allBound {
					okT = true
				}
			}
		}
		r.Check("coordinator:flush-forwards", okT, cf.Pos(), "Flush calls the registered Flushable")
		// a flush is acknowledged only by NotifyFlush (the forwarder, after its post): nothing else puts a token into
		// the channel, and a flush request is never answered without flushing - between entry and the call of the
		// target only the "no target registered" test may decide
		for _, fn := range pkgFuncs(w, "internal/flush") {
			if fn == nf {
				continue
			}
			snd, _ := chanFieldOps(fn, "flushChan")
			r.Check("coordinator:only-NotifyFlush-acknowledges:"+fn.Name(), len(snd) == 0, fn.Pos(), fmt.Sprintf("%d sends on flushChan in %s (a self-made acknowledgement lets the next invocation be requested with datapoints still unsent)", len(snd), fn.Name()))
		}
		for _, cl := range callsIn(cf) {
			isTargetCall := cl.Common().IsInvoke() && cl.Common().Method.Name() == "Flush"
			if !isTargetCall && !cl.Common().IsInvoke() && staticCallee(cl) == nil {
				isTargetCall = true // the bound method kept in a field
			}
			if !isTargetCall {
				continue
			}
			for _, cd := range condsFor(cl.Block()) {
				f := canonOf(cd)
				nilTest := (f.Op == token.NEQ || f.Op == token.EQL) && (isNilConst(f.Y) || isNilConst(f.X))
				r.Check("coordinator:flush-unconditional", nilTest, cl.Pos(), "the target is flushed on every request; the call depends on "+condExpr(cd.V))
			}
		}
		// telemetry handler
		eh := w.Func("internal/awslambda/extension/telemetry", "(*Server).eventHandler")
		if eh == nil {
			r.Unresolved("telemetry.(*Server).eventHandler")
			return
		}
		c.SawFunc(FuncName(eh))
		nHook := 0
		for _, cl := range callsIn(eh) {
			// the hook: a function-typed field of the server, called dynamically
			isHook := false
			if !cl.Common().IsInvoke() && staticCallee(cl) == nil {
				if ld, ok := cl.Common().Value.(*ssa.UnOp); ok && ld.Op == token.MUL {
					if t, _, base, ok := fieldRef(ld.X); ok && t == "Server" && len(eh.Params) > 0 && ptrOrigin(base) == ssa.Value(eh.Params[0]) {
						isHook = true
					}
				}
			}
			// ... or looked up by record type in a table kept in the server (hooks[p.Type]): then the table must hold
			// exactly one entry, for RuntimeDone, and the call stands under the "found" result of the lookup
			if !isHook && !cl.Common().IsInvoke() && staticCallee(cl) == nil {
				if ex, ok := cl.Common().Value.(*ssa.Extract); ok && ex.Index == 0 {
					if lk, ok := ex.Tuple.(*ssa.Lookup); ok && lk.CommaOk && strings.HasSuffix(pathOf(lk.Index), ".Type") {
						if t, field, _, ok := fieldRefThroughLoad(lk.X); ok && t == "Server" {
							found := false
							for _, f := range factsAt(cl.Block()) {
								if f.Op == token.ILLEGAL && f.True {
									if e2, ok := f.V.(*ssa.Extract); ok && e2.Tuple == ssa.Value(lk) && e2.Index == 1 {
										found = true
									}
								}
							}
							keys, other := 0, false
							for _, fn := range pkgFuncs(w, "internal/awslambda/extension/telemetry") {
								eachInstr(fn, func(in ssa.Instruction) {
									mu, ok := in.(*ssa.MapUpdate)
									if !ok {
										return
									}
									// the map being filled is (or becomes) the server's table
									isTable := strings.HasSuffix(pathOf(mu.Map), "."+field)
									if mk, isMk := mu.Map.(*ssa.MakeMap); isMk {
										for _, st := range fieldStores(fn, "Server", field) {
											if st.Val == ssa.Value(mk) {
												isTable = true
											}
										}
									}
									if !isTable {
										return
									}
									if k, isC := mu.Key.(*ssa.Const); isC && constName(k) == "RuntimeDone" {
										keys++
									} else {
										other = true
									}
								})
							}
							if found && keys == 1 && !other {
								nHook++
								r.Pass("telemetry:hook-on-runtimeDone", cl.Pos(), "the hook is looked up by record type in a table whose only entry is RuntimeDone, and called only when found")
								r.Check("telemetry:hook-per-record", reachableFrom(cl.Block())[cl.Block()], cl.Pos(), "the hook is inside the loop over the telemetry batch")
								_, isCall := cl.(*ssa.Call)
								r.Check("telemetry:hook-synchronous", isCall, cl.Pos(), "the hook is called synchronously")
							}
						}
					}
				}
			}
			if isHook {
				nHook++
				isType := func(v ssa.Value) bool { return strings.HasSuffix(pathOf(v), ".Type") }
				isDone := func(v ssa.Value) bool { k, isC := v.(*ssa.Const); return isC && constName(k) == "RuntimeDone" }
				ok := cmpHolds(factsAt(cl.Block()), isType, isDone, token.EQL)
				r.Check("telemetry:hook-on-runtimeDone", ok, cl.Pos(), "the hook runs exactly for records of type RuntimeDone")
				r.Check("telemetry:hook-per-record", reachableFrom(cl.Block())[cl.Block()], cl.Pos(), "the hook is inside the loop over the telemetry batch")
				_, isCall := cl.(*ssa.Call)
				r.Check("telemetry:hook-synchronous", isCall, cl.Pos(), "the hook is called synchronously")
			}
		}
		r.Check("telemetry:one-hook-site", nHook == 1, eh.Pos(), fmt.Sprintf("%d hook call sites", nHook))
		// WithManualFlushEnabled: m.fc = fc; telemetry.NewServer(..., fc.Flush)
		wm := w.Func("internal/awslambda/extension", "WithManualFlushEnabled")
		if wm == nil {
			r.Unresolved("WithManualFlushEnabled")
			return
		}
		okFc, okHook := false, false
		for _, g := range WithAnon(wm) {
			for _, st := range fieldStores(g, "manager", "fc") {
				if valueName(st.Val) == "fc" {
					okFc = true
				}
			}
			for _, cl := range callsTo(g, "internal/awslambda/extension/telemetry.NewServer") {
				a := cl.Common().Args
				if mc, ok := stripConv(a[len(a)-1]).(*ssa.MakeClosure); ok && strings.HasPrefix(mc.Fn.Name(), "Flush$bound") && len(mc.Bindings) == 1 && valueName(stripIfaceConv(mc.Bindings[0])) == "fc" {
					okHook = true
				}
			}
		}
		r.Check("manager:coordinator-stored", okFc, wm.Pos(), "m.fc = fc")
		r.Check("manager:hook-is-coordinator-flush", okHook, wm.Pos(), "the telemetry hook is fc.Flush of the same coordinator")
		// NewExtension: one coordinator for server and manager
		ne := w.Func("pkg/lambda", "NewExtension")
		if ne == nil {
			r.Unresolved("lambda.NewExtension")
			return
		}
		var fcv ssa.Value
		for _, cl := range callsTo(ne, "internal/flush.NewFlushCoordinator") {
			fcv = cl.(*ssa.Call)
		}
		okSrv, okMgr := false, false
		for _, st := range fieldStores(ne, "Server", "ForwarderFlushCoordinator") {
			if st.Val == fcv && fcv != nil {
				okSrv = true
			}
		}
		for _, cl := range callsTo(ne, "internal/awslambda/extension.WithManualFlushEnabled") {
			if cl.Common().Args[0] == fcv && fcv != nil {
				okMgr = true
			}
		}
		r.Check("extension:same-coordinator", okSrv && okMgr, ne.Pos(), "the coordinator created in NewExtension is given to both the statsd server and the manager")
		// the manager runs the server copy that carries the coordinator
		okSrvArg := false
		for _, cl := range callsTo(ne, "internal/awslambda/extension.NewManager") {
			a := cl.Common().Args
			for _, st := range fieldStores(ne, "Server", "ForwarderFlushCoordinator") {
				_, _, base, _ := fieldRef(st.Addr)
				if len(a) >= 4 && stripIface(a[3]) == base {
					okSrvArg = true
				}
			}
		}
		r.Check("extension:manager-runs-that-server", okSrvArg, ne.Pos(), "NewManager receives the server value whose ForwarderFlushCoordinator was set")
		// server -> forwarder
		cs := w.Func("pkg/statsd", "(*Server).createForwarderSink")
		if cs != nil {
			ok := false
			for _, cl := range callsTo(cs, "pkg/statsd.NewHttpForwarderHandlerV2FromViper") {
				for _, a := range cl.Common().Args {
					if strings.HasSuffix(pathOf(a), ".ForwarderFlushCoordinator") {
						ok = true
					}
				}
			}
			r.Check("server:passes-coordinator", ok, cs.Pos(), "createForwarderSink passes s.ForwarderFlushCoordinator to the forwarder")
		} else {
			r.Unresolved("(*Server).createForwarderSink")
		}
		nh := w.Func("pkg/statsd", "NewHttpForwarderHandlerV2")
		if nh == nil {
			r.Unresolved("NewHttpForwarderHandlerV2")
			return
		}
		okReg, okField := false, false
		for _, cl := range callsIn(nh) {
			if cl.Common().IsInvoke() && cl.Common().Method.Name() == "RegisterFlushable" && valueName(cl.Common().Value) == "fc" {
				if mi, ok := cl.Common().Args[0].(*ssa.MakeInterface); ok {
					if c2, ok := mi.X.(*ssa.Call); ok && isCall(c2, "gostatsd.NewMetricConsolidator") {
						okReg = true
					}
				}
			}
		}
		for _, st := range fieldStores(nh, "HttpForwarderHandlerV2", "flushCoordinator") {
			if valueName(st.Val) == "fc" {
				okField = true
			}
		}
		r.Check("forwarder:registers-consolidator", okReg, nh.Pos(), "the forwarder registers its consolidator with the coordinator")
		r.Check("forwarder:keeps-coordinator", okField, nh.Pos(), "flushCoordinator field is the coordinator passed in")
		// Run: timer-driven consolidator only without a coordinator
		run, _, _ := forwarderRunParts(w)
		if run != nil {
			ok := false
			for _, g := range WithAnon(run) {
				for _, cl := range callsTo(g, "(*gostatsd.MetricConsolidator).Run") {
					for _, cd := range condsFor(cl.Block()) {
						cd = normCond(cd)
						if b := asBinOp(cd.V, token.EQL, token.NEQ); b != nil && isNilConst(b.Y) && strings.HasSuffix(pathOf(b.X), ".flushCoordinator") {
							if (b.Op == token.EQL && cd.Sense) || (b.Op == token.NEQ && !cd.Sense) {
								ok = true
							}
						}
					}
				}
			}
			r.Check("forwarder:no-timer-flush-in-manual-mode", ok, run.Pos(), "consolidator.Run (timer-driven flushing) only when no coordinator is configured")
		}
		// consolidator.Flush is the Flushable: sink <- Drain(); Fill()  (C15.R4 checks the shape)
		fl := w.Func("", "(*MetricConsolidator).Flush")
		r.Check("consolidator:is-flushable", fl != nil && fl.Signature.Params().Len() == 0, token.NoPos, "MetricConsolidator has Flush()")
	})

	c.Rule("C20.R4", "a server failure during start-up is reported to the runtime's init-error endpoint", 2, func(r *Rule) {
		run := w.Func("internal/awslambda/extension", "(*manager).Run")
		if run == nil {
			r.Unresolved("(*manager).Run")
			return
		}
		c.SawFunc(FuncName(run))
		n := 0
		for _, cl := range callsIn(run) {
			if cal := staticCallee(cl); cal != nil && cal.Name() == "initError" {
				n++
				// reached from the select case receiving from chErrs, before heartbeat is started
				okSel := false
				eachInstr(run, func(in ssa.Instruction) {
					if sel, ok := in.(*ssa.Select); ok {
						for k, st := range sel.States {
							if st.Dir == types.RecvOnly && valueName(st.Chan) == "chErrs" {
								_, to := selectCaseEdge(sel, k)
								if to != nil && (to == cl.Block() || to.Dominates(cl.Block())) {
									okSel = true
								}
							}
						}
					}
				})
				r.Check("Run:init-error-on-early-server-exit", okSel, cl.Pos(), "initError is called on the branch where the server reported an error (or exited) during start-up")
				// the report is sent under a live context: not one whose cancel function has already been called on
				// the way to this call (the POST would fail with "context canceled" before it is sent)
				dead := ""
				if len(cl.Common().Args) >= 2 {
					cv := ptrOrigin(cl.Common().Args[1])
					if ex, isEx := cv.(*ssa.Extract); isEx && ex.Index == 0 {
						if mk, isCall := ex.Tuple.(*ssa.Call); isCall && strings.HasPrefix(calleeName(mk), "context.With") {
							for _, ref := range referrers(mk) {
								cf, ok := ref.(*ssa.Extract)
								if !ok || cf.Index != 1 {
									continue
								}
								for _, g := range WithAnon(run) {
									eachInstr(g, func(in ssa.Instruction) {
										ci, ok := in.(*ssa.Call)
										if !ok || ptrOrigin(ci.Call.Value) != ssa.Value(cf) {
											return
										}
										if g == run && (instrDominates(ci, cl) || reachableFrom(ci.Block())[cl.Block()]) {
											dead = "cancelled at " + w.Pos(ci.Pos())
										}
									})
								}
							}
						}
					}
				}
				r.Check("Run:init-error-sent-under-live-context", dead == "", cl.Pos(), "the context given to initError has not been cancelled before the call "+dead)
			}
		}
		r.Check("Run:init-error-site", n == 1, run.Pos(), fmt.Sprintf("%d initError call sites", n))
		// ... and by every place that can take the server's error before the heartbeat starts: each select case
		// receiving from chErrs during start-up leads to initError on every path to a return (an earlier wait on
		// the same channel that returns by itself swallows the report)
		var hbBlock *ssa.BasicBlock
		eachInstr(run, func(in ssa.Instruction) {
			mc, ok := in.(*ssa.MakeClosure)
			if !ok {
				return
			}
			for _, cl := range callsIn(mc.Fn.(*ssa.Function)) {
				if cal := staticCallee(cl); cal != nil && cal.Name() == "heartbeat" {
					hbBlock = mc.Block()
				}
			}
		})
		hasInitErr := func(b *ssa.BasicBlock) bool {
			for _, in := range b.Instrs {
				if cl, ok := in.(ssa.CallInstruction); ok {
					if cal := staticCallee(cl); cal != nil && cal.Name() == "initError" {
						return true
					}
				}
			}
			return false
		}
		nRecv := 0
		eachInstr(run, func(in ssa.Instruction) {
			sel, ok := in.(*ssa.Select)
			if !ok || (hbBlock != nil && hbBlock != sel.Block() && hbBlock.Dominates(sel.Block())) {
				return
			}
			for k, st := range sel.States {
				if st.Dir != types.RecvOnly || valueName(st.Chan) != "chErrs" {
					continue
				}
				nRecv++
				_, to := selectCaseEdge(sel, k)
				okAll := to != nil
				if to != nil && !hasInitErr(to) {
					for _, b := range run.Blocks {
						if _, isRet := b.Instrs[len(b.Instrs)-1].(*ssa.Return); isRet && !hasInitErr(b) {
							if pathsAvoiding(to, b, hasInitErr) {
								okAll = false
							}
						}
					}
				}
				r.Check(fmt.Sprintf("Run:start-up-error-always-reported#%d", nRecv), okAll, sel.Pos(), "a start-up receive from chErrs reaches initError on every path to a return")
			}
		})
		r.Check("Run:start-up-receive-site", nRecv >= 1 && hbBlock != nil, run.Pos(), fmt.Sprintf("%d start-up receives from chErrs", nRecv))
		ie := w.Func("internal/awslambda/extension", "(*manager).initError")
		if ie != nil {
			ok := false
			eachInstr(ie, func(in ssa.Instruction) {
				for _, op := range in.Operands(nil) {
					if g, isG := (*op).(*ssa.Global); isG && strings.Contains(g.Name(), "InitError") {
						ok = true
					}
					if k, isK := (*op).(*ssa.Const); isK && k.Value != nil && constName(k) == "InitErrorEndpoint" {
						ok = true
					}
				}
			})
			r.Check("initError:endpoint", ok, ie.Pos(), "initError posts to the InitError endpoint")
		}
	})
}

func stripIface(v ssa.Value) ssa.Value {
	if mi, ok := v.(*ssa.MakeInterface); ok {
		return mi.X
	}
	return v
}

func stripIfaceConv(v ssa.Value) ssa.Value {
	for {
		switch x := v.(type) {
		case *ssa.ChangeInterface:
			v = x.X
		case *ssa.TypeAssert:
			v = x.X
		case *ssa.MakeInterface:
			v = x.X
		default:
			return v
		}
	}
}

// derefCell: if v is a load of a local variable cell that is assigned exactly once, the assigned
// value; otherwise v.  (A variable captured by a function literal lives in such a cell.)
func derefCell(v ssa.Value) ssa.Value {
	for i := 0; i < 4; i++ {
		ld, ok := v.(*ssa.UnOp)
		if !ok || ld.Op != token.MUL {
			return v
		}
		cell := cellOf(ld.X)
		if cell == nil {
			return v
		}
		var val ssa.Value
		n := 0
		for _, ref := range referrers(cell) {
			if st, ok := ref.(*ssa.Store); ok && st.Addr == ssa.Value(cell) {
				n++
				val = st.Val
			}
		}
		if n != 1 {
			return v
		}
		v = val
	}
	return v
}
