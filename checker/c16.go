package main

import (
	"fmt"
	"go/token"
	"go/types"
	"strings"

	"golang.org/x/tools/go/ssa"
)

func init() { register("C16", c16) }

// chanFieldOp describes a channel operation on a struct field: ("send"|"recv", field name).
func chanFieldOps(fn *ssa.Function, field string) (sends, recvs []ssa.Instruction) {
	eachInstr(fn, func(in ssa.Instruction) {
		switch x := in.(type) {
		case *ssa.Send:
			if strings.HasSuffix(pathOf(x.Chan), "."+field) {
				sends = append(sends, in)
			}
		case *ssa.UnOp:
			if x.Op == token.ARROW && strings.HasSuffix(pathOf(x.X), "."+field) {
				recvs = append(recvs, in)
			}
		}
	})
	return
}

func c16(c *Ctx) {
	w := c.W
	c.Explanation = "C16 (each backend flush request completes exactly once): for every type implementing gostatsd.Backend the completion callback is consumed exactly once on every control path of SendMetricsAsync (called, handed to exactly one goroutine that calls it once, or moved into a sender.Stream that is sent once); the socket sender never completes a stream twice and completes held/queued streams at shutdown; the flusher's WaitGroup matches one Done per callback; HTTP collectors pass every result and the cancellation error to the callback; request semaphores are released on every path."
	c.NotDecided = []string{"timing of recovery", "that the error reported is the right one"}

	impls := backendImpls(w, "SendMetricsAsync")

	c.Rule("C16.R1", "linear callback: every SendMetricsAsync consumes its callback exactly once on every path", 9, func(r *Rule) {
		for _, fn := range impls {
			c.SawFunc(FuncName(fn))
			if len(fn.Params) != 4 {
				r.Fail(FuncName(fn), fn.Pos(), "unexpected SendMetricsAsync signature")
				continue
			}
			rep := linearUse(w, fn, fn.Params[3], 0)
			r.Check(FuncName(fn), rep.Mask == 2 && len(rep.Problems) == 0, fn.Pos(), rep.String())
		}
	})

	c.Rule("C16.R7", "a request waiting for the sender can still be cancelled: a backend hands its stream to the shared Sender in a select that also watches Done() of the request's context (a plain send blocks the flush, and its callback, for as long as the sender's queue is full)", 2, func(r *Rule) {
		n := 0
		for _, fn := range impls {
			for _, g := range WithAnon(fn) {
				eachInstr(g, func(in ssa.Instruction) {
					switch x := in.(type) {
					case *ssa.Send:
						if strings.HasSuffix(pathOf(x.Chan), "sender.Sink") {
							n++
							r.Check("sink-send:cancellable:"+FuncName(g), false, x.Pos(), "the stream is handed to the sender with a plain (uncancellable) send")
						}
					case *ssa.Select:
						isSink, hasDone := false, false
						for _, st := range x.States {
							if st.Dir == types.SendOnly && strings.HasSuffix(pathOf(st.Chan), "sender.Sink") {
								isSink = true
							}
							if st.Dir == types.RecvOnly {
								if cl, ok := st.Chan.(*ssa.Call); ok && cl.Call.IsInvoke() && cl.Call.Method.Name() == "Done" && paramIndex(fn, cl.Call.Value) == 1 {
									hasDone = true
								}
							}
						}
						if isSink {
							n++
							r.Check("sink-send:cancellable:"+FuncName(g), hasDone && x.Blocking, x.Pos(), "the stream is handed to the sender in a blocking select that also waits for ctx.Done()")
						}
					}
				})
			}
		}
		r.Check("sink-send:sites", n >= 2, token.NoPos, fmt.Sprintf("%d hand-overs to a Sender", n))
	})

	c.Rule("C16.R2", "sender streams: after a stream's callback is called the stream is dropped before the next loop iteration, return or callback; held and queued streams are completed at shutdown", 6, func(r *Rule) {
		run := w.Func("pkg/backends/sender", "(*Sender).Run")
		inner := w.Func("pkg/backends/sender", "(*Sender).innerRun")
		cleanup := w.Func("pkg/backends/sender", "(*Sender).cleanup")
		if run == nil || inner == nil || cleanup == nil {
			r.Unresolved("sender.(*Sender).Run / innerRun / cleanup")
			return
		}
		c.SawFunc(FuncName(run))
		c.SawFunc(FuncName(inner))
		c.SawFunc(FuncName(cleanup))
		isCbCall := func(in ssa.Instruction) (ssa.Value, bool) {
			cl, ok := in.(ssa.CallInstruction)
			if !ok {
				return nil, false
			}
			v := cl.Common().Value
			if u, ok := v.(*ssa.UnOp); ok && u.Op == token.MUL {
				if t, f, base, ok := fieldRef(u.X); ok && t == "Stream" && f == "Cb" {
					return base, true
				}
			}
			if fl, ok := v.(*ssa.Field); ok {
				if t, f, base, ok := fieldRef(fl); ok && t == "Stream" && f == "Cb" {
					return base, true
				}
			}
			return nil, false
		}
		// Run: `stream` is a captured variable (alloc). Automaton over its stores and Cb calls.
		var streamAlloc *ssa.Alloc
		eachInstr(run, func(in ssa.Instruction) {
			if al, ok := in.(*ssa.Alloc); ok && al.Comment == "stream" {
				streamAlloc = al
			}
		})
		if streamAlloc == nil {
			r.Fail("Run:stream-variable", run.Pos(), "variable 'stream' not found in Run")
		} else {
			const (
				evCb = iota
				evClear
				evSet
			)
			res := runAutomaton(run, 0, func(in ssa.Instruction) int {
				if base, ok := isCbCall(in); ok {
					if u, ok := base.(*ssa.UnOp); ok && u.X == ssa.Value(streamAlloc) {
						return evCb
					}
				}
				if st, ok := in.(*ssa.Store); ok && st.Addr == ssa.Value(streamAlloc) {
					if isNilConst(st.Val) {
						return evClear
					}
					return evSet
				}
				return -1
			}, func(s, e int) int {
				switch e {
				case evCb:
					if s == 1 {
						return -1 // completed twice
					}
					return 1
				case evClear, evSet:
					return 0
				}
				return s
			})
			for _, e := range res.Errors {
				r.Fail("Run:double-completion", e.At.Pos(), "stream.Cb may be called twice without the stream being dropped in between")
			}
			var m uint32
			for _, s := range res.ExitStates {
				m |= s
			}
			r.Check("Run:completed-stream-dropped-before-return", m&2 == 0, run.Pos(), "a completed stream must be set to nil before Run returns (the deferred function completes any stream still held)")
			// no loop iteration starts with a completed-but-held stream: the Cb call's block must store nil before its terminator
			eachInstr(run, func(in ssa.Instruction) {
				if base, ok := isCbCall(in); ok {
					if u, ok := base.(*ssa.UnOp); ok && u.X == ssa.Value(streamAlloc) {
						cleared := false
						for _, in2 := range in.Block().Instrs[instrIndex(in)+1:] {
							if st, ok := in2.(*ssa.Store); ok && st.Addr == ssa.Value(streamAlloc) && isNilConst(st.Val) {
								cleared = true
							}
						}
						r.Check("Run:drop-after-completion", cleared, in.Pos(), "stream = nil follows stream.Cb(...) in the same block")
					}
				}
			})
			// while waiting to reconnect, the cancellation of a stream that is being held is watched: on the
			// "stream != nil" side of the test before the select, the channel the select receives from is
			// that stream's own Ctx.Done()
			okWatch := false
			eachInstr(run, func(in ssa.Instruction) {
				ifi, ok := in.(*ssa.If)
				if !ok {
					return
				}
				b := asBinOp(ifi.Cond, token.EQL, token.NEQ)
				if b == nil || !isNilConst(b.Y) {
					return
				}
				ld, ok := b.X.(*ssa.UnOp)
				if !ok || ld.X != ssa.Value(streamAlloc) {
					return
				}
				held := ifi.Block().Succs[1]
				if b.Op == token.NEQ {
					held = ifi.Block().Succs[0]
				}
				// a Done() of the held stream computed on that side ...
				var done ssa.Value
				eachInstr(run, func(in2 ssa.Instruction) {
					cl, ok := in2.(*ssa.Call)
					if !ok || !cl.Call.IsInvoke() || cl.Call.Method.Name() != "Done" {
						return
					}
					if !(in2.Block() == held || held.Dominates(in2.Block())) {
						return
					}
					if strings.HasSuffix(pathOf(cl.Call.Value), "stream.Ctx") {
						done = cl
					}
				})
				if done == nil {
					return
				}
				// ... is what a select in the loop receives from
				eachInstr(run, func(in2 ssa.Instruction) {
					sel, ok := in2.(*ssa.Select)
					if !ok {
						return
					}
					for _, st := range sel.States {
						if st.Send != nil {
							continue
						}
						for _, vc := range valueCases(st.Chan, nil) {
							if vc.V == done {
								okWatch = true
							}
						}
					}
				})
			})
			r.Check("Run:held-stream-cancellation-watched", okWatch, run.Pos(), "while reconnecting, a held stream's Ctx.Done() is one of the channels waited on (a carried-over stream can still be cancelled)")
			// a held stream is never overwritten: wherever the loop can receive a new stream from the sink
			// while reconnecting, the receive channel is nil on every path on which a stream is still held
			nRecv, badRecv := 0, ""
			eachInstr(run, func(in2 ssa.Instruction) {
				sel, ok := in2.(*ssa.Select)
				if !ok {
					return
				}
				for _, st := range sel.States {
					if st.Send != nil {
						continue
					}
					ct, isChan := st.Chan.Type().Underlying().(*types.Chan)
					if !isChan || !strings.HasSuffix(ct.Elem().String(), "sender.Stream") {
						continue
					}
					nRecv++
					isHeld := func(v ssa.Value) bool {
						ld, ok := v.(*ssa.UnOp)
						return ok && ld.Op == token.MUL && ld.X == ssa.Value(streamAlloc)
					}
					ph, isPhi := st.Chan.(*ssa.Phi)
					if !isPhi || ph.Block() != sel.Block() {
						// not chosen per path: then the whole select must be on the "nothing held" side
						if !knownNil(factsAt(sel.Block()), isHeld) {
							badRecv = "a stream is received from " + pathOf(st.Chan) + " where it is not known that none is held"
						}
						continue
					}
					checked := 0
					for i, e := range ph.Edges {
						pred := sel.Block().Preds[i]
						facts := factsAt(pred)
						if ifi, isIf := pred.Instrs[len(pred.Instrs)-1].(*ssa.If); isIf && len(pred.Succs) == 2 && pred.Succs[0] != pred.Succs[1] {
							facts = append(facts, canonOf(Cond{ifi.Cond, pred.Succs[0] == sel.Block(), ifi}))
						}
						switch {
						case knownNonNil(facts, isHeld):
							checked++
							if !isNilConst(e) {
								badRecv = "with a stream held the sink channel is " + pathOf(e) + " (must be nil: a second stream would replace the held one, whose callback is then never called)"
							}
						case knownNil(facts, isHeld):
							checked++
						default:
							badRecv = "the sink channel arrives over an edge on which it is not known whether a stream is held"
						}
					}
					if checked == 0 {
						badRecv = "the sink channel is not chosen by whether a stream is held"
					}
				}
			})
			r.Check("Run:held-stream-not-overwritten", nRecv >= 1 && badRecv == "", run.Pos(), "while reconnecting a new stream is accepted only when none is held "+badRecv)
			// the deferred function completes a held stream
			okDefer := false
			for _, g := range WithAnon(run)[1:] {
				isDeferred := false
				eachInstr(run, func(in ssa.Instruction) {
					if d, ok := in.(*ssa.Defer); ok {
						if mc, ok := d.Call.Value.(*ssa.MakeClosure); ok && mc.Fn == ssa.Value(g) {
							isDeferred = true
						}
					}
				})
				if !isDeferred {
					continue
				}
				for _, cl := range callsIn(g) {
					if _, ok := isCbCall(cl); ok {
						// guarded by stream != nil (in either branch polarity)
						if knownNonNil(factsAt(cl.Block()), func(v ssa.Value) bool { return true }) {
							okDefer = true
						}
					}
				}
			}
			r.Check("Run:deferred-completion-of-held-stream", okDefer, run.Pos(), "Run defers 'if stream != nil { stream.Cb(errs) }'")
			// cleanup is deferred too, so queued streams are completed
			okCleanup := false
			eachInstr(run, func(in ssa.Instruction) {
				if d, ok := in.(*ssa.Defer); ok && staticCallee(d) == cleanup {
					okCleanup = true
				}
			})
			r.Check("Run:deferred-cleanup", okCleanup, run.Pos(), "Run defers s.cleanup(ctx)")
			// the value returned by innerRun is stored back into stream
			okBack := false
			for _, st := range storesIn(run) {
				if st.Addr == ssa.Value(streamAlloc) {
					if ex, ok := st.Val.(*ssa.Extract); ok && ex.Index == 0 {
						if cl, ok := ex.Tuple.(*ssa.Call); ok && staticCallee(cl) == inner {
							okBack = true
						}
					}
				}
			}
			r.Check("Run:takes-back-held-stream", okBack, run.Pos(), "stream, errs, err = s.innerRun(...)")
		}
		// innerRun: SSA value based. After X.Cb(...), X must not flow into a phi edge from a
		// block at/after the call, nor be returned, nor be completed again.
		n := 0
		eachInstr(inner, func(in ssa.Instruction) {
			base, ok := isCbCall(in)
			if !ok {
				return
			}
			n++
			// blocks reachable from the call without passing the definition of `base` again
			// (passing it creates a new dynamic instance of the SSA value)
			var defBlk *ssa.BasicBlock
			if bi, ok := base.(ssa.Instruction); ok {
				defBlk = bi.Block()
			}
			reach := map[*ssa.BasicBlock]bool{}
			stack := append([]*ssa.BasicBlock{}, in.Block().Succs...)
			for len(stack) > 0 {
				b := stack[len(stack)-1]
				stack = stack[:len(stack)-1]
				if reach[b] || b == defBlk {
					continue
				}
				reach[b] = true
				stack = append(stack, b.Succs...)
			}
			bad := ""
			for b := range reach {
				for _, in2 := range b.Instrs {
					if ph, ok := in2.(*ssa.Phi); ok {
						for i, e := range ph.Edges {
							pred := b.Preds[i]
							if e == base && (pred == in.Block() || reach[pred]) && !redefinedBetween(in, pred, base) {
								bad = "completed stream flows into " + ph.Comment + " at " + w.Pos(ph.Pos())
							}
						}
					}
				}
			}
			// within the call's own block after the call: the phi of the successor gets nil
			r.Check("innerRun:completed-stream-not-kept", bad == "", in.Pos(), "after stream.Cb(errs) the stream variable must become nil: "+bad)
		})
		r.Check("innerRun:completion-site", n == 1, inner.Pos(), fmt.Sprintf("%d stream.Cb call sites in innerRun", n))
		// the buffer channel is drained (range) before completion
		okDrain := false
		eachInstr(inner, func(in ssa.Instruction) {
			if base, ok := isCbCall(in); ok {
				// a receive loop on base.Buf dominates the call
				eachInstr(inner, func(in2 ssa.Instruction) {
					if u, ok := in2.(*ssa.UnOp); ok && u.Op == token.ARROW {
						if t, f, b2, ok := fieldRefThroughLoad(u.X); ok && t == "Stream" && f == "Buf" && b2 == base && u.Block().Dominates(in.Block()) {
							okDrain = true
						}
					}
				})
			}
		})
		r.Check("innerRun:completes-after-drain", okDrain, inner.Pos(), "the callback is called once the stream's buffer channel is drained")
		// cleanup: closes Sink, completes every queued stream exactly once
		ncb := 0
		eachInstr(cleanup, func(in ssa.Instruction) {
			if _, ok := isCbCall(in); ok {
				ncb++
			}
		})
		r.Check("cleanup:completes-queued", ncb == 1, cleanup.Pos(), fmt.Sprintf("%d Cb call sites in cleanup (one, inside the drain loop)", ncb))
		okClose := false
		for _, cl := range callsTo(cleanup, "builtin close") {
			if strings.HasSuffix(pathOf(cl.Common().Args[0]), ".Sink") {
				okClose = true
			}
		}
		r.Check("cleanup:closes-sink", okClose, cleanup.Pos(), "cleanup closes the Sink so the drain loop terminates")
		// the cancellation channel belongs to the held stream: where Run waits on a stored Done() channel and
		// completes the stream when it fires, the branch on which no stream is held has cleared that channel
		// (a stale channel of a stream completed long ago fires with stream == nil: nil dereference in Run)
		if streamAlloc != nil {
			eachInstr(run, func(in ssa.Instruction) {
				sel, ok := in.(*ssa.Select)
				if !ok {
					return
				}
				for k, st := range sel.States {
					if st.Dir != types.RecvOnly {
						continue
					}
					_, to := selectCaseEdge(sel, k)
					if to == nil {
						continue
					}
					isStreamLoad := func(v ssa.Value) bool {
						u, ok := v.(*ssa.UnOp)
						return ok && u.Op == token.MUL && u.X == ssa.Value(streamAlloc)
					}
					if ph, isPhi := st.Chan.(*ssa.Phi); isPhi {
						// the channel variable lives in registers: each incoming edge of the value waited on is
						// classified by what is known about the stream variable there
						completesPhi := false
						for _, b := range run.Blocks {
							if b != to && !to.Dominates(b) {
								continue
							}
							for _, in2 := range b.Instrs {
								if base, isCb := isCbCall(in2); isCb && isStreamLoad(base) {
									completesPhi = true
								}
							}
						}
						if !completesPhi {
							continue
						}
						okAll, why := true, ""
						for i, e := range ph.Edges {
							pred := ph.Block().Preds[i]
							facts := factsAt(pred)
							if len(pred.Instrs) > 0 {
								if ifi, ok := pred.Instrs[len(pred.Instrs)-1].(*ssa.If); ok && pred.Succs[0] != pred.Succs[1] {
									facts = append(facts, canonOf(Cond{V: ifi.Cond, Sense: pred.Succs[0] == ph.Block(), If: ifi}))
								}
							}
							switch {
							case knownNil(facts, isStreamLoad):
								if !isNilConst(e) {
									okAll, why = false, "with no stream held the channel waited on is "+exprString(e, 0)+", not nil"
								}
							case knownNonNil(facts, isStreamLoad):
							default:
								okAll, why = false, "an edge into the wait is not decided by a test of the stream variable"
							}
						}
						r.Check("Run:cancel-channel-cleared-with-stream", okAll, sel.Pos(), "before waiting, the branch on which no stream is held sets the stored cancellation channel to nil (otherwise a completed stream's context can fire with stream == nil) "+why)
						continue
					}
					ld, isLd := st.Chan.(*ssa.UnOp)
					if !isLd || ld.Op != token.MUL {
						continue
					}
					cell, isCell := ld.X.(*ssa.Alloc)
					if !isCell {
						continue
					}
					completes := false
					for _, b := range run.Blocks {
						if b != to && !to.Dominates(b) {
							continue
						}
						for _, in2 := range b.Instrs {
							if base, isCb := isCbCall(in2); isCb {
								if u, ok := base.(*ssa.UnOp); ok && u.X == ssa.Value(streamAlloc) {
									completes = true
								}
							}
						}
					}
					if !completes {
						continue
					}
					// the dominating test of the stream variable against nil
					cleared, tested := false, false
					for _, b := range run.Blocks {
						if len(b.Instrs) == 0 || !b.Dominates(sel.Block()) {
							continue
						}
						ifi, isIf := b.Instrs[len(b.Instrs)-1].(*ssa.If)
						if !isIf {
							continue
						}
						cmp, isCmp := ifi.Cond.(*ssa.BinOp)
						if !isCmp || (cmp.Op != token.EQL && cmp.Op != token.NEQ) || !isNilConst(cmp.Y) {
							continue
						}
						sl, isSl := cmp.X.(*ssa.UnOp)
						if !isSl || sl.X != ssa.Value(streamAlloc) {
							continue
						}
						nilSucc := b.Succs[0]
						if cmp.Op == token.NEQ {
							nilSucc = b.Succs[1]
						}
						tested = true
						for _, nb := range run.Blocks {
							if nb != nilSucc && !nilSucc.Dominates(nb) {
								continue
							}
							for _, in3 := range nb.Instrs {
								if s3, ok := in3.(*ssa.Store); ok && s3.Addr == ssa.Value(cell) && isNilConst(s3.Val) {
									cleared = true
								}
							}
						}
					}
					r.Check("Run:cancel-channel-cleared-with-stream", tested && cleared, sel.Pos(), "before waiting, the branch on which no stream is held sets the stored cancellation channel to nil (otherwise a completed stream's context can fire with stream == nil)")
				}
			})
		}
		// a failed write is never swallowed: from the failing edge of the test of Write's error no completion of a
		// stream is reachable inside innerRun (the function is left with the error, which Run records before the
		// stream is completed), and the error the function returns on that path is that error
		nw := 0
		for _, cl := range callsIn(inner) {
			cc := cl.Common()
			if !cc.IsInvoke() || cc.Method.Name() != "Write" {
				continue
			}
			call, ok := cl.(*ssa.Call)
			if !ok {
				continue
			}
			var werr *ssa.Extract
			for _, ref := range referrers(call) {
				if ex, ok := ref.(*ssa.Extract); ok && ex.Index == 1 {
					werr = ex
				}
			}
			if werr == nil {
				r.Fail("innerRun:write-error-examined", call.Pos(), "the error of conn.Write is discarded")
				continue
			}
			nw++
			tested := false
			for _, ref := range referrers(werr) {
				b, ok := ref.(*ssa.BinOp)
				if !ok || (b.Op != token.NEQ && b.Op != token.EQL) {
					continue
				}
				for _, r2 := range referrers(b) {
					ifi, ok := r2.(*ssa.If)
					if !ok {
						continue
					}
					tested = true
					fail := ifi.Block().Succs[0]
					if b.Op == token.EQL {
						fail = ifi.Block().Succs[1]
					}
					reached := feasiblyReaches(ifi.Block(), fail, nil, nil, func(in ssa.Instruction) bool {
						_, isCb := isCbCall(in)
						return isCb
					})
					r.Check("innerRun:failed-write-completes-nothing", !reached, ifi.Pos(), "after a failed write no stream callback is reachable inside innerRun (the failure is returned, not skipped)")
					// the returns reachable from the failing edge return this error
					okRet := true
					eachInstr(inner, func(in ssa.Instruction) {
						rt, ok := in.(*ssa.Return)
						if !ok || len(rt.Results) != 3 {
							return
						}
						if !feasiblyReaches(ifi.Block(), fail, nil, nil, func(x ssa.Instruction) bool { return x == ssa.Instruction(rt) }) {
							return
						}
						has := false
						results := []ssa.Value{rt.Results[2]}
						// with a deferred call in the function the results are written to result slots first
						if ld, isLd := rt.Results[2].(*ssa.UnOp); isLd && ld.Op == token.MUL {
							if slot, isAl := ld.X.(*ssa.Alloc); isAl {
								results = nil
								for _, ref := range referrers(slot) {
									if st, ok := ref.(*ssa.Store); ok && st.Addr == ssa.Value(slot) {
										results = append(results, st.Val)
									}
								}
							}
						}
						for _, res := range results {
							for _, vc := range valueCases(res, nil) {
								if vc.V == ssa.Value(werr) {
									has = true
								}
							}
						}
						if !has {
							okRet = false
						}
					})
					r.Check("innerRun:failed-write-is-returned", okRet, ifi.Pos(), "the error innerRun returns after a failed write can be the write's error")
				}
			}
			r.Check("innerRun:write-error-tested", tested, call.Pos(), "the error of conn.Write is tested")
		}
		r.Check("innerRun:write-sites", nw >= 1, inner.Pos(), fmt.Sprintf("%d conn.Write sites", nw))
		// the errors recorded for a stream stay with it across a reconnect: the list innerRun gives to the
		// callback starts from the list Run accumulated (a failed write followed by a successful dial re-enters
		// innerRun with the held stream - its earlier failure must still be reported)
		var errsParam *ssa.Parameter
		for _, p := range inner.Params {
			if sl, ok := p.Type().Underlying().(*types.Slice); ok && sl.Elem().String() == "error" {
				errsParam = p
			}
		}
		okCarry := false
		eachInstr(inner, func(in ssa.Instruction) {
			if _, ok := isCbCall(in); !ok || errsParam == nil {
				return
			}
			args := in.(ssa.CallInstruction).Common().Args
			if len(args) == 0 {
				return
			}
			seen := map[ssa.Value]bool{}
			var leaf func(v ssa.Value)
			leaf = func(v ssa.Value) {
				if seen[v] {
					return
				}
				seen[v] = true
				switch x := v.(type) {
				case *ssa.Phi:
					for _, e := range x.Edges {
						leaf(e)
					}
				case *ssa.Call:
					if isCall(x, "builtin append") {
						leaf(x.Call.Args[0])
					}
				case *ssa.Parameter:
					if x == errsParam {
						okCarry = true
					}
				}
			}
			leaf(args[len(args)-1])
		})
		okPass := false
		for _, cl := range callsIn(run) {
			if staticCallee(cl) != inner || errsParam == nil {
				continue
			}
			for i, p := range inner.Params {
				if p == errsParam && i < len(cl.Common().Args) {
					// the argument is the variable that takes innerRun's returned list (so the list lives on
					// from one connection to the next)
					isRet := func(v ssa.Value) bool {
						if ap, isAp := v.(*ssa.Call); isAp && isCall(ap, "builtin append") {
							v = ap.Call.Args[0]
						}
						ex, ok := v.(*ssa.Extract)
						if !ok {
							return false
						}
						c2, ok := ex.Tuple.(*ssa.Call)
						return ok && staticCallee(c2) == inner && ex.Type().String() == "[]error"
					}
					switch a := cl.Common().Args[i].(type) {
					case *ssa.Phi:
						seen := map[ssa.Value]bool{}
						var walk func(v ssa.Value)
						walk = func(v ssa.Value) {
							if seen[v] {
								return
							}
							seen[v] = true
							if isRet(v) {
								okPass = true
							}
							switch x := v.(type) {
							case *ssa.Phi:
								for _, e := range x.Edges {
									walk(e)
								}
							case *ssa.Call:
								if isCall(x, "builtin append") {
									walk(x.Call.Args[0])
								}
							}
						}
						walk(a)
					case *ssa.UnOp:
						if al, isAl := a.X.(*ssa.Alloc); isAl && a.Op == token.MUL {
							for _, ref := range *al.Referrers() {
								if st, isSt := ref.(*ssa.Store); isSt && isRet(st.Val) {
									okPass = true
								}
							}
						}
					}
				}
			}
		}
		r.Check("innerRun:held-stream-keeps-its-errors", okCarry && okPass, inner.Pos(), fmt.Sprintf("the callback's error list in innerRun starts from the list Run passes in (errs parameter reaches the callback: %v; Run passes its errs: %v)", okCarry, okPass))
	})

	c.Rule("C16.R3", "flusher: WaitGroup.Add(len(backends)) matches one SendMetricsAsync per backend, each callback calls Done exactly once, flushData waits for them", 5, func(r *Rule) {
		sm := w.funcExact("pkg/statsd", "(*MetricFlusher).sendMetricsAsync")
		fd := w.Func("pkg/statsd", "(*MetricFlusher).flushData")
		inPlace := false
		if sm == nil && fd != nil {
			// the fan-out written in place: the function literal of flushData that invokes the backends
			for _, g := range WithAnon(fd)[1:] {
				for _, cl := range callsIn(g) {
					if cl.Common().IsInvoke() && cl.Common().Method.Name() == "SendMetricsAsync" {
						sm, inPlace = g, true
					}
				}
			}
		}
		if sm == nil || fd == nil {
			r.Unresolved("(*MetricFlusher).sendMetricsAsync / flushData")
			return
		}
		c.SawFunc(FuncName(sm))
		var add ssa.CallInstruction
		for _, cl := range callsTo(sm, "(*sync.WaitGroup).Add") {
			add = cl
		}
		okAdd := false
		if add != nil {
			a := add.Common().Args[1]
			if cl, ok := a.(*ssa.Call); ok && isCall(cl, "builtin len") && pathOf(cl.Call.Args[0]) == "f.backends" {
				okAdd = true
			}
		}
		r.Check("sendMetricsAsync:add-len-backends", okAdd, sm.Pos(), "wg.Add(len(f.backends))")
		var send ssa.CallInstruction
		ns := 0
		for _, cl := range callsIn(sm) {
			if cl.Common().IsInvoke() && cl.Common().Method.Name() == "SendMetricsAsync" {
				send = cl
				ns++
			}
		}
		if !r.Check("sendMetricsAsync:one-send-site", ns == 1, sm.Pos(), fmt.Sprintf("%d SendMetricsAsync call sites", ns)) {
			return
		}
		// the receiver is the range element of f.backends
		rp := pathOf(send.Common().Value)
		okRange := false
		if ld, ok := send.Common().Value.(*ssa.UnOp); ok && ld.Op == token.MUL {
			if ia, ok := ld.X.(*ssa.IndexAddr); ok && pathOf(ia.X) == "f.backends" {
				idx := ia.Index
				if b := asBinOp(idx, token.ADD); b != nil {
					idx = b.X
				}
				if ph, ok := idx.(*ssa.Phi); ok && isLoopHead(ph.Block()) {
					// the counter runs over every index: from 0 (or -1 before the increment) in steps of one up to len(f.backends)
					okRange = loopCoversSlice(ph, ia.X)
				}
			}
		}
		r.Check("sendMetricsAsync:ranges-backends", okRange, send.Pos(), "backend = "+rp+" for every index of f.backends")
		r.Check("sendMetricsAsync:add-before-send", add != nil && instrDominates(add, send), send.Pos(), "Add precedes the sends")
		// callback: closure with exactly one wg.Done on every path
		cbv := send.Common().Args[2]
		var cbf *ssa.Function
		if ct, ok := cbv.(*ssa.ChangeType); ok {
			cbv = ct.X
		}
		if mc, ok := cbv.(*ssa.MakeClosure); ok {
			cbf = mc.Fn.(*ssa.Function)
		}
		if cbf == nil {
			r.Fail("sendMetricsAsync:callback", send.Pos(), "callback is not a closure")
			return
		}
		m := countOnPaths(cbf, func(in ssa.Instruction) bool {
			cl, ok := in.(ssa.CallInstruction)
			return ok && isCall(cl, "(*sync.WaitGroup).Done")
		})
		r.Check("callback:done-exactly-once", m == 2, cbf.Pos(), "wg.Done() executions over all paths of the callback = "+maskString(m))
		// same WaitGroup: the wg parameter
		okSame := add != nil
		var addWg ssa.Value
		if add != nil {
			addWg = ptrOrigin(add.Common().Args[0])
			_, isParam := addWg.(*ssa.Parameter)
			al, isLocal := addWg.(*ssa.Alloc)
			if !isParam && !(inPlace && isLocal && al.Parent() == fd) {
				okSame = false
			}
		}
		for _, cl := range callsTo(cbf, "(*sync.WaitGroup).Done") {
			if ptrOrigin(cl.Common().Args[0]) != addWg {
				okSame = false
			}
		}
		r.Check("callback:same-waitgroup", okSame, cbf.Pos(), "Add and Done use the same WaitGroup (sendMetricsAsync's parameter)")
		// the same context and map are passed
		mapIdx := 3
		if inPlace {
			mapIdx = 0 // the literal's only parameter
		}
		r.Check("sendMetricsAsync:passes-map", paramIndex(sm, send.Common().Args[1]) == mapIdx, send.Pos(), "the flushed map is passed to the backend")
		// flushData waits
		// the WaitGroup handed to sendMetricsAsync (the parameter Add/Done use) is a local of flushData ...
		var handed ssa.Value
		okWg := false
		wgIdx := -1
		if p, ok := addWg.(*ssa.Parameter); ok {
			for i, q := range sm.Params {
				if q == p {
					wgIdx = i
				}
			}
		}
		if al, ok := addWg.(*ssa.Alloc); ok && inPlace && al.Parent() == fd {
			handed, okWg = addWg, true
		}
		for _, g := range WithAnon(fd) {
			for _, cl := range callsIn(g) {
				if staticCallee(cl) == sm && wgIdx >= 0 && wgIdx < len(cl.Common().Args) {
					h := ptrOrigin(cl.Common().Args[wgIdx])
					if al, ok := h.(*ssa.Alloc); ok && al.Parent() == fd {
						handed = h
						okWg = true
					} else {
						okWg = false
					}
				}
			}
		}
		r.Check("flushData:passes-sendWg", okWg, fd.Pos(), "sendMetricsAsync(ctx, &sendWg, m) with sendWg a local of flushData")
		// ... and flushData waits on exactly that one
		nw := 0
		for _, cl := range callsTo(fd, "(*sync.WaitGroup).Wait") {
			if handed != nil && ptrOrigin(cl.Common().Args[0]) == handed {
				nw++
			}
		}
		r.Check("flushData:waits-for-callbacks", nw == 1, fd.Pos(), "flushData calls sendWg.Wait()")
	})

	c.Rule("C16.R4", "HTTP collectors: every received result and the cancellation error are appended to the slice given to the callback; one result expected per batch", 12, func(r *Rule) {
		// the errors handed to the callback are the ones collected: a deferred *call* of the callback evaluates its
		// argument when the defer statement runs, i.e. before anything was collected (a deferred function literal
		// that calls it is fine)
		for _, fn := range impls {
			for _, g := range WithAnon(fn) {
				eachInstr(g, func(in ssa.Instruction) {
					d, ok := in.(*ssa.Defer)
					if !ok || d.Call.IsInvoke() || staticCallee(d) != nil {
						return
					}
					if _, isSig := d.Call.Value.Type().Underlying().(*types.Signature); !isSig || !typeIs(d.Call.Value.Type(), "", "SendCallback") {
						return
					}
					for _, a := range d.Call.Args {
						if _, isC := a.(*ssa.Const); !isC {
							r.Fail(FuncName(fn)+":deferred-callback-argument", d.Pos(), "defer cb("+pathOf(a)+"): the error list is evaluated when the defer statement runs; errors appended afterwards never reach the flusher")
						}
					}
				})
			}
		}
		for _, fn := range impls {
			// collector closure: a go closure that calls the callback and contains a select receiving errors
			for _, g := range WithAnon(fn)[1:] {
				var cbCall ssa.CallInstruction
				for _, cl := range callsIn(g) {
					if !cl.Common().IsInvoke() && staticCallee(cl) == nil {
						if _, ok := cl.Common().Value.Type().Underlying().(*types.Signature); ok && typeIs(cl.Common().Value.Type(), "", "SendCallback") {
							cbCall = cl
						}
					}
				}
				if cbCall == nil || !startedWithGo(fn, g) {
					continue
				}
				var sel *ssa.Select
				eachInstr(g, func(in ssa.Instruction) {
					if s, ok := in.(*ssa.Select); ok {
						sel = s
					}
				})
				if sel == nil {
					// a collector that receives results without a select cannot notice cancellation: the senders drop
					// their result when the context is done, so the callback would never be invoked
					eachInstr(g, func(in ssa.Instruction) {
						if rv, ok := in.(*ssa.UnOp); ok && rv.Op == token.ARROW {
							if ch, isCh := rv.X.Type().Underlying().(*types.Chan); isCh && ch.Elem().String() == "error" {
								r.Fail(FuncName(fn)+":cancellation-reported", rv.Pos(), "the collector receives results outside a select: it does not watch ctx.Done() and waits for ever for results the cancelled senders drop")
							}
						}
					})
					continue
				}
				key := FuncName(fn)
				c.SawFunc(key)
				arg := cbCall.Common().Args[0]
				// the appended element kinds reaching arg
				kinds := map[string]bool{}
				seen := map[ssa.Value]bool{}
				var walk func(v ssa.Value)
				walk = func(v ssa.Value) {
					if seen[v] {
						return
					}
					seen[v] = true
					switch x := v.(type) {
					case *ssa.Phi:
						for _, e := range x.Edges {
							walk(e)
						}
					case *ssa.Call:
						if isCall(x, "builtin append") {
							walk(x.Call.Args[0])
							for _, el := range varargElems(x.Call.Args[1]) {
								if ex, ok := el.(*ssa.Extract); ok && ex.Tuple == ssa.Value(sel) {
									kinds["received-result"] = true
								} else if cl, ok := el.(*ssa.Call); ok && cl.Call.IsInvoke() && cl.Call.Method.Name() == "Err" {
									kinds["ctx.Err"] = true
								} else {
									kinds["other:"+pathOf(el)] = true
								}
							}
						}
					}
				}
				walk(arg)
				r.Check(key+":results-reported", kinds["received-result"], cbCall.Pos(), fmt.Sprintf("errors appended to the callback's slice: %v", kinds))
				r.Check(key+":cancellation-reported", kinds["ctx.Err"], cbCall.Pos(), "on cancellation ctx.Err() is appended so the flush is reported as failed")
				// the batch counter: an int variable of SendMetricsAsync incremented by one in the block
				// (of a nested function) that starts a sender goroutine
				nInc := 0
				var counterCell *ssa.Alloc
				for _, h := range WithAnon(fn)[1:] {
					eachInstr(h, func(in ssa.Instruction) {
						st, ok := in.(*ssa.Store)
						if !ok {
							return
						}
						cell := cellOf(st.Addr)
						if cell == nil || cell.Parent() != fn {
							return
						}
						b := asBinOp(st.Val, token.ADD)
						if b == nil {
							return
						}
						if one, isC := constInt(b.Y); !isC || one != 1 {
							return
						}
						if ld, ok := b.X.(*ssa.UnOp); !ok || cellOf(ld.X) != cell {
							return
						}
						hasGo := false
						for _, in2 := range st.Block().Instrs {
							if _, ok := in2.(*ssa.Go); ok {
								hasGo = true
							}
						}
						if hasGo {
							nInc++
							counterCell = cell
						}
					})
				}
				// loop bound: the collector receives exactly that many results (counting up to it or down from it)
				okCnt := false
				isCounter := func(v ssa.Value) bool {
					ld, ok := v.(*ssa.UnOp)
					return ok && ld.Op == token.MUL && counterCell != nil && cellOf(ld.X) == counterCell
				}
				eachInstr(g, func(in ssa.Instruction) {
					ph, ok := in.(*ssa.Phi)
					if !ok || len(ph.Edges) != 2 {
						return
					}
					var init ssa.Value
					step := int64(0)
					for _, e := range ph.Edges {
						if b := asBinOp(e, token.ADD, token.SUB); b != nil && b.X == ssa.Value(ph) {
							if k, isC := constInt(b.Y); isC && k == 1 {
								step = 1
								if b.Op == token.SUB {
									step = -1
								}
								continue
							}
						}
						init = e
					}
					if init == nil || step == 0 {
						return
					}
					// the counting value: the phi itself (from 0) or, in the form range loops compile to, phi+1 (from -1)
					cands := []ssa.Value{ph}
					minusOneInit := false
					if k, isC := constInt(init); isC && k == -1 && step == 1 {
						minusOneInit = true
						for _, e := range ph.Edges {
							if b := asBinOp(e, token.ADD); b != nil && b.X == ssa.Value(ph) {
								cands = append(cands, b)
							}
						}
					}
					// rotated form (range over an int): phi from 0, the body is entered under "0 < counter" and
					// repeated while phi+1 < counter
					rotated := false
					if k, isC := constInt(init); isC && k == 0 && step == 1 {
						eachInstr(g, func(in2 ssa.Instruction) {
							if pre, ok := in2.(*ssa.BinOp); ok && pre.Op == token.LSS && isCounter(pre.Y) {
								if z, isZ := constInt(pre.X); isZ && z == 0 {
									rotated = true
								}
							}
						})
						if rotated {
							for _, e := range ph.Edges {
								if b := asBinOp(e, token.ADD); b != nil && b.X == ssa.Value(ph) {
									cands = append(cands, b)
								}
							}
						}
					}
					var refs []ssa.Instruction
					for _, cnd := range cands {
						refs = append(refs, referrers(cnd)...)
					}
					for _, ref := range refs {
						b, ok := ref.(*ssa.BinOp)
						if !ok {
							continue
						}
						if minusOneInit && b.Op == token.LSS && b.X != ssa.Value(ph) && isCounter(b.Y) {
							okCnt = true // for range counter (phi+1 < counter, phi from -1)
							continue
						}
						if rotated && b.Op == token.LSS && b.X != ssa.Value(ph) && isCounter(b.Y) {
							okCnt = true // rotated loop: entered under 0 < counter, repeated while phi+1 < counter
							continue
						}
						zeroInit := false
						if k, isC := constInt(init); isC && k == 0 {
							zeroInit = true
						}
						zeroY := false
						if k, isC := constInt(b.Y); isC && k == 0 {
							zeroY = true
						}
						switch {
						case step == 1 && zeroInit && b.Op == token.LSS && b.X == ssa.Value(ph) && isCounter(b.Y):
							okCnt = true // for c := 0; c < counter; c++
						case step == -1 && isCounter(init) && b.Op == token.GTR && b.X == ssa.Value(ph) && zeroY:
							okCnt = true // for pending := counter; pending > 0; pending--
						}
					}
				})
				r.Check(key+":one-result-per-batch", okCnt, g.Pos(), "the collector waits for as many results as sender goroutines were started")
				// ... and gives up early only on cancellation: the loop around the select is left by its counter test or
				// on the Done() case, nothing else (senders whose result is no longer awaited block for ever on the
				// unbuffered result channel and never give their buffer / semaphore slot back)
				var head *ssa.BasicBlock
				for b := sel.Block(); b != nil; b = b.Idom() {
					if body := loopBody(b); body != nil && body[sel.Block()] {
						head = b
						break
					}
				}
				if head == nil {
					r.Fail(key+":collector-loop", sel.Pos(), "the collecting select is not inside a loop")
				} else {
					body := loopBody(head)
					var doneTo *ssa.BasicBlock
					for k, st := range sel.States {
						if st.Send != nil {
							continue
						}
						if dc, isCall := st.Chan.(*ssa.Call); isCall && dc.Call.IsInvoke() && dc.Call.Method.Name() == "Done" {
							_, doneTo = selectCaseEdge(sel, k)
						}
					}
					okExits, why := true, ""
					for b := range body {
						for _, sc := range b.Succs {
							if body[sc] {
								continue
							}
							if doneTo != nil && (b == doneTo || doneTo.Dominates(b) || sc == doneTo) {
								continue // leaving on cancellation
							}
							if len(sc.Instrs) > 0 {
								if _, isPanic := sc.Instrs[len(sc.Instrs)-1].(*ssa.Panic); isPanic && len(sc.Succs) == 0 {
									continue // "blocking select matched no case": unreachable
								}
							}
							ifi, isIf := b.Instrs[len(b.Instrs)-1].(*ssa.If)
							if isIf {
								if cmp, isCmp := ifi.Cond.(*ssa.BinOp); isCmp && isIntType(cmp.X.Type()) {
									if _, fromSel := cmp.X.(*ssa.Extract); !fromSel {
										continue // the counter test
									}
								}
								// a "cancelled" flag tested by the loop: it becomes true only on the Done() case
								cv := ifi.Cond
								if u, isNot := cv.(*ssa.UnOp); isNot && u.Op == token.NOT {
									cv = u.X
								}
								if ph, isPhi := cv.(*ssa.Phi); isPhi && isBoolType(ph.Type()) && doneTo != nil {
									okFlag, sawTrue := true, false
									seenPh := map[*ssa.Phi]bool{}
									var visit func(p *ssa.Phi)
									visit = func(p *ssa.Phi) {
										if seenPh[p] {
											return
										}
										seenPh[p] = true
										for i, e := range p.Edges {
											pred := p.Block().Preds[i]
											switch x := e.(type) {
											case *ssa.Const:
												if x.Value != nil && x.Value.ExactString() == "true" {
													sawTrue = true
													if !(pred == doneTo || doneTo.Dominates(pred)) {
														okFlag = false
													}
												}
											case *ssa.Phi:
												visit(x)
											default:
												okFlag = false
											}
										}
									}
									visit(ph)
									if okFlag && sawTrue {
										continue
									}
								}
							}
							okExits = false
							why = "left from the block at " + w.Pos(firstPos(b))
						}
					}
					r.Check(key+":collector-stops-only-when-done-or-cancelled", okExits, sel.Pos(), "the collecting loop is left only by its counter test or on cancellation "+why)
				}
				r.Check(key+":counter-matches-goroutines", nInc == 1, fn.Pos(), fmt.Sprintf("%d sites increment counter together with starting a sender goroutine", nInc))
			}
		}
	})

	c.Rule("C16.R6", "transport errors do not crash a sender and a delivered request is not reported as failed: the response of client.Do is touched only after err == nil was established; no deferred function rewrites an attempt's result; every retry loop ends when the backoff window is exhausted", 6, func(r *Rule) {
		n := 0
		for _, fn := range w.ModuleFuncs() {
			p := fnPkgPath(fn)
			if !strings.Contains(p, "/pkg/backends/") {
				continue
			}
			if k := respAfterErrCheck(r, fn); k > 0 {
				n += k
				c.SawFunc(FuncName(fn))
			}
		}
		for _, g := range attemptClosures(w) {
			if strings.Contains(fnPkgPath(g), "/pkg/backends/") {
				attemptResultNotRewritten(r, g)
			}
		}
		nr := 0
		for _, fn := range w.ModuleFuncs() {
			if strings.Contains(fnPkgPath(fn), "/pkg/backends/") {
				nr += retryWindowRule(r, fn)
			}
		}
		r.Check("backends:retry-loops", nr >= 4, token.NoPos, fmt.Sprintf("%d backoff-driven retry loops in the HTTP backends (datadog, influxdb, newrelic, otlp)", nr))
		r.Check("backends:do-sites", n >= 4, token.NoPos, fmt.Sprintf("%d client.Do call sites in the HTTP backends", n))
	})

	c.Rule("C16.R5", "request semaphores are released on every path after being acquired", 4, func(r *Rule) {
		// otlp: send = acquire, receive = release, both in one function
		for _, name := range []string{"(*Backend).postMetrics", "(*Backend).SendEvent"} {
			fn := w.Func("pkg/backends/otlp", name)
			if fn == nil {
				r.Unresolved("otlp." + name)
				continue
			}
			c.SawFunc(FuncName(fn))
			sends, recvs := chanFieldOps(fn, "requestsBufferSem")
			isS := map[ssa.Instruction]bool{}
			isR := map[ssa.Instruction]bool{}
			for _, s := range sends {
				isS[s] = true
			}
			for _, x := range recvs {
				isR[x] = true
			}
			res := runAutomaton(fn, 0, func(in ssa.Instruction) int {
				if isS[in] {
					return 0
				}
				if isR[in] {
					return 1
				}
				return -1
			}, func(s, e int) int {
				if e == 0 {
					if s == 1 {
						return -1
					}
					return 1
				}
				if s == 0 {
					return -1
				}
				return 0
			})
			var m uint32
			for _, s := range res.ExitStates {
				m |= s
			}
			r.Check("otlp:"+fn.Name()+":balanced", len(res.Errors) == 0 && m == 1 && len(sends) >= 1, fn.Pos(), fmt.Sprintf("%d acquires, %d releases; states at return %b (slot must be free on every return), errors %d", len(sends), len(recvs), m, len(res.Errors)))
			// the release directly follows the request: no branch between client.Do and the release
			for _, s := range sends {
				var rel ssa.Instruction
				for _, x := range recvs {
					if x.Block() == s.Block() && instrIndex(x) > instrIndex(s) {
						rel = x
					}
				}
				r.Check("otlp:"+fn.Name()+":release-unconditional", rel != nil, s.Pos(), "the slot is released in the same basic block as it is acquired (no error branch in between)")
			}
		}
		// datadog / newrelic: receive from metricsBufferSem = acquire; release deferred in the acquiring branch
		for _, rel := range []string{"pkg/backends/datadog", "pkg/backends/newrelic"} {
			fn := w.Func(rel, "(*Client).SendMetricsAsync")
			if fn == nil {
				r.Unresolved(rel + ".SendMetricsAsync")
				continue
			}
			n := 0
			for _, g := range WithAnon(fn)[1:] {
				eachInstr(g, func(in ssa.Instruction) {
					sel, ok := in.(*ssa.Select)
					if !ok {
						return
					}
					for k, st := range sel.States {
						if st.Dir != types.RecvOnly || !strings.HasSuffix(pathOf(st.Chan), ".metricsBufferSem") {
							continue
						}
						n++
						_, to := selectCaseEdge(sel, k)
						okDef := false
						if to != nil {
							for _, in2 := range to.Instrs {
								if d, ok := in2.(*ssa.Defer); ok {
									if mc, ok := d.Call.Value.(*ssa.MakeClosure); ok {
										s2, _ := chanFieldOps(mc.Fn.(*ssa.Function), "metricsBufferSem")
										if len(s2) == 1 {
											okDef = true
										}
									}
								}
								if _, isCall := in2.(*ssa.Call); isCall && !okDef {
									if cl := in2.(*ssa.Call); !isCall2(cl, "builtin") && staticCallee(cl) != nil && IsModule(staticCallee(cl)) {
										break // work started before the release was deferred
									}
								}
							}
						}
						if !okDef && to != nil {
							// explicit clean-up instead of a defer: on every path from the acquiring case to an exit of the
							// goroutine the buffer is sent back exactly once (a panic in between is not modelled)
							toBlk := to
							res := runAutomatonE(g, 0, func(in3 ssa.Instruction) int {
								if sd, ok := in3.(*ssa.Send); ok && strings.HasSuffix(pathOf(sd.Chan), ".metricsBufferSem") {
									return 0
								}
								return -1
							}, func(from, tob *ssa.BasicBlock) int {
								if tob == toBlk {
									return 1
								}
								return -1
							}, func(st, ev int) int {
								switch {
								case ev == 1 && st == 0:
									return 1 // holding the buffer
								case ev == 0 && st == 1:
									return 2 // given back
								case ev == 0:
									return 3 // given back without holding it / twice
								}
								return st
							})
							var m uint32
							for _, st := range res.ExitStates {
								m |= st
							}
							if m&(1<<1|1<<3) == 0 && m&(1<<2) != 0 {
								okDef = true
							}
						}
						r.Check(rel+":buffer-released", okDef, in.Pos(), "the buffer taken from metricsBufferSem is returned by a defer registered before any work (or sent back exactly once on every path to the goroutine's end)")
					}
				})
			}
			r.Check(rel+":acquire-sites", n == 1, fn.Pos(), fmt.Sprintf("%d acquire sites", n))
		}
	})
}

// fieldRefThroughLoad: v is a load of X.f; returns the struct/field/base.
func fieldRefThroughLoad(v ssa.Value) (string, string, ssa.Value, bool) {
	if u, ok := v.(*ssa.UnOp); ok && u.Op == token.MUL {
		return fieldRef(u.X)
	}
	return fieldRef(v)
}

// redefinedBetween is a placeholder for SSA values (they cannot be redefined); kept for clarity.
func redefinedBetween(from ssa.Instruction, to *ssa.BasicBlock, v ssa.Value) bool { return false }

// startedWithGo: closure g is the operand of a go statement somewhere in fn (or its closures).
func startedWithGo(fn, g *ssa.Function) bool {
	found := false
	for _, f := range WithAnon(fn) {
		eachInstr(f, func(in ssa.Instruction) {
			if gi, ok := in.(*ssa.Go); ok {
				if mc, ok := gi.Call.Value.(*ssa.MakeClosure); ok && mc.Fn == ssa.Value(g) {
					found = true
				}
				if f2, ok := gi.Call.Value.(*ssa.Function); ok && f2 == g {
					found = true
				}
			}
		})
	}
	return found
}

// loopCoversSlice: the loop counter ph visits every index of slice s exactly once: it starts at 0
// (or -1 when incremented before use, the range form), advances by one, and the loop runs while
// it is below len(s).
// ptrOrigin follows a pointer value back through local cells / captured variables that are
// assigned exactly once (and through no-op conversions) to the value originally stored.
func ptrOrigin(v ssa.Value) ssa.Value {
	for d := 0; d < 8; d++ {
		switch x := v.(type) {
		case *ssa.ChangeType:
			v = x.X
			continue
		case *ssa.UnOp:
			if x.Op != token.MUL {
				return v
			}
			if fa, ok := x.X.(*ssa.FieldAddr); ok {
				if t := localStructField(fa); t != nil {
					v = t
					continue
				}
				return v
			}
			cell := cellOf(x.X)
			if cell == nil {
				return v
			}
			var val ssa.Value
			n := 0
			for _, ref := range referrers(cell) {
				if st, ok := ref.(*ssa.Store); ok && st.Addr == ssa.Value(cell) {
					n++
					val = st.Val
				}
			}
			if n != 1 {
				return v
			}
			v = val
			continue
		case *ssa.FreeVar:
			// a captured pointer variable itself
			if c := cellOf(x); c != nil {
				return c
			}
			return v
		}
		return v
	}
	return v
}

func loopCoversSlice(ph *ssa.Phi, s ssa.Value) bool {
	okInit, okStep := false, false
	var stepped ssa.Value
	for _, e := range ph.Edges {
		if n, isC := constInt(e); isC && (n == 0 || n == -1) {
			okInit = true
		} else if b := asBinOp(e, token.ADD); b != nil && b.X == ssa.Value(ph) {
			if one, isC := constInt(b.Y); isC && one == 1 {
				okStep = true
				stepped = b
			}
		}
	}
	if !okInit || !okStep {
		return false
	}
	// the bound test: (ph or ph+1) < len(s)
	okBound := false
	for _, cand := range []ssa.Value{ph, stepped} {
		for _, ref := range referrers(cand) {
			b, ok := ref.(*ssa.BinOp)
			if !ok || b.Op != token.LSS || b.X != cand {
				continue
			}
			if lc, ok := b.Y.(*ssa.Call); ok && isCall(lc, "builtin len") && pathOf(lc.Call.Args[0]) == pathOf(s) {
				okBound = true
			}
		}
	}
	return okBound
}
