package main

import (
	"fmt"
	"go/token"
	"go/types"
	"regexp/syntax"
	"sort"
	"strings"

	"golang.org/x/tools/go/ssa"
)

func init() { register("C17", c17) }

var subMetricTable = map[string]string{
	"Lower": "Min", "Upper": "Max", "Count": "Count", "CountPerSecond": "PerSecond", "Mean": "Mean",
	"Median": "Median", "StdDev": "StdDev", "Sum": "Sum", "SumSquares": "SumSquares",
}

// timerFieldsRead lists the Timer data fields read by the instructions of the given blocks.
func timerFieldsRead(blocks []*ssa.BasicBlock) []string {
	set := map[string]bool{}
	skip := map[string]bool{"Tags": true, "Source": true, "Timestamp": true}
	for _, b := range blocks {
		for _, in := range b.Instrs {
			var v ssa.Value
			switch x := in.(type) {
			case *ssa.FieldAddr:
				v = x
			case *ssa.Field:
				v = x
			default:
				continue
			}
			if t, f, _, ok := fieldRef(v); ok && t == "Timer" && !skip[f] {
				set[f] = true
			}
		}
	}
	// values computed before the branch and used inside it (a read hoisted into a temporary)
	inRegion := map[*ssa.BasicBlock]bool{}
	for _, b := range blocks {
		inRegion[b] = true
	}
	var trace func(v ssa.Value, d int)
	trace = func(v ssa.Value, d int) {
		if d > 6 || v == nil {
			return
		}
		if in, ok := v.(ssa.Instruction); ok && in.Block() != nil && inRegion[in.Block()] {
			return // counted above
		}
		switch x := v.(type) {
		case *ssa.FieldAddr, *ssa.Field:
			if t, f, _, ok := fieldRef(v); ok && t == "Timer" && !skip[f] {
				set[f] = true
			}
		case *ssa.UnOp:
			trace(x.X, d+1)
		case *ssa.Convert:
			trace(x.X, d+1)
		case *ssa.ChangeType:
			trace(x.X, d+1)
		case *ssa.MakeInterface:
			trace(x.X, d+1)
		case *ssa.BinOp:
			trace(x.X, d+1)
			trace(x.Y, d+1)
		}
	}
	for _, b := range blocks {
		for _, in := range b.Instrs {
			if _, isPhi := in.(*ssa.Phi); isPhi {
				continue
			}
			for _, op := range in.Operands(nil) {
				if *op != nil {
					trace(*op, 0)
				}
			}
		}
	}
	var out []string
	for k := range set {
		out = append(out, k)
	}
	sort.Strings(out)
	return out
}

// subtypeFlagOf: v is (a load of) a TimerSubtypes field; returns its name.
func subtypeFlagOf(v ssa.Value) string {
	for {
		u, ok := v.(*ssa.UnOp)
		if !ok {
			break
		}
		if u.Op == token.NOT {
			v = u.X
			continue
		}
		if u.Op == token.MUL {
			if t, f, _, ok := fieldRef(u.X); ok && t == "TimerSubtypes" {
				return f
			}
		}
		break
	}
	if fl, ok := v.(*ssa.Field); ok {
		if t, f, _, ok := fieldRef(fl); ok && t == "TimerSubtypes" {
			return f
		}
	}
	return ""
}

func backendFuncs(w *World) []*ssa.Function {
	var out []*ssa.Function
	for _, fn := range w.ModuleFuncs() {
		if strings.Contains(fnPkgPath(fn), "/pkg/backends/") {
			out = append(out, fn)
		}
	}
	return out
}

func c17(c *Ctx) {
	w := c.W
	c.Explanation = "C17 (backend payloads contain every series exactly once and are well formed): every payload builder traverses all four metric types; the sub-metric mask table (flag -> timer field) agrees across all backends and with the documented table; every batch that is opened is closed and handed over, each handed-over batch is never written again (fresh storage for the next batch); the hard limits of CloudWatch (20 data per call) and of the statsd relay (packet size test before every write) are enforced by guards; what the relay writes agrees with the lexer's tables: type suffixes, tag introducer, event header lengths are the lengths of exactly the strings written, newline escaping is the inverse of the lexer's."
	c.NotDecided = []string{"syntactic validity of JSON / line protocol / protobuf payloads and escaping correctness", "value equality after number formatting", "InfluxDB / OTLP batch-size arithmetic beyond the presence of the limit test"}

	c.Rule("C17.R1", "exhaustiveness: every backend payload builder traverses counters, timers, gauges and sets (C07.R6)", 8, func(r *Rule) {
		fourTypeRule(c, r, func(fn *ssa.Function) bool { return strings.Contains(fnPkgPath(fn), "/pkg/backends/") })
	})

	c.Rule("C17.R2", "sub-metric mask table: in every backend a disabled-subtype flag guards exactly its timer field (Lower->Min, Upper->Max, Count, CountPerSecond->PerSecond, Mean, Median, StdDev, Sum, SumSquares)", 40, func(r *Rule) {
		perPkg := map[string]map[string]bool{}
		for _, fn := range backendFuncs(w) {
			pkg := strings.TrimPrefix(fnPkgPath(fn), Mod+"/")
			// if-form
			eachInstr(fn, func(in ssa.Instruction) {
				ifi, ok := in.(*ssa.If)
				if !ok {
					return
				}
				flag := subtypeFlagOf(ifi.Cond)
				if flag == "" {
					return
				}
				want, known := subMetricTable[flag]
				if !known {
					return // percentile flags are the aggregator's (C08.R1)
				}
				c.SawFunc(FuncName(fn))
				// region executed when the flag is false (sub-metric enabled): the false successor and
				// blocks it dominates up to the join
				en := ifi.Block().Succs[1]
				if _, isNot := ifi.Cond.(*ssa.UnOp); isNot && ifi.Cond.(*ssa.UnOp).Op == token.NOT {
					en = ifi.Block().Succs[0]
				}
				var region []*ssa.BasicBlock
				for _, b := range fn.Blocks {
					if (b == en || en.Dominates(b)) && edgeDominates(ifi.Block(), en, b) {
						region = append(region, b)
					}
				}
				got := timerFieldsRead(region)
				if perPkg[pkg] == nil {
					perPkg[pkg] = map[string]bool{}
				}
				perPkg[pkg][flag] = true
				r.Check(pkg+":"+fn.Name()+":"+flag, len(got) == 1 && got[0] == want, ifi.Pos(), fmt.Sprintf("enabled-branch of !disabled.%s reads timer fields %v (documented: %s)", flag, got, want))
			})
			// table-of-literals form (otlp): struct literals with a bool field fed from a TimerSubtypes flag
			eachInstr(fn, func(in ssa.Instruction) {
				ia, ok := in.(*ssa.IndexAddr)
				if !ok {
					return
				}
				// element of an array of anonymous structs: collect stores into its fields
				var flag string
				var fields []string
				// the element's fields are stored directly, or into a temporary literal that is then copied in
				var refs []ssa.Instruction
				refs = append(refs, referrers(ia)...)
				for _, rf := range referrers(ia) {
					if st, ok := rf.(*ssa.Store); ok && st.Addr == ssa.Value(ia) {
						if ld, isLd := st.Val.(*ssa.UnOp); isLd && ld.Op == token.MUL {
							if tmp, isAl := ld.X.(*ssa.Alloc); isAl {
								refs = append(refs, referrers(tmp)...)
							}
						}
					}
				}
				for _, rf := range refs {
					fa, ok := rf.(*ssa.FieldAddr)
					if !ok {
						continue
					}
					for _, r2 := range referrers(fa) {
						st, ok := r2.(*ssa.Store)
						if !ok || st.Addr != ssa.Value(fa) {
							continue
						}
						if f := subtypeFlagOf(st.Val); f != "" {
							flag = f
						} else {
							sv := st.Val
							if mi, isMI := sv.(*ssa.MakeInterface); isMI {
								sv = mi.X // a value column of type interface{} (formatted with Sprintf)
							}
							for _, l := range loadsOf(sv) {
								if l.T == "Timer" {
									fields = append(fields, l.F)
								}
							}
							if cl, ok := st.Val.(*ssa.Call); ok {
								for _, a := range cl.Call.Args {
									for _, l := range loadsOf(a) {
										if l.T == "Timer" {
											fields = append(fields, l.F)
										}
									}
								}
							}
						}
					}
				}
				if flag == "" {
					return
				}
				{
					seenF := map[string]bool{}
					var uniq []string
					for _, f := range fields {
						if !seenF[f] {
							seenF[f] = true
							uniq = append(uniq, f)
						}
					}
					fields = uniq
				}
				want, known := subMetricTable[flag]
				if !known {
					return
				}
				c.SawFunc(FuncName(fn))
				if perPkg[pkg] == nil {
					perPkg[pkg] = map[string]bool{}
				}
				perPkg[pkg][flag] = true
				r.Check(pkg+":"+fn.Name()+":"+flag+":literal", len(fields) == 1 && fields[0] == want, ia.Pos(), fmt.Sprintf("table entry with discarded=%s emits timer fields %v (documented: %s)", flag, fields, want))
			})
		}
		// coverage per backend: the backends that mask at all must handle the whole table
		var pkgs []string
		for p := range perPkg {
			pkgs = append(pkgs, p)
		}
		sort.Strings(pkgs)
		for _, p := range pkgs {
			var missing []string
			for f := range subMetricTable {
				if !perPkg[p][f] {
					missing = append(missing, f)
				}
			}
			sort.Strings(missing)
			allow := map[string]string{
				"pkg/backends/newrelic": "count, sum, min and max travel inside New Relic's summary value; Lower/Upper/Count/Sum have no separate series in the metrics flush type",
			}
			if why, ok := allow[p]; ok && len(missing) > 0 {
				r.Pass(p+":covers-table", token.NoPos, "allow-listed partial table ("+strings.Join(missing, ",")+"): "+why)
				continue
			}
			r.Check(p+":covers-table", len(missing) == 0, token.NoPos, fmt.Sprintf("flags without a guarded emission: %v", missing))
		}
		r.Check("backends-with-mask", len(pkgs) >= 6, token.NoPos, fmt.Sprintf("%d backends apply the sub-metric mask: %v", len(pkgs), pkgs))
	})

	c.Rule("C17.R3", "batches: every flush object reaches finish() on all exits; every appended series is followed by maybeFlush; a handed-over batch is never written again", 10, func(r *Rule) {
		for _, rel := range []string{"pkg/backends/datadog", "pkg/backends/newrelic", "pkg/backends/influxdb"} {
			pm := w.Func(rel, "(*Client).processMetrics")
			if pm == nil {
				r.Unresolved(rel + ".(*Client).processMetrics")
				continue
			}
			c.SawFunc(FuncName(pm))
			// finish on every exit
			m := countOnPaths(pm, func(in ssa.Instruction) bool {
				cl, ok := in.(ssa.CallInstruction)
				if !ok {
					return false
				}
				cal := staticCallee(cl)
				if cal == nil {
					return false
				}
				return cal.Name() == "finish" || (rel == "pkg/backends/influxdb" && cal.Name() == "releaseBuffer")
			})
			r.Check(rel+":finish-on-every-exit", m == 2, pm.Pos(), "finish() (influxdb: or releaseBuffer when nothing is open) executions over all paths = "+maskString(m))
			// maybeFlush after the emissions of every series: each Each-closure ends with maybeFlush on all paths (datadog/newrelic)
			if rel != "pkg/backends/influxdb" {
				cls := eachClosures(pm)
				for _, F := range mmFields {
					cl := cls[F]
					if cl == nil {
						continue
					}
					m := countOnPaths(cl, func(in ssa.Instruction) bool {
						cc, ok := in.(ssa.CallInstruction)
						return ok && staticCallee(cc) != nil && staticCallee(cc).Name() == "maybeFlush"
					})
					r.Check(rel+":"+F+":maybeFlush-per-series", m&1 == 0, cl.Pos(), "every series is followed by a maybeFlush: "+maskString(m))
				}
			}
		}
		// influxdb: metricCount++ control-equivalent with a following maybeFlush
		for _, fn := range pkgFuncs(w, "pkg/backends/influxdb") {
			for _, st := range fieldStores(fn, "flush", "metricCount") {
				if b := asBinOp(st.Val, token.ADD); b != nil {
					ok := false
					for _, in := range st.Block().Instrs[instrIndex(st):] {
						if cl, isC := in.(ssa.CallInstruction); isC && staticCallee(cl) != nil && staticCallee(cl).Name() == "maybeFlush" {
							ok = true
						}
					}
					r.Check("influxdb:"+fn.Name()+":count-then-maybeFlush", ok, st.Pos(), "metricCount++ is followed by maybeFlush() in the same block")
				}
			}
		}
		// maybeFlush: limit test present; after handing the batch over, the next batch uses fresh storage
		for _, rel := range []string{"pkg/backends/datadog", "pkg/backends/newrelic"} {
			mf := w.Func(rel, "(*flush).maybeFlush")
			fi := w.Func(rel, "(*flush).finish")
			if mf == nil || fi == nil {
				r.Unresolved(rel + ".(*flush).maybeFlush/finish")
				continue
			}
			c.SawFunc(FuncName(mf))
			var hand ssa.Instruction
			for _, cl := range callsIn(mf) {
				if strings.HasSuffix(calleeName(cl), ".cb") {
					hand = cl
				}
			}
			if hand == nil {
				r.Fail(rel+":maybeFlush:hands-over", mf.Pos(), "no call of the batch callback")
				continue
			}
			// the hand-over happens exactly when <size expression> >= (or >) metricsPerBatch, in any spelling
			okLimit := cmpHolds(factsAt(hand.Block()), func(ssa.Value) bool { return true },
				func(v ssa.Value) bool { return strings.HasSuffix(pathOf(v), ".metricsPerBatch") }, token.GEQ, token.GTR)
			r.Check(rel+":maybeFlush:limit-test", okLimit, mf.Pos(), "the batch is emitted when it reaches metricsPerBatch")
			// f.ts replaced by a new timeSeries whose slice is freshly made
			okFresh := false
			for _, st := range fieldStores(mf, "flush", "ts") {
				if !instrDominates(hand, st) {
					continue
				}
				if al, ok := st.Val.(*ssa.Alloc); ok {
					fs := complitFields(al)
					for _, v := range fs {
						if _, isMk := v.(*ssa.MakeSlice); isMk {
							okFresh = true
						}
					}
					if len(fs) == 0 {
						okFresh = true // zero value: nil slice
					}
				}
			}
			r.Check(rel+":maybeFlush:fresh-storage-after-hand-over", okFresh, hand.Pos(), "after cb(f.ts) the next batch gets a new timeSeries with a freshly made slice (re-slicing the handed-over slice lets later series overwrite a batch that is still being sent)")
			// finish hands over a non-empty last batch
			okFin := false
			for _, cl := range callsIn(fi) {
				if strings.HasSuffix(calleeName(cl), ".cb") {
					okFin = knownNonEmpty(factsAt(cl.Block()), func(v ssa.Value) bool {
						return strings.HasSuffix(pathOf(v), ".Metrics") || strings.HasSuffix(pathOf(v), ".Series")
					})
				}
			}
			r.Check(rel+":finish:hands-over-remainder", okFin, fi.Pos(), "finish emits the open batch when it is not empty")
		}
		// otlp: a new batch is opened when the current one reaches batchSize
		ins := w.Func("pkg/backends/otlp", "(*groups).insert")
		if ins != nil {
			ok := false
			for _, st := range fieldStores(ins, "groups", "batches") {
				if cmpHolds(factsAt(st.Block()), func(v ssa.Value) bool {
					cl, isCall := v.(*ssa.Call)
					return isCall && staticCallee(cl) != nil && staticCallee(cl).Name() == "lenMetrics"
				}, func(v ssa.Value) bool { return strings.HasSuffix(pathOf(v), ".batchSize") }, token.GEQ) {
					ok = true
				}
			}
			if !ok {
				// the open batch's size kept in a counter field: incremented once per insert (unconditionally), compared
				// with batchSize, and set back to zero exactly where the new batch is opened
				for _, st := range fieldStores(ins, "groups", "batches") {
					var counter string
					if !cmpHolds(factsAt(st.Block()), func(v ssa.Value) bool {
						if t, f, _, isF := fieldRefThroughLoad(v); isF && t == "groups" && isIntType(v.Type()) {
							counter = f
							return true
						}
						return false
					}, func(v ssa.Value) bool { return strings.HasSuffix(pathOf(v), ".batchSize") }, token.GEQ) || counter == "" {
						continue
					}
					incAlways, resetHere, otherStores := false, false, false
					for _, cs := range fieldStores(ins, "groups", counter) {
						if add := asBinOp(cs.Val, token.ADD); add != nil {
							one, isC := constInt(add.Y)
							_, f2, _, isF := fieldRefThroughLoad(add.X)
							if isC && one == 1 && isF && f2 == counter && len(condsFor(cs.Block())) == 0 {
								incAlways = true
								continue
							}
						}
						if z, isC := constInt(cs.Val); isC && z == 0 && (cs.Block() == st.Block() || st.Block().Dominates(cs.Block()) || cs.Block().Dominates(st.Block())) && len(condsFor(cs.Block())) == len(condsFor(st.Block())) {
							resetHere = true
							continue
						}
						otherStores = true
					}
					if incAlways && resetHere && !otherStores {
						ok = true
					}
				}
			}
			r.Check("otlp:insert:opens-new-batch-at-limit", ok, ins.Pos(), "a new group is appended when lenMetrics() >= batchSize")
		} else {
			r.Unresolved("otlp.(*groups).insert")
		}
	})

	c.Rule("C17.R6", "every attempt of a request emits the same well-formed payload: the per-attempt closures of the HTTP backends build a fresh reader over the payload and assign no captured variable (a compressed payload is not compressed again on a retry)", 6, func(r *Rule) {
		n := 0
		for _, g := range attemptClosures(w) {
			if !strings.Contains(fnPkgPath(g), "/pkg/backends/") {
				continue
			}
			n++
			c.SawFunc(FuncName(g))
			attemptFreshBody(r, g)
			attemptIdempotent(r, g)
		}
		r.Check("backends:attempt-closures", n >= 3, token.NoPos, fmt.Sprintf("%d per-attempt request closures in pkg/backends (datadog, influxdb, newrelic)", n))
	})

	c.Rule("C17.R7", "graphite: the host tag is added for every series that has a source and no host: tag of its own - whether or not it has any other tag", 1, func(r *Rule) {
		n := 0
		for _, fn := range pkgFuncs(w, "pkg/backends/graphite") {
			for _, cl := range callsIn(fn) {
				if !strings.HasSuffix(calleeName(cl), ".WriteString") {
					continue
				}
				a := cl.Common().Args
				if s, ok := constString(a[len(a)-1]); !ok || s != ";host=" {
					continue
				}
				n++
				c.SawFunc(FuncName(fn))
				bad := ""
				for _, f := range factsAt(cl.Block()) {
					mentionsLen := func(v ssa.Value) bool {
						lc, ok := v.(*ssa.Call)
						return ok && isCall(lc, "builtin len") && strings.Contains(strings.ToLower(pathOf(lc.Call.Args[0])), "tags")
					}
					isConst := func(v ssa.Value) bool { _, ok := v.(*ssa.Const); return ok }
					if f.Op != token.ILLEGAL && (mentionsLen(f.X) && isConst(f.Y) || mentionsLen(f.Y) && isConst(f.X)) {
						bad = condExpr(f.X) + " " + f.Op.String() + " " + condExpr(f.Y)
					}
				}
				r.Check(FuncName(fn)+":host-tag-independent-of-other-tags", bad == "", cl.Pos(), "the ;host= tag does not depend on the number of tags"+map[bool]string{true: "", false: " (written only when " + bad + ")"}[bad == ""])
				// (directly, or carried by a flag: needHost := source != ""; ... if needHost { write })
				okSrc := holdsAtOrViaFlag(cl.Block(), func(facts []canonCond) bool {
					return cmpHolds(facts, func(v ssa.Value) bool { return strings.Contains(pathOf(v), "source") }, func(v ssa.Value) bool { s, ok := constString(v); return ok && s == "" }, token.NEQ)
				})
				r.Check(FuncName(fn)+":host-tag-when-source", okSrc, cl.Pos(), "the ;host= tag is written when the series has a source")
			}
		}
		r.Check("graphite:host-tag-site", n >= 1, token.NoPos, fmt.Sprintf("%d sites writing ;host=", n))
	})

	c.Rule("C17.R8", "influxdb line protocol: a field separator is never written in front of the first field - every ',' that starts a piece of the field list is written only when the list is known to be non-empty (the trailing-comma style needs no such guard)", 1, func(r *Rule) {
		n, lead := 0, 0
		for _, fn := range pkgFuncs(w, "pkg/backends/influxdb") {
			root := fn
			for root.Parent() != nil {
				root = root.Parent()
			}
			if root.Name() != "addBaseTimer" && root.Name() != "addHistogramTimer" {
				continue
			}
			for _, cl := range callsIn(fn) {
				name := calleeName(cl)
				var lit string
				var okLit bool
				a := cl.Common().Args
				switch {
				case strings.HasSuffix(name, "strings.Builder).WriteString") || strings.HasSuffix(name, "bytes.Buffer).WriteString"):
					lit, okLit = constString(a[len(a)-1])
					if !okLit {
						// WriteString(fmt.Sprintf(format, ...))
						if sc, isC := a[len(a)-1].(*ssa.Call); isC && isCall(sc, "fmt.Sprintf") {
							lit, okLit = constString(sc.Call.Args[0])
						}
					}
				case strings.HasSuffix(name, "strings.Builder).WriteByte") || strings.HasSuffix(name, "bytes.Buffer).WriteByte") || strings.HasSuffix(name, "strings.Builder).WriteRune"):
					if k, isC := constInt(a[len(a)-1]); isC {
						lit, okLit = string(rune(k)), true
					}
				case name == "fmt.Fprintf" || name == "fmt.Fprint":
					// fmt.Fprintf(&builder, format, ...): the same write, spelled through the io.Writer
					if mi, isMI := a[0].(*ssa.MakeInterface); isMI && (strings.Contains(mi.X.Type().String(), "strings.Builder") || strings.Contains(mi.X.Type().String(), "bytes.Buffer")) && len(a) >= 2 {
						lit, okLit = constString(a[1])
						if okLit {
							a = append([]ssa.Value{mi.X}, a[1:]...)
						}
					}
				}
				if !okLit {
					continue
				}
				n++
				if !strings.HasPrefix(lit, ",") {
					continue
				}
				lead++
				// the builder (receiver) is known to hold something already
				recv := a[0]
				isLen := func(v ssa.Value) bool {
					lc, ok := v.(*ssa.Call)
					return ok && strings.HasSuffix(calleeName(lc), ".Len") && len(lc.Call.Args) == 1 && pathOf(lc.Call.Args[0]) == pathOf(recv)
				}
				isK := func(k int64) func(ssa.Value) bool {
					return func(v ssa.Value) bool { x, ok := constInt(v); return ok && x == k }
				}
				fs := factsAt(cl.Block())
				guarded := cmpHolds(fs, isLen, isK(0), token.GTR, token.NEQ) || cmpHolds(fs, isLen, isK(1), token.GEQ)
				if lit == "," && !guarded {
					// a lone separator that directly follows another write to the same builder is a trailing comma
					for _, prev := range cl.Block().Instrs[:instrIndex(cl.(ssa.Instruction))] {
						if pc, ok := prev.(ssa.CallInstruction); ok && strings.Contains(calleeName(pc), ").Write") && len(pc.Common().Args) > 0 && pathOf(pc.Common().Args[0]) == pathOf(recv) {
							guarded = true
						}
					}
				}
				r.Check(FuncName(fn)+":leading-separator-guarded", guarded, cl.Pos(), fmt.Sprintf("%q is written in front of a field: only valid when the field list is not empty", lit))
			}
		}
		r.Check("influxdb:field-writes", n >= 3, token.NoPos, fmt.Sprintf("%d constant pieces written to the field list (%d begin with a separator)", n, lead))
	})

	c.Rule("C17.R9", "a payload builder never extends a tag slice it does not own: append(x.Tags, ...) on the tags of an aggregated series (or of a metric / event) writes into the spare capacity of that series' slice, so the tag lists of later entries built from the same series (histogram buckets, sub-metrics) overwrite each other before the batch is marshalled; the copying Tags.Concat / Tags.Copy are the owning forms", 1, func(r *Rule) {
		n := 0
		for _, fn := range backendFuncs(w) {
			for _, g := range WithAnon(fn) {
				for _, cl := range callsIn(g) {
					if !isCall(cl, "builtin append") {
						continue
					}
					a0 := stripConv(cl.Common().Args[0])
					ld, ok := a0.(*ssa.UnOp)
					if !ok || ld.Op != token.MUL {
						continue
					}
					t, f, _, ok := fieldRef(ld.X)
					if !ok || f != "Tags" {
						continue
					}
					switch t {
					case "Counter", "Gauge", "Timer", "Set", "Metric", "Event":
						n++
						r.Fail(FuncName(g)+":appends-to-foreign-tags", cl.Pos(), "append("+pathOf(a0)+", ...) extends the tag slice of a "+t+" in place")
					}
				}
			}
		}
		r.Check("no-in-place-extension-of-series-tags", n == 0, token.NoPos, fmt.Sprintf("%d append calls on the Tags field of a series in the backends", n))
	})

	c.Rule("C17.R11", "compressed payloads are complete: where a backend compresses into a local buffer, the buffer is read (Bytes, String, Len, handed on) only after the compressor was closed by an ordinary call - a deferred Close runs after the bytes were taken and leaves a truncated stream", 2, func(r *Rule) {
		n := 0
		for _, fn := range w.ModuleFuncs() {
			if !strings.Contains(fnPkgPath(fn), "/pkg/backends/") {
				continue
			}
			for _, cl := range callsIn(fn) {
				name := calleeName(cl)
				if !(strings.HasPrefix(name, "compress/gzip.NewWriter") || strings.HasPrefix(name, "compress/zlib.NewWriter") || strings.HasPrefix(name, "compress/flate.NewWriter") || strings.Contains(name, "lz4.NewWriter")) {
					continue
				}
				call, ok := cl.(*ssa.Call)
				if !ok {
					continue
				}
				// destination: a buffer that lives in this function
				dst := stripConvVal(call.Call.Args[0])
				if mi, isMI := dst.(*ssa.MakeInterface); isMI {
					dst = mi.X
				}
				buf, isLocal := dst.(*ssa.Alloc)
				if !isLocal {
					continue
				}
				n++
				c.SawFunc(FuncName(fn))
				// the compressor value (first result when the constructor also returns an error)
				var comp ssa.Value = call
				if _, isTup := call.Type().(*types.Tuple); isTup {
					for _, ref := range referrers(call) {
						if ex, ok := ref.(*ssa.Extract); ok && ex.Index == 0 {
							comp = ex
						}
					}
				}
				var closes []ssa.Instruction
				deferred := false
				for _, ref := range referrers(comp) {
					ci, ok := ref.(ssa.CallInstruction)
					if !ok {
						continue
					}
					cal := staticCallee(ci)
					if cal == nil || cal.Name() != "Close" || len(ci.Common().Args) == 0 || ci.Common().Args[0] != comp {
						continue
					}
					if _, isDefer := ci.(*ssa.Defer); isDefer {
						deferred = true
						continue
					}
					closes = append(closes, ci)
				}
				key := FuncName(fn) + ":" + shortCallee(cl)
				reach := reachableFrom(call.Block())
				for _, ref := range referrers(buf) {
					use, ok := ref.(ssa.CallInstruction)
					if !ok || use == cl {
						continue
					}
					if use.Block() != call.Block() && !reach[use.Block()] {
						continue
					}
					if use.Block() == call.Block() && !instrDominates(call, use) {
						continue
					}
					okClosed := false
					for _, cz := range closes {
						if instrDominates(cz, use) {
							okClosed = true
						}
					}
					what := shortCallee(use)
					why := "read by " + what + " only after the compressor's Close()"
					if deferred && !okClosed {
						why += " (the Close is deferred: it runs after this read)"
					}
					r.Check(key+":closed-before:"+what, okClosed, use.Pos(), why)
				}
			}
		}
		r.Check("local-compressor-sites", n >= 2, token.NoPos, fmt.Sprintf("%d compressors writing into a local buffer in the backends", n))
	})

	c.Rule("C17.R12", "percentile sub-metrics keep their name: a percentile's \"<statistic>_<p>\" string is separated at its LAST underscore wherever a backend takes it apart (sum_squares_90 is statistic sum_squares at 90; a split at the first underscore drops or misnames it)", 1, func(r *Rule) {
		n := 0
		for _, fn := range w.ModuleFuncs() {
			if !strings.Contains(fnPkgPath(fn), "/pkg/backends/") {
				continue
			}
			for _, g := range []*ssa.Function{fn} {
				for _, cl := range callsIn(g) {
					name := calleeName(cl)
					if !strings.HasPrefix(name, "strings.") {
						continue
					}
					a := cl.Common().Args
					if len(a) < 2 {
						continue
					}
					t, f, _, ok := fieldRefThroughLoad(ptrOrigin(a[0]))
					if !ok || t != "Percentile" || f != "Str" {
						continue
					}
					sep := ""
					if s2, isS := constString(a[1]); isS {
						sep = s2
					} else if k, isC := constInt(a[1]); isC {
						sep = string(rune(k))
					}
					if sep != "_" {
						continue
					}
					n++
					c.SawFunc(FuncName(g))
					r.Check(FuncName(g)+":percentile-name-split-at-last-underscore", strings.HasPrefix(name, "strings.LastIndex"), cl.Pos(), shortCallee(cl)+"(pct.Str, \"_\"): the statistic may itself contain '_'")
				}
			}
		}
		r.Check("percentile-name-split-sites", n >= 1, token.NoPos, fmt.Sprintf("%d sites take a percentile name apart at '_'", n))
	})

	c.Rule("C17.R13", "graphite keeps what a series name may contain: the characters normalizeMetricName deletes are exactly those outside [A-Za-z0-9_.-] ('/' becomes '-', white space '_'): distinct series must not collapse onto one path (the deleted class is computed from the regular expression, not compared as text)", 2, func(r *Rule) {
		nf := w.Func("pkg/backends/graphite", "normalizeMetricName")
		if nf == nil {
			r.Unresolved("graphite.normalizeMetricName")
			return
		}
		c.SawFunc(FuncName(nf))
		// the regular expressions used: package-level variables initialised with regexp.MustCompile(<constant>)
		pats := map[string]string{}
		if sp := w.SSAPkgs[Mod+"/pkg/backends/graphite"]; sp != nil {
			if init := sp.Func("init"); init != nil {
				eachInstr(init, func(in ssa.Instruction) {
					st, ok := in.(*ssa.Store)
					if !ok {
						return
					}
					g, isG := st.Addr.(*ssa.Global)
					cl, isC := st.Val.(*ssa.Call)
					if !isG || !isC || !strings.HasPrefix(calleeName(cl), "regexp.MustCompile") {
						return
					}
					if p, isS := constString(cl.Call.Args[0]); isS {
						pats[g.Name()] = p
					}
				})
			}
		}
		deleted := 0
		for _, cl := range callsIn(nf) {
			name := calleeName(cl)
			if !strings.HasPrefix(name, "(*regexp.Regexp).ReplaceAll") {
				continue
			}
			a := cl.Common().Args
			ld, isLd := a[0].(*ssa.UnOp)
			if !isLd {
				continue
			}
			g, isG := ld.X.(*ssa.Global)
			if !isG {
				continue
			}
			// a deletion: the replacement is nil / empty
			repl := a[len(a)-1]
			empty := isNilConst(repl)
			if s2, isS := constString(repl); isS && s2 == "" {
				empty = true
			}
			if !empty {
				continue
			}
			deleted++
			re, err := syntax.Parse(pats[g.Name()], syntax.Perl)
			if err != nil || pats[g.Name()] == "" {
				r.Fail("graphite:deleted-class", cl.Pos(), "the pattern of "+g.Name()+" is not a constant that parses")
				continue
			}
			re = re.Simplify()
			var wrong []string
			if re.Op != syntax.OpCharClass {
				r.Fail("graphite:deleted-class", cl.Pos(), "the deleting pattern "+pats[g.Name()]+" is not a single character class")
				continue
			}
			inClass := func(b rune) bool {
				for i := 0; i+1 < len(re.Rune); i += 2 {
					if b >= re.Rune[i] && b <= re.Rune[i+1] {
						return true
					}
				}
				return false
			}
			for b := rune(0); b < 128; b++ {
				keep := (b >= 'a' && b <= 'z') || (b >= 'A' && b <= 'Z') || (b >= '0' && b <= '9') || b == '_' || b == '.' || b == '-'
				if inClass(b) == keep {
					wrong = append(wrong, fmt.Sprintf("%q", b))
				}
			}
			r.Check("graphite:deleted-class", len(wrong) == 0, cl.Pos(), fmt.Sprintf("the pattern %s deletes exactly the bytes outside [A-Za-z0-9_.-]; differing bytes: %v", pats[g.Name()], wrong))
		}
		r.Check("graphite:deletion-by-class", deleted == 1, nf.Pos(), fmt.Sprintf("%d deletions by a character class in normalizeMetricName (a hand-written filter is not evaluated by this rule)", deleted))
	})

	c.Rule("C17.R14", "the JSON encoders write the aggregated value: no backend configures a lossy number encoding (jsoniter's MarshalFloatWith6Digits, also part of ConfigFastest) - 'exactly once with the aggregated value' needs the float written in full", 1, func(r *Rule) {
		nCfg := 0
		var paths []string
		for p := range w.SSAPkgs {
			if strings.HasPrefix(p, Mod+"/pkg/backends/") {
				paths = append(paths, p)
			}
		}
		sort.Strings(paths)
		for _, p := range paths {
			sp := w.SSAPkgs[p]
			var fns []*ssa.Function
			if init := sp.Func("init"); init != nil {
				fns = append(fns, init)
			}
			for _, fn := range w.ModuleFuncs() {
				if fnPkgPath(fn) == p {
					fns = append(fns, fn)
				}
			}
			rel := strings.TrimPrefix(p, Mod+"/")
			for _, fn := range fns {
				eachInstr(fn, func(in ssa.Instruction) {
					switch x := in.(type) {
					case *ssa.Store:
						fa, ok := x.Addr.(*ssa.FieldAddr)
						if !ok {
							return
						}
						nm := namedOf(derefType(fa.X.Type()))
						if nm == nil || nm.Obj().Pkg() == nil || !strings.HasSuffix(nm.Obj().Pkg().Path(), "json-iterator/go") || nm.Obj().Name() != "Config" {
							return
						}
						f := fieldName(nm, fa.Field)
						if f == "MarshalFloatWith6Digits" {
							k, isC := x.Val.(*ssa.Const)
							r.Check("json-config:"+rel+":full-precision", isC && k.Value != nil && k.Value.ExactString() == "false", x.Pos(), "MarshalFloatWith6Digits is set: values are rounded to 6 decimals on the wire")
						}
					case *ssa.Call:
						if strings.HasSuffix(calleeName(x), "json-iterator/go.Config).Froze") || strings.HasSuffix(calleeName(x), ".Config).Froze") {
							nCfg++
							r.Check(fmt.Sprintf("json-config:%s:site#%d", rel, nCfg), true, x.Pos(), "a jsoniter configuration is frozen here; its fields are checked")
						}
					case *ssa.UnOp:
						if g, ok := x.X.(*ssa.Global); ok && g.Pkg != nil && strings.HasSuffix(g.Pkg.Pkg.Path(), "json-iterator/go") && g.Name() == "ConfigFastest" {
							r.Check("json-config:"+rel+":not-fastest", false, x.Pos(), "jsoniter.ConfigFastest rounds floats to 6 decimals")
						}
					}
				})
			}
		}
		r.Check("json-config:sites", nCfg >= 1, token.NoPos, fmt.Sprintf("%d jsoniter configurations in the backends", nCfg))
	})

	c.Rule("C17.R15", "graphite keeps a tag's value: asGraphiteTag turns only the FIRST ':' of a tag into '=' (the separator between name and value) - a value may contain further colons (addresses, times), which a replace-all would rewrite", 2, func(r *Rule) {
		fn := w.Func("pkg/backends/graphite", "asGraphiteTag")
		if fn == nil {
			r.Unresolved("graphite.asGraphiteTag")
			return
		}
		c.SawFunc(FuncName(fn))
		nSep := 0
		for _, cl := range callsIn(fn) {
			cal := staticCallee(cl)
			if cal == nil || cal.Pkg == nil || cal.Pkg.Pkg.Path() != "strings" {
				continue
			}
			args := cl.Common().Args
			isColon := func(i int) bool {
				if i >= len(args) {
					return false
				}
				sv, ok := constString(args[i])
				return ok && sv == ":"
			}
			switch cal.Name() {
			case "ReplaceAll":
				if isColon(1) {
					nSep++
					r.Check("asGraphiteTag:first-colon-only", false, cl.Pos(), "every ':' of the tag is replaced")
				}
			case "Replace":
				if isColon(1) {
					nSep++
					k, isK := constInt(args[3])
					r.Check("asGraphiteTag:first-colon-only", isK && k == 1, cl.Pos(), "strings.Replace(tag, \":\", ..., n) with n == 1")
				}
			case "Cut", "Index", "IndexByte", "SplitN":
				if isColon(1) {
					nSep++
					if cal.Name() == "SplitN" {
						k, isK := constInt(args[2])
						r.Check("asGraphiteTag:first-colon-only", isK && k == 2, cl.Pos(), "the tag is split at its first ':' only")
					} else {
						r.Check("asGraphiteTag:first-colon-only", true, cl.Pos(), "the tag is separated at its first ':'")
					}
				}
			case "Split", "LastIndex", "LastIndexByte":
				if isColon(1) {
					nSep++
					r.Check("asGraphiteTag:first-colon-only", false, cl.Pos(), "the tag is separated at another ':' than the first ("+cal.Name()+")")
				}
			}
		}
		r.Check("asGraphiteTag:separator-site", nSep >= 1, fn.Pos(), fmt.Sprintf("%d places that separate name and value at ':'", nSep))
	})

	c.Rule("C17.R10", "the statsd relay withholds exactly the server's own counters: a counter is skipped if and only if its name starts with \"statsd.\" (with the dot: statsdaemon.x, statsd_exporter.y are ordinary series)", 2, func(r *Rule) {
		pm := w.Func("pkg/backends/statsdaemon", "(*Client).processMetrics")
		if pm == nil {
			r.Unresolved("statsdaemon.(*Client).processMetrics")
			return
		}
		cl := eachClosures(pm)["Counters"]
		if cl == nil {
			r.Fail("relay:counters", pm.Pos(), "no traversal of the counters")
			return
		}
		nTest := 0
		for _, cc := range callsIn(cl) {
			call, ok := cc.(*ssa.Call)
			if !ok || !isCall(call, "strings.HasPrefix") {
				continue
			}
			nTest++
			lit, isLit := constString(call.Call.Args[1])
			r.Check("relay:internal-prefix", isLit && lit == "statsd." && paramIndex(cl, call.Call.Args[0]) == 0, call.Pos(), fmt.Sprintf("the skip test is strings.HasPrefix(name, %q) (must be \"statsd.\")", lit))
			// the counter is written exactly on the false outcome
			written := false
			for _, w2 := range callsIn(cl) {
				if w2 == cc {
					continue
				}
				if _, isBuiltin := w2.Common().Value.(*ssa.Builtin); isBuiltin {
					continue
				}
				fs := factsAt(w2.Block())
				if callKnown(fs, func(c2 *ssa.Call) bool { return c2 == call }, false) && len(fs) == 1 {
					written = true
				}
			}
			r.Check("relay:others-are-written", written, call.Pos(), "every other counter is written (the write stands under exactly the negative outcome of the test)")
		}
		r.Check("relay:one-skip-test", nTest == 1, cl.Pos(), fmt.Sprintf("%d prefix tests in the counters traversal", nTest))
	})

	c.Rule("C17.R4", "hard limits: at most 20 data per CloudWatch call; the statsd relay tests the packet size before every write", 4, func(r *Rule) {
		cw := w.Func("pkg/backends/cloudwatch", "(*Client).SendMetricsAsync")
		if cw == nil {
			r.Unresolved("cloudwatch.(*Client).SendMetricsAsync")
		} else {
			c.SawFunc(FuncName(cw))
			for _, g := range WithAnon(cw) {
				for _, cl := range callsIn(g) {
					if !cl.Common().IsInvoke() || cl.Common().Method.Name() != "PutMetricData" {
						continue
					}
					// MetricData: metricData[start:end] with end = min(start+20, length)
					var sl *ssa.Slice
					eachInstr(g, func(in ssa.Instruction) {
						if s, ok := in.(*ssa.Slice); ok && strings.Contains(pathOf(s.X), "metricData") {
							sl = s
						}
					})
					if sl == nil {
						r.Fail("cloudwatch:slice", cl.Pos(), "PutMetricData is not given a slice of metricData")
						continue
					}
					// end is a phi of (start+20) and length, selected by end > length
					okEnd := false
					var step int64
					// end = min(start+k, length) with the builtin
					if mc, ok := sl.High.(*ssa.Call); ok && isCall(mc, "builtin min") && len(mc.Call.Args) == 2 {
						has20, hasLen := false, false
						for _, e := range mc.Call.Args {
							if b := asBinOp(e, token.ADD); b != nil && b.X == sl.Low {
								if n, isC := constInt(b.Y); isC && n <= 20 && n >= 1 {
									has20 = true
									step = n
								}
							}
							if strings.Contains(pathOf(e), "length") || strings.Contains(pathOf(e), "builtin len") {
								hasLen = true
							}
						}
						okEnd = has20 && hasLen
					}
					if ph, ok := sl.High.(*ssa.Phi); ok {
						has20, hasLen := false, false
						for _, e := range ph.Edges {
							if b := asBinOp(e, token.ADD); b != nil && b.X == sl.Low {
								if n, isC := constInt(b.Y); isC && n <= 20 && n >= 1 {
									has20 = true
								}
							}
							if strings.Contains(pathOf(e), "length") || strings.Contains(pathOf(e), "builtin len") {
								hasLen = true
							}
						}
						okEnd = has20 && hasLen
					}
					r.Check("cloudwatch:at-most-20-per-call", okEnd, sl.Pos(), "data = metricData[start:end] with end = min(start+20, length)")
					// start advances to end
					okAdv := false
					if ph, ok := sl.Low.(*ssa.Phi); ok {
						for _, e := range ph.Edges {
							if e == sl.High {
								okAdv = true
							}
							// start += k with the same k that bounds the batch (end = min(start+k, length))
							if b := asBinOp(e, token.ADD); b != nil && b.X == ssa.Value(ph) && step > 0 {
								if n, isC := constInt(b.Y); isC && n == step {
									okAdv = true
								}
							}
						}
					}
					r.Check("cloudwatch:advances", okAdv, sl.Pos(), "start = end (or start += batch size) after each call (every datum is sent once)")
				}
			}
		}
		pm := w.Func("pkg/backends/statsdaemon", "(*Client).processMetrics")
		if pm == nil {
			r.Unresolved("statsdaemon.(*Client).processMetrics")
			return
		}
		c.SawFunc(FuncName(pm))
		// the closure writeLine: the write of the line into buf is preceded on every path by the size test whose true edge swaps the buffer
		for _, g := range pkgFuncs(w, "pkg/backends/statsdaemon") {
			var test *ssa.If
			eachInstr(g, func(in ssa.Instruction) {
				if ifi, ok := in.(*ssa.If); ok {
					ce := condExpr(ifi.Cond)
					if strings.Contains(ce, ".packetSize") && strings.Contains(ce, ".Len(") {
						test = ifi
					}
				}
			})
			if test == nil {
				continue
			}
			b := asBinOp(test.Cond, token.GTR, token.GEQ)
			okSum := b != nil && asBinOp(b.X, token.ADD) != nil && strings.HasSuffix(pathOf(b.Y), ".packetSize")
			r.Check("statsdaemon:size-test-shape", okSum, test.Pos(), "buf.Len()+line.Len() > client.packetSize")
			// the packet buffer is what the overflow handler is given on the true edge; it is identified by its
			// location (a local, a captured variable or a field of the writer state), not by its name
			tb := test.Block().Succs[0]
			inTrue := func(in ssa.Instruction) bool { bb := in.Block(); return bb == tb || tb.Dominates(bb) }
			var hcall *ssa.Call
			for _, cl := range callsIn(g) {
				cc, isCall := cl.(*ssa.Call)
				if !isCall || !inTrue(cc) || cc.Call.IsInvoke() || staticCallee(cc) != nil || len(cc.Call.Args) != 1 {
					continue
				}
				if tup, isT := cc.Type().(*types.Tuple); isT && tup.Len() == 2 && tup.At(0).Type().String() == "*bytes.Buffer" {
					hcall = cc
				}
			}
			packet := ""
			if hcall != nil {
				packet = pathOf(hcall.Call.Args[0])
			}
			okLen := false
			if b != nil {
				if sum := asBinOp(b.X, token.ADD); sum != nil {
					for _, o := range []ssa.Value{sum.X, sum.Y} {
						if lc, isC := o.(*ssa.Call); isC && calleeName(lc) == "(*bytes.Buffer).Len" && pathOf(lc.Call.Args[0]) == packet {
							okLen = true
						}
					}
				}
			}
			r.Check("statsdaemon:size-test-on-packet", hcall != nil && okLen, test.Pos(), "the size test measures the buffer that is handed to the overflow handler ("+packet+")")
			// every write into the packet buffer (fmt.Fprint(buf, ..), buf.Write*, line.WriteTo(buf)) comes after the test
			okW, nW := true, 0
			for _, cl := range callsIn(g) {
				name := calleeName(cl)
				var dst ssa.Value
				switch {
				case strings.HasPrefix(name, "fmt.Fprint"):
					dst = cl.Common().Args[0]
				case strings.HasPrefix(name, "(*bytes.Buffer).Write"):
					if strings.HasSuffix(name, ".WriteTo") {
						dst = cl.Common().Args[1]
					} else {
						dst = cl.Common().Args[0]
					}
				default:
					continue
				}
				if pathOf(stripConvVal(dst)) != packet {
					continue
				}
				nW++
				if !instrDominates(test, cl) {
					okW = false
				}
			}
			okW = okW && nW >= 1
			r.Check("statsdaemon:write-after-size-test", okW, test.Pos(), "the line is written into the packet buffer only after the size test")
			// true edge: handler(buf) and buf replaced by what the handler returned
			okSwap := false
			for _, bb := range g.Blocks {
				if !(bb == tb || tb.Dominates(bb)) {
					continue
				}
				for _, in := range bb.Instrs {
					if st, ok := in.(*ssa.Store); ok && hcall != nil && pathOf(st.Addr) == packet {
						if ex, isEx := st.Val.(*ssa.Extract); isEx && ex.Tuple == ssa.Value(hcall) && ex.Index == 0 {
							okSwap = true
						}
					}
				}
			}
			r.Check("statsdaemon:overflow-starts-new-packet", okSwap, test.Pos(), "when the line would not fit the buffer is handed over and replaced")
		}
	})

	c.Rule("C17.R5", "relay <-> lexer: the relay's type suffixes and tag introducer parse back to the same types; event header lengths are the lengths of the strings written; newline escaping is the lexer's inverse", 10, func(r *Rule) {
		pm := w.Func("pkg/backends/statsdaemon", "(*Client).processMetrics")
		if pm == nil {
			r.Unresolved("statsdaemon processMetrics")
			return
		}
		// format suffix per iterated map
		want := map[string]string{"Counters": "|c", "Timers": "|ms", "Gauges": "|g", "Sets": "|s"}
		// lexer type table (C02.R1) as the reference: c->COUNTER g->GAUGE ms->TIMER s->SET
		cls := eachClosures(pm)
		for F, suf := range want {
			cl := cls[F]
			if cl == nil {
				r.Fail("relay:"+F, pm.Pos(), "no traversal of "+F)
				continue
			}
			ok := false
			n := 0
			for _, cc := range callsIn(cl) {
				if strings.HasSuffix(calleeName(cc), "writeLine") || strings.Contains(calleeName(cc), "writeLine") {
					n++
					if s, isS := constString(cc.Common().Args[0]); isS && strings.HasSuffix(s, suf) && strings.HasPrefix(s, "%s:") {
						ok = true
					}
					a := cc.Common().Args
					r.Check("relay:"+F+":name-and-tags", paramIndex(cl, a[1]) == 0 && paramIndex(cl, a[2]) == 1, cc.Pos(), "writeLine(format, key, tagsKey, value)")
				}
			}
			r.Check("relay:"+F+":suffix", ok && n == 1, cl.Pos(), fmt.Sprintf("lines for %s end in %q (the lexer maps it back to the same type)", F, suf))
		}
		// tags introducer
		okTags := false
		for _, g := range pkgFuncs(w, "pkg/backends/statsdaemon") {
			eachInstr(g, func(in ssa.Instruction) {
				if b, ok := in.(*ssa.BinOp); ok && b.Op == token.ADD {
					if s, isS := constString(b.Y); isS && s == "|#%s\n" {
						okTags = true
					}
				}
			})
		}
		r.Check("relay:tags-introducer", okTags, pm.Pos(), "tags are appended as |#<tagsKey>")
		// cross-check with the lexer's own table
		sub := &Ctx{W: w, Prop: c.Prop, Tier: c.Tier, known: c.known, Only: "C02.R1"}
		c02(sub)
		for _, sr := range sub.Rules {
			for _, o := range sr.Obls {
				o2 := *o
				o2.Rule = "C17.R5"
				o2.Key = "lexer/" + o.Key
				r.Obls = append(r.Obls, &o2)
			}
		}
		// events
		ce := w.Func("pkg/backends/statsdaemon", "constructEventMessage")
		if ce == nil {
			r.Unresolved("statsdaemon.constructEventMessage")
			return
		}
		c.SawFunc(FuncName(ce))
		// sequence of writes
		type wr struct {
			kind string
			val  ssa.Value
			in   ssa.Instruction
		}
		var writes []wr
		for _, cl := range callsIn(ce) {
			switch {
			case isCall(cl, "(*bytes.Buffer).WriteString"):
				writes = append(writes, wr{"str", cl.Common().Args[1], cl})
			case isCall(cl, "(*bytes.Buffer).WriteByte"):
				writes = append(writes, wr{"byte", cl.Common().Args[1], cl})
			}
		}
		// header: "_e{" Itoa(len(A)) ',' Itoa(len(B)) "}:" A '|' B
		var lens []ssa.Value
		var strs []ssa.Value
		for _, x := range writes {
			if x.kind != "str" {
				continue
			}
			if cl, ok := x.val.(*ssa.Call); ok && isCall(cl, "strconv.Itoa") {
				if lc, ok := cl.Call.Args[0].(*ssa.Call); ok && isCall(lc, "builtin len") {
					lens = append(lens, lc.Call.Args[0])
				}
				continue
			}
			if _, isC := x.val.(*ssa.Const); isC {
				continue
			}
			strs = append(strs, x.val)
		}
		same := func(a, b ssa.Value) bool {
			if a == b {
				return true
			}
			// two loads of the same field of the (unmodified) event
			_, aLoad := a.(*ssa.UnOp)
			_, bLoad := b.(*ssa.UnOp)
			return aLoad && bLoad && pathOf(a) == pathOf(b) && strings.HasPrefix(pathOf(a), "e.")
		}
		okLens := len(lens) == 2 && len(strs) >= 2 && same(lens[0], strs[0]) && same(lens[1], strs[1])
		d := ""
		if len(lens) == 2 && len(strs) >= 2 {
			d = fmt.Sprintf("declared len(%s), len(%s); written %s, %s", pathOf(lens[0]), pathOf(lens[1]), pathOf(strs[0]), pathOf(strs[1]))
		}
		r.Check("event:header-lengths-match-written-strings", okLens, ce.Pos(), "the two lengths in _e{n,m} are the lengths of exactly the title and text strings written after the header: "+d)
		r.Check("event:title-is-title", len(strs) >= 1 && strings.HasSuffix(pathOf(strs[0]), ".Title"), ce.Pos(), "first string is e.Title")
		// text is the newline-escaped e.Text: strings.Replace(e.Text, "\n", "\\n", -1)
		okEsc := false
		if len(strs) >= 2 {
			if cl, ok := strs[1].(*ssa.Call); ok && isCall(cl, "strings.Replace", "strings.ReplaceAll") {
				a := cl.Call.Args
				from, _ := constString(a[1])
				to, _ := constString(a[2])
				okEsc = strings.HasSuffix(pathOf(a[0]), ".Text") && from == "\n" && to == "\\n"
			}
		}
		r.Check("event:newline-escaping", okEsc, ce.Pos(), "text is e.Text with \\n -> \\\\n")
		words := globalByteStrings(w, lexPkg)
		r.Check("event:escaping-is-lexer-inverse", words["escapedNewline"] == "\\n" && words["newline"] == "\n", ce.Pos(), fmt.Sprintf("lexer replaces %q by %q", words["escapedNewline"], words["newline"]))
		// attribute keys written agree with the lexer's event table: d h k p s t #
		keys := map[string]string{}
		var lastConst string
		for _, x := range writes {
			if x.kind == "str" {
				if s, isS := constString(x.val); isS {
					lastConst = s
					continue
				}
				if lastConst != "" && strings.HasPrefix(lastConst, "|") {
					k := strings.TrimSuffix(strings.TrimPrefix(lastConst, "|"), ":")
					keys[k] = exprString(x.val, 0)
				}
				lastConst = ""
			}
		}
		wantKeys := map[string]string{"d": "DateHappened", "h": "Source", "k": "AggregationKey", "s": "SourceTypeName", "p": "Priority", "t": "AlertType", "#": "Tags"}
		for k, f := range wantKeys {
			got, ok := keys[k]
			r.Check("event:key-"+k, ok && strings.Contains(got, "."+f), ce.Pos(), fmt.Sprintf("|%s: carries %s (lexer reads it into %s)", k, got, f))
		}
	})
}

var _ = types.Typ
