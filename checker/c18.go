package main

import (
	"fmt"
	"go/token"
	"sort"
	"strings"

	"golang.org/x/tools/go/ssa"
)

func init() { register("C18", c18) }

// timeTerm is a canonical form of a time.Time expression built from Add / Truncate / Round of
// a root: root + sum(durations), where the root is a symbol or Trunc/Round(term, dur).
type timeTerm struct {
	Root string
	Durs []string // signed duration atoms, sorted
}

func (t timeTerm) String() string {
	d := append([]string{}, t.Durs...)
	sort.Strings(d)
	if len(d) == 0 {
		return t.Root
	}
	return t.Root + " + [" + strings.Join(d, ", ") + "]"
}

func negDur(s string) string {
	if strings.HasPrefix(s, "-") {
		return s[1:]
	}
	return "-" + s
}

// durTerm names a duration value: field/parameter name, optionally negated.
func durTerm(v ssa.Value, subst map[ssa.Value]string) string {
	if s, ok := subst[v]; ok {
		return s
	}
	switch x := v.(type) {
	case *ssa.UnOp:
		if x.Op == token.SUB {
			return negDur(durTerm(x.X, subst))
		}
		if x.Op == token.MUL {
			p := pathOf(x)
			if i := strings.LastIndex(p, "."); i >= 0 {
				return p[i+1:]
			}
			return p
		}
	case *ssa.Parameter:
		return x.Name()
	}
	return "dur(" + pathOf(v) + ")"
}

// timeOf canonicalises v; module helper functions that return a time.Time are inlined.
func timeOf(v ssa.Value, subst map[ssa.Value]timeTerm, dsubst map[ssa.Value]string, depth int) timeTerm {
	if depth > 8 {
		return timeTerm{Root: "…"}
	}
	if t, ok := subst[v]; ok {
		return t
	}
	switch x := v.(type) {
	case *ssa.Call:
		cal := staticCallee(x)
		if cal == nil {
			if x.Call.IsInvoke() && x.Call.Method.Name() == "Now" {
				return timeTerm{Root: "now"}
			}
			return timeTerm{Root: "call(" + shortCallee(x) + ")"}
		}
		a := x.Call.Args
		switch cal.String() {
		case "(time.Time).Add":
			t := timeOf(a[0], subst, dsubst, depth+1)
			t.Durs = append(append([]string{}, t.Durs...), durTerm(a[1], dsubst))
			return t
		case "(time.Time).Truncate", "(time.Time).Round":
			in := timeOf(a[0], subst, dsubst, depth+1)
			return timeTerm{Root: cal.Name() + "(" + in.String() + ", " + durTerm(a[1], dsubst) + ")"}
		}
		if IsModule(cal) && cal.Blocks != nil && len(cal.Blocks) == 1 {
			// inline a straight-line helper
			s2 := map[ssa.Value]timeTerm{}
			d2 := map[ssa.Value]string{}
			for i, p := range cal.Params {
				if p.Type().String() == "time.Time" {
					s2[p] = timeOf(a[i], subst, dsubst, depth+1)
				} else {
					d2[p] = durTerm(a[i], dsubst)
				}
			}
			for _, in := range cal.Blocks[0].Instrs {
				if rt, ok := in.(*ssa.Return); ok && len(rt.Results) == 1 {
					return timeOf(rt.Results[0], s2, d2, depth+1)
				}
			}
		}
		return timeTerm{Root: "call(" + shortCallee(x) + ")"}
	case *ssa.Parameter:
		return timeTerm{Root: x.Name()}
	case *ssa.Extract:
		return timeTerm{Root: "recv"}
	case *ssa.UnOp:
		if x.Op == token.MUL {
			return timeTerm{Root: pathOf(x)}
		}
	case *ssa.Phi:
		return timeTerm{Root: "phi(" + x.Comment + ")"}
	}
	return timeTerm{Root: pathOf(v)}
}

func c18(c *Ctx) {
	w := c.W
	c.Explanation = "C18 (aligned flushing on interval boundaries): every tick value sent by the aligned ticker has the canonical form Truncate(t - offset, interval) + offset, so (tick - offset) is an exact multiple of the interval for every clock reading, and is the latest such boundary not after t (never in the future); the initial wait has the canonical form Truncate(now - offset, interval) + interval + offset - now, which lies in (0, interval] for every start time, interval and offset; interval and offset are wired unchanged from configuration to the ticker; the flusher reports thisFlush - lastFlush and advances lastFlush."
	c.NotDecided = []string{"flush times strictly increase", "the elapsed time is a positive multiple of the interval under arbitrary clock jumps and slow consumers", "timer accuracy (clock package)"}
	c.Assumptions = []string{"time.Time.Truncate(d) returns the latest multiple of d since the zero time that is not after t (standard library documentation)"}

	st := w.Func("internal/util", "(*AlignedTicker).start")
	sk := w.Func("internal/util", "(*AlignedTicker).sendTick")
	nt := w.Func("internal/util", "NewAlignedTickerWithContext")

	c.Rule("C18.R1", "tick shape: every value sent on the ticker channel is Truncate(t - offset, interval) + offset", 3, func(r *Rule) {
		if sk == nil || st == nil {
			r.Unresolved("(*AlignedTicker).sendTick / start")
			return
		}
		c.SawFunc(FuncName(sk))
		n := 0
		for _, fn := range pkgFuncs(w, "internal/util") {
			eachInstr(fn, func(in ssa.Instruction) {
				var ch, val ssa.Value
				switch x := in.(type) {
				case *ssa.Send:
					ch, val = x.Chan, x.X
				case *ssa.Select:
					for _, s := range x.States {
						if s.Send != nil {
							ch, val = s.Chan, s.Send
						}
					}
				}
				if ch == nil || !(strings.HasSuffix(pathOf(ch), ".chInternal") || strings.HasSuffix(pathOf(ch), ".C")) {
					return
				}
				n++
				t := timeOf(val, map[ssa.Value]timeTerm{}, map[ssa.Value]string{}, 0)
				// accepted: Truncate(<X> + [-offset], interval) + [offset] (+ k*interval)
				ok := false
				if strings.HasPrefix(t.Root, "Truncate(") && strings.HasSuffix(t.Root, " + [-offset], interval)") {
					rest := []string{}
					seenOff := false
					for _, d := range t.Durs {
						if d == "offset" && !seenOff {
							seenOff = true
							continue
						}
						rest = append(rest, d)
					}
					ok = seenOff
					for _, d := range rest {
						if d != "interval" {
							ok = false
						}
					}
				}
				r.Check("tick-value:"+FuncName(fn), ok, in.Pos(), "value sent: "+t.String()+"  (required: Truncate(t + [-offset], interval) + [offset]; Round or a different anchor would stamp a boundary that is in the future or off the grid)")
			})
		}
		r.Check("tick-send-sites", n >= 1, sk.Pos(), fmt.Sprintf("%d sends on the ticker channel", n))
		// start forwards the timer's / ticker's time to sendTick
		ns := 0
		for _, cl := range callsIn(st) {
			if staticCallee(cl) == sk {
				ns++
				_, isRecv := cl.Common().Args[1].(*ssa.Extract)
				r.Check("start:tick-time-from-timer", isRecv, cl.Pos(), "sendTick receives the time delivered by the timer / ticker")
			}
		}
		r.Check("start:send-sites", ns == 2, st.Pos(), fmt.Sprintf("%d sendTick calls (first tick, repeating ticks)", ns))
		// repeating ticker uses the interval
		okT := false
		// "the interval": the ticker's interval field, or a parameter that every caller binds to the constructor's
		// interval (the value the field would hold), traced through the go / call sites
		var isInterval func(v ssa.Value, d int) bool
		isInterval = func(v ssa.Value, d int) bool {
			if d > 4 {
				return false
			}
			if strings.HasSuffix(pathOf(v), ".interval") {
				return true
			}
			p, ok := ptrOrigin(v).(*ssa.Parameter)
			if !ok {
				return false
			}
			fn := p.Parent()
			if strings.HasPrefix(fn.Name(), "NewAlignedTicker") {
				// the constructor's interval: the Duration parameter that precedes the offset
				var durs []*ssa.Parameter
				for _, q := range fn.Params {
					if strings.HasSuffix(q.Type().String(), "time.Duration") {
						durs = append(durs, q)
					}
				}
				return len(durs) == 2 && durs[0] == p
			}
			idx := -1
			for i, q := range fn.Params {
				if q == p {
					idx = i
				}
			}
			n := 0
			for _, g := range w.ModuleFuncs() {
				if strings.Contains(fnPkgPath(g), "/internal/fixtures") {
					continue
				}
				for _, cc := range callsIn(g) {
					if staticCallee(cc) != fn || idx >= len(cc.Common().Args) {
						continue
					}
					n++
					if !isInterval(cc.Common().Args[idx], d+1) {
						return false
					}
				}
			}
			return n > 0
		}
		for _, cl := range callsIn(st) {
			if cl.Common().IsInvoke() && cl.Common().Method.Name() == "NewTicker" && isInterval(cl.Common().Args[0], 0) {
				okT = true
			}
			if cal := staticCallee(cl); cal != nil && cal.Name() == "NewTicker" && isInterval(cl.Common().Args[len(cl.Common().Args)-1], 0) {
				okT = true
			}
		}
		r.Check("start:ticker-period-is-interval", okT, st.Pos(), "the repeating ticker's period is at.interval")
	})

	c.Rule("C18.R2", "wiring: interval, offset and the aligned flag reach the ticker unchanged", 6, func(r *Rule) {
		if nt == nil {
			r.Unresolved("NewAlignedTickerWithContext")
			return
		}
		norm := func(s string) string {
			s = strings.ToLower(s)
			if i := strings.LastIndex(s, "."); i >= 0 {
				s = s[i+1:]
			}
			s = strings.TrimPrefix(s, "flush")
			s = strings.NewReplacer("-", "", "_", "", "\"", "").Replace(s)
			s = strings.TrimPrefix(s, "flush")
			return s
		}
		stemsW := []string{"interval", "offset", "aligned"}
		stemIn := func(s string) string {
			n := norm(s)
			for _, st := range stemsW {
				if n == st {
					return st
				}
			}
			return ""
		}
		// field stores in the ticker and the flusher
		for _, fn := range []*ssa.Function{nt, w.Func("pkg/statsd", "NewMetricFlusher")} {
			if fn == nil {
				r.Unresolved("NewMetricFlusher")
				continue
			}
			c.SawFunc(FuncName(fn))
			for _, s := range storesIn(fn) {
				_, f, _, ok := fieldRef(s.Addr)
				if !ok || stemIn(f) == "" {
					continue
				}
				r.Check(fn.Name()+":field:"+f, stemIn(pathOf(s.Val)) == stemIn(f), s.Pos(), fmt.Sprintf("field %s <- %s", f, pathOf(s.Val)))
			}
		}
		// call arguments bound to parameters named interval/offset/aligned (flush-related constructors)
		for _, fn := range w.ModuleFuncs() {
			pp := fnPkgPath(fn)
			if strings.Contains(pp, "/internal/fixtures") || strings.HasSuffix(pp, "/cmd/tester") || strings.HasSuffix(pp, "/cmd/loader") {
				continue
			}
			for _, cl := range callsIn(fn) {
				cal := staticCallee(cl)
				if cal == nil || !(cal.Name() == "NewMetricFlusher" || cal.Name() == "NewAlignedTickerWithContext" || cal.Name() == "NewAlignedTicker") {
					continue
				}
				c.SawFunc(FuncName(fn))
				args := cl.Common().Args
				for i, p := range cal.Params {
					if stemIn(p.Name()) == "" || i >= len(args) {
						continue
					}
					if k, isC := args[i].(*ssa.Const); isC && cal.Name() == "NewMetricFlusher" && fn.Name() == "createForwarderSink" {
						r.Pass(fn.Name()+":arg:"+cal.Name()+"."+p.Name(), cl.Pos(), "forwarder mode has no aggregators to flush; constant "+pathOf(k))
						continue
					}
					r.Check(fn.Name()+":arg:"+cal.Name()+"."+p.Name(), stemIn(pathOf(args[i])) == stemIn(p.Name()), cl.Pos(), fmt.Sprintf("parameter %s <- %s", p.Name(), pathOf(args[i])))
				}
			}
		}
		// makeTicker selects the aligned ticker exactly when flushAligned
		// (when makeTicker was written into Run, its only caller, the same facts are looked for there)
		mt, _ := w.FuncOrHost("pkg/statsd", "(*MetricFlusher).makeTicker")
		if mt == nil {
			r.Unresolved("(*MetricFlusher).makeTicker")
			return
		}
		// a value is "field X of the flusher" if it is loaded from it here, or is a parameter that every
		// caller binds to that field
		isFlusherField := func(v ssa.Value, field string) bool {
			if strings.HasSuffix(pathOf(v), "."+field) {
				return true
			}
			if p, ok := v.(*ssa.Parameter); ok {
				idx := paramIndex(mt, p)
				n := 0
				for _, fn := range w.ModuleFuncs() {
					for _, cc := range callsIn(fn) {
						if staticCallee(cc) == mt {
							n++
							if !strings.HasSuffix(pathOf(cc.Common().Args[idx]), "."+field) {
								return false
							}
						}
					}
				}
				return n > 0
			}
			return false
		}
		alignedKnown := func(b *ssa.BasicBlock, want bool) bool {
			for _, f := range factsAt(b) {
				if f.Op == token.ILLEGAL && f.True == want && isFlusherField(f.V, "flushAligned") {
					return true
				}
			}
			return false
		}
		for _, cl := range callsIn(mt) {
			if cal := staticCallee(cl); cal != nil && cal.Name() == "NewAlignedTickerWithContext" {
				cs := strings.Join(condStrings(cl.Block()), " && ")
				r.Check("makeTicker:aligned-when-configured", alignedKnown(cl.Block(), true), cl.Pos(), cs)
			}
			if cl.Common().IsInvoke() && cl.Common().Method.Name() == "NewTicker" {
				cs := strings.Join(condStrings(cl.Block()), " && ")
				r.Check("makeTicker:plain-otherwise", alignedKnown(cl.Block(), false) && isFlusherField(cl.Common().Args[0], "flushInterval"), cl.Pos(), cs)
			}
		}
		// main.go / server: Server fields set from the matching Param keys
		for _, fn := range w.ModuleFuncs() {
			if !strings.HasSuffix(fnPkgPath(fn), "/cmd/gostatsd") {
				continue
			}
			for _, s := range storesIn(fn) {
				t, f, _, ok := fieldRef(s.Addr)
				if !ok || t != "Server" || !(f == "FlushInterval" || f == "FlushOffset" || f == "FlushAligned") {
					continue
				}
				es := exprString(s.Val, 0)
				want := map[string]string{"FlushInterval": "flush-interval", "FlushOffset": "flush-offset", "FlushAligned": "flush-aligned"}[f]
				r.Check("config:"+f, strings.Contains(es, "\""+want+"\""), s.Pos(), fmt.Sprintf("Server.%s <- %s", f, es))
			}
		}
	})

	c.Rule("C18.R3", "the flusher reports thisFlush - lastFlush to the aggregators and advances lastFlush afterwards", 3, func(r *Rule) {
		run := w.Func("pkg/statsd", "(*MetricFlusher).Run")
		if run == nil {
			r.Unresolved("(*MetricFlusher).Run")
			return
		}
		c.SawFunc(FuncName(run))
		var sub *ssa.Call
		for _, cl := range callsTo(run, "(time.Time).Sub") {
			sub, _ = cl.(*ssa.Call)
		}
		if sub == nil {
			r.Fail("Run:delta", run.Pos(), "no time difference computed")
			return
		}
		_, isRecv := sub.Call.Args[0].(*ssa.Extract)
		ph, isPhi := sub.Call.Args[1].(*ssa.Phi)
		// "last" is the loop-carried variable that only ever holds the start time or a received tick
		okLast := isPhi && isLoopHead(ph.Block())
		if okLast {
			for _, e := range ph.Edges {
				switch {
				case e == sub.Call.Args[0], e == ssa.Value(ph):
				default:
					if cl, ok := e.(*ssa.Call); !ok || !isCall(cl, "time.Now") {
						// values carried by inner phis of the same variable are followed one level
						if ip, ok := e.(*ssa.Phi); ok {
							for _, e2 := range ip.Edges {
								if e2 != sub.Call.Args[0] && e2 != ssa.Value(ph) && e2 != ssa.Value(ip) {
									okLast = false
								}
							}
						} else {
							okLast = false
						}
					}
				}
			}
		}
		r.Check("Run:delta-is-this-minus-last", isRecv && okLast, sub.Pos(), "flushDelta = thisFlush.Sub(lastFlush), lastFlush being the previous tick (or the start time)")
		okArg := false
		for _, cl := range callsIn(run) {
			if cal := staticCallee(cl); cal != nil && cal.Name() == "flushData" {
				okArg = cl.Common().Args[2] == ssa.Value(sub)
			}
		}
		r.Check("Run:delta-passed-to-flush", okArg, run.Pos(), "flushData receives the delta")
		okAdv := false
		if isPhi {
			var carries func(v ssa.Value, d int) bool
			carries = func(v ssa.Value, d int) bool {
				if v == sub.Call.Args[0] {
					return true
				}
				if ip, ok := v.(*ssa.Phi); ok && ip != ph && d < 3 {
					for _, e2 := range ip.Edges {
						if carries(e2, d+1) {
							return true
						}
					}
				}
				return false
			}
			for i, e := range ph.Edges {
				if carries(e, 0) && ph.Block().Preds[i] != run.Blocks[0] {
					okAdv = true
				}
			}
		}
		r.Check("Run:last-advances", okAdv, run.Pos(), "lastFlush = thisFlush at the end of the iteration")
		// the tick time comes from the ticker channel made by makeTicker
		okSrc := false
		eachInstr(run, func(in ssa.Instruction) {
			if sel, ok := in.(*ssa.Select); ok {
				for _, s := range sel.States {
					if s.Send == nil && strings.Contains(pathOf(s.Chan), "makeTicker") {
						okSrc = true
					}
					// the ticker made in place: on every path the channel is the C of a ticker constructed here
					if s.Send == nil && s.Chan != nil {
						all, any := true, false
						for _, vc := range valueCases(s.Chan, nil) {
							p := pathOf(vc.V)
							if strings.HasSuffix(p, ".C") && (strings.Contains(p, "NewAlignedTickerWithContext") || strings.Contains(p, "NewTicker")) {
								any = true
							} else {
								all = false
							}
						}
						if all && any {
							okSrc = true
						}
					}
				}
			}
		})
		r.Check("Run:tick-source", okSrc, run.Pos(), "thisFlush is received from makeTicker's channel")
	})

	c.Rule("C18.R4", "initial wait shape: Truncate(now - offset, interval) + interval + offset - now, hence 0 < wait <= interval for every start time", 2, func(r *Rule) {
		if st == nil {
			r.Unresolved("(*AlignedTicker).start")
			return
		}
		c.SawFunc(FuncName(st))
		var tm ssa.CallInstruction
		for _, cl := range callsIn(st) {
			if cl.Common().IsInvoke() && cl.Common().Method.Name() == "NewTimer" {
				tm = cl
			}
			if cal := staticCallee(cl); cal != nil && cal.Name() == "NewTimer" {
				tm = cl
			}
		}
		if tm == nil {
			r.Fail("start:initial-timer", st.Pos(), "no initial timer")
			return
		}
		a := tm.Common().Args
		d := a[len(a)-1]
		sub, ok := d.(*ssa.Call)
		if !ok || !isCall(sub, "(time.Time).Sub") {
			r.Fail("start:initial-wait-shape", tm.Pos(), "initial wait is "+pathOf(d)+", not target.Sub(now)")
			return
		}
		target := timeOf(sub.Call.Args[0], map[ssa.Value]timeTerm{}, map[ssa.Value]string{}, 0)
		from := timeOf(sub.Call.Args[1], map[ssa.Value]timeTerm{}, map[ssa.Value]string{}, 0)
		ds := append([]string{}, target.Durs...)
		sort.Strings(ds)
		okShape := target.Root == "Truncate(now + [-offset], interval)" && strings.Join(ds, ",") == "interval,offset" && from.String() == "now"
		r.Check("start:initial-wait-shape", okShape, tm.Pos(), "initial wait = ("+target.String()+") - ("+from.String()+"); required: Truncate(now + [-offset], interval) + [interval, offset] - now, which is in (0, interval] for every now, interval > 0 and offset")
		// the same clock reading is used on both sides
		r.Check("start:single-clock-reading", sub.Call.Args[1] != nil && strings.Contains(target.Root, "now"), tm.Pos(), "target and subtrahend use the same `now`")
	})
}
