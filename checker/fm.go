package main

import (
	"fmt"
	"math/big"
	"sort"
	"strings"
)

// Linear arithmetic over the rationals with integer tightening, decided by Fourier–Motzkin
// elimination.  A constraint is  sum(coef[v]*v) + c >= 0.  All variables range over integers,
// so a strict inequality e > 0 is stored as e - 1 >= 0.

type linExpr struct {
	Coef map[string]*big.Rat
	C    *big.Rat
}

func newLin() linExpr { return linExpr{Coef: map[string]*big.Rat{}, C: new(big.Rat)} }

func linConst(n int64) linExpr {
	l := newLin()
	l.C.SetInt64(n)
	return l
}

func linVar(v string) linExpr {
	l := newLin()
	l.Coef[v] = big.NewRat(1, 1)
	return l
}

func (l linExpr) clone() linExpr {
	r := newLin()
	for k, v := range l.Coef {
		r.Coef[k] = new(big.Rat).Set(v)
	}
	r.C.Set(l.C)
	return r
}

func (l linExpr) add(o linExpr) linExpr {
	r := l.clone()
	for k, v := range o.Coef {
		if r.Coef[k] == nil {
			r.Coef[k] = new(big.Rat)
		}
		r.Coef[k].Add(r.Coef[k], v)
		if r.Coef[k].Sign() == 0 {
			delete(r.Coef, k)
		}
	}
	r.C.Add(r.C, o.C)
	return r
}

func (l linExpr) scale(n int64) linExpr {
	r := newLin()
	f := big.NewRat(n, 1)
	for k, v := range l.Coef {
		x := new(big.Rat).Mul(v, f)
		if x.Sign() != 0 {
			r.Coef[k] = x
		}
	}
	r.C.Mul(l.C, f)
	return r
}

func (l linExpr) sub(o linExpr) linExpr { return l.add(o.scale(-1)) }

func (l linExpr) isConst() bool { return len(l.Coef) == 0 }

func (l linExpr) String() string {
	var ks []string
	for k := range l.Coef {
		ks = append(ks, k)
	}
	sort.Strings(ks)
	var p []string
	for _, k := range ks {
		c := l.Coef[k]
		switch {
		case c.Cmp(big.NewRat(1, 1)) == 0:
			p = append(p, "+"+k)
		case c.Cmp(big.NewRat(-1, 1)) == 0:
			p = append(p, "-"+k)
		default:
			p = append(p, fmt.Sprintf("%+s*%s", c.RatString(), k))
		}
	}
	if l.C.Sign() != 0 || len(p) == 0 {
		p = append(p, fmt.Sprintf("%+s", l.C.RatString()))
	}
	return strings.Join(p, " ")
}

// constraint: E >= 0
type constraint struct {
	E   linExpr
	Why string
}

func geq(a, b linExpr, why string) constraint { return constraint{a.sub(b), why} } // a >= b
func gt(a, b linExpr, why string) constraint {
	return constraint{a.sub(b).add(linConst(-1)), why}
} // a > b  (integers)

// infeasible reports whether the conjunction of cs has no rational solution (hence no integer
// one).  ok=false if the elimination exceeded its size bound (undecided).
func infeasible(cs []constraint) (inf bool, ok bool) {
	work := make([]linExpr, 0, len(cs))
	seenC := map[string]bool{}
	for _, c := range cs {
		k := c.E.String()
		if seenC[k] {
			continue
		}
		seenC[k] = true
		work = append(work, c.E)
	}
	for iter := 0; iter < 64; iter++ {
		// contradiction among constant constraints?
		vars := map[string]int{}
		for _, e := range work {
			if e.isConst() {
				if e.C.Sign() < 0 {
					return true, true
				}
				continue
			}
			for v := range e.Coef {
				vars[v]++
			}
		}
		if len(vars) == 0 {
			return false, true
		}
		// pick the variable minimising (#pos * #neg)
		best, bestCost := "", -1
		var names []string
		for v := range vars {
			names = append(names, v)
		}
		sort.Strings(names)
		for _, v := range names {
			p, n := 0, 0
			for _, e := range work {
				if c := e.Coef[v]; c != nil {
					if c.Sign() > 0 {
						p++
					} else {
						n++
					}
				}
			}
			cost := p * n
			if bestCost < 0 || cost < bestCost {
				best, bestCost = v, cost
			}
		}
		var pos, neg, rest []linExpr
		for _, e := range work {
			c := e.Coef[best]
			switch {
			case c == nil:
				rest = append(rest, e)
			case c.Sign() > 0:
				pos = append(pos, e)
			default:
				neg = append(neg, e)
			}
		}
		if len(pos)*len(neg) > 2500 {
			return false, false
		}
		for _, p := range pos {
			for _, n := range neg {
				// p: a*x + P >= 0 (a>0) ; n: -b*x + N >= 0 (b>0)  =>  b*P + a*N >= 0
				a := new(big.Rat).Set(p.Coef[best])
				b := new(big.Rat).Neg(n.Coef[best])
				e := newLin()
				for k, v := range p.Coef {
					if k == best {
						continue
					}
					e.Coef[k] = new(big.Rat).Mul(v, b)
				}
				e.C.Mul(p.C, b)
				for k, v := range n.Coef {
					if k == best {
						continue
					}
					if e.Coef[k] == nil {
						e.Coef[k] = new(big.Rat)
					}
					e.Coef[k].Add(e.Coef[k], new(big.Rat).Mul(v, a))
					if e.Coef[k].Sign() == 0 {
						delete(e.Coef, k)
					}
				}
				e.C.Add(e.C, new(big.Rat).Mul(n.C, a))
				rest = append(rest, e)
			}
		}
		if len(rest) > 4000 {
			return false, false
		}
		work = rest
	}
	return false, false
}

// entails: facts |= goal (goal: G >= 0), decided by refuting facts ∧ (G <= -1).
func entails(facts []constraint, goal linExpr) (bool, bool) {
	neg := goal.scale(-1).add(linConst(-1)) // -G - 1 >= 0
	// relevance: keep only the facts connected to the goal through shared variables
	rel := map[string]bool{}
	for v := range neg.Coef {
		rel[v] = true
	}
	used := make([]bool, len(facts))
	for changed := true; changed; {
		changed = false
		for i, f := range facts {
			if used[i] {
				continue
			}
			hit := len(f.E.Coef) == 0
			for v := range f.E.Coef {
				if rel[v] {
					hit = true
					break
				}
			}
			if hit {
				used[i] = true
				changed = true
				for v := range f.E.Coef {
					rel[v] = true
				}
			}
		}
	}
	cs := []constraint{{neg, "negated goal"}}
	for i, f := range facts {
		if used[i] {
			cs = append(cs, f)
		}
	}
	return infeasible(cs)
}
