module golang.org/x/tools/gsdcheck

go 1.26.8

require golang.org/x/tools v0.50.0

require (
	golang.org/x/mod v0.41.0 // indirect
	golang.org/x/sync v0.23.0 // indirect
)
