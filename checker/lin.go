package main

import (
	"fmt"
	"go/token"
	"go/types"
	"sort"
	"strings"

	"golang.org/x/tools/go/ssa"
)

// ---------- automaton with edge events ----------

func runAutomatonE(fn *ssa.Function, start int, classify func(ssa.Instruction) int, edgeEvent func(from, to *ssa.BasicBlock) int, delta func(state, event int) int) autoResult {
	// states are kept per (predecessor, block) so that a branch on a flag phi is followed only in
	// the direction the incoming edge determines
	type key struct{ pred, b int } // pred = -1 at the entry
	in := map[key]uint32{}
	res := autoResult{ExitStates: map[*ssa.BasicBlock]uint32{}, InStates: map[ssa.Instruction]uint32{}}
	if len(fn.Blocks) == 0 {
		return res
	}
	errSeen := map[string]bool{}
	apply := func(s uint32, ev int, at ssa.Instruction, record bool) uint32 {
		var out uint32
		for st := 0; st < 31; st++ {
			if s&(1<<uint(st)) == 0 {
				continue
			}
			nx := delta(st, ev)
			if nx < 0 {
				k := fmt.Sprintf("%p/%d/%d", at, st, ev)
				if record && !errSeen[k] {
					errSeen[k] = true
					res.Errors = append(res.Errors, autoErr{at, st, ev})
				}
				continue
			}
			out |= 1 << uint(nx)
		}
		return out
	}
	transfer := func(b *ssa.BasicBlock, s uint32, record bool) uint32 {
		for _, ins := range b.Instrs {
			ev := classify(ins)
			if ev < 0 {
				continue
			}
			if record {
				res.InStates[ins] |= s
			}
			s = apply(s, ev, ins, record)
		}
		return s
	}
	predOf := func(k key) *ssa.BasicBlock {
		if k.pred < 0 {
			return nil
		}
		return fn.Blocks[k.pred]
	}
	k0 := key{-1, 0}
	in[k0] = 1 << uint(start)
	work := []key{k0}
	for len(work) > 0 {
		k := work[len(work)-1]
		work = work[:len(work)-1]
		b := fn.Blocks[k.b]
		out := transfer(b, in[k], false)
		for _, s := range b.Succs {
			if !feasibleSucc(predOf(k), b, s) {
				continue
			}
			o := out
			if edgeEvent != nil {
				automatonPred = predOf(k)
				ev := edgeEvent(b, s)
				automatonPred = nil
				if ev >= 0 {
					o = apply(o, ev, b.Instrs[len(b.Instrs)-1], false)
				}
			}
			ks := key{b.Index, s.Index}
			if in[ks]|o != in[ks] {
				in[ks] |= o
				work = append(work, ks)
			}
		}
	}
	var keys []key
	for k, v := range in {
		if v != 0 {
			keys = append(keys, k)
		}
	}
	sort.Slice(keys, func(i, j int) bool {
		if keys[i].b != keys[j].b {
			return keys[i].b < keys[j].b
		}
		return keys[i].pred < keys[j].pred
	})
	for _, k := range keys {
		b := fn.Blocks[k.b]
		out := transfer(b, in[k], true)
		if len(b.Succs) == 0 {
			if _, ok := b.Instrs[len(b.Instrs)-1].(*ssa.Return); ok {
				res.ExitStates[b] |= out
			}
		}
	}
	return res
}

// selectCaseEdge returns the CFG edge taken when select state k fires.
func selectCaseEdge(sel *ssa.Select, k int) (from, to *ssa.BasicBlock) {
	for _, r := range referrers(sel) {
		ex, ok := r.(*ssa.Extract)
		if !ok || ex.Index != 0 {
			continue
		}
		for _, r2 := range referrers(ex) {
			b, ok := r2.(*ssa.BinOp)
			if !ok || b.Op != token.EQL {
				continue
			}
			if n, isC := constInt(b.Y); !isC || int(n) != k {
				continue
			}
			for _, r3 := range referrers(b) {
				if ifi, ok := r3.(*ssa.If); ok {
					return ifi.Block(), ifi.Block().Succs[0]
				}
			}
		}
	}
	return nil, nil
}

// ---------- linear (exactly-once) use of a function value ----------

type linReport struct {
	Mask     uint32   // union over return paths: bit0 = 0 uses, bit1 = 1 use, bit2 = >= 2
	Problems []string // escapes and nested failures
	Sites    []string // where it is consumed
}

// linearUse analyses how often the function value held in `root` (a parameter or a free
// variable of fn) is consumed on each path of fn.  Consumption: calling it (call/defer/go),
// starting a goroutine whose closure consumes it exactly once on all its paths, moving it
// into a struct field named Cb of a value that is then sent on a channel (counted on the
// branch where the send fires), or passing it to a module function that itself consumes it
// exactly once.  Any other use is reported as an escape.
func linearUse(w *World, fn *ssa.Function, root ssa.Value, depth int) linReport {
	var rep linReport
	if depth > 4 {
		rep.Problems = append(rep.Problems, "analysis depth exceeded in "+FuncName(fn))
		return rep
	}
	// the set of SSA values that denote the callback inside fn
	holders := map[ssa.Value]bool{} // allocs / freevar pointers holding it
	isVal := func(v ssa.Value) bool {
		if v == root {
			return true
		}
		if u, ok := v.(*ssa.UnOp); ok && u.Op == token.MUL && holders[u.X] {
			return true
		}
		return false
	}
	if _, isPtr := root.Type().Underlying().(*types.Pointer); isPtr {
		// a captured variable: root is the pointer, values are loads of it
		holders[root] = true
		isVal = func(v ssa.Value) bool {
			if u, ok := v.(*ssa.UnOp); ok && u.Op == token.MUL && holders[u.X] {
				return true
			}
			return false
		}
	} else {
		for _, r := range referrers(root) {
			if st, ok := r.(*ssa.Store); ok && st.Val == root {
				if al, ok := st.Addr.(*ssa.Alloc); ok {
					holders[al] = true
				}
			}
		}
	}
	events := map[ssa.Instruction]bool{}
	type edge struct{ from, to *ssa.BasicBlock }
	edgeEvents := map[edge]bool{}
	// struct allocs into whose .Cb field the value was moved
	moved := map[ssa.Value]bool{}

	note := func(s string) { rep.Sites = append(rep.Sites, s) }
	eachInstr(fn, func(in ssa.Instruction) {
		switch x := in.(type) {
		case ssa.CallInstruction:
			cc := x.Common()
			if !cc.IsInvoke() && isVal(cc.Value) {
				events[in] = true
				note(fmt.Sprintf("%T at %s", in, w.Pos(in.Pos())))
				return
			}
			// go closure capturing a holder
			if g, isGo := in.(*ssa.Go); isGo {
				if mc, ok := g.Call.Value.(*ssa.MakeClosure); ok {
					cl := mc.Fn.(*ssa.Function)
					for i, b := range mc.Bindings {
						if holders[b] || isVal(b) {
							sub := linearUse(w, cl, cl.FreeVars[i], depth+1)
							if sub.Mask != 2 || len(sub.Problems) > 0 {
								rep.Problems = append(rep.Problems, fmt.Sprintf("goroutine %s consumes the callback %s times %v", cl.Name(), maskString(sub.Mask), sub.Problems))
							}
							events[in] = true
							note("go " + cl.Name() + " at " + w.Pos(in.Pos()))
						}
					}
				}
			}
			// passed as an argument
			for ai, a := range cc.Args {
				if !isVal(a) {
					continue
				}
				cal := staticCallee(x)
				if cal != nil && IsModule(cal) && cal.Blocks != nil && ai < len(cal.Params) {
					sub := linearUse(w, cal, cal.Params[ai], depth+1)
					if sub.Mask != 2 || len(sub.Problems) > 0 {
						rep.Problems = append(rep.Problems, fmt.Sprintf("callee %s consumes the callback %s times %v", cal.Name(), maskString(sub.Mask), sub.Problems))
					}
					events[in] = true
					note("passed to " + cal.Name() + " at " + w.Pos(in.Pos()))
				} else {
					rep.Problems = append(rep.Problems, "callback passed to "+shortCallee(x)+" at "+w.Pos(in.Pos())+" (not analysable)")
				}
			}
		case *ssa.Store:
			if !isVal(x.Val) {
				return
			}
			if al, ok := x.Addr.(*ssa.Alloc); ok && holders[al] {
				return // the spill itself
			}
			if _, f, base, ok := fieldRef(x.Addr); ok && f == "Cb" {
				moved[base] = true
				return
			}
			rep.Problems = append(rep.Problems, "callback stored to "+pathOf(x.Addr)+" at "+w.Pos(in.Pos()))
		case *ssa.MakeClosure:
			for _, b := range x.Bindings {
				if holders[b] || isVal(b) {
					// fine if this closure is the operand of a go instruction (handled above)
					isGo := false
					for _, r := range referrers(x) {
						if g, ok := r.(*ssa.Go); ok && g.Call.Value == ssa.Value(x) {
							isGo = true
						}
					}
					if !isGo {
						rep.Problems = append(rep.Problems, "callback captured by closure "+x.Fn.Name()+" which is not started with go (it may run any number of times) at "+w.Pos(in.Pos()))
					}
				}
			}
		case *ssa.Return:
			for _, rv := range x.Results {
				if isVal(rv) {
					rep.Problems = append(rep.Problems, "callback returned")
				}
			}
		}
	})
	// sends of moved structs
	eachInstr(fn, func(in ssa.Instruction) {
		isMovedVal := func(v ssa.Value) bool {
			if u, ok := v.(*ssa.UnOp); ok && u.Op == token.MUL && moved[u.X] {
				return true
			}
			return false
		}
		switch x := in.(type) {
		case *ssa.Send:
			if isMovedVal(x.X) {
				events[in] = true
				note("sent on " + pathOf(x.Chan))
			}
		case *ssa.Select:
			for k, st := range x.States {
				if st.Dir == types.SendOnly && isMovedVal(st.Send) {
					from, to := selectCaseEdge(x, k)
					if from == nil {
						rep.Problems = append(rep.Problems, "cannot locate the branch of the select send at "+w.Pos(in.Pos()))
						continue
					}
					edgeEvents[edge{from, to}] = true
					note("select-send on " + pathOf(st.Chan) + " at " + w.Pos(in.Pos()))
				}
			}
		}
	})
	res := runAutomatonE(fn, 0, func(in ssa.Instruction) int {
		if events[in] {
			return 0
		}
		return -1
	}, func(from, to *ssa.BasicBlock) int {
		if edgeEvents[edge{from, to}] {
			return 0
		}
		return -1
	}, func(s, e int) int {
		if s >= 2 {
			return 2
		}
		return s + 1
	})
	for _, s := range res.ExitStates {
		rep.Mask |= s
	}
	if len(res.ExitStates) == 0 {
		rep.Problems = append(rep.Problems, "function has no normal return")
	}
	return rep
}

func (l linReport) String() string {
	return fmt.Sprintf("uses over paths %s; sites: %s; problems: %s", maskString(l.Mask), strings.Join(l.Sites, ", "), strings.Join(l.Problems, "; "))
}
