package main

import (
	"encoding/json"
	"flag"
	"fmt"
	"os"
	"sort"
	"strings"
	"time"
)

type propDef struct {
	ID  string
	Run func(c *Ctx)
}

var registry = map[string]func(c *Ctx){}

func register(id string, f func(c *Ctx)) { registry[id] = f }

func main() {
	prop := flag.String("property", "", "property id (C01..C20), comma list, or 'all'")
	tier := flag.String("tier", "quick", "quick|thorough")
	repo := flag.String("repo", "/repo", "repository working tree to analyse")
	verif := flag.String("verif", "/verif", "verif directory (evidence, reports, known_findings.json)")
	replay := flag.String("replay", "", "report file: re-run the rules that failed in it")
	only := flag.String("rule", "", "run only this rule id")
	dump := flag.String("dump", "", "debug: dump SSA of function pkgrel:Name")
	verbose := flag.Bool("v", false, "list every obligation")
	dumpBaseline := flag.Bool("dump-baseline", false, "print the function inventory of the module (used to refresh baseline_funcs.txt)")
	flag.Parse()

	if *replay != "" {
		b, err := os.ReadFile(*replay)
		if err != nil {
			fmt.Println(err)
			os.Exit(2)
		}
		var rp struct {
			Property   string `json:"property"`
			Tier       string `json:"tier"`
			Violations []Obl  `json:"violations"`
		}
		if json.Unmarshal(b, &rp) != nil || rp.Property == "" {
			fmt.Println("bad replay file")
			os.Exit(2)
		}
		*prop = rp.Property
		if rp.Tier != "" {
			*tier = rp.Tier
		}
		fmt.Printf("replaying property %s (%d recorded violations)\n", rp.Property, len(rp.Violations))
	}
	start := time.Now()
	var w *World
	pkgs, err := loadPkgs(*repo, nil)
	if err == nil && *dumpBaseline {
		for _, n := range funcInventory(pkgs) {
			fmt.Println(n)
		}
		for _, d := range moduleDecls(pkgs) {
			fmt.Println("sig\t" + d.fn.FullName() + "\t" + funcSig(d.fn))
		}
		for _, n := range closureInventory(pkgs) {
			fmt.Println("closure\t" + n)
		}
		for _, n := range callerInventory(pkgs) {
			fmt.Println("caller\t" + n)
		}
		for _, n := range typeInventory(pkgs) {
			fmt.Println("type\t" + n)
		}
		return
	}
	if err == nil {
		var nr *normResult
		nr, pkgs, err = normalise(*repo, pkgs)
		if err == nil {
			w, err = buildWorld(*repo, pkgs)
			if err == nil {
				w.Dead = nr.Dead
				w.NormLog = nr.Log
				theWorld = w
				for _, l := range nr.Log {
					fmt.Println("normalise: " + l)
				}
				if d := os.Getenv("GSD_DUMP_NORM"); d != "" {
					// debugging aid: write the normalised files
					for name, b := range nr.Overlay {
						os.WriteFile(d+"/"+strings.ReplaceAll(strings.TrimPrefix(name, *repo+"/"), "/", "__"), b, 0o644)
					}
				}
			}
		}
	}
	if err != nil {
		// fail closed: no verdict on a program that does not load
		ids := expand(*prop)
		for _, id := range ids {
			fmt.Printf("load failure: %v\n", err)
			c := &Ctx{W: &World{Repo: *repo}, Prop: id, Tier: *tier}
			c.Rule(id+".LOAD", "the repository loads and type-checks", 1, func(r *Rule) {
				r.Fail("load", 0, err.Error())
			})
			c.Explanation = "load failed"
			c.Finish(*verif, start)
		}
		os.Exit(1)
	}
	if *dump != "" {
		i := strings.LastIndex(*dump, ":")
		fn := w.Func((*dump)[:i], (*dump)[i+1:])
		if fn == nil {
			fmt.Println("not found")
			os.Exit(2)
		}
		for _, f := range WithAnon(fn) {
			f.WriteTo(os.Stdout)
		}
		return
	}
	rc := 0
	for _, id := range expand(*prop) {
		f := registry[id]
		if f == nil {
			fmt.Printf("no rules registered for %s\n", id)
			rc = 2
			continue
		}
		t0 := time.Now()
		if len(expand(*prop)) == 1 {
			t0 = start
		}
		c := &Ctx{W: w, Prop: id, Tier: *tier, Only: *only}
		c.loadKnown(*verif + "/known_findings.json")
		f(c)
		if *verbose {
			for _, r := range c.Rules {
				for _, o := range r.Obls {
					fmt.Printf("  obl %s %-60s %-40s ok=%v %s\n", o.Rule, o.Key, o.Pos, o.OK, oneLine(o.Detail))
				}
			}
		}
		if r := c.Finish(*verif, t0); r > rc {
			rc = r
		}
	}
	os.Exit(rc)
}

func expand(p string) []string {
	if p == "all" {
		var ids []string
		for id := range registry {
			ids = append(ids, id)
		}
		sort.Strings(ids)
		return ids
	}
	return strings.Split(p, ",")
}
