package main

import (
	"fmt"
	"golang.org/x/tools/go/packages"
	"golang.org/x/tools/go/ssa"
	"golang.org/x/tools/go/ssa/ssautil"
	"golang.org/x/tools/go/callgraph/cha"
	"golang.org/x/tools/go/callgraph/vta"
)

func main() {
	cfg := &packages.Config{Mode: packages.LoadAllSyntax, Dir: "/repo"}
	pkgs, err := packages.Load(cfg, "./...")
	if err != nil { panic(err) }
	fmt.Println(len(pkgs), packages.PrintErrors(pkgs))
	prog, _ := ssautil.AllPackages(pkgs, ssa.InstantiateGenerics)
	prog.Build()
	cg := vta.CallGraph(ssautil.AllFunctions(prog), cha.CallGraph(prog))
	fmt.Println(len(cg.Nodes))
}
