package main

// NORM: helper normalisation.
//
// The rules of this checker are phrased over the functions that exist on the pinned tree.  A
// behaviour-preserving "extract function / split function" refactoring moves part of an anchored
// function into a helper that did not exist before, where intra-procedural rules no longer see
// it.  Before any rule runs, calls to helpers that are NOT part of the inventory of functions
// recorded for the pinned tree (baseline_funcs.txt) are therefore inlined back into their
// callers, using the sound source-level inliner of golang.org/x/tools (the one behind gopls'
// "inline call").  The result is an in-memory overlay; /repo is never written.  On a tree with no
// new functions this pass does nothing.
//
// The inventory is only used to choose what to normalise; no rule compares anything with it.
// Inlining is semantics preserving, so a change that breaks a property inside a new helper is
// analysed exactly as if it had been written in place.

import (
	_ "embed"
	"fmt"
	"go/ast"
	"go/token"
	"go/types"
	"os"
	"sort"
	"strings"

	"golang.org/x/tools/go/packages"
	"golang.org/x/tools/go/types/typeutil"
	"golang.org/x/tools/internal/refactor/inline"
)

//go:embed baseline_funcs.txt
var baselineFuncsTxt string

//go:embed baseline_sigs.txt
var baselineSigsTxt string

// baselineSigs: full name -> signature (with receiver) of the functions of the pinned tree; used to
// recognise an anchor function that was merely renamed.
//
//go:embed baseline_callers.txt
var baselineCallersTxt string

// baselineCallers: declared function of the pinned tree -> the declared functions that call it statically.
func baselineCallers() map[string][]string {
	m := map[string][]string{}
	for _, l := range strings.Split(baselineCallersTxt, "\n") {
		f := strings.SplitN(strings.TrimSpace(l), "\t", 2)
		if len(f) == 2 && !strings.HasPrefix(f[0], "#") {
			m[f[0]] = append(m[f[0]], f[1])
		}
	}
	return m
}

// callerInventory lists "callee TAB user" for every reference from one declared module function to another.
func callerInventory(pkgs []*packages.Package) []string {
	seen := map[string]bool{}
	var out []string
	for _, d := range moduleDecls(pkgs) {
		ast.Inspect(d.decl.Body, func(n ast.Node) bool {
			// any reference counts (a call, a method value, a state function returned as a value)
			id, ok := n.(*ast.Ident)
			if !ok {
				return true
			}
			fn, _ := d.pkg.TypesInfo.Uses[id].(*types.Func)
			if fn == nil || fn.Pkg() == nil || !strings.HasPrefix(fn.Pkg().Path(), Mod) {
				return true
			}
			l := fn.Origin().FullName() + "\t" + d.fn.FullName()
			if !seen[l] && fn.Origin().FullName() != d.fn.FullName() {
				seen[l] = true
				out = append(out, l)
			}
			return true
		})
	}
	sort.Strings(out)
	return out
}

func baselineSigs() map[string]string {
	m := map[string]string{}
	for _, l := range strings.Split(baselineSigsTxt, "\n") {
		f := strings.SplitN(strings.TrimSpace(l), "\t", 2)
		if len(f) == 2 && !strings.HasPrefix(f[0], "#") {
			m[f[0]] = f[1]
		}
	}
	return m
}

func funcSig(fn *types.Func) string {
	sig := fn.Type().(*types.Signature)
	q := func(p *types.Package) string { return p.Path() }
	r := ""
	if sig.Recv() != nil {
		r = "(" + types.TypeString(sig.Recv().Type(), q) + ") "
	}
	// parameter and result types only (names are free to change)
	tuple := func(t *types.Tuple) string {
		var parts []string
		for i := 0; i < t.Len(); i++ {
			parts = append(parts, types.TypeString(t.At(i).Type(), q))
		}
		return "(" + strings.Join(parts, ", ") + ")"
	}
	v := ""
	if sig.Variadic() {
		v = " variadic"
	}
	return r + "func" + tuple(sig.Params()) + " " + tuple(sig.Results()) + v
}

func pkgOfFullName(full string) string {
	k := shortKey(full)
	if i := strings.Index(k, "#"); i >= 0 {
		return k[:i]
	}
	return k
}

// renamedAnchors: new function (full name) -> the recorded function it replaces: the recorded one is
// gone, no function of its name exists in the package any more, and exactly one new function of the
// package has exactly its signature (and no other missing function has it).
var renamedAnchors = map[string]string{}

func computeRenamedAnchors(decls []declInfo, base map[string]bool) map[string]string {
	sigs := baselineSigs()
	present := map[string]bool{}
	shortPresent := map[string]bool{}
	for _, d := range decls {
		present[d.fn.FullName()] = true
		shortPresent[shortKey(d.fn.FullName())] = true
	}
	type key struct{ pkg, sig string }
	missing := map[key][]string{}
	for b := range base {
		if present[b] || shortPresent[shortKey(b)] {
			continue
		}
		if sg, ok := sigs[b]; ok {
			k := key{pkgOfFullName(b), sg}
			missing[k] = append(missing[k], b)
		}
	}
	cands := map[key][]string{}
	for _, d := range decls {
		n := d.fn.FullName()
		if base[n] {
			continue
		}
		k := key{pkgOfFullName(n), funcSig(d.fn)}
		if _, ok := missing[k]; ok {
			cands[k] = append(cands[k], n)
		}
	}
	out := map[string]string{}
	for k, olds := range missing {
		if len(olds) == 1 && len(cands[k]) == 1 {
			out[cands[k][0]] = olds[0]
		}
	}
	return out
}

func baselineFuncs() map[string]bool {
	m := map[string]bool{}
	for _, l := range strings.Split(baselineFuncsTxt, "\n") {
		l = strings.TrimSpace(l)
		if l != "" && !strings.HasPrefix(l, "#") {
			m[l] = true
		}
	}
	return m
}

type declInfo struct {
	fn   *types.Func
	decl *ast.FuncDecl
	file *ast.File
	pkg  *packages.Package
}

// moduleDecls lists the function declarations (with bodies) of the module's packages.
func moduleDecls(pkgs []*packages.Package) []declInfo {
	var out []declInfo
	for _, p := range pkgs {
		if !strings.HasPrefix(p.PkgPath, Mod) {
			continue
		}
		for _, f := range p.Syntax {
			for _, d := range f.Decls {
				fd, ok := d.(*ast.FuncDecl)
				if !ok || fd.Body == nil {
					continue
				}
				if fn, ok := p.TypesInfo.Defs[fd.Name].(*types.Func); ok {
					out = append(out, declInfo{fn, fd, f, p})
				}
			}
		}
	}
	sort.Slice(out, func(i, j int) bool { return out[i].fn.FullName() < out[j].fn.FullName() })
	return out
}

func funcInventory(pkgs []*packages.Package) []string {
	var names []string
	for _, d := range moduleDecls(pkgs) {
		names = append(names, d.fn.FullName())
	}
	sort.Strings(names)
	return names
}

// newHelpers: declarations not in the baseline inventory that can be considered for inlining.
// shortKey: "<package path>#<function or method name>" of a types.Func full name such as
// "(*pkg/path.T).m" or "pkg/path.f".
func shortKey(full string) string {
	s := strings.TrimPrefix(full, "(")
	s = strings.TrimPrefix(s, "*")
	i := strings.LastIndex(s, ".")
	if i < 0 {
		return full
	}
	name := s[i+1:]
	rest := strings.TrimSuffix(s[:i], ")")
	// rest is "pkg/path.T" (method) or "pkg/path" (function)
	slash := strings.LastIndex(rest, "/")
	if j := strings.Index(rest[slash+1:], "."); j >= 0 {
		rest = rest[:slash+1+j]
	}
	return rest + "#" + name
}

func newHelpers(pkgs []*packages.Package, base map[string]bool, skip map[string]bool) map[*types.Func]declInfo {
	out := map[*types.Func]declInfo{}
	decls := moduleDecls(pkgs)
	present := map[string]bool{}
	for _, d := range decls {
		present[d.fn.FullName()] = true
	}
	// anchors that went missing under their recorded name: a function of the same name in the same
	// package is that anchor, moved to another receiver (or between method and function) - not a helper
	movedAnchor := map[string]bool{}
	for b := range base {
		if !present[b] {
			movedAnchor[shortKey(b)] = true
		}
	}
	renamedAnchors = computeRenamedAnchors(decls, base)
	for _, d := range decls {
		n := d.fn.FullName()
		if base[n] || skip[n] || d.fn.Name() == "init" || d.fn.Name() == "main" {
			continue
		}
		if movedAnchor[shortKey(n)] {
			continue
		}
		if _, isRenamed := renamedAnchors[n]; isRenamed {
			continue
		}
		sig := d.fn.Type().(*types.Signature)
		if sig.RecvTypeParams().Len() > 0 {
			continue
		}
		out[d.fn] = d
	}
	return out
}

type normResult struct {
	Overlay map[string][]byte
	Log     []string
	Dead    map[string]bool // full names of new helpers without remaining references
}

// normalise inlines calls to new helpers until none is left (or nothing more can be inlined).
func normalise(repo string, pkgs []*packages.Package) (*normResult, []*packages.Package, error) {
	base := baselineFuncs()
	res := &normResult{Overlay: map[string][]byte{}, Dead: map[string]bool{}}
	skip := map[string]bool{}
	cbase := baselineClosures()
	btypes := baselineTypes()
	if len(sroaCandidates(pkgs, btypes, skip)) == 0 && len(newHelpers(pkgs, base, skip)) == 0 && len(newClosureVars(pkgs, cbase, skip)) == 0 && len(newIIFEs(pkgs, cbase, skip)) == 0 && len(newEachLoops(pkgs, cbase, skip)) == 0 {
		return res, pkgs, nil
	}
	var roundKeys []string
	deferredClosure := map[string]int{}
	var snapshot map[string][]byte
	// a step after which the program no longer type-checks is taken back and its subject left alone:
	// normalisation must never be the reason a tree cannot be analysed
	rollback := func(cause error) error {
		res.Overlay = snapshot
		for _, k := range roundKeys {
			skip[k] = true
		}
		res.Log = append(res.Log, fmt.Sprintf("took back the last step (%v); left alone: %s", cause, strings.Join(roundKeys, ", ")))
		var err error
		pkgs, err = loadPkgs(repo, res.Overlay)
		return err
	}
	trySROA := func() (bool, error) {
		for _, sv := range sroaCandidates(pkgs, btypes, skip) {
			name := sv.pkg.Fset.Position(sv.file.Pos()).Filename
			content, err := fileContent(res.Overlay, name)
			if err != nil {
				return false, err
			}
			out, what, err := sroaStep(sv, content)
			if err != nil {
				skip["sroa:"+declFullName(sv)+":"+sv.obj.Name()] = true
				res.Log = append(res.Log, fmt.Sprintf("state struct %s left alone: %v", sv.obj.Name(), err))
				continue
			}
			snapshot = map[string][]byte{}
			for k, v := range res.Overlay {
				snapshot[k] = v
			}
			res.Overlay[name] = out
			res.Log = append(res.Log, what)
			roundKeys = []string{"sroa:" + declFullName(sv) + ":" + sv.obj.Name()}
			var lerr error
			pkgs, lerr = loadPkgs(repo, res.Overlay)
			if lerr != nil {
				if err2 := rollback(lerr); err2 != nil {
					return false, fmt.Errorf("after taking a state struct apart: %v", err2)
				}
			}
			return true, nil
		}
		return false, nil
	}
	for round := 0; round < 150; round++ {
		roundKeys = nil
		snapshot = map[string][]byte{}
		for k, v := range res.Overlay {
			snapshot[k] = v
		}
		// local closures first: one step per file and round
		if cvs := newClosureVars(pkgs, cbase, skip); len(cvs) > 0 {
			stepped := false
			doneFile := map[string]bool{}
			for _, cv := range cvs {
				name := cv.pkg.Fset.Position(cv.file.Pos()).Filename
				if doneFile[name] {
					continue
				}
				content, err := fileContent(res.Overlay, name)
				if err != nil {
					return nil, nil, err
				}
				out, what, err := closureStep(cv, content)
				if err != nil {
					if err.Error() == "used as a value" && deferredClosure[closureKey(cv)] < 3 {
						// it may be handed to a helper that is inlined in a later round (the use then becomes a call)
						deferredClosure[closureKey(cv)]++
						continue
					}
					skip[closureKey(cv)] = true
					res.Log = append(res.Log, fmt.Sprintf("local closure %s in %s left alone: %v", cv.obj.Name(), cv.encl, err))
					continue
				}
				res.Overlay[name] = out
				res.Log = append(res.Log, what)
				doneFile[name] = true
				stepped = true
				roundKeys = append(roundKeys, closureKey(cv))
			}
			if stepped {
				var err error
				pkgs, err = loadPkgs(repo, res.Overlay)
				if err != nil {
					if err2 := rollback(err); err2 != nil {
						return nil, nil, fmt.Errorf("after closure normalisation: %v", err2)
					}
				}
				continue
			}
		}
		// immediately invoked literals left behind by inlining a helper that takes a function argument
		if iifes := newIIFEs(pkgs, cbase, skip); len(iifes) > 0 {
			stepped := false
			doneFile := map[string]bool{}
			sort.Slice(iifes, func(i, j int) bool { return iifes[i].call.Pos() > iifes[j].call.Pos() })
			for _, ic := range iifes {
				name := ic.pkg.Fset.Position(ic.file.Pos()).Filename
				if doneFile[name] || skip["iife:"+ic.encl] {
					continue
				}
				content, err := fileContent(res.Overlay, name)
				if err != nil {
					return nil, nil, err
				}
				out, what, err := iifeStep(ic, content)
				if err != nil {
					skip["iife:"+ic.encl] = true
					res.Log = append(res.Log, fmt.Sprintf("immediately invoked literal in %s left alone: %v", ic.encl, err))
					continue
				}
				res.Overlay[name] = out
				res.Log = append(res.Log, what)
				doneFile[name] = true
				stepped = true
				roundKeys = append(roundKeys, "iife:"+ic.encl)
			}
			if stepped {
				var err error
				pkgs, err = loadPkgs(repo, res.Overlay)
				if err != nil {
					if err2 := rollback(err); err2 != nil {
						return nil, nil, fmt.Errorf("after literal normalisation: %v", err2)
					}
				}
				continue
			}
		}
		// explicit traversal loops over the aggregate maps are put back into the Each form
		if els := newEachLoops(pkgs, cbase, skip); len(els) > 0 {
			stepped := false
			doneFile := map[string]bool{}
			sort.Slice(els, func(i, j int) bool { return els[i].outer.Pos() > els[j].outer.Pos() })
			for _, el := range els {
				name := el.pkg.Fset.Position(el.file.Pos()).Filename
				if doneFile[name] || skip["eachloop:"+el.encl] {
					continue
				}
				content, err := fileContent(res.Overlay, name)
				if err != nil {
					return nil, nil, err
				}
				out, what, err := eachLoopStep(el, content)
				if err != nil {
					skip["eachloop:"+el.encl] = true
					res.Log = append(res.Log, fmt.Sprintf("traversal loops in %s left alone: %v", el.encl, err))
					continue
				}
				res.Overlay[name] = out
				res.Log = append(res.Log, what)
				doneFile[name] = true
				stepped = true
				roundKeys = append(roundKeys, "eachloop:"+el.encl)
			}
			if stepped {
				var err error
				pkgs, err = loadPkgs(repo, res.Overlay)
				if err != nil {
					if err2 := rollback(err); err2 != nil {
						return nil, nil, fmt.Errorf("after traversal loop normalisation: %v", err2)
					}
				}
				continue
			}
		}
		helpers := newHelpers(pkgs, base, skip)
		if len(helpers) == 0 {
			// nothing left to inline: local state structs of new types that are now used only through their fields
			// are taken apart (one per round; the program is re-checked after each)
			stepped, err := trySROA()
			if err != nil {
				return nil, nil, err
			}
			if stepped {
				continue
			}
			break
		}
		// for statements calling a new helper in their init / post clause are written out
		if fcs := forClauseHelperCalls(pkgs, helpers, skip); len(fcs) > 0 {
			stepped := false
			doneFile := map[string]bool{}
			sort.Slice(fcs, func(i, j int) bool { return fcs[i].loop.Pos() > fcs[j].loop.Pos() })
			for _, fc := range fcs {
				name := fc.pkg.Fset.Position(fc.file.Pos()).Filename
				if doneFile[name] {
					continue
				}
				content, err := fileContent(res.Overlay, name)
				if err != nil {
					return nil, nil, err
				}
				out, what, err := forClauseStep(fc, content)
				if err != nil {
					skip["forclause:"+fc.fn.FullName()] = true
					res.Log = append(res.Log, fmt.Sprintf("for clause calling %s left alone: %v", fc.fn.FullName(), err))
					continue
				}
				res.Overlay[name] = out
				res.Log = append(res.Log, what)
				doneFile[name] = true
				stepped = true
				roundKeys = append(roundKeys, "forclause:"+fc.fn.FullName())
			}
			if stepped {
				var err error
				pkgs, err = loadPkgs(repo, res.Overlay)
				if err != nil {
					if err2 := rollback(err); err2 != nil {
						return nil, nil, fmt.Errorf("after for clause normalisation: %v", err2)
					}
				}
				continue
			}
		}
		// method values of new methods are expanded first (one per file and round)
		if mvs := newMethodValues(pkgs, helpers, skip); len(mvs) > 0 {
			stepped := false
			doneFile := map[string]bool{}
			mvPos := func(m methodValueUse) token.Pos {
				if m.id != nil {
					return m.id.Pos()
				}
				return m.sel.Pos()
			}
			sort.Slice(mvs, func(i, j int) bool { return mvPos(mvs[i]) > mvPos(mvs[j]) })
			for _, mv := range mvs {
				name := mv.pkg.Fset.Position(mv.file.Pos()).Filename
				if doneFile[name] {
					continue
				}
				content, err := fileContent(res.Overlay, name)
				if err != nil {
					return nil, nil, err
				}
				out, what, err := methodValueStep(mv, content)
				if err != nil {
					skip["mval:"+mv.fn.FullName()] = true
					res.Log = append(res.Log, fmt.Sprintf("method value of %s left alone: %v", mv.fn.FullName(), err))
					continue
				}
				res.Overlay[name] = out
				res.Log = append(res.Log, what)
				doneFile[name] = true
				stepped = true
				roundKeys = append(roundKeys, "mval:"+mv.fn.FullName())
			}
			if stepped {
				var err error
				pkgs, err = loadPkgs(repo, res.Overlay)
				if err != nil {
					if err2 := rollback(err); err2 != nil {
						return nil, nil, fmt.Errorf("after method value normalisation: %v", err2)
					}
				}
				continue
			}
		}
		// helpers referenced other than as the function of a call cannot be removed by inlining
		// their calls, but their calls can still be inlined.
		type cand struct {
			pkg  *packages.Package
			file *ast.File
			call *ast.CallExpr
			h    declInfo
		}
		var cands []cand
		for _, p := range pkgs {
			if !strings.HasPrefix(p.PkgPath, Mod) {
				continue
			}
			for _, f := range p.Syntax {
				ast.Inspect(f, func(n ast.Node) bool {
					call, ok := n.(*ast.CallExpr)
					if !ok {
						return true
					}
					if fn := typeutil.StaticCallee(p.TypesInfo, call); fn != nil {
						if h, ok := helpers[fn]; ok {
							// a recursive call inside the helper itself is not inlined
							if !(h.file == f && call.Pos() >= h.decl.Pos() && call.End() <= h.decl.End()) {
								cands = append(cands, cand{p, f, call, h})
							}
						}
					}
					return true
				})
			}
		}
		if len(cands) == 0 {
			stepped, err := trySROA()
			if err != nil {
				return nil, nil, err
			}
			if stepped {
				continue
			}
			break
		}
		// innermost candidates per file, bottom-most first
		perFile := map[*ast.File][]cand{}
		for _, c := range cands {
			inner := true
			for _, d := range cands {
				if d.call != c.call && d.file == c.file && d.call.Pos() >= c.call.Pos() && d.call.End() <= c.call.End() {
					inner = false
				}
			}
			if inner {
				perFile[c.file] = append(perFile[c.file], c)
			}
		}
		var files []*ast.File
		for f := range perFile {
			files = append(files, f)
			cs := perFile[f]
			sort.Slice(cs, func(i, j int) bool { return cs[i].call.Pos() > cs[j].call.Pos() })
		}
		sort.Slice(files, func(i, j int) bool { return files[i].Pos() < files[j].Pos() })
		progressed := false
		// attempt one candidate; literal=false refuses the function-literal fallback
		attempt := func(c cand, literal bool) (bool, error) {
			roundKeys = append(roundKeys, c.h.fn.FullName())
			f := c.file
			fset := c.pkg.Fset
			name := fset.Position(f.Pos()).Filename
			content, err := fileContent(res.Overlay, name)
			if err != nil {
				return false, err
			}
			hname := fset.Position(c.h.file.Pos()).Filename
			hcontent, err := fileContent(res.Overlay, hname)
			if err != nil {
				return false, err
			}
			if c.h.fn.Type().(*types.Signature).TypeParams().Len() > 0 {
				// generic helper: only the statement-level inliner instantiates type parameters
				out, err2 := stmtInline(c.pkg, f, c.call, content, c.h.pkg, c.h.decl, hcontent)
				if err2 == nil {
					res.Overlay[name] = out
					res.Log = append(res.Log, fmt.Sprintf("inlined the generic helper %s into %s (statement-level)", c.h.fn.FullName(), fset.Position(c.call.Pos())))
					return true, nil
				}
				out, err3 := hoistCall(c.pkg, f, c.call, content)
				if err3 == nil {
					res.Overlay[name] = out
					res.Log = append(res.Log, fmt.Sprintf("hoisted the call of %s at %s into its own statement", c.h.fn.FullName(), fset.Position(c.call.Pos())))
					return true, nil
				}
				skip[c.h.fn.FullName()] = true
				res.Log = append(res.Log, fmt.Sprintf("not inlined: generic helper %s (%v; %v)", c.h.fn.FullName(), err2, err3))
				return false, nil
			}
			callee, err := inline.AnalyzeCallee(func(string, ...any) {}, c.h.pkg.Fset, c.h.pkg.Types, c.h.pkg.TypesInfo, c.h.decl, hcontent)
			if err != nil {
				skip[c.h.fn.FullName()] = true
				res.Log = append(res.Log, fmt.Sprintf("not inlined: %s (%v)", c.h.fn.FullName(), err))
				return true, nil
			}
			caller := &inline.Caller{Fset: fset, Types: c.pkg.Types, Info: c.pkg.TypesInfo, File: f, Call: c.call}
			r, err := inline.Inline(caller, callee, &inline.Options{Logf: func(string, ...any) {}, Recover: true})
			if err != nil {
				skip[c.h.fn.FullName()] = true
				res.Log = append(res.Log, fmt.Sprintf("not inlined: %s at %s (%v)", c.h.fn.FullName(), fset.Position(c.call.Pos()), err))
				return true, nil
			}
			if r.Literalized && !isGoOrDefer(f, c.call) && isPureBasicPredicate(c.h.pkg.TypesInfo, c.h.decl) {
				if _, err2 := stmtInline(c.pkg, f, c.call, content, c.h.pkg, c.h.decl, hcontent); err2 != nil {
					if _, err3 := hoistCall(c.pkg, f, c.call, content); err3 != nil {
						// a side-effect-free predicate over basic values in a position where it cannot be taken
						// out (a case clause, the right of && ...): it stays a call; the rules evaluate such
						// predicates through their bodies (bytedec / boolfn), which a function literal capturing
						// the operands would prevent
						skip[c.h.fn.FullName()] = true
						res.Log = append(res.Log, fmt.Sprintf("left as a call: %s is a pure predicate over basic values used inside an expression at %s", c.h.fn.FullName(), fset.Position(c.call.Pos())))
						return false, nil
					}
				}
			}
			if r.Literalized && !isGoOrDefer(f, c.call) {
				out, err2 := stmtInline(c.pkg, f, c.call, content, c.h.pkg, c.h.decl, hcontent)
				if err2 == nil {
					res.Overlay[name] = out
					res.Log = append(res.Log, fmt.Sprintf("inlined %s into %s (statement-level)", c.h.fn.FullName(), fset.Position(c.call.Pos())))
					return true, nil
				}
				out, err3 := hoistCall(c.pkg, f, c.call, content)
				if err3 == nil {
					res.Overlay[name] = out
					res.Log = append(res.Log, fmt.Sprintf("hoisted the call of %s at %s into its own statement", c.h.fn.FullName(), fset.Position(c.call.Pos())))
					return true, nil
				}
				if !literal {
					return false, nil
				}
				res.Log = append(res.Log, fmt.Sprintf("statement-level inlining of %s declined: %v; hoisting declined: %v", c.h.fn.FullName(), err2, err3))
			}
			tf := fset.File(f.Pos())
			var eds []textEdit
			for _, e := range r.Edits {
				end := e.End
				if !end.IsValid() {
					end = e.Pos
				}
				eds = append(eds, textEdit{tf.Offset(e.Pos), tf.Offset(end), string(e.NewText)})
			}
			res.Overlay[name] = applyTextEdits(content, eds)
			how := "reduced"
			if r.Literalized {
				how = "as a function literal"
			}
			res.Log = append(res.Log, fmt.Sprintf("inlined %s into %s (%s)", c.h.fn.FullName(), fset.Position(c.call.Pos()), how))
			return true, nil
		}
		// phase 1: per file, the first candidate that can be handled without a function literal
		for _, f := range files {
			for _, c := range perFile[f] {
				ok, err := attempt(c, false)
				if err != nil {
					return nil, nil, err
				}
				if ok {
					progressed = true
					break
				}
			}
		}
		// phase 2: nothing else moves: fall back to a function literal for one call per file
		if !progressed {
			for _, f := range files {
				ok, err := attempt(perFile[f][0], true)
				if err != nil {
					return nil, nil, err
				}
				if ok {
					progressed = true
				}
			}
		}
		if !progressed {
			stepped, err := trySROA()
			if err != nil {
				return nil, nil, err
			}
			if stepped {
				continue
			}
			break
		}
		var err error
		pkgs, err = loadPkgs(repo, res.Overlay)
		if err != nil {
			if err2 := rollback(err); err2 != nil {
				return nil, nil, fmt.Errorf("after helper normalisation: %v", err2)
			}
		}
	}
	// helpers that are no longer referenced anywhere
	used := map[*types.Func]bool{}
	for _, p := range pkgs {
		for _, obj := range p.TypesInfo.Uses {
			if fn, ok := obj.(*types.Func); ok {
				used[fn.Origin()] = true
			}
		}
	}
	for fn := range newHelpers(pkgs, base, map[string]bool{}) {
		if !used[fn] && !fn.Exported() {
			res.Dead[fn.FullName()] = true
		}
	}
	return res, pkgs, nil
}

func fileContent(overlay map[string][]byte, name string) ([]byte, error) {
	if b, ok := overlay[name]; ok {
		return b, nil
	}
	return os.ReadFile(name)
}

var _ = token.NoPos

// isGoOrDefer: the call is the operand of a go or defer statement (a function literal is then the
// natural inlined form).
func isGoOrDefer(f *ast.File, call *ast.CallExpr) bool {
	p := enclosingPath(f, call)
	if len(p) >= 2 {
		switch p[1].(type) {
		case *ast.GoStmt, *ast.DeferStmt:
			return true
		}
	}
	return false
}

// isPureBasicPredicate: the function takes only basic-typed parameters (numbers, strings, bools),
// returns one bool, and its body consists of if / switch / return over expressions without calls
// (other than conversions), indexing, dereferences, selectors, function literals or assignments.
// Such a function has no effect, cannot panic and terminates.
func isPureBasicPredicate(info *types.Info, decl *ast.FuncDecl) bool {
	fn, _ := info.Defs[decl.Name].(*types.Func)
	if fn == nil || decl.Recv != nil {
		return false
	}
	sig := fn.Type().(*types.Signature)
	if sig.Results().Len() != 1 || sig.Variadic() || sig.TypeParams().Len() > 0 {
		return false
	}
	if b, ok := sig.Results().At(0).Type().Underlying().(*types.Basic); !ok || b.Info()&types.IsBoolean == 0 {
		return false
	}
	for i := 0; i < sig.Params().Len(); i++ {
		if _, ok := sig.Params().At(i).Type().Underlying().(*types.Basic); !ok {
			return false
		}
	}
	pure := true
	ast.Inspect(decl.Body, func(n ast.Node) bool {
		switch x := n.(type) {
		case *ast.BlockStmt, *ast.IfStmt, *ast.SwitchStmt, *ast.CaseClause, *ast.ReturnStmt:
		case *ast.Ident, *ast.BasicLit, *ast.ParenExpr:
		case *ast.BinaryExpr:
			switch x.Op {
			case token.QUO, token.REM, token.SHL, token.SHR:
				pure = false // may panic
			}
		case *ast.UnaryExpr:
			if x.Op != token.NOT && x.Op != token.SUB && x.Op != token.ADD && x.Op != token.XOR {
				pure = false
			}
		case *ast.CallExpr:
			if tv, ok := info.Types[x.Fun]; !ok || !tv.IsType() {
				pure = false
			}
		case nil:
		default:
			pure = false
		}
		return pure
	})
	return pure
}

func declFullName(sv sroaVar) string {
	if fn, ok := sv.pkg.TypesInfo.Defs[sv.encl.Name].(*types.Func); ok {
		return fn.FullName()
	}
	return sv.encl.Name.Name
}
