package main

// Statement-level inlining of multi-statement helpers.
//
// The x/tools inliner reduces a call to statements only when the callee is an expression or has
// no early return; otherwise it wraps the body in a function literal that is called in place,
// which keeps the helper's code out of sight of intra-procedural rules (and moves the variables
// it captures to the heap).  For calls that form a whole statement
//
//	f(a)            x, y := f(a)          x = f(a)          return f(a)
//	if f(a) { … }   if !f(a) { … }        (no init statement)
//
// this file performs the classical transformation instead:
//
//	var x T; var y U                  // only for names newly declared by :=
//	{
//	    p__i1 := (P)(a)               // parameters, evaluated once, left to right
//	    var r__i1 T; var s__i1 U      // results
//	inl__1:
//	    for {
//	        …body, every local renamed with the suffix, `return e, g` → `{ r__i1, s__i1 = e, g; break inl__1 }`…
//	        break inl__1
//	    }
//	    x, y = r__i1, s__i1
//	}
//
// Every identifier declared in the callee is renamed with a suffix that cannot occur in the
// caller, identifiers that denote package-level objects are checked not to be shadowed at the call,
// and imports used by the body are added to the caller's file when missing.  Anything outside
// this fragment (defer, recover, labels, goto, variadic or generic callees, embedded receivers,
// impure left-hand sides) is declined and left to the x/tools inliner.

import (
	"bytes"
	"fmt"
	"go/ast"
	"go/token"
	"go/types"
	"sort"
	"strings"

	"golang.org/x/tools/go/packages"
)

type textEdit struct {
	s, e int
	t    string
}

func applyTextEdits(src []byte, eds []textEdit) []byte {
	sort.SliceStable(eds, func(i, j int) bool {
		if eds[i].s != eds[j].s {
			return eds[i].s > eds[j].s
		}
		return eds[i].e > eds[j].e
	})
	out := append([]byte(nil), src...)
	for _, e := range eds {
		out = append(out[:e.s], append([]byte(e.t), out[e.e:]...)...)
	}
	return out
}

var inlCounter int

// stmtInline returns the new content of the caller's file, or an error explaining why the call is
// outside the supported fragment.
func stmtInline(cpkg *packages.Package, cfile *ast.File, call *ast.CallExpr, ccontent []byte,
	hpkg *packages.Package, hdecl *ast.FuncDecl, hcontent []byte) ([]byte, error) {

	if cpkg.Types != hpkg.Types {
		return nil, fmt.Errorf("callee in another package")
	}
	fset := cpkg.Fset
	cinfo, hinfo := cpkg.TypesInfo, hpkg.TypesInfo
	hfn := hinfo.Defs[hdecl.Name].(*types.Func)
	sig := hfn.Type().(*types.Signature)
	if sig.Variadic() || sig.TypeParams().Len() > 0 || sig.RecvTypeParams().Len() > 0 {
		return nil, fmt.Errorf("variadic or generic callee")
	}
	if call.Ellipsis.IsValid() {
		return nil, fmt.Errorf("spread call")
	}
	// ---- the statement that contains the call ----
	path := enclosingPath(cfile, call)
	if len(path) < 2 {
		return nil, fmt.Errorf("call not found in file")
	}
	type ctxKind int
	const (
		ctxExpr ctxKind = iota
		ctxAssign
		ctxReturn
		ctxIfCond
	)
	var kind ctxKind
	var stmt ast.Stmt
	var assign *ast.AssignStmt
	var ifs *ast.IfStmt
	negate := false
	parent := path[1]
	switch p := parent.(type) {
	case *ast.ExprStmt:
		kind, stmt = ctxExpr, p
	case *ast.AssignStmt:
		if len(p.Rhs) != 1 || p.Rhs[0] != ast.Expr(call) || (p.Tok != token.DEFINE && p.Tok != token.ASSIGN) {
			return nil, fmt.Errorf("call is not the whole right-hand side")
		}
		kind, stmt, assign = ctxAssign, p, p
	case *ast.ReturnStmt:
		if len(p.Results) != 1 {
			return nil, fmt.Errorf("call is one of several returned expressions")
		}
		kind, stmt = ctxReturn, p
	case *ast.IfStmt:
		if p.Cond != ast.Expr(call) || p.Init != nil {
			return nil, fmt.Errorf("call in an if statement with init")
		}
		kind, stmt, ifs = ctxIfCond, p, p
	case *ast.UnaryExpr:
		if p.Op == token.NOT && len(path) >= 3 {
			if i, ok := path[2].(*ast.IfStmt); ok && i.Cond == ast.Expr(p) && i.Init == nil {
				kind, stmt, ifs, negate = ctxIfCond, i, i, true
				break
			}
		}
		return nil, fmt.Errorf("call inside an expression")
	default:
		return nil, fmt.Errorf("call inside an expression (%T)", parent)
	}
	// the statement must be directly inside a block / case clause (so that it can be replaced by several statements)
	var holder ast.Node
	for i, n := range path {
		if n == ast.Node(stmt) && i+1 < len(path) {
			holder = path[i+1]
		}
	}
	switch h := holder.(type) {
	case *ast.BlockStmt, *ast.CaseClause, *ast.CommClause:
		_ = h
	case *ast.IfStmt:
		// "else if f(x)": cannot prepend statements
		return nil, fmt.Errorf("statement is an else-if")
	default:
		return nil, fmt.Errorf("statement is not in a block (%T)", holder)
	}
	if _, isLabeled := holder.(*ast.LabeledStmt); isLabeled {
		return nil, fmt.Errorf("labelled statement")
	}
	if kind == ctxIfCond && sig.Results().Len() != 1 {
		return nil, fmt.Errorf("condition call with %d results", sig.Results().Len())
	}
	// ---- callee body restrictions ----
	var bad string
	retDepth := 0
	var returns []*ast.ReturnStmt
	var inspect func(n ast.Node) bool
	inspect = func(n ast.Node) bool {
		switch x := n.(type) {
		case *ast.FuncLit:
			retDepth++
			ast.Inspect(x.Body, inspect)
			retDepth--
			return false
		case *ast.DeferStmt:
			if retDepth == 0 {
				bad = "defer"
			}
		case *ast.BranchStmt:
			if x.Tok == token.GOTO {
				bad = "goto"
			}
		case *ast.CallExpr:
			if id, ok := x.Fun.(*ast.Ident); ok && id.Name == "recover" {
				bad = "recover"
			}
		case *ast.ReturnStmt:
			if retDepth == 0 {
				returns = append(returns, x)
			}
		}
		return true
	}
	ast.Inspect(hdecl.Body, inspect)
	if bad != "" {
		return nil, fmt.Errorf("callee uses %s", bad)
	}
	inlCounter++
	suffix := fmt.Sprintf("__i%d", inlCounter)
	label := fmt.Sprintf("inl__%d", inlCounter)

	// ---- qualifier for printing types in the caller's file; imports needed by the body ----
	cscope := cinfo.Scopes[cfile]
	if cscope == nil {
		return nil, fmt.Errorf("no file scope")
	}
	importName := map[string]string{} // path -> local name in the caller's file
	for _, imp := range cfile.Imports {
		var pn *types.PkgName
		if imp.Name != nil {
			pn, _ = cinfo.Defs[imp.Name].(*types.PkgName)
		} else {
			pn, _ = cinfo.Implicits[imp].(*types.PkgName)
		}
		if pn != nil {
			importName[pn.Imported().Path()] = pn.Name()
		}
	}
	var addImports []string
	needImport := func(pkg *types.Package, wantName string) (string, error) {
		if n, ok := importName[pkg.Path()]; ok {
			if n == "." || n == "_" {
				return "", fmt.Errorf("dot or blank import of %s", pkg.Path())
			}
			if wantName != "" && wantName != n {
				return "", fmt.Errorf("package %s is imported as %s in the caller's file and as %s in the callee's", pkg.Path(), n, wantName)
			}
			return n, nil
		}
		n := wantName
		if n == "" {
			n = pkg.Name()
		}
		if obj := cscope.Lookup(n); obj != nil {
			return "", fmt.Errorf("name %s is taken in the caller's file", n)
		}
		if obj := cpkg.Types.Scope().Lookup(n); obj != nil {
			return "", fmt.Errorf("name %s is a package-level object", n)
		}
		importName[pkg.Path()] = n
		addImports = append(addImports, fmt.Sprintf("import %s %q", n, pkg.Path()))
		return n, nil
	}
	var qerr error
	qual := func(p *types.Package) string {
		if p == cpkg.Types {
			return ""
		}
		n, err := needImport(p, "")
		if err != nil && qerr == nil {
			qerr = err
		}
		return n
	}
	typeStr := func(t types.Type) string { return types.TypeString(t, qual) }

	// ---- renaming of every object declared inside the callee; capture checks ----
	hbase := fset.File(hdecl.Pos()).Offset(hdecl.Body.Lbrace) + 1
	hend := fset.File(hdecl.Pos()).Offset(hdecl.Body.Rbrace)
	off := func(p token.Pos) int { return fset.File(hdecl.Pos()).Offset(p) - hbase }
	var eds []textEdit
	local := func(obj types.Object) bool {
		if obj == nil || obj.Pkg() == nil {
			return false
		}
		return obj.Pos() >= hdecl.Pos() && obj.Pos() <= hdecl.End() && obj.Parent() != hpkg.Types.Scope()
	}
	callPos := call.Pos()
	innermost := cpkg.Types.Scope().Innermost(callPos)
	if innermost == nil {
		innermost = cscope
	}
	var capErr error
	ast.Inspect(hdecl.Body, func(n ast.Node) bool {
		switch x := n.(type) {
		case *ast.SelectorExpr:
			// x.Sel is resolved through the type of x.X: only the left side can be captured
			ast.Inspect(x.X, func(m ast.Node) bool { return true })
		case *ast.KeyValueExpr:
			// struct literal keys are field names
		case *ast.Ident:
			obj := hinfo.Uses[x]
			if obj == nil {
				obj = hinfo.Defs[x]
			}
			if obj == nil || x.Name == "_" {
				return true
			}
			if _, isField := obj.(*types.Var); isField && obj.(*types.Var).IsField() {
				return true
			}
			if local(obj) {
				eds = append(eds, textEdit{off(x.Pos()), off(x.End()), x.Name + suffix})
				return true
			}
			switch o := obj.(type) {
			case *types.PkgName:
				if _, err := needImport(o.Imported(), o.Name()); err != nil && capErr == nil {
					capErr = err
				}
				if _, got := innermost.LookupParent(o.Name(), callPos); got != nil {
					if pn, ok := got.(*types.PkgName); !ok || pn.Imported() != o.Imported() {
						capErr = fmt.Errorf("package name %s is shadowed at the call", o.Name())
					}
				}
			default:
				// package-level or universe object: must denote the same thing at the call
				if obj.Parent() == hpkg.Types.Scope() || obj.Parent() == types.Universe {
					if _, got := innermost.LookupParent(x.Name, callPos); got != obj && capErr == nil {
						capErr = fmt.Errorf("identifier %s is shadowed at the call", x.Name)
					}
				}
			}
		}
		return true
	})
	if capErr != nil {
		return nil, capErr
	}
	// ---- parameters, receiver, results ----
	type binding struct{ name, typ, arg string }
	var binds []binding
	srcOf := func(n ast.Node) string {
		tf := fset.File(n.Pos())
		return string(ccontent[tf.Offset(n.Pos()):tf.Offset(n.End())])
	}
	if recv := sig.Recv(); recv != nil {
		sel, ok := call.Fun.(*ast.SelectorExpr)
		if !ok {
			return nil, fmt.Errorf("method called through a value")
		}
		s := cinfo.Selections[sel]
		if s == nil || len(s.Index()) != 1 {
			return nil, fmt.Errorf("promoted method")
		}
		argT := cinfo.TypeOf(sel.X)
		rname := "recv"
		if len(hdecl.Recv.List) == 1 && len(hdecl.Recv.List[0].Names) == 1 && hdecl.Recv.List[0].Names[0].Name != "_" {
			rname = hdecl.Recv.List[0].Names[0].Name
		}
		arg := srcOf(sel.X)
		switch {
		case types.Identical(argT, recv.Type()):
		case types.Identical(types.NewPointer(argT), recv.Type()):
			arg = "&" + arg
		default:
			if pt, ok := argT.Underlying().(*types.Pointer); ok && types.Identical(pt.Elem(), recv.Type()) {
				arg = "*" + arg
			} else {
				return nil, fmt.Errorf("receiver conversion")
			}
		}
		binds = append(binds, binding{rname + suffix, typeStr(recv.Type()), arg})
	}
	pi := 0
	for _, f := range hdecl.Type.Params.List {
		names := f.Names
		if len(names) == 0 {
			names = []*ast.Ident{{Name: "_"}}
		}
		for _, nm := range names {
			if pi >= len(call.Args) {
				return nil, fmt.Errorf("argument count")
			}
			n := nm.Name
			if n == "_" {
				n = fmt.Sprintf("unused%d", pi)
			}
			binds = append(binds, binding{n + suffix, typeStr(sig.Params().At(pi).Type()), srcOf(call.Args[pi])})
			pi++
		}
	}
	if pi != len(call.Args) {
		return nil, fmt.Errorf("argument count (multi-value argument)")
	}
	var resNames, resTypes []string
	named := false
	if hdecl.Type.Results != nil {
		ri := 0
		for _, f := range hdecl.Type.Results.List {
			if len(f.Names) == 0 {
				resNames = append(resNames, fmt.Sprintf("res%d%s", ri, suffix))
				resTypes = append(resTypes, typeStr(sig.Results().At(ri).Type()))
				ri++
				continue
			}
			for _, nm := range f.Names {
				named = true
				n := nm.Name
				if n == "_" {
					n = fmt.Sprintf("res%d", ri)
				}
				resNames = append(resNames, n+suffix)
				resTypes = append(resTypes, typeStr(sig.Results().At(ri).Type()))
				ri++
			}
		}
	}
	if qerr != nil {
		return nil, qerr
	}
	// ---- returns ----
	for _, r := range returns {
		s, e := off(r.Pos()), off(r.End())
		if len(r.Results) == 0 {
			eds = append(eds, textEdit{s, s + len("return"), "break " + label})
			continue
		}
		if !named && len(resNames) == 0 {
			return nil, fmt.Errorf("return with values in a function without results")
		}
		eds = append(eds, textEdit{s, s + len("return"), "{ " + strings.Join(resNames, ", ") + " ="})
		eds = append(eds, textEdit{e, e, "; break " + label + " }"})
	}
	body := applyTextEdits(hcontent[hbase:hend], eds)

	// ---- assemble ----
	var b bytes.Buffer
	tfc := fset.File(cfile.Pos())
	stmtStart, stmtEnd := tfc.Offset(stmt.Pos()), tfc.Offset(stmt.End())
	// variables newly declared by :=
	if assign != nil && assign.Tok == token.DEFINE {
		for _, l := range assign.Lhs {
			id, ok := l.(*ast.Ident)
			if !ok {
				return nil, fmt.Errorf("non-identifier on the left of :=")
			}
			if id.Name == "_" {
				continue
			}
			if obj, isNew := cinfo.Defs[id].(*types.Var); isNew && obj != nil {
				fmt.Fprintf(&b, "var %s %s\n", id.Name, typeStr(obj.Type()))
			}
		}
		if qerr != nil {
			return nil, qerr
		}
	}
	if assign != nil {
		for _, l := range assign.Lhs {
			if !pureLHS(l) {
				return nil, fmt.Errorf("left-hand side with side effects")
			}
		}
	}
	condVar := "cond" + suffix
	if kind == ctxIfCond {
		fmt.Fprintf(&b, "var %s %s\n", condVar, resTypes[0])
	}
	b.WriteString("{\n")
	if len(binds) > 0 {
		var ls, rs []string
		for _, bd := range binds {
			ls = append(ls, bd.name)
			rs = append(rs, "("+bd.typ+")("+bd.arg+")")
		}
		fmt.Fprintf(&b, "%s := %s\n", strings.Join(ls, ", "), strings.Join(rs, ", "))
		fmt.Fprintf(&b, "%s = %s\n", strings.Repeat("_, ", len(ls)-1)+"_", strings.Join(ls, ", "))
	}
	for i := range resNames {
		fmt.Fprintf(&b, "var %s %s\n_ = %s\n", resNames[i], resTypes[i], resNames[i])
	}
	fmt.Fprintf(&b, "%s:\nfor {\n", label)
	b.Write(body)
	fmt.Fprintf(&b, "\nbreak %s\n}\n", label)
	switch kind {
	case ctxAssign:
		var ls []string
		for _, l := range assign.Lhs {
			ls = append(ls, srcOf(l))
		}
		if len(ls) != len(resNames) {
			return nil, fmt.Errorf("assignment count")
		}
		fmt.Fprintf(&b, "%s = %s\n", strings.Join(ls, ", "), strings.Join(resNames, ", "))
	case ctxReturn:
		fmt.Fprintf(&b, "return %s\n", strings.Join(resNames, ", "))
	case ctxIfCond:
		fmt.Fprintf(&b, "%s = %s\n", condVar, resNames[0])
	}
	b.WriteString("}\n")
	var out []textEdit
	if kind == ctxIfCond {
		// statements go before the if; the condition becomes the variable
		out = append(out, textEdit{stmtStart, stmtStart, b.String()})
		cs, ce := tfc.Offset(ifs.Cond.Pos()), tfc.Offset(ifs.Cond.End())
		c := condVar
		if negate {
			c = "!" + condVar
		}
		out = append(out, textEdit{cs, ce, c})
	} else {
		out = append(out, textEdit{stmtStart, stmtEnd, b.String()})
	}
	if len(addImports) > 0 {
		// after the last import declaration (or the package clause)
		at := tfc.Offset(cfile.Name.End())
		for _, d := range cfile.Decls {
			if g, ok := d.(*ast.GenDecl); ok && g.Tok == token.IMPORT {
				at = tfc.Offset(g.End())
			}
		}
		out = append(out, textEdit{at, at, "\n" + strings.Join(addImports, "\n") + "\n"})
	}
	return applyTextEdits(ccontent, out), nil
}

// pureLHS: evaluating the operands of an assignment target has no side effects and cannot panic
// differently when moved after the callee's body.
func pureLHS(e ast.Expr) bool {
	switch x := e.(type) {
	case *ast.Ident:
		return true
	case *ast.SelectorExpr:
		return pureLHS(x.X)
	case *ast.StarExpr:
		return pureLHS(x.X)
	case *ast.ParenExpr:
		return pureLHS(x.X)
	case *ast.IndexExpr:
		return pureLHS(x.X) && pureOperand(x.Index)
	}
	return false
}

func pureOperand(e ast.Expr) bool {
	switch x := e.(type) {
	case *ast.Ident, *ast.BasicLit:
		return true
	case *ast.SelectorExpr:
		return pureOperand(x.X)
	case *ast.ParenExpr:
		return pureOperand(x.X)
	}
	return false
}

// enclosingPath returns the chain of nodes from target up to the file.
func enclosingPath(f *ast.File, target ast.Node) []ast.Node {
	var stack, found []ast.Node
	ast.Inspect(f, func(n ast.Node) bool {
		if found != nil {
			return false
		}
		if n == nil {
			stack = stack[:len(stack)-1]
			return true
		}
		stack = append(stack, n)
		if n == target {
			for i := len(stack) - 1; i >= 0; i-- {
				found = append(found, stack[i])
			}
			return false
		}
		return true
	})
	return found
}

// hoistCall moves a single-valued helper call out of a larger expression into its own statement
// placed immediately before the statement that contains it:
//
//	m[k] = T{a: f(x)}      =>      tmp__h1 := f(x); m[k] = T{a: tmp__h1}
//
// Go evaluates function calls, method calls and channel operations of a statement in lexical
// left-to-right order and leaves the order of plain variable reads unspecified, so the move is
// behaviour preserving when no call, receive or short-circuit operator precedes the helper call in
// the statement and the call is evaluated unconditionally.  The new statement is then handled by
// the statement-level inliner in the next round.
func hoistCall(cpkg *packages.Package, cfile *ast.File, call *ast.CallExpr, ccontent []byte) ([]byte, error) {
	fset := cpkg.Fset
	info := cpkg.TypesInfo
	if tv, ok := info.Types[call]; !ok || tv.IsVoid() {
		return nil, fmt.Errorf("void call")
	} else if _, isTuple := tv.Type.(*types.Tuple); isTuple {
		return nil, fmt.Errorf("multi-valued call inside an expression")
	}
	path := enclosingPath(cfile, call)
	if len(path) >= 2 {
		switch p := path[1].(type) {
		case *ast.ExprStmt:
			return nil, fmt.Errorf("call is already a statement")
		case *ast.AssignStmt:
			if len(p.Rhs) == 1 && p.Rhs[0] == ast.Expr(call) {
				return nil, fmt.Errorf("call is already a whole right-hand side")
			}
		case *ast.ReturnStmt:
			if len(p.Results) == 1 {
				return nil, fmt.Errorf("call is already the returned expression")
			}
		}
	}
	// the innermost enclosing statement
	var stmt ast.Stmt
	si := -1
	for i, n := range path {
		if s, ok := n.(ast.Stmt); ok {
			stmt, si = s, i
			break
		}
	}
	if stmt == nil || si+1 >= len(path) {
		return nil, fmt.Errorf("no enclosing statement")
	}
	switch h := path[si+1].(type) {
	case *ast.BlockStmt, *ast.CaseClause, *ast.CommClause:
		_ = h
	default:
		return nil, fmt.Errorf("statement is not in a block (%T)", path[si+1])
	}
	var root ast.Node // the expression region of the statement that is evaluated when the statement starts
	switch s := stmt.(type) {
	case *ast.AssignStmt, *ast.ExprStmt, *ast.ReturnStmt, *ast.SendStmt, *ast.IncDecStmt:
		root = s
	case *ast.IfStmt:
		if s.Init != nil {
			return nil, fmt.Errorf("if with init")
		}
		root = s.Cond
	case *ast.SwitchStmt:
		if s.Init != nil || s.Tag == nil {
			return nil, fmt.Errorf("switch with init or without tag")
		}
		root = s.Tag
	default:
		return nil, fmt.Errorf("call in a %T", stmt)
	}
	if !(call.Pos() >= root.Pos() && call.End() <= root.End()) {
		return nil, fmt.Errorf("call is not in the statement's own expression")
	}
	// nothing with an effect before the call, and the call itself unconditional
	for _, n := range path[:si] {
		switch x := n.(type) {
		case *ast.FuncLit:
			return nil, fmt.Errorf("call inside a function literal")
		case *ast.BinaryExpr:
			if (x.Op == token.LAND || x.Op == token.LOR) && call.Pos() >= x.Y.Pos() {
				return nil, fmt.Errorf("call evaluated conditionally")
			}
		}
	}
	var blocker string
	ast.Inspect(root, func(n ast.Node) bool {
		if n == nil || blocker != "" {
			return false
		}
		if n.Pos() >= call.Pos() && n != ast.Node(root) {
			// nodes starting at or after the call are evaluated after it or contain it
			if !(n.Pos() <= call.Pos() && n.End() >= call.End()) {
				return false
			}
		}
		switch x := n.(type) {
		case *ast.CallExpr:
			if x == call || (x.Pos() <= call.Pos() && x.End() >= call.End()) {
				// an enclosing call: its function operand and earlier arguments are inspected as children
				return true
			}
			if tv, ok := info.Types[x.Fun]; ok && tv.IsType() {
				return true // conversion
			}
			if id, ok := x.Fun.(*ast.Ident); ok {
				if _, isB := info.Uses[id].(*types.Builtin); isB && (id.Name == "len" || id.Name == "cap") {
					return true
				}
			}
			if x.End() <= call.Pos() {
				blocker = "a call precedes it in the statement"
			}
		case *ast.UnaryExpr:
			if x.Op == token.ARROW && x.End() <= call.Pos() {
				blocker = "a receive precedes it in the statement"
			}
		case *ast.FuncLit:
			return false
		}
		return true
	})
	if blocker != "" {
		return nil, fmt.Errorf("%s", blocker)
	}
	inlCounter++
	tmp := fmt.Sprintf("tmp__h%d", inlCounter)
	tf := fset.File(cfile.Pos())
	cs, ce := tf.Offset(call.Pos()), tf.Offset(call.End())
	ss := tf.Offset(stmt.Pos())
	eds := []textEdit{
		{cs, ce, tmp},
		{ss, ss, tmp + " := " + string(ccontent[cs:ce]) + "\n"},
	}
	return applyTextEdits(ccontent, eds), nil
}
